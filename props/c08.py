"""C08 - object names, inventories and destruction stay consistent."""
import os
import re

from nvlib import engine as E
from nvlib.check import Prop

OT_SIZE = 16          # ObjectHashSize written into the harness config (small: chains are crossed by small populations)
NBP = 8               # blueprints b0..b7 for small populations
NBP_LARGE = 320       # blueprints available in the mudlib copy (large populations)
NIH = 48              # i<k>.c = `inherit "/c08/b<k>";` for k < NIH
MAX_INHERIT = 8       # MaxInheritDepth written into the harness config (reachable by nested loads)


def scripts_first(lines):
    """all `script` lines precede the commands (the n-th script of a hook belongs to its n-th invocation, whenever
    that happens); the relative order is kept"""
    return [l for l in lines if l.startswith("script ")] + [l for l in lines if not l.startswith("script ")]


class C08(Prop):
    id = "C08"
    title = "object names, inventories and destruction stay consistent"
    lean_modules = ["NV.C08.Props"]
    theorems = ["NV.C08.world_inv_preserved", "NV.C08.reachable_inv", "NV.C08.lookup_unique_live",
                "NV.C08.lookup_unique_live_reachable", "NV.C08.inventories_forest", "NV.C08.destructed_never_visible",
                "NV.C08.destructed_never_called", "NV.C08.destructed_never_moved_into", "NV.C08.destructed_mover_never_linked", "NV.C08.present_returns_member",
                "NV.C08.remove_hash_precondition", "NV.C08.remove_hash_absent_drops_chain", "NV.C08.unlink_preserves",
                "NV.C08.no_dangling", "NV.C08.task_no_crash", "NV.C08.no_crash", "NV.C08.init_only_adjacent",
                "NV.C08.command_giver_valid", "NV.C08.command_target_live", "NV.C08.destructed_drops_sentences",
                "NV.C08.exec_good", "NV.C08.destruct_order_tie", "NV.C08.move_efun_order_tie", "NV.C08.move_order_tie",
                "NV.C08.load_order_tie", "NV.C08.clone_order_tie", "NV.C08.find_or_load_order_tie",
                "NV.C08.hb_remove_order_tie", "NV.C08.present2_order_tie", "NV.C08.flag_bits_tie", "NV.C08.superWalk_clear", "NV.C08.acyclic_redirect", "NV.C08.init_inv",
                "NV.C08.objects_order_tie", "NV.C08.hb_ops_tie", "NV.C08.hash_prefix_tie", "NV.C08.add_action_cond_tie",
                "NV.C08.living_command_cond_tie", "NV.C08.move_cond_tie", "NV.C08.destruct_cond_tie", "NV.C08.inherit_order_tie", "NV.C08.set_living_order_tie",
                "NV.C08.move_walk_terminates", "NV.C08.task_no_hang", "NV.C08.no_hang", "NV.C08.objects_filter_sound",
                "NV.C08.catch_contains_errors", "NV.C08.catch_restores_guards",
                "NV.C08.absMap_spec", "NV.C08.lookup_refines_read", "NV.C08.enter_refines_insert",
                "NV.C08.enter_refused_when_present", "NV.C08.remove_refines_delete", "NV.C08.table_is_map_reachable",
                "NV.C08.exec_stable", "NV.C08.load_val_named", "NV.C08.load_returns_registered"]
    consts = [("oDestructed", "O_DESTRUCTED"), ("oEnableCommands", "O_ENABLE_COMMANDS"), ("oClone", "O_CLONE")]
    const_headers = ["lpc/object.h"]
    quick_n = 700
    thorough_n = 6000
    search_n = 600
    design_ref = "5/C08"
    technique = ("Lean 4 proof (registry/inventory invariant preserved by every primitive and, by induction on fuel, by every "
                 "history with re-entrant hooks; crash freedom and termination of the cycle walk; soundness of the "
                 "objects(filter) walker) + translator-generated hash table, operators, conditions and statement orders + "
                 "model/implementation correspondence with a walker over the real structures")
    level_text = ("Lean 4 theorems about an executable model of the object registries (otable.c hash chains with "
                  "move-to-front, obj_list, obj_list_destruct, living-name hash, super/contains links) and of load_object, "
                  "clone_object, move_object with its init() fan-out, destruct_object with its move_or_destruct loop and "
                  "remove_destructed_objects, present(), command(), objects(filter) with its callbacks, catch() around any "
                  "operation, the heart-beat round: the invariant WorldInv (lookup = the unique live object of that name; x in "
                  "contains(y) <-> super(x) = y; no duplicates; forest; destructed objects in no registry, no inventory, "
                  "without environment) is preserved by every task for all hook oracles, all fuels, all histories; no task "
                  "reaches a NULL / dangling dereference (no_crash) or an endless super walk (no_hang); objects(filter) lists "
                  "only live objects, in obj_list order (objects_filter_sound); the name table refines a finite map (NV/C08/Refine.lean: "
                  "find = read, enter = insert / refused, unlink = delete); load_object's inherit detour with its re-lookup and "
                  "user_parser's loop with actions returning 0 are inside the interpreter the theorems quantify over; inside a task "
                  "allocated objects keep their names and destructed objects stay destructed (exec_stable), and the object "
                  "find_or_load_object returns is the one registered under the name (load_returns_registered); the model is tied to the source by the "
                  "regenerated Pearson hash table / hash sizes / prefix lengths / comparison operators, by 18 tie obligations "
                  "over regenerated statement orders and conditions, and by running the real driver "
                  "and the model on the same generated histories with a walker over the real structures after every step; "
                  "the Lean specification oracle judges every implementation trace")
    level_note = ("trusted: Lean kernel; extract.py + props/c08.py gen_extra (regex transcription of T[], ObjHash, "
                  "hash_living_name); the correspondence harness (differential, only the generated histories); hooks are oracle "
                  "scripts; crash freedom and termination of the super walk are proved (no_crash, no_hang); the string-level "
                  "top theorem judge(model trace) = [] is not (its semantic clauses are the invariant theorems); "
                  "destructed_never_called is about the model's apply - the C apply() does not refuse destructed objects, "
                  "each call site tests first (checked by the oracle clause destructed-called on every logged callback)")
    rule = ("[round 2: adds loads / clones / string moves of objects that INHERIT a not yet loaded program whose create() - and "
            "the create() of the object itself - re-enters the load (loads, clones, moves to, destructs the objects being "
            "loaded, errors, catch; inherit depth limit 8); several objects offering one verb whose actions return 0 after "
            "destructing / moving the command giver or themselves or calling remove_action; load_object() result reported "
            "beside find_object()] [extend round: adds objects(filter) issued from the top level and from hooks with filters that destruct the "
            "object asked about / others / the caller, clone, move, nest, raise errors; catch() around destructs, moves, "
            "loads and error() inside every hook kind; oracle self-test of 94 traces] [audit round: adds move_object(string) / first_inventory(string) with loads that run create() hooks, present() with "
            "id() hooks, add_action / command(), the backend tick (heart_beat() of every enabled object incl. the last one "
            "destructing itself), errors inside every hook kind, heart_beats() listing; oracle self-test of 82 traces] "
            "cases = corpus + known-finding inputs + boundary list (failing moves, self-destructing create, destruct during the "
            "init fan-out, move_or_destruct hooks that move / destruct / re-enter, living names, reference read-back, a 220 "
            "object population) + seeded random histories of load/clone/move/destruct/enable_commands/set_living_name/"
            "find_object/find_living/error from top level and from create/init/move_or_destruct hook scripts, populations 2..8 "
            "and (every 40th case) 100..260 objects on a 16 bucket name table; walker after every step, snapshot + LPC probe "
            "after every step (small) or periodically (large); a case is non-trivial when its trace has >= 2 lines; "
            "distinct = distinct canonical implementation trace")
    not_covered = ["add_action flags (V_SHORT / V_NOSPACE), function-pointer actions, carry-over arguments, notify_fail",
                   "virtual objects (master compile_object), the master / simul_efun reload path of destruct_object, valid_object denial, pre_text loads, swapping, sockets (shadows are compiled out: NO_SHADOWS)",
                   "objects(filter): the function-pointer form, O_HIDDEN / valid_hide, populations above 1000 objects (extend_string branch); completeness (every object live before and after is listed) is an oracle clause, not a theorem",
                   "present() 1-argument / object-argument forms, deep_inventory, say / tell_room / shout walks (no listener objects), reset() / clean_up() walk of look_for_objects_to_swap",
                   "the string-level top theorem judge(model trace) = [] is not proved; its semantic clauses are (reachable_inv, no_crash, init_only_adjacent, destructed_never_*)",
                   "call_out / heart_beat / input_to references to destructed objects (C10, C11)"]

    # ---- translator ---------------------------------------------------------
    def gen_extra(self, ctx, bdir):
        src = open(os.path.join(E.REPO, "lib/misc/hash.c")).read()
        m = re.search(r"static\s+int\s+T\s*\[\s*\]\s*=\s*\{([^}]*)\}", src)
        if not m:
            from nvlib.extract import TieBroken
            raise TieBroken("hash.c:T", "Pearson table T[] not found in lib/misc/hash.c")
        nums = [int(x) for x in re.findall(r"\d+", m.group(1))]
        if len(nums) != 256:
            from nvlib.extract import TieBroken
            raise TieBroken("hash.c:T", "Pearson table T[] has %d entries" % len(nums))
        rc = open(os.path.join(E.REPO, "lib/rc/rc.cpp")).read()
        m2 = re.search(r"CONFIG_INT\s*\(__LIVING_HASH_TABLE_SIZE__\)\s*=\s*(\d+)\s*;", rc)
        if not m2:
            from nvlib.extract import TieBroken
            raise TieBroken("rc.cpp:living", "__LIVING_HASH_TABLE_SIZE__ assignment not found in lib/rc/rc.cpp")
        ot = open(os.path.join(E.REPO, "lib/lpc/otable.c")).read()
        m_oh = re.search(r"#define\s+ObjHash\(s\)\s+whashstr\(s,\s*(\d+)\)\s*&\s*otable_size_minus_one", ot)
        if not m_oh:
            from nvlib.extract import TieBroken
            raise TieBroken("otable.c:ObjHash", "ObjHash is no longer whashstr(s, <n>) & otable_size_minus_one")
        ob = open(os.path.join(E.REPO, "lib/lpc/object.c")).read()
        m_lh = re.search(r"return\s+whashstr\s*\(str,\s*(\d+)\)\s*%\s*CONFIG_INT\s*\(__LIVING_HASH_TABLE_SIZE__\)", ob)
        if not m_lh:
            from nvlib.extract import TieBroken
            raise TieBroken("object.c:hash_living_name", "hash_living_name is no longer whashstr(str, <n>) % size")
        # ---- statement order of the functions the model mirrors: regenerated, tied by `*_order_tie` theorems ----
        from nvlib.extract import TieBroken

        def body_of(path, header_re):
            src = open(os.path.join(E.REPO, path)).read()
            m = re.search(header_re, src)
            if not m:
                raise TieBroken(path, "function header %r not found in %s" % (header_re, path))
            i = src.index("{", m.end() - 1)
            depth, j = 0, i
            while True:
                if src[j] == "{":
                    depth += 1
                elif src[j] == "}":
                    depth -= 1
                    if depth == 0:
                        break
                j += 1
            return src[i:j + 1]

        def order(path, header_re, markers):
            """names of the markers sorted by the position of their first occurrence in the function body"""
            b = body_of(path, header_re)
            pos = []
            for name, rx in markers:
                m = re.search(rx, b)
                if not m:
                    raise TieBroken("%s:%s" % (path, name), "marker %s (%s) not found" % (name, rx))
                pos.append((m.start(), name))
            return [n for _, n in sorted(pos)]

        orders = {
            "destructOrder": order("src/simulate.c", r"\nvoid destruct_object \(object_t \* ob\) \{", [
                ("restrict-test", r"restrict_destruct && restrict_destruct != ob"),
                ("already-destructed-return", r"if \(ob->flags & O_DESTRUCTED\)\s*\{\s*opt_trace"),
                ("cache-super", r"super = ob->super;"),
                ("inventory-loop", r"while \(ob->contains\)"),
                ("set-restrict", r"restrict_destruct = ob->contains;"),
                ("apply-move_or_destruct", r"apply \(APPLY_MOVE, ob->contains"),
                ("restore-restrict", r"restrict_destruct = save_restrict_destruct;"),
                ("recheck-after-hook", r"OUCH"),
                ("nested-destruct", r"destruct_object \(otmp\);\s*/\* move_or_destruct"),
                ("recheck-after-nested", r"we are already unlinked then"),
                ("remove-sent-env", r"remove_sent \(ob, ob->super\)"),
                ("unlink-from-env", r"\*pp = \(\*pp\)->next_inv;"),
                ("remove-object-hash", r"remove_object_hash \(ob\); /\* not vital object \*/"),
                ("unlink-obj-list", r"pp = &obj_list; \*pp"),
                ("remove-living-name", r"remove_living_name \(ob\);"),
                ("drop-sentences", r"ob->sent = NULL;"),
                ("clear-enable-commands", r"ob->flags &= ~O_ENABLE_COMMANDS;"),
                ("clear-super", r"ob->super = 0;"),
                ("push-destruct-list", r"obj_list_destruct = ob;"),
                ("heart-beat-off", r"set_heart_beat \(ob, 0\);"),
                ("mark-destructed", r"ob->flags \|= O_DESTRUCTED;")]),
            "moveEfunOrder": order("lib/efuns/inventory.c", r"\nf_move_object \(void\)\s*\{", [
                ("resolve-destination", r"find_or_load_object \(sp->u.string\)"),
                ("mover-destructed-test", r"\(o1 = current_object\)->flags & O_DESTRUCTED"),
                ("move_object", r"move_object \(o1, o2\);")]),
            "moveOrder": order("src/simulate.c", r"\nvoid move_object \(object_t \* item, object_t \* dest\) \{", [
                ("cycle-walk", r"for \(ob = dest; ob; ob = ob->super\)"),
                ("dest-destructed-test", r"dest && dest->flags & O_DESTRUCTED"),
                ("remove-sent", r"remove_sent \(item->super, item\);"),
                ("unlink", r"\*pp = item->next_inv;"),
                ("set-super", r"item->super = dest;"),
                ("link-at-head", r"dest->contains = item;"),
                ("init-dest", r"apply \(APPLY_INIT, dest, 0"),
                ("recheck-after-init-dest", r"\(dest->flags & O_DESTRUCTED\) \|\| item->super != dest"),
                ("loop", r"for \(ob = dest->contains; ob; ob = next_ob\)"),
                ("save-next", r"next_ob = ob->next_inv;"),
                ("skip-item", r"if \(ob == item\)\s*continue;"),
                ("cursor-destructed-error", r"An object was destructed at call of"),
                ("cursor-left-break", r"if \(ob->super != dest\)\s*break;"),
                ("init-item-by-ob", r"command_giver = ob;\s*\(void\) apply \(APPLY_INIT, item"),
                ("item-destructed-error", r"The object to be moved was destructed"),
                ("cursor-left-continue", r"if \(ob->super != dest\)[^\n]*\n\s*continue;"),
                ("init-ob-by-item", r"command_giver = item;\s*\(void\) apply \(APPLY_INIT, ob"),
                ("dest-gone-error", r"The destination to move to was destructed"),
                ("init-item-by-dest", r"command_giver = dest;\s*\(void\) apply \(APPLY_INIT, item")]),
            "loadOrder": order("src/simulate.c", r"\nobject_t\* load_object \(const char \*mudlib_filename, const char \*pre_text\) \{", [
                ("alloc", r"ob = get_empty_object \(prog->num_variables_total\);"),
                ("push-obj-list", r"obj_list = ob;"),
                ("enter-hash", r"enter_object_hash \(ob\);\s*/\* add name"),
                ("create", r"call_create \(ob, 0\);"),
                ("restore-command-giver", r"command_giver = save_command_giver;")]),
            "cloneOrder": order("src/simulate.c", r"\nobject_t \*clone_object \(const char \*str1, int num_arg\) \{", [
                ("find-or-load", r"ob = find_or_load_object \(str1\);"),
                ("clone-of-clone-test", r"if \(ob->flags & O_CLONE\)"),
                ("blueprint-heart-beat-off", r"set_heart_beat \(ob, 0\);"),
                ("new-name", r"new_ob->name = make_new_name \(ob->name\);"),
                ("push-obj-list", r"obj_list = new_ob;"),
                ("enter-hash", r"enter_object_hash \(new_ob\);\s*/\* Add name"),
                ("create", r"call_create \(new_ob, num_arg\);"),
                ("restore-command-giver", r"command_giver = save_command_giver;\s*/\* Never know"),
                ("destructed-test", r"if \(new_ob->flags & O_DESTRUCTED\)")]),
            "findOrLoadOrder": order("src/simulate.c", r"\nobject_t \*find_or_load_object \(const char \*str\) \{", [
                ("lookup", r"lookup_object_hash \(tmpbuf\)"),
                ("load", r"load_object \(tmpbuf, 0\)"),
                ("destructed-test", r"!ob \|\| \(ob->flags & O_DESTRUCTED\)")]),
            "hbRemoveOrder": order("src/backend.c", r"\nint set_heart_beat \(object_t \* ob, int to\) \{", [
                ("destructed-return", r"if \(ob->flags & O_DESTRUCTED\)\s*return 0;"),
                ("adjust-index", r"if \(index <= heart_beat_index\)\s*heart_beat_index--;"),
                ("adjust-todo", r"if \(index < num_hb_to_do\)\s*num_hb_to_do--;\s*\}\s*\n\s*if \(\(num ="),
                ("close-gap", r"memmove \(heart_beats \+ index"),
                ("count-down", r"num_hb_objs--;")]),
            "present2Order": order("src/simulate.c", r"\nstatic object_t\* object_present2 \(char \*str, object_t \* ob\) \{", [
                ("remember-env", r"object_t \*env = ob \? ob->super : 0;"),
                ("loop", r"for \(; ob; ob = ob->next_inv\)"),
                ("apply-id", r"apply \(APPLY_ID, ob, 1"),
                ("destructed-return", r"if \(ob->flags & O_DESTRUCTED\)\s*return 0;"),
                ("left-env-return", r"if \(ob->super != env\)\s*return 0;"),
                ("zero-continue", r"if \(IS_ZERO \(ret\)\)\s*continue;")]),
        }
        # ---- comparison operators / conditions the model mirrors: regenerated (the model USES the operators of the
        # heart-beat adjustment; the conditions are compared as normalised text by `*_cond_tie` theorems) ----
        def norm(t):
            return re.sub(r"\s+", " ", t).strip()

        def cond(path, header_re, rx, name):
            b = body_of(path, header_re)
            m = re.search(rx, b, re.S)
            if not m:
                raise TieBroken("%s:%s" % (path, name), "condition %s (%s) not found" % (name, rx))
            return norm(m.group(1))
        hb_hdr = r"\nint set_heart_beat \(object_t \* ob, int to\) \{"
        ops = {"hbIdxOp": cond("src/backend.c", hb_hdr, r"if \(index (<=|<|>=|>|==|!=) heart_beat_index\)\s*heart_beat_index--;", "hbIdxOp"),
               "hbTodoOp": cond("src/backend.c", hb_hdr, r"if \(index (<=|<|>=|>|==|!=) num_hb_to_do\)\s*num_hb_to_do--;", "hbTodoOp")}
        conds = {
            "addActionNearCond": cond("src/simulate.c", r"\nvoid add_action \(svalue_t \* str, char \*cmd, int flag, int num_carry, svalue_t \*carry_args\) \{",
                                      r"return;\s*if \((ob != command_giver.*?)\)\s*return;", "addActionNearCond"),
            "addActionGiverCond": cond("src/simulate.c", r"\nvoid add_action \(svalue_t \* str, char \*cmd, int flag, int num_carry, svalue_t \*carry_args\) \{",
                                       r"if \((command_giver == 0[^;{]*?)\)\s*return;", "addActionGiverCond"),
            "findLivingFilterCond": cond("lib/lpc/object.c", r"\nobject_t\* find_living_object \(char \*str, int user\) \{",
                                         r"if \((!\(\(\*obp\)->flags & O_ENABLE_COMMANDS\))\)\s*continue;", "findLivingFilterCond"),
            "moveInitDestRecheck": cond("src/simulate.c", r"\nvoid move_object \(object_t \* item, object_t \* dest\) \{",
                                        r"apply \(APPLY_INIT, dest, 0[^;]*;\s*if \((.*?)\)\s*\{", "moveInitDestRecheck"),
            "moveCycleTest": cond("src/simulate.c", r"\nvoid move_object \(object_t \* item, object_t \* dest\) \{",
                                  r"for \(ob = dest; ob; ob = ob->super\)\s*(?:\{\s*)?if \((.*?)\)\s*error", "moveCycleTest"),
            "destructNestedCond": cond("src/simulate.c", r"\nvoid destruct_object \(object_t \* ob\) \{",
                                       r"if \(([^()]*)\)\s*/\* not moved elsewhere", "destructNestedCond"),
            "destructRestrictCond": cond("src/simulate.c", r"\nvoid destruct_object \(object_t \* ob\) \{",
                                         r"if \((restrict_destruct[^()]*)\)\s*error", "destructRestrictCond"),
            "userParserSkipCond": cond("src/simulate.c", r"\nint user_parser \(char \*buff\) \{",
                                       r"if \((s->ob->flags & O_DESTRUCTED)\)\s*continue;", "userParserSkipCond"),
            "objectsFilterSkipCond": cond("lib/lpc/array.c", r"\nf_objects \(void\)\s*\{",
                                          r"ob = tmp\[j\];\s*if \((.*?)\)\s*continue;", "objectsFilterSkipCond"),
        }
        load_hdr = r"\nobject_t\* load_object \(const char \*mudlib_filename, const char \*pre_text\) \{"
        orders["inheritOrder"] = order("src/simulate.c", load_hdr, [
            ("depth-guard", r"\+\+num_objects_this_thread > CONFIG_INT \(__INHERIT_CHAIN_SIZE__\)"),
            ("self-inherit-error", r"Illegal to inherit self"),
            ("lookup-inherited", r"inh_obj = lookup_object_hash \(inhbuf\)"),
            ("load-inherited", r"inh_obj = load_object \(inhbuf, 0\);"),
            ("missing-inherited-error", r"Inherited file '/%s' does not exist"),
            ("relookup-self", r"ob = lookup_object_hash \(name\)"),
            ("reload-self", r"ob = load_object \(name, 0\);"),
            ("alloc", r"ob = get_empty_object \(prog->num_variables_total\);")])
        conds["loadRelookupCond"] = cond("src/simulate.c", load_hdr, r"-Beek\s*\*/\s*if \((.*?)\)\s*\{\s*ob = load_object", "loadRelookupCond")
        conds["loadDepthCond"] = cond("src/simulate.c", load_hdr, r"if \((\+\+num_objects_this_thread[^;]*?)\)\s*error", "loadDepthCond")
        # the object tested before every call of the string filter is the object the filter is called in
        conds["objectsCalleeTested"] = cond("lib/lpc/array.c", r"\nf_objects \(void\)\s*\{",
                                            r"if \((\w+)->flags & O_DESTRUCTED\)\s*error \(\"\*Object destructed during efun callback", "objectsCalleeTested")
        conds["objectsCallee"] = cond("lib/lpc/array.c", r"\nf_objects \(void\)\s*\{",
                                      r"v = apply \(func, (\w+), 1, ORIGIN_EFUN\);", "objectsCallee")
        # clone_object: does it clear the load-depth counter before it looks the blueprint up?  (the model follows)
        clone_body = body_of("src/simulate.c", r"\nobject_t \*clone_object \(const char \*str1, int num_arg\) \{")
        clone_clears = bool(re.search(r"\n\s*num_objects_this_thread = 0;", clone_body))
        orders["setLivingOrder"] = order("lib/lpc/object.c", r"\nvoid set_living_name \(object_t \* ob, char \*str\) \{", [
            ("destructed-return", r"if \(ob->flags & O_DESTRUCTED\)\s*return;"),
            ("rename-branch", r"if \(ob->living_name\)"),
            ("remove-old-name", r"remove_living_name \(ob\);"),
            ("link-at-head", r"\*hl = ob;"),
            ("set-name", r"ob->living_name = make_shared_string \(str\);")])
        orders["objectsOrder"] = order("lib/lpc/array.c", r"\nf_objects \(void\)\s*\{", [
            ("collect-loop", r"for \(n = 0, ob = obj_list; ob; ob = ob->next_all\)"),
            ("collect", r"tmp\[n\] = ob;"),
            ("filter-loop", r"for \(i = 0, j = 0; j < n; j\+\+\)"),
            ("skip-destructed", r"ob = tmp\[j\];\s*if \(ob->flags & O_DESTRUCTED\)\s*continue;"),
            # (the called object is `current_object` or, since objects (func, ob) is supported, a local: any identifier)
            ("caller-destructed-error", r"if \(\w+->flags & O_DESTRUCTED\)\s*error \(\"\*Object destructed during efun callback"),
            ("apply-filter", r"v = apply \(func, \w+, 1, ORIGIN_EFUN\);"),
            ("apply-failed-return-0", r"ORIGIN_EFUN\);\s*if \(!v\)"),
            ("accept", r"tmp\[i\+\+\] = ob;"),
            ("drop-destructed-accepted", r"if \(!\(tmp\[j\]->flags & O_DESTRUCTED\)\)\s*tmp\[i\+\+\] = tmp\[j\];"),
            ("build-array", r"ret = allocate_empty_array \(i\);")])
        # the error texts the model reproduces must still be in the source
        texts = {"errInsideSrc": ("src/simulate.c", "*Can't move object inside itself."),
                 "errDestDestSrc": ("src/simulate.c", "*Can't move to a destructed object."),
                 "errMoveDestedSrc": ("lib/efuns/inventory.c", "move_object(): can't move a destructed object"),
                 "errNoDestSrc": ("lib/efuns/inventory.c", "move_object failed: could not find destination"),
                 "errRestrictSrc": ("src/simulate.c", "*Only this_object() can be destructed from move_or_destruct."),
                 "errCloneCloneSrc": ("src/simulate.c", "*Cannot clone from a clone!"),
                 "errChainSrc": ("src/simulate.c", "*Inherit chain too deep: > "),
                 "errNoInheritSrc": ("src/simulate.c", "*Inherited file '/"),
                 "errIsa1Src": ("src/simulate.c", "*Illegal to call remove_action() from a verb returning zero."),
                 "errIsa2Src": ("src/simulate.c", "*Illegal to move or destruct an object defining actions from a verb function which returns zero."),
                 "errEfunCbSrc": ("lib/lpc/array.c", "*Object destructed during efun callback."),
                 "errInitDestedSrc": ("src/simulate.c", "*An object was destructed at call of "),
                 "errItemDestedSrc": ("src/simulate.c", "*The object to be moved was destructed at call of "),
                 "errDestGoneSrc": ("src/simulate.c", "*The destination to move to was destructed at call of ")}
        tl = []
        for name, (path, txt) in texts.items():
            if txt not in open(os.path.join(E.REPO, path)).read():
                raise TieBroken("%s:%s" % (path, name), "error text %r no longer in %s" % (txt, path))
            tl.append('/-- `%s` -/\ndef %s : String := "%s"' % (path, name, txt.replace('"', '\\"')))
        ol = []
        for name, lst in orders.items():
            ol.append("/-- statement order in the C source (first occurrences), regenerated on every run -/\n"
                      "def %s : List String := [%s]" % (name, ", ".join('"%s"' % x for x in lst)))
        cl = []
        for name, txt in list(ops.items()) + list(conds.items()):
            cl.append('/-- condition / operator in the C source (whitespace normalised), regenerated on every run -/\n'
                      'def %s : String := "%s"' % (name, txt.replace('\\', '\\\\').replace('"', '\\"')))
        cl.append("/-- clone_object() executes `num_objects_this_thread = 0;` before find_or_load_object() (regenerated) -/\n"
                  "def cloneClearsDepth : Bool := %s" % ("true" if clone_clears else "false"))
        cl.append("/-- prefix lengths hashed by ObjHash (lib/lpc/otable.c) and hash_living_name (lib/lpc/object.c) -/\n"
                  "def objHashPrefix : Nat := %s\ndef livingHashPrefix : Nat := %s" % (m_oh.group(1), m_lh.group(1)))
        out = ol + tl + cl + ["/-- lib/misc/hash.c `T[]` -/",
               "def pearsonT : Array Nat := #[%s]" % ", ".join(str(x) for x in nums),
               "/-- lib/rc/rc.cpp `__LIVING_HASH_TABLE_SIZE__` -/",
               "def livingHashSize : Nat := %s" % m2.group(1),
               "/-- `ObjectHashSize` of the harness configuration (props/c08.py), rounded up to a power of two as init_otable does -/",
               "def otSize : Nat := %d" % OT_SIZE,
               "/-- `MaxInheritDepth` of the harness configuration (props/c08.py) = `__INHERIT_CHAIN_SIZE__` -/",
               "def inheritChainSize : Nat := %d" % MAX_INHERIT]
        return "\n".join(out)



    # ---- generators ----------------------------------------------------------
    def boundary(self):
        B = []

        def mk(name, text):
            B.append(E.Case("b-" + name, scripts_first([l.strip() for l in text.strip().split("\n")]), {"origin": "boundary"}))
        tail = "snap\nprobe\ngc\nsnap\nprobe"
        # the repaired defect: hooks of a nested destruct_object destruct the outer object
        mk("nested-destruct-destructs-outer", """t ld,b0\nt ld,b1\nt ld,b2\nt ld,b3\nt mv,o4,o3\nt mv,o3,o2
            script o3 mod nop\nscript o3 mod mv,o3,o5\nscript o4 mod mv,o4,o5;mv,o2,o4;de,o4\nscript o2 mod de,o2
            t de,o2\n""" + tail + "\nt ld,b0\nt fo,b0\nt fo,master\n" + tail)
        mk("move-into-own-inventory", "t ld,b0\nt cl,b0\nt cl,b0\nt mv,o3,o2\nt mv,o4,o3\nt mv,o2,o4\nt mv,o2,o2\nt mv,o3,o3\n" + tail)
        mk("self-destruct-in-create", "script o2 create de,o2\nt ld,b0\nsnap\nprobe\nt fo,b0\nt ld,b0\nt cl,b0\n" + tail)
        mk("clone-of-self-destructing-blueprint", "script o2 create de,o2\nt cl,b1\nsnap\nprobe\nt cl,b1\n" + tail)
        mk("clone-self-destructs", "t ld,b1\nscript o3 create de,o3\nt cl,b1\nt cl,b1\n" + tail)
        mk("error-in-create", "script o2 create err\nt ld,b0\nsnap\nprobe\nt fo,b0\nscript o3 create err\nt cl,b0\nt fo,b0#1\n" + tail)
        mk("create-loads-and-moves", "script o2 create ld,b1;cl,b1;mv,o4,o3;mv,o3,o2\nt ld,b0\n" + tail)
        mk("load-missing-and-bad", "t ld,nx\nt cl,nx\nt ld,bad\nt cl,bad\nt fo,nx\n" + tail)
        mk("init-fanout", """t ld,b0\nt cl,b0\nt cl,b0\nt cl,b0\nt cl,b0\nt ec,o3\nt ec,o5\nt mv,o3,o2\nt mv,o4,o2\nt mv,o5,o2
            t ec,o2\nt mv,o6,o2\n""" + tail)
        mk("init-destructs-item", """t ld,b0\nt cl,b0\nt cl,b0\nt cl,b0\nt ec,o3\nt ec,o4\nt mv,o3,o2\nt mv,o4,o2
            script o5 init de,o5\nt mv,o5,o2\n""" + tail)
        mk("init-destructs-destination", """t ld,b0\nt cl,b0\nt cl,b0\nt ec,o3\nt ec,o2\nt mv,o3,o2\nt ec,o4
            script o2 init nop\nscript o2 init de,o2\nt mv,o4,o2\n""" + tail)
        mk("init-destructs-next-sibling", """t ld,b0\nt cl,b0\nt cl,b0\nt cl,b0\nt cl,b0\nt ec,o3\nt ec,o4\nt ec,o5\nt mv,o3,o2\nt mv,o4,o2\nt mv,o5,o2
            script o6 init de,o4\nt mv,o6,o2\n""" + tail)
        mk("init-moves-item-away", """t ld,b0\nt ld,b1\nt cl,b0\nt cl,b0\nt cl,b0\nt ec,o4\nt ec,o5\nt mv,o4,o2\nt mv,o5,o2
            script o6 init mv,o6,o3\nt mv,o6,o2\n""" + tail)
        mk("init-item-moves-itself-ec", """t ld,b0\nt ld,b1\nt cl,b0\nt cl,b0\nt cl,b0\nt ec,o6\nt mv,o4,o2\nt mv,o5,o2
            script o5 init mv,o6,o3\nt mv,o6,o2\n""" + tail)
        mk("destruct-container-mod-hooks", """t ld,b0\nt ld,b1\nt cl,b0\nt cl,b0\nt cl,b0\nt mv,o2,o3\nt mv,o4,o2\nt mv,o5,o2\nt mv,o6,o2
            script o6 mod mvarg\nscript o5 mod nop\nscript o4 mod mv,o4,o3\nt de,o2\n""" + tail)
        mk("mod-hook-destructs-other", """t ld,b0\nt cl,b0\nt cl,b0\nt mv,o3,o2\nscript o3 mod de,o4\nt de,o2\nsnap\nprobe\nt de,o2\n""" + tail)
        mk("mod-hook-destructs-itself-and-container", """t ld,b0\nt cl,b0\nt cl,b0\nt mv,o3,o2\nt mv,o4,o3
            script o3 mod de,o3\nscript o4 mod mvarg\nt de,o2\n""" + tail)
        mk("mod-hook-moves-into-dying", """t ld,b0\nt cl,b0\nt cl,b0\nt cl,b0\nt mv,o3,o2\nscript o3 mod mv,o4,o2;mv,o5,o2\nt de,o2\n""" + tail)
        mk("living-names", """t ld,b0\nt cl,b0\nt cl,b0\nt ec,o2\nt ln,o2,la\nt ln,o3,la\nt ec,o3\nt fl,la\nt ln,o4,lb\nt fl,lb\nt ec,o4\nt fl,lb
            snap\nprobe\nt ln,o2,lb\nt dc,o3\nt fl,la\nsnap\nprobe\nt de,o2\nt fl,lb\nt de,o4\nt fl,lb\n""" + tail)
        mk("sentences-move-destruct", """script o3 init aa,o3,va\nscript o4 init aa,o4,va;aa,o4,vb\nscript o4 act mv,o5,o6\nscript o3 act de,o3
            t ld,b0\nt cl,b0\nt cl,b0\nt cl,b0\nt ld,b1\nt ec,o5\nt mv,o3,o2\nt mv,o4,o2\nt mv,o5,o2\nsnap\nt cmd,o5,va\nt cmd,o5,vb\nsnap
            t mv,o5,o2\nsnap\nt cmd,o5,va\nsnap\nt cmd,o5,va\nt cmd,o5,vc\nt dc,o5\nt cmd,o5,vb\nt ec,o5\nt aa,o2,vc\nt aa,o6,vc\nt cmd,o5,vc\nt de,o4\nt cmd,o5,vb\n""" + tail)
        mk("sentence-of-destructed-lingers", """t ld,b0\nt cl,b0\nt cl,b0\nt mv,o3,o2\nt mv,o4,o2\nt ec,o3\nt aa,o4,va\nsnap\nt dc,o3\nt de,o4\nsnap\nt ec,o3\nt cmd,o3,va\ngc\nt cmd,o3,va\nt de,o3\n""" + tail)
        # f_move_object with a string destination: the destination is loaded first, then the mover is tested
        mk("move-to-unloaded-room-whose-create-destructs-the-mover", "script o3 create de,o2\nt ld,b0\nt mvs,o2,b1\n" + tail + "\nt fo,b1\nt fis,b1\n" + tail)
        mk("move-to-unloaded-room-variants", """script o4 create mv,o2,o3\nscript o5 create de,o5\nscript o6 create err\nscript o7 create mv,o7,o2
            t ld,b0\nt cl,b0\nt ec,o2\nt mvs,o2,b1\nsnap\nprobe\nt mvs,o3,b2\nsnap\nt mvs,o3,b3\nsnap\nt mvs,o2,b4\nsnap\nt mvs,o3,b1\nt mvs,o2,b1
            t mvs,o3,nx\nt mvs,o3,bad\nt mvs,o9,b1\nt mvs,o4,b0\nt fis,b1\nt fis,b9\nt fis,nx\n""" + tail)
        mk("move-by-string-into-own-inventory", "t ld,b0\nt ld,b1\nt mvs,o3,b0\nt mvs,o2,b1\nt mvs,o2,b0\n" + tail)
        # present(): id() hooks that move / destruct the object being asked, its neighbours, the environment
        mk("present-id-moves-the-asked-object", """script o4 id mv,o4,o3\nt ld,b0\nt ld,b1\nt cl,b0\nt cl,b0\nt cl,b0\nt cl,b0
            t mv,o5,o2\nt mv,o4,o2\nt mv,o6,o3\nt mv,o7,o3\nt pr,o2,o6\nt pr,o2,o5\nt pr,o3,o4\nt pr,o2,o9\n""" + tail)
        mk("present-id-destructs", """script o4 id de,o5\nscript o4 id de,o4\nscript o6 id de,o2\nt ld,b0\nt cl,b0\nt cl,b0\nt cl,b0\nt cl,b0
            t mv,o3,o2\nt mv,o5,o2\nt mv,o4,o2\nt mv,o6,o2\nt pr,o2,o3\nsnap\nt pr,o2,o3\nt pr,o2,o3\nt pr,o2,o3\n""" + tail)
        # driver-initiated calls: the backend tick
        mk("heart-beat-last-object-destructs-itself", "script o3 hbeat de,o3\nt ld,b0\nt cl,b0\nt hbe,o2\nt hbe,o3\nprobe\ntick\nsnap\nprobe\ntick\n" + tail)
        mk("heart-beat-earlier-object-destructs-the-last", "script o2 hbeat de,o4\nt ld,b0\nt cl,b0\nt cl,b0\nt hbe,o2\nt hbe,o3\nt hbe,o4\ntick\nsnap\nprobe\ntick\n" + tail)
        mk("heart-beat-variants", """script o2 hbeat mv,o2,o3;de,o3\nscript o4 hbeat hbd,o5;hbe,o6\nscript o5 hbeat err\nscript o6 hbeat cl,b0\nscript o4 hbeat de,o2;de,o4
            t ld,b0\nt cl,b0\nt cl,b0\nt cl,b0\nt cl,b0\nt hbe,o2\nt hbe,o4\nt hbe,o5\ntick\nsnap\nprobe\ntick\nt hbe,o5\ntick\ngc\ntick\n""" + tail)
        # an error inside a move_or_destruct hook must not leave the destruct restriction behind
        mk("error-in-move_or_destruct-then-destruct", """script o3 mod err\nscript o3 mod mvarg\nt ld,b0\nt cl,b0\nt cl,b0\nt ld,b1\nt mv,o3,o2\nt mv,o2,o5
            t de,o2\nsnap\nt de,o4\nsnap\nt de,o2\n""" + tail)
        mk("references-read-zero", """t ld,b0\nt cl,b0\nt kp,o3\nt rd\nscript o3 create kp,o2;rd\nt de,o3\nt rd\nt kp,o3\nt mv,o3,o2\nt mv,o2,o3\nt ec,o3\nt ln,o3,x\nt de,o3\ngc\nt rd\n""" + tail)
        mk("reload-after-destruct", "t ld,b0\nt cl,b0\nt de,o2\nt fo,b0\nt ld,b0\nt fo,b0\nt cl,b0\nt fo,b0#1\nt fo,b0#2\ngc\nt de,o4\nt ld,b0\n" + tail)
        mk("find-moves-to-front", "t ld,b0\nt ld,b1\nt ld,b2\nt ld,b3\nt ld,b4\nt ld,b5\nt ld,b6\nt ld,b7\nsnap\nt fo,b0\nt fo,b3\nt fo,b5\nsnap\nt de,o4\nt de,o9\n" + tail)
        # objects(filter): the filter destructs the object it is asked about / earlier / later ones, with a non-empty
        # destruct list; called from an object that destructs itself; nested; with an error
        mk("objects-filter-destructs-the-listed-object", "script o1 ofilt nop\nscript o1 ofilt de,o4\nt ld,b0\nt cl,b0\nt cl,b0\nt ld,b1\nsnap\nt obf\n" + tail)
        mk("objects-filter-variants", """script o1 ofilt de,o6\nscript o1 ofilt de,o3\nscript o1 ofilt cl,b1\nscript o1 ofilt mv,o2,o4\nscript o1 ofilt nop\nscript o1 ofilt de,o2
            script o4 ofilt nop\nscript o4 ofilt de,o4\nscript o7 ofilt err\nscript o1 ofilt nop\nscript o1 ofilt obf\nscript o1 ofilt de,o5
            t ld,b0\nt cl,b0\nt cl,b0\nt cl,b0\nt cl,b0\nt de,o5\nt obf\nsnap\nprobe\nt kp,o4\nscript o1 act nop\nt obf\n""" + tail)
        mk("objects-filter-from-objects", """script o3 create obf\nscript o3 ofilt de,o3\nscript o4 init obf\nscript o4 ofilt nop\nscript o4 ofilt de,o2
            t ld,b0\nt cl,b0\nsnap\nt cl,b0\nt ec,o4\nt ld,b1\nt mv,o4,o5\n""" + tail)
        # catch(): a caught error must leave the guards (restrict_destruct, command_giver) as they were at the catch
        mk("catch-in-move_or_destruct", """script o3 mod ct,de,o4;de,o4;ct,err;de,o3\nscript o4 mod ct,de,o2;mvarg\nt ld,b0\nt cl,b0\nt cl,b0\nt ld,b1
            t mv,o3,o2\nt mv,o4,o2\nt mv,o2,o5\nt de,o2\nsnap\nt ct,de,o4\nt de,o5\n""" + tail)
        mk("catch-variants", """script o3 init ct,err;aa,o3,va\nscript o3 act ct,mv,o4,o4;ct,de,o3\nscript o2 hbeat ct,err;de,o4\nscript o5 create ct,err;ct,mv,o5,o5
            t ld,b0\nt cl,b0\nt cl,b0\nt ec,o4\nt mv,o4,o2\nt mv,o3,o2\nsnap\nt cmd,o4,va\nsnap\nt hbe,o2\ntick\nsnap\nprobe\ntick
            t ct,cl,b0\nt ct,ld,bad\nt ct,mvs,o2,nx\nt ct,mv,o2,o2\nt ct,nop\nt ct,err\nt de,o2\n""" + tail)
        # an object keeps running after destruct (this_object ()) and calls efuns that would register it again
        mk("efuns-after-own-destruct", """script o3 init gh,ln,la\nscript o4 act gh,ec\nscript o5 create gh,aa,va\nscript o6 hbeat gh,hbe\nscript o7 mod gh,mv,o2
            script o8 create gh,ln,lb\nscript o9 id gh,mv,o2\nscript o10 create ln,o10,lc;gh,ln,lc\nscript o11 create ec,o11;gh,ec
            t ld,b0\nt cl,b0\nt cl,b0\nt ec,o4\nt mv,o4,o2\nt ec,o2\nt mv,o3,o2\nsnap\nprobe\nt fl,la\nt aa,o4,va\nt cmd,o4,va\nsnap\nt cl,b0\nt cl,b0\nt hbe,o6\ntick\nsnap
            t cl,b0\nt mv,o7,o6\nt de,o6\nsnap\nt cl,b0\nt fl,lb\nt cl,b0\nt mv,o9,o2\nt pr,o2,o9\nt cl,b0\nt fl,lc\nt cl,b0\nprobe\ngc\nt fl,la\nt fl,lb\nt fl,lc\n""" + tail)
        # actions returning 0: user_parser goes on with the next sentence - unless the action removed sentences (error)
        # or destructed the command giver (its sentence list is freed)
        mk("action-destructs-the-command-giver-and-returns-0", """script o4 act de,o3;ret0\nt ld,b0\nt cl,b0\nt cl,b0\nt cl,b0\nt cl,b0
            t mv,o3,o2\nt mv,o4,o2\nt mv,o5,o2\nt mv,o6,o2\nt ec,o6\nt aa,o5,vb\nt aa,o5,vc\nt aa,o4,vb\nt de,o6\nt ec,o3\nt aa,o5,va\nt aa,o4,va
            snap\nt cmd,o3,va\n""" + tail)
        mk("actions-returning-0", """script o4 act ret0\nscript o5 act nop\nscript o4 act mv,o4,o6;ret0\nscript o4 act ra,o4,va;ret0\nscript o5 act ra,o5,va
            script o5 act de,o4;ret0\nscript o5 act ret0\nscript o5 act cmd,o3,vb;ret0\nscript o4 act ret0
            t ld,b0\nt cl,b0\nt cl,b0\nt cl,b0\nt ld,b1\nt mv,o3,o2\nt mv,o4,o2\nt mv,o5,o2\nt ec,o3\nt aa,o5,va\nt aa,o4,va\nsnap
            t cmd,o3,va\nsnap\nt cmd,o3,va\nsnap\nt mv,o4,o2\nt aa,o4,va\nt cmd,o3,va\nsnap\nt aa,o4,va\nt cmd,o3,va\nsnap\nt cmd,o3,va\nt aa,o4,vb\nt cmd,o3,va\nt cmd,o3,vb
            t ra,o4,vb\nt ra,o5,va\nt ra,o9,va\nt dc,o3\nt ra,o3,va\n""" + tail)
        # load_object's inherit detour: the inherited program is loaded first, its create() re-enters the load
        mk("inherit-base-create-loads-child", "script o2 create ld,i0\nt ld,i0\nsnap\nprobe\nt fo,i0\nt ld,i0\nt de,o3\nsnap\nt fo,i0\nt fo,b0\nt ld,i0\n" + tail)
        mk("inherit-base-create-clones-child", "script o2 create cl,i1\nt ld,i1\nsnap\nprobe\nt fo,i1\nt cl,i1\nt de,o3\nt fo,i1#1\nt ld,i1\n" + tail)
        mk("inherit-base-destructs-itself", "script o2 create de,o2\nt ld,i2\nsnap\nprobe\nt fo,i2\nt fo,b2\nt ld,i2\n" + tail)
        mk("inherit-base-create-errors", "script o2 create err\nt ld,i3\nsnap\nprobe\nt ld,i3\nt fo,i3\nt cl,i3\n" + tail)
        mk("inherit-child-create-loads-itself", "script o3 create ld,i4;cl,i4;fo,i4\nscript o4 create ld,i4;de,o3\nt ld,b4\nt ld,i4\nsnap\nprobe\nt fo,i4\nt ld,i4\n" + tail)
        mk("inherit-chain-too-deep", "\n".join("script o%d create de,o%d" % (k, k) for k in range(2, 14)) + "\nt ld,i5\nsnap\nprobe\nt ld,i5\nt ld,b0\n" + tail)
        mk("inherit-nested-loads-to-the-limit", "\n".join("script o%d create ld,b%d" % (k, k) for k in range(2, 14)) + "\nt ld,b1\nsnap\nt ld,b1\nt ct,ld,b40\nt ld,b41\n" + tail)
        mk("inherit-by-clone-move-first_inventory", """script o2 create ld,i6;de,o3\nscript o5 create cl,i7\nscript o9 create mvs,o2,i8
            t cl,i6\nsnap\nt ld,b0\nt mvs,o4,i7\nsnap\nprobe\nt fis,i8\nt fis,i8\nt ct,cl,i9\nt ld,i47\n""" + tail)
        mk("inherit-both-creates-interfere", """script o2 create ld,i10;de,o3\nscript o3 create de,o2\nscript o4 create cl,i10\nt ld,i10\nsnap\nprobe\nt fo,i10\nt fo,b10\nt ld,i10\nt ld,b10\n""" + tail)
        # large population: every hash chain is long
        big = ["t ld,b%d" % k for k in range(120)] + ["t cl,b%d" % (k % 7) for k in range(100)]
        big += ["t mv,o%d,o%d" % (k + 30, 2 + k % 25) for k in range(150)]
        big += ["snap", "probe"] + ["t de,o%d" % k for k in range(2, 120, 3)] + ["snap", "probe", "gc"]
        big += ["t fo,b%d" % k for k in range(0, 120, 5)] + ["t ld,b%d" % k for k in range(0, 120, 4)] + ["snap", "probe"]
        B.append(E.Case("b-large", big, {"origin": "boundary"}))
        return B

    OPS = [("ld", 9), ("cl", 14), ("mv", 28), ("de", 9), ("ec", 14), ("dc", 2), ("ln", 4), ("fo", 5), ("fl", 3),
           ("kp", 3), ("rd", 2), ("err", 1), ("aa", 9), ("cmd", 8), ("mvs", 10), ("fis", 3), ("pr", 6), ("hbe", 7), ("hbd", 2), ("obf", 3), ("ct", 4), ("ra", 2)]
    HOPS = [("ld", 5), ("cl", 8), ("mv", 24), ("de", 14), ("ec", 5), ("dc", 1), ("ln", 2), ("fo", 2), ("fl", 1),
            ("kp", 2), ("rd", 2), ("err", 2), ("mvarg", 6), ("nop", 2), ("aa", 10), ("cmd", 3), ("mvs", 6), ("fis", 2), ("pr", 2), ("hbe", 2), ("hbd", 2), ("obf", 1), ("ct", 6), ("ra", 3), ("ret0", 5), ("gh", 5)]

    def gen_op(self, rng, st, table, self_id=None):
        k = rng.weighted(table)
        if k == "ct":
            # catch() around one op (mostly one that can fail: destructs inside move_or_destruct, bad moves, error())
            inner = "ct"
            while inner.startswith("ct") or inner.startswith("obf"):
                inner = self.gen_op(rng, st, [("de", 8), ("mv", 6), ("err", 4), ("mvs", 2), ("ld", 1), ("cl", 2), ("cmd", 1), ("pr", 1)], self_id)
            return "ct," + inner
        hi = max(2, st["top"] + 1 + (st["est"] - st["top"]) // 2)

        def oid():
            # mostly existing objects, sometimes the executing object, rarely one that does not exist (yet)
            if self_id is not None and self_id >= 2 and rng.chance(1, 4):   # (the master is not in its own registry)
                return "o%d" % self_id
            return "o%d" % rng.range(2, hi)
        if k in ("ld", "cl"):
            b = rng.weighted([("b%d" % rng.below(st["nbp"]), 30), ("i%d" % rng.below(min(st["nbp"], NIH)), 5), ("nx", 1), ("bad", 1)])
            if b[0] == "i":
                st["est"] += 1   # (the inherited program may have to be loaded first)
            st["est"] += 1
            if table is self.OPS:
                st["top"] += 1
            if k == "cl":
                st["ncl"] += 1
            return "%s,%s" % (k, b)
        if k == "mv":
            return "mv,%s,%s" % (oid(), oid())
        if k == "mvs":
            # string destination: an already loaded blueprint, or (half of the time) one that the move has to load;
            # its create() then often destructs / moves the mover or itself (scripts are registered by the caller)
            b = rng.weighted([("b%d" % rng.below(st["nbp"]), 12), ("b%d" % (st["nbp"] + rng.below(40)), 12), ("nx", 1), ("bad", 1)])
            mover = oid()
            if table is self.OPS and rng.chance(2, 3):
                nid = st["top"] + 1 + rng.below(2)
                what = rng.weighted([("de,%s" % mover, 5), ("de,o%d" % nid, 2), ("mv,%s,%s" % (mover, oid()), 3),
                                     ("mv,o%d,%s" % (nid, mover), 2), ("de,%s" % oid(), 1), ("err", 1)])
                st.setdefault("extra_scripts", []).append("script o%d create %s" % (nid, what))
            st["est"] += 1
            if table is self.OPS:
                st["top"] += 1 if rng.chance(1, 2) else 0
            return "mvs,%s,%s" % (mover, b)
        if k == "pr":
            return "pr,%s,%s" % (oid(), oid())
        if k == "fis":
            return "fis,%s" % rng.weighted([("b%d" % rng.below(st["nbp"]), 6), ("b%d" % (st["nbp"] + rng.below(40)), 6), ("nx", 1)])
        if k in ("de", "ec", "dc", "kp", "hbe", "hbd"):
            return "%s,%s" % (k, oid())
        if k == "gh" and (self_id is None or self_id < 2):
            return "nop"    # (the master never destructs itself: the reload of the master is not modelled)
        if k == "gh":
            # the executing object destructs itself and then calls one more efun in the same function
            return "gh," + rng.weighted([("ln,%s" % rng.choice(["la", "lb", "lc"]), 6), ("ec", 3), ("aa,%s" % rng.choice(["va", "vb"]), 3),
                                         ("hbe", 3), ("mv,%s" % oid(), 3)])
        if k == "ra":
            return "ra,%s,%s" % (oid(), rng.choice(["va", "vb", "vc"]))
        if k == "aa":
            return "aa,%s,%s" % (oid(), rng.choice(["va", "vb", "vc"]))
        if k == "cmd":
            # mostly the object that was command-enabled last (it is the command giver add_action serves)
            who = "o%d" % st["lastec"] if st.get("lastec") and rng.chance(2, 3) else oid()
            return "cmd,%s,%s" % (who, rng.choice(["va", "vb", "vc"]))
        if k == "ec":
            o = oid()
            st["lastec"] = int(o[1:])
            return "ec," + o
        if k == "ln":
            return "ln,%s,%s" % (oid(), rng.choice(["la", "lb", "lc"]))
        if k == "fl":
            return "fl,%s" % rng.choice(["la", "lb", "lc", "ld"])
        if k == "fo":
            b = "b%d" % rng.below(st["nbp"])
            if rng.chance(1, 2):
                b += "#%d" % rng.range(1, st["ncl"] + 2)
            return "fo," + b
        return k

    def gen_case(self, rng, cid, large=False):
        st = {"est": 1, "top": 1, "ncl": 0, "nbp": rng.range(2, NBP) if not large else NBP_LARGE}
        body = []
        if large:
            n0 = rng.range(100, 260)
            for i in range(n0):
                body.append("t %s,b%d" % (("cl", rng.below(12)) if rng.chance(2, 3) else ("ld", rng.below(NBP_LARGE))))
                st["est"] += 1
                st["top"] += 1
                st["ncl"] += 1
            st["nbp"] = 40
            for i in range(n0):
                body.append("t mv,o%d,o%d" % (rng.range(2, n0), rng.range(2, max(3, n0 // 6))))
            for i in range(rng.range(5, 25)):
                body.append("t ec,o%d" % rng.range(2, n0))
            body += ["snap", "probe"]
        nsteps = rng.range(6, 30) if not large else rng.range(10, 40)
        nscripts = 0
        every = not large and rng.chance(3, 4)
        for _ in range(nsteps):
            # scripts for hooks that may fire during this step
            while nscripts < 14 and rng.chance(2, 5):
                nscripts += 1
                hk = rng.weighted([("create", 3), ("init", 6), ("mod", 5), ("act", 3), ("id", 4), ("hbeat", 6), ("ofilt", 3)])
                if hk == "create":
                    target = st["est"] + 1 + rng.below(2)
                elif hk == "ofilt":
                    # the filter runs in the object that calls objects(filter): mostly the master (top-level `t obf`)
                    target = 1 if rng.chance(3, 4) else rng.range(2, max(2, st["est"] + 1))
                else:
                    target = rng.range(2, max(2, st["est"] + 1))
                ops = [self.gen_op(rng, st, self.HOPS, target) for _ in range(rng.range(1, 3))]
                body.append("script o%d %s %s" % (target, hk, ";".join(ops)))
            if rng.chance(1, 9) and st["top"] >= 4:
                # several objects offer the same verb to one command giver; their action functions return 0 ("not my
                # verb") after destructing / moving the command giver, themselves or the next one, or removing actions
                x = rng.range(2, st["top"] + 1)
                ys = [rng.range(2, st["top"] + 1) for _ in range(rng.range(2, 4))]
                v = rng.choice(["va", "vb"])
                env = rng.range(2, st["top"] + 1)
                body += ["t mv,o%d,o%d" % (z, env) for z in [x] + ys]
                body.append("t ec,o%d" % x)
                st["lastec"] = x
                body += ["t aa,o%d,%s" % (y, v) for y in ys]
                ES = st.setdefault("extra_scripts", [])
                for y in ys:
                    if rng.chance(3, 4):
                        what = rng.weighted([("ret0", 6), ("de,o%d;ret0" % x, 5), ("de,o%d;ret0" % y, 3), ("de,o%d;ret0" % rng.choice(ys), 3),
                                             ("mv,o%d,o%d;ret0" % (x, rng.range(2, st["top"] + 1)), 3), ("ra,o%d,%s;ret0" % (y, v), 3),
                                             ("ra,o%d,%s" % (rng.choice(ys), v), 2), ("mv,o%d,o%d;ret0" % (y, rng.range(2, st["top"] + 1)), 2),
                                             ("aa,o%d,%s;ret0" % (y, v), 1), ("cmd,o%d,%s;ret0" % (x, v), 1), ("ct,de,o%d;ret0" % x, 1), ("err", 1)])
                        ES.append("script o%d act %s" % (y, what))
                if rng.chance(1, 2):
                    # a non-empty sentence free list (destruct_object frees the sentences of the object)
                    body += ["t de,o%d" % rng.choice(ys)]
                body.append("t cmd,o%d,%s" % (x, v))
                if rng.chance(1, 2):
                    body.append("t cmd,o%d,%s" % (x, v))
            elif rng.chance(1, 10) and st["top"] >= 3:
                # a command that (mostly) reaches an action: enable x, let y offer a verb, x issues it (maybe later)
                x, y = rng.range(2, st["top"] + 1), rng.range(2, st["top"] + 1)
                v = rng.choice(["va", "vb", "vc"])
                body += ["t ec,o%d" % x, "t aa,o%d,%s" % (y, v)]
                st["lastec"] = x
                if rng.chance(1, 2):
                    body.append("t " + self.gen_op(rng, st, self.OPS))
                body.append("t cmd,o%d,%s" % (x, v))
            elif rng.chance(1, 10) and st["top"] >= 4:
                # present(): fill a room, let an id() hook interfere, ask for a member
                e = rng.range(2, st["top"] + 1)
                xs = [rng.range(2, st["top"] + 1) for _ in range(rng.range(2, 4))]
                body += ["t mv,o%d,o%d" % (x, e) for x in xs]
                if rng.chance(2, 3):
                    y = rng.choice(xs)
                    what = rng.weighted([("mv,o%d,o%d" % (y, rng.range(2, st["top"] + 1)), 5), ("de,o%d" % rng.choice(xs), 2),
                                         ("de,o%d" % e, 1), ("mv,o%d,o%d" % (rng.choice(xs), rng.range(2, st["top"] + 1)), 2)])
                    st.setdefault("extra_scripts", []).append("script o%d id %s" % (y, what))
                body.append("t pr,o%d,o%d" % (e, rng.choice(xs)))
                if rng.chance(1, 2):
                    body.append("t pr,o%d,o%d" % (e, rng.choice(xs)))
            elif rng.chance(1, 8):
                # loads that RE-ENTER: i<k> inherits b<k> (not loaded yet, so load_object loads it first and runs its
                # create()); that create() - or the create() of i<k> itself - loads / clones / moves to / destructs
                # the very objects being loaded
                kk = rng.range(8, NIH - 1)
                f = "i%d" % kk
                nb, nx = st["top"] + 1, st["top"] + 2
                ES = st.setdefault("extra_scripts", [])
                if rng.chance(1, 5):
                    body.append("t ld,b%d" % kk)      # the inherited program is already there
                    nb, nx = nb + 1, nx + 1
                    st["top"] += 1
                    st["est"] += 1
                else:
                    for tgt in ([nb] if rng.chance(2, 3) else [nb, nb + 1]):
                        ES.append("script o%d create %s" % (tgt, rng.weighted([
                            ("ld,%s" % f, 8), ("cl,%s" % f, 4), ("de,o%d" % tgt, 3), ("ld,%s;de,o%d" % (f, tgt), 2),
                            ("ld,%s;de,o%d" % (f, tgt + 1), 2), ("err", 1), ("ct,ld,%s" % f, 1), ("fis,%s" % f, 1),
                            ("mvs,o%d,%s" % (rng.range(2, max(2, st["top"])), f), 2), ("ld,%s;ld,%s" % (f, f), 1)])))
                if rng.chance(1, 2):
                    ES.append("script o%d create %s" % (nx, rng.weighted([
                        ("ld,%s" % f, 4), ("cl,%s" % f, 4), ("de,o%d" % nx, 2), ("de,o%d" % nb, 2), ("ld,b%d" % kk, 1), ("err", 1)])))
                body.append("t " + rng.weighted([("ld,%s" % f, 6), ("cl,%s" % f, 3), ("fis,%s" % f, 1),
                                                 ("mvs,o%d,%s" % (rng.range(2, max(2, st["top"])), f), 2)]))
                st["top"] += 2
                st["est"] += 3
                body += ["snap", "probe", "t fo,%s" % f, "t ld,%s" % f]
                if rng.chance(1, 2):
                    body += ["t de,o%d" % rng.choice([nb, nx, nx + 1]), "snap", "t fo,%s" % f, "t fo,b%d" % kk, "t ld,%s" % f]
            elif rng.chance(1, 9) and st["top"] >= 3:
                # objects(filter): the filter (called once per object, newest first) destructs the object it is asked
                # about, one it was asked about earlier, one still to come, or creates / moves objects
                ncall = rng.range(0, min(6, st["top"]))
                for _ in range(ncall):
                    st.setdefault("extra_scripts", []).append("script o1 ofilt nop")
                for _ in range(rng.range(1, 3)):
                    x = rng.range(max(2, st["top"] - ncall - 2), st["top"] + 1)
                    what = rng.weighted([("de,o%d" % x, 8), ("mv,o%d,o%d" % (x, rng.range(2, st["top"] + 1)), 2),
                                         ("cl,b%d" % rng.below(st["nbp"]), 2), ("ct,de,o%d" % x, 1), ("err", 1), ("obf", 1)])
                    st.setdefault("extra_scripts", []).append("script o1 ofilt %s" % what)
                if rng.chance(1, 3):
                    body.append("t de,o%d" % rng.range(2, st["top"] + 1))   # something already on the destruct list
                body.append("t obf")
            elif rng.chance(1, 7):
                # the backend tick: heart_beat() of every enabled object (driver-initiated calls)
                if rng.chance(1, 3) and st["top"] >= 2:
                    # the classic: the object enabled last destructs itself / is destructed by an earlier one
                    x = rng.range(2, st["top"] + 1)
                    body.append("t hbe,o%d" % x)
                    who = x if rng.chance(1, 2) else rng.range(2, st["top"] + 1)
                    st.setdefault("extra_scripts", []).append("script o%d hbeat de,o%d" % (who, x))
                body.append("tick")
                if rng.chance(1, 3):
                    body.append("tick")
            elif rng.chance(1, 20) and st["top"] >= 3:
                # an error inside a move_or_destruct hook, then ordinary destructs
                x, y = rng.range(2, st["top"] + 1), rng.range(2, st["top"] + 1)
                st.setdefault("extra_scripts", []).append("script o%d mod err" % y)
                body += ["t mv,o%d,o%d" % (y, x), "t de,o%d" % x, "t de,o%d" % rng.range(2, st["top"] + 1), "t de,o%d" % x]
            elif rng.chance(1, 15) and st["top"] >= 2:
                # living names: name, enable, look up (also after disable / destruct)
                x = rng.range(2, st["top"] + 1)
                nm = rng.choice(["la", "lb", "lc"])
                body += ["t ln,o%d,%s" % (x, nm), "t ec,o%d" % x, "t fl,%s" % nm]
                body.append(rng.choice(["t dc,o%d" % x, "t de,o%d" % x, "t ln,o%d,lb" % x, "t fl,lb"]))
                body.append("t fl,%s" % nm)
            elif rng.chance(1, 12):
                body.append("gc")
            else:
                op = self.gen_op(rng, st, self.OPS)
                body.append("t " + op)
                if op[:2] in ("ld", "cl") and rng.chance(1, 3):
                    # command-enable the (probable) new object so that later moves fan out init() calls
                    st["lastec"] = rng.range(max(2, st["top"] - 1), st["top"] + 1)
                    body.append("t ec,o%d" % st["lastec"])
            if every:
                body += ["snap", "probe"]
            elif rng.chance(1, 6):
                body += ["snap", "probe"]
        body += ["snap", "probe", "gc", "snap", "probe"]
        body += st.get("extra_scripts", [])
        return E.Case(cid, scripts_first(body), {"origin": "generated"})

    def generate(self, rng, n, tier):
        out = []
        for i in range(n):
            large = (i % 40 == 7) if tier != "search" else False
            out.append(self.gen_case(rng, "g%d" % i, large))
        return out

    def histogram(self, cases, impl):
        h = {"objects_created": 0, "moves_ok": 0, "moves_refused": 0, "destructs": 0, "hooks_create": 0, "hooks_init": 0,
             "hooks_mod": 0, "hooks_act": 0, "hooks_id": 0, "hooks_hbeat": 0, "hooks_ofilt": 0, "caught": 0, "objects_filter_calls": 0, "ticks": 0, "present_hit": 0, "present_miss": 0, "commands_hit": 0, "commands_miss": 0, "add_actions": 0, "errors": 0, "gone_reads": 0, "snapshots": 0, "probes": 0, "max_population": 0, "scripts": 0}
        for c in cases:
            pop = 0
            for l in impl.get(c.id, []):
                t = l.split()
                if not t:
                    continue
                if t[0] == "new":
                    h["objects_created"] += 1
                    h["hooks_create"] += 1
                    pop += 1
                elif t[0] == "hb":
                    h["hooks_" + t[2]] += 1
                elif t[0] == "caught":
                    h["caught"] += 1
                elif t[0] == "obfb":
                    h["objects_filter_calls"] += 1
                elif t[0] == "err":
                    h["errors"] += 1
                    if "destructed object" in l:
                        h["moves_of_destructed_refused"] = h.get("moves_of_destructed_refused", 0) + 1
                    if "inside itself" in l:
                        h["moves_refused"] += 1
                elif t[0] == "r" and len(t) > 1:
                    if t[1] == "mv" and t[-1] == "ok":
                        h["moves_ok"] += 1
                    elif t[1] == "de" and t[-1] == "ok":
                        h["destructs"] += 1
                    elif t[1] == "pr" and len(t) == 5 and t[-1] != "!gone":
                        h["present_hit" if t[-1].startswith("o") else "present_miss"] += 1
                    elif t[1] == "mvs" and len(t) > 5 and t[4] == "ok":
                        h["string_moves_ok"] = h.get("string_moves_ok", 0) + 1
                    elif t[1] == "cmd" and t[-1] in ("0", "1"):
                        h["commands_hit" if t[-1] == "1" else "commands_miss"] += 1
                    elif t[1] == "aa" and t[-1] == "ok":
                        h["add_actions"] += 1
                    if t[-1] == "!gone":
                        h["gone_reads"] += 1
                elif t[0] == "S" and len(t) > 1 and t[1] == "ol":
                    h["snapshots"] += 1
                elif t[0] == "P" and len(t) > 1 and t[1] == "objects":
                    h["probes"] += 1
            h["max_population"] = max(h["max_population"], pop)
            h["scripts"] += sum(1 for l in c.lines if l.startswith("script "))
        return h


    # ---- oracle self-test: negative examples per clause (the kernel cannot evaluate the string functions of `judge`,
    # so these are executed with the compiled oracle on every run instead of being `example`s) --------------------
    def judge_selftest(self):
        G = ["S o2 c08/b0 env=0 inv=o3 ec=1 cl=0 ln=la sent=-", "S o3 c08/b0#1 env=o2 inv= ec=0 cl=1 ln=0 sent=-",
             "S ot 1 o2", "S ot 2 o3", "S ol o3,o2", "S dl", "S lv 7 o2"]

        def snap(**repl):
            out = []
            for l in G:
                key = " ".join(l.split()[:2]) if l.split()[1] in ("ot", "lv", "ol", "dl") else l.split()[1]
                k2 = l.split()[1] + ("" if l.split()[1] in ("ol", "dl") else l.split()[2]) if l.split()[1] in ("ot", "lv", "ol", "dl") else l.split()[1]
                out.append(repl.get(k2, l))
            return [x for x in out if x is not None] + repl.get("extra", [])
        P2 = "P o2 ref=o2 find=o2/1 env=0 inv=o3 walk=o3 fl=o2"
        P3 = "P o3 ref=o3 find=o3/1 env=o2 inv= walk= fl=-"
        born = ["new o2 c08/b0", "he o2 create", "new o3 c08/b0#1", "he o3 create"]
        dead3 = born + ["deb o3", "r de o3 ok"]
        mv = ["mvb o3 o2", "r mv o3 o2 ok"]
        T = [  # (expected kind, trace)
            ("ok", snap() + [P2, P3, "P objects o2,o3", "P livings o2", "P heartbeats o2"]),
            ("ok", born + mv + ["deb o2", "hb o3 mod 0", "he o3 mod", "r de o2 ok"]),
            ("resurrected", dead3 + snap()),
            ("name-not-unique", snap(o3="S o3 c08/b0 env=o2 inv= ec=0 cl=1 ln=0 sent=-")),
            ("env-not-live", snap(o3="S o3 c08/b0#1 env=o9 inv= ec=0 cl=1 ln=0 sent=-")),
            ("env-inventory-disagree", snap(o2="S o2 c08/b0 env=0 inv= ec=1 cl=0 ln=la sent=-")),
            ("inventory-duplicate", snap(o2="S o2 c08/b0 env=0 inv=o3,o3 ec=1 cl=0 ln=la sent=-")),
            ("inventory-has-non-live", snap(o2="S o2 c08/b0 env=0 inv=o3,o7 ec=1 cl=0 ln=la sent=-")),
            ("in-two-inventories", snap(extra=["S o4 c08/b1 env=0 inv=o3 ec=0 cl=0 ln=0 sent=-", "S ot 3 o4"], ol="S ol o4,o3,o2")),
            ("env-cycle", snap(o2="S o2 c08/b0 env=o3 inv=o3 ec=1 cl=0 ln=la sent=-", o3="S o3 c08/b0#1 env=o2 inv=o2 ec=0 cl=1 ln=0 sent=-")),
            ("name-table-miss", snap(ot2=None)),
            ("name-table-miss", snap(ot2="S ot 2 o3,o3")),
            ("object-list-miss", snap(ol="S ol o2")),
            ("living-table-miss", snap(lv7=None)),
            ("living-table-extra", snap(lv7="S lv 7 o2,o3")),
            ("destructed-registered", snap(ot1="S ot 1 o2,o8")),
            ("live-on-destruct-list", snap(dl="S dl o3")),
            ("destruct-list-duplicate", snap(dl="S dl o8,o8")),
            ("destructed-still-linked", snap(extra=["S o5 D super"])),
            ("destructed-still-linked", snap(extra=["S o5 D sent"])),
            ("destructed-called", dead3 + ["mvb o2 o2"][:0] + ["deb o2", "hb o3 mod 0"]),
            ("destructed-called", dead3 + ["hb o3 hbeat 0"]),
            ("destructed-called", dead3 + ["hb o3 act o2"]),
            ("destructed-called", dead3 + ["hb o3 id 0"]),
            ("called-while-destructed", ["hb-stale-object o3"]),
            ("destructed-visible", dead3 + ["mvb o2 o2"][:0] + ["hb o2 act o3"]),
            ("destructed-visible", dead3 + ["r fo c08/b0#1 o3 1"]),
            ("destructed-visible", dead3 + ["r cl c08/b0 o3"]),
            ("destructed-visible", dead3 + ["r fl la o3 1"]),
            ("destructed-visible", dead3 + ["r rd o2 o3 o3 o3"]),
            ("destructed-visible", dead3 + ["r kp o2 o3 ok"]),
            ("destructed-visible", dead3 + ["r ec o3 ok"]),
            ("destructed-visible", dead3 + ["r ln o3 la ok"]),
            ("destructed-visible", dead3 + ["r aa o3 va ok"]),
            ("destructed-visible", dead3 + ["r hbe o3 ok"]),
            ("destructed-visible", dead3 + ["r fis c08/b0 o3"]),
            ("destructed-visible", dead3 + ["r pr o2 o3 o3"]),
            ("destructed-visible", dead3 + ["P objects o2,o3"]),
            ("destructed-visible", dead3 + ["P livings o3"]),
            ("destructed-visible", dead3 + ["P heartbeats o3"]),
            ("destructed-visible", dead3 + ["P o2 ref=o2 find=o2/1 env=o3 inv= walk= fl=-"]),
            ("destructed-visible", dead3 + ["P o2 ref=o2 find=o2/1 env=0 inv=o3 walk= fl=-"]),
            ("destructed-reference-used", dead3 + ["deb o3"]),
            ("destructed-reference-used", dead3 + ["mvsb o3 c08/b1"]),
            ("destructed-moved", dead3 + ["mvb o3 o2", "r mv o3 o2 ok"]),
            ("moved-into-destructed", dead3 + ["mvb o2 o3", "r mv o2 o3 ok"]),
            ("destructed-moved", born + ["mvsb o3 c08/b0", "deb o3", "r de o3 ok", "r mvs o3 c08/b0 ok o2"]),
            ("move-into-own-inventory-accepted", born + mv + ["mvb o2 o3", "r mv o2 o3 ok"]),
            ("move-refused", born + ["mvb o3 o2", "err *Can't move object inside itself."]),
            ("id-reused", born + ["new o3 c08/b1"]),
            ("frame-mismatch", born + ["mvb o3 o2", "r mv o2 o3 ok"]),
            ("frame-mismatch", born[:2] + ["he o2 init"]),
            ("init-outside-move", born + ["hb o2 init o3"]),
            ("init-without-moved-object", born + ["new o4 c08/b1", "he o4 create", "mvb o3 o2", "hb o4 init o2"]),
            ("init-after-item-left", born + ["new o4 c08/b1", "he o4 create", "mvb o3 o2", "hb o2 init o3", "mvb o3 o4", "r mv o3 o4 ok", "he o2 init", "hb o3 init o2"]),
            ("init-with-object-outside-destination", born + ["new o4 c08/b1", "he o4 create", "mvb o3 o2", "hb o3 init o4"]),
            ("move_or_destruct-outside-destruct", born + ["hb o3 mod 0"]),
            ("found-destructed", ["r ld c08/b0 0 1 0"]),
            ("load-find-disagree", born + ["r ld c08/b0 o2 1 o3"]),
            ("load-find-disagree", born + ["r ld c08/b0 0 1 o3"]),
            ("ok", born + ["r ld c08/b0 o2 1 o2"]),
            ("ok", born + ["r ld c08/b0 o2 0 0"]),
            ("found-destructed", born + ["r ld c08/b0 o2 1 0"]),
            ("ok", born + ["r ld c08/b0 ? 1 ?"]),
            ("found-destructed", ["r fo c08/b0 0 1"]),
            ("found-destructed", ["r fl la 0 1"]),
            ("found-destructed", ["P o2 ref=o2 find=0/1 env=0 inv= walk= fl=-"]),
            ("reference-reads-differ", born + ["r rd o2 o3 0 o3"]),
            ("objects-mismatch", snap() + ["P objects o2"]),
            ("livings-mismatch", snap() + ["P livings o2,o3"]),
            ("heartbeats-mismatch", snap() + ["P heartbeats o9"]),
            ("destructed-reference-nonzero", snap() + ["P o7 ref=o7 find=0/0"]),
            ("live-reference-lost", snap() + ["P o3 ref=0 find=o3/1 env=o2 inv= walk= fl=-"]),
            ("lookup-wrong", snap() + ["P o3 ref=o3 find=0/0 env=o2 inv= walk= fl=-"]),
            ("lookup-wrong", snap() + ["P o3 ref=o3 find=o2/1 env=o2 inv= walk= fl=-"]),
            ("environment-mismatch", snap() + ["P o3 ref=o3 find=o3/1 env=0 inv= walk= fl=-"]),
            ("all_inventory-mismatch", snap() + ["P o2 ref=o2 find=o2/1 env=0 inv= walk=o3 fl=o2"]),
            ("first-next-inventory-mismatch", snap() + ["P o2 ref=o2 find=o2/1 env=0 inv=o3 walk= fl=o2"]),
            ("find_living-wrong", snap() + ["P o2 ref=o2 find=o2/1 env=0 inv=o3 walk=o3 fl=o3"]),
            ("find_living-missed", snap() + ["P o2 ref=o2 find=o2/1 env=0 inv=o3 walk=o3 fl=0"]),
            ("present-outside-environment", born + ["new o4 c08/b1", "he o4 create", "mvb o3 o4", "r mv o3 o4 ok", "r pr o2 o3 o3"]),
            ("present-wrong-object", born + mv + ["r pr o2 o9 o3"]),
            ("destruct-refused", born + ["deb o3", "err *Only this_object() can be destructed from move_or_destruct."]),
            ("ok", born + mv + ["deb o2", "hb o3 mod 0", "deb o2", "err *Only this_object() can be destructed from move_or_destruct."]),
            ("ok", born + ["obfb o1 o2,o3", "hb o1 ofilt o3", "deb o3", "r de o3 ok", "he o1 ofilt", "hb o1 ofilt o2", "he o1 ofilt", "r obf o1 o2,o1,o0 o2"]),
            ("destructed-listed", born + ["obfb o1 o2,o3", "hb o1 ofilt o3", "deb o3", "r de o3 ok", "he o1 ofilt", "r obf o1 0 o2"]),
            ("objects-filter-missed", born + ["obfb o1 o2,o3", "hb o1 ofilt o3", "he o1 ofilt", "r obf o1 o3 o2,o3"]),
            ("destructed-listed", born + ["obfb o1 o2,o3", "hb o1 ofilt 0", "he o1 ofilt", "r obf o1 o2,o3 o2,o3"]),
            ("destructed-listed", born + ["obfb o1 o2,o3", "r obf o1 o2,o3 o2"]),
            ("destructed-visible", dead3 + ["obfb o1 o2", "r obf o1 o2,o3 o2,o3"]),
            ("objects-filter-mismatch", born + ["obfb o1 o2,o3", "r obf o1 o2,o2,o3 o2,o3"]),
            ("objects-filter-mismatch", born + ["obfb o1 o2,o3", "r obf o1 !0 o2,o3"]),
            ("ok", born + mv + ["deb o2", "hb o3 mod 0", "ctb o3", "deb o2", "caught *Only this_object() can be destructed from move_or_destruct.", "r ct o3 1", "he o3 mod", "r de o2 ok"]),
            ("destruct-refused", born + ["ctb o1", "deb o3", "caught *Only this_object() can be destructed from move_or_destruct.", "r ct o1 1"]),
            ("frame-mismatch", born + ["r ct o1 0"]),
            ("frame-mismatch", born + ["ctb o1", "deb o3", "r ct o1 0"]),
            ("ok", born + ["r ra o3 va 1", "r ra o3 va 0", "r ra o9 va !gone"]),
            ("destructed-visible", dead3 + ["r ra o3 va 0"]),
            ("ok", born + ["new o4 c08/b1", "he o4 create", "mvsb o2 c08/b1", "mvb o2 o3", "r mv o2 o3 ok", "r mvs o2 c08/b1 ok ?", "mvb o4 o2", "err *Can't move object inside itself."]),
            ("ok", born + ["deb o3", "r de o3 ok", "r gh o3 ln"]),
            ("walker", ["W ot-destructed o2"]),
            ("crash", ["crash signal 11"]),
            ("memory-error", ["sanitizer ERROR: AddressSanitizer: heap-use-after-free"]),
            ("unexpected-line", ["something else"]),
        ]
        return T

    def extra_checks(self, ctx, tier, rng):
        T = self.judge_selftest()
        cases = [E.Case("jt%d" % i, ["--"] + tr) for i, (_, tr) in enumerate(T)]
        res = E.nvdrive(self.id, "judge", E.cases_text(cases))
        bad = []
        for i, (kind, _) in enumerate(T):
            v = res.get("jt%d" % i, [])
            got = [x.split()[1] for x in v if x.startswith("bad ") and len(x.split()) > 1]
            if kind == "ok":
                if v != ["ok"]:
                    bad.append("positive example %d judged %s" % (i, v[:2]))
            elif kind not in got:
                bad.append("negative example %d (%s) judged %s" % (i, kind, v[:2]))
        self.selftest_n = len(T)
        if bad:
            return [{"kind": "obligation-broken", "name": "judge-selftest", "detail": "\n".join(bad[:20])}]
        return []

    # ---- implementation side -------------------------------------------------
    def prepare(self, ctx):
        self.exe = E.compile_harness("c08", [os.path.join(E.VERIF, "harness/c08/c08.c")])
        self.conf = E.make_mudlib(ctx.rundir, master="/c08/master.c",
                                  extra_conf="ObjectHashSize %d\nMaxInheritDepth %d\n" % (OT_SIZE, MAX_INHERIT))
        d = os.path.join(ctx.rundir, "mudlib", "c08")
        for k in range(NBP_LARGE):
            with open(os.path.join(d, "b%d.c" % k), "w") as f:
                f.write('#include "/c08/obj.c"\n')
        for k in range(NIH):
            with open(os.path.join(d, "i%d.c" % k), "w") as f:
                f.write('inherit "/c08/b%d";\n' % k)
        with open(os.path.join(d, "bad.c"), "w") as f:
            f.write("void create () { this is not LPC\n")

    def run_impl(self, ctx, cases):
        return E.run_harness(self.exe, self.conf, cases, ctx.rundir)


PROP = C08()
