"""C08 - object names, inventories and destruction stay consistent."""
import os
import re

from nvlib import engine as E
from nvlib.check import Prop

OT_SIZE = 16          # ObjectHashSize written into the harness config (small: chains are crossed by small populations)
NBP = 8               # blueprints b0..b7 for small populations
NBP_LARGE = 320       # blueprints available in the mudlib copy (large populations)


class C08(Prop):
    id = "C08"
    title = "object names, inventories and destruction stay consistent"
    lean_modules = ["NV.C08.Props"]
    theorems = []
    consts = [("oDestructed", "O_DESTRUCTED"), ("oEnableCommands", "O_ENABLE_COMMANDS"), ("oClone", "O_CLONE")]
    const_headers = ["lpc/object.h"]
    quick_n = 260
    thorough_n = 2500
    search_n = 600
    design_ref = "5/C08"
    technique = ("Lean 4 proof (registry/inventory invariant preserved by every primitive and, by induction on fuel, by every "
                 "history with re-entrant hooks) + translator-generated hash table + model/implementation correspondence "
                 "with a walker over the real structures")
    level_text = ""
    level_note = ""
    rule = ""
    not_covered = []

    # ---- translator ---------------------------------------------------------
    def gen_extra(self, ctx, bdir):
        src = open(os.path.join(E.REPO, "lib/misc/hash.c")).read()
        m = re.search(r"static\s+int\s+T\s*\[\s*\]\s*=\s*\{([^}]*)\}", src)
        if not m:
            from nvlib.extract import TieBroken
            raise TieBroken("hash.c:T", "Pearson table T[] not found in lib/misc/hash.c")
        nums = [int(x) for x in re.findall(r"\d+", m.group(1))]
        if len(nums) != 256:
            from nvlib.extract import TieBroken
            raise TieBroken("hash.c:T", "Pearson table T[] has %d entries" % len(nums))
        rc = open(os.path.join(E.REPO, "lib/rc/rc.cpp")).read()
        m2 = re.search(r"CONFIG_INT\s*\(__LIVING_HASH_TABLE_SIZE__\)\s*=\s*(\d+)\s*;", rc)
        if not m2:
            from nvlib.extract import TieBroken
            raise TieBroken("rc.cpp:living", "__LIVING_HASH_TABLE_SIZE__ assignment not found in lib/rc/rc.cpp")
        ot = open(os.path.join(E.REPO, "lib/lpc/otable.c")).read()
        if not re.search(r"#define\s+ObjHash\(s\)\s+whashstr\(s,\s*40\)\s*&\s*otable_size_minus_one", ot):
            from nvlib.extract import TieBroken
            raise TieBroken("otable.c:ObjHash", "ObjHash is no longer whashstr(s, 40) & otable_size_minus_one")
        ob = open(os.path.join(E.REPO, "lib/lpc/object.c")).read()
        if not re.search(r"return\s+whashstr\s*\(str,\s*20\)\s*%\s*CONFIG_INT\s*\(__LIVING_HASH_TABLE_SIZE__\)", ob):
            from nvlib.extract import TieBroken
            raise TieBroken("object.c:hash_living_name", "hash_living_name is no longer whashstr(str, 20) % size")
        out = ["/-- lib/misc/hash.c `T[]` -/",
               "def pearsonT : Array Nat := #[%s]" % ", ".join(str(x) for x in nums),
               "/-- lib/rc/rc.cpp `__LIVING_HASH_TABLE_SIZE__` -/",
               "def livingHashSize : Nat := %s" % m2.group(1),
               "/-- `ObjectHashSize` of the harness configuration (props/c08.py), rounded up to a power of two as init_otable does -/",
               "def otSize : Nat := %d" % OT_SIZE]
        return "\n".join(out)


    # ---- implementation side -------------------------------------------------
    def prepare(self, ctx):
        self.exe = E.compile_harness("c08", [os.path.join(E.VERIF, "harness/c08/c08.c")])
        self.conf = E.make_mudlib(ctx.rundir, master="/c08/master.c", extra_conf="ObjectHashSize %d\n" % OT_SIZE)
        d = os.path.join(ctx.rundir, "mudlib", "c08")
        for k in range(NBP_LARGE):
            with open(os.path.join(d, "b%d.c" % k), "w") as f:
                f.write('#include "/c08/obj.c"\n')
        with open(os.path.join(d, "bad.c"), "w") as f:
            f.write("void create () { this is not LPC\n")

    def run_impl(self, ctx, cases):
        return E.run_harness(self.exe, self.conf, cases, ctx.rundir)


PROP = C08()
