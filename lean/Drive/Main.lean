/- nvdrive: line-protocol driver for the executable models and specification oracles.
   usage: nvdrive <property> <model|judge>  < cases  > outputs -/
import NV.C10.Drive

def main (args : List String) : IO UInt32 := do
  match args with
  | ["C10", mode] => NV.C10.main mode; return 0
  | _ => IO.eprintln "usage: nvdrive <property> <model|judge>"; return 2
