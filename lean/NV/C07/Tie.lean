/-
C07 — bridging lemmas between hand-written model definitions and definitions REGENERATED from the source on every run
(NV/Gen/C07.lean: clang AST of apply_low / find_function, macro values from a probe).  If a C line changes, the
regenerated side changes and the lemma below stops checking (stage B: obligation broken; the check then searches for a
failing input through the correspondence).
-/
import NV.C07.Model
import NV.C07.Build
import NV.C07.Compress

namespace NV.C07

open NV.Gen.C07

/-- `static int cache_mask = APPLY_CACHE_SIZE - 1` as regenerated -/
theorem cacheMask_is_size_minus_one : cacheMaskGen = cacheSize - 1 := by decide

/-- the model's cache slot IS the regenerated right-hand side of `ix = ...` in apply_low; this is what it computes.
    The proof accepts any re-association / re-ordering of the xor and the mask (a harmless refactoring of the C
    expression); a change of WHAT is hashed fails here. -/
theorem slotOf_formula (id ptr : Nat) :
    slotOf id ptr = (id ^^^ ptr ^^^ (ptr >>> applyCacheBits)) &&& (cacheSize - 1) := by
  have hm : cacheMaskGen = cacheSize - 1 := cacheMask_is_size_minus_one
  simp only [slotOf, slotOfGen, hm, applyCacheBits] <;>
    first | rfl | ac_rfl | (simp [Nat.xor_comm, Nat.xor_assoc, Nat.and_comm])

/-- the slot computed from the source's formula always lies inside `cache[APPLY_CACHE_SIZE]` (so the `set` of the
    model's miss path is never a silent no-op and the C access is in range) -/
theorem slotOf_lt (id ptr : Nat) : slotOf id ptr < cacheSize := by
  rw [slotOf_formula]
  have h : (id ^^^ ptr ^^^ (ptr >>> applyCacheBits)) &&& (cacheSize - 1) ≤ cacheSize - 1 := Nat.and_le_right
  have : 0 < cacheSize := by decide
  omega

/-- the two flag tests of find_function (regenerated from its AST) are the ones `tableSearch` / `isReal` / `isBlocker`
    are written with -/
theorem find_masks_are_source :
    findSkipMaskGen = (nameUndefined ||| namePrototype ||| nameInherited) ∧ findBreakMaskGen = nameInherited := by
  decide

/-- NAME_MASK and NAME_NO_CODE (macro values from the probe) are the model's compositions of single bits -/
theorem name_masks_are_source : nameMask = nameMaskC ∧ nameNoCode = nameNoCodeC := by decide

/-- the index of the compressed table is a byte table: the marker is the largest value an index element can hold and
    the loop of compress_function_tables overflows right after it (stated relative to the probed element size, so a
    wider index type changes both sides together with the regenerated literals) -/
theorem cmp_marker_is_byte_max : cmpMarker + 1 = 2 ^ (8 * cmpIndexBytes) := by decide

/-- the literals of compress_function_tables / find_func_entry (regenerated from their ASTs) are the ones the model of
    the index-byte loop (`fillGo`: marker, `j + 1 == 256`, `j := 255`) is written with -/
theorem cmp_literals_are_source :
    cmpMarkerGen = cmpMarker ∧ cmpOverflowAtGen = 256 ∧ cmpJAfterOverflowGen = 255 ∧ cmpOverflowAtGen = cmpMarker + 1 := by
  decide

/-- **The search loop of find_func_entry is the source's.**  One iteration of the model's `inhSearch` (the subject of
    `inhSearch_spec` and, through it, of `find_func_entry_compress`) is exactly one iteration of the loop REGENERATED from
    the clang AST of find_func_entry: same loop condition, same `mid`, same comparison, same assignments to first / last,
    and NO early exit.  A changed comparison, a swapped assignment or a new `break` makes this lemma fail. -/
theorem inhSearch_is_source (inh : List Inherit) (index fuel first last : Nat) :
    inhSearch inh index (fuel + 1) first last =
      (if ffeCondGen first last then
        match inh[ffeMidGen first last]? with
        | none => none
        | some ih =>
          if (ffeStepGen first last (ffeMidGen first last) ih.fio index).2.2 then
            some (ffeStepGen first last (ffeMidGen first last) ih.fio index).1
          else inhSearch inh index fuel (ffeStepGen first last (ffeMidGen first last) ih.fio index).1
                 (ffeStepGen first last (ffeMidGen first last) ih.fio index).2.1
       else some first) := by
  rw [inhSearch]
  simp only [ffeCondGen, ffeMidGen, ffeStepGen, decide_eq_true_eq]
  split
  · cases inh[(last + first + 1) / 2]? with
    | none => rfl
    | some ih =>
      simp only
      split <;> simp
  · rfl

end NV.C07
