/-
C07 — executable model of the COMPRESSED runtime function table:

  lib/lpc/compiler.c   compress_function_tables ()   (run by epilog() after the table is sorted)
  lib/lpc/program.h    FIND_FUNC_ENTRY (p, i)         (the macro every reader of the table goes through)
  lib/lpc/program.c    find_func_entry (prog, index)  (index byte table / reconstruction from the inherit list)

An entry is OMITTED from the stored table when it is "expected": the slot is NAME_INHERITED and sits exactly at
`inherit[offset].function_index_offset + index`.  Omitted entries are rebuilt by a binary search over the inherit
list.  Written from the code as it exists after the `fix:` commit for the 256-entry overflow branch ("Woops"): the
constants, the three scans, the byte index with its 255 marker, the overflow branch and the final copy are mirrored
statement by statement.  A C access out of range is `none`.
-/
import NV.C07.Model

namespace NV.C07

open NV.Gen.C07

/-- compressed_offset_table_t + the A_RUNTIME_FUNCTIONS block as it is after compression -/
structure CTable where
  firstDefined : Nat
  firstOverload : Nat
  numCompressed : Nat
  numDeleted : Nat
  index : List Nat            -- cftp->index[0 .. n_ov)
  offsets : List REntry       -- prog->function_offsets[0 .. j + n_def)
  deriving Repr, BEq, DecidableEq

/-- what compress_function_tables reads: flags, uncompressed entries, inherit list -/
structure RTab where
  flags : List Nat
  rt : List REntry
  inherit : List Inherit

def RTab.ofProgram (P : Program) : RTab := { flags := P.flags, rt := P.rt, inherit := P.inherit }

/-- the marker byte of an omitted entry, and the number of index values a byte can hold besides it -/
def cmpMarker : Nat := 255

/-- `(FUNCTION_FLAGS (i) & NAME_INHERITED) && i == EXPECTED_INDEX (rfu)` -/
def expectedAt (t : RTab) (i : Nat) : Bool :=
  match t.flags[i]?, t.rt[i]? with
  | some fl, some (.inh off idx) =>
    hasBit fl nameInherited &&
    (match t.inherit[off]? with
     | some ih => ih.fio + idx == i
     | none => false)
  | _, _ => false

/-- every access compress_function_tables makes is in range and reads the union member the flags announce: each
    slot has flags and an entry, a NAME_INHERITED slot holds an `inh` entry whose offset names an inherit.  All slots
    are visited by the scans, so checking up front is the same as checking lazily. -/
def RTab.readable (t : RTab) : Bool :=
  t.flags.length == t.rt.length &&
  (t.flags.zip t.rt).all (fun (fl, e) =>
    if hasBit fl nameInherited then
      match e with
      | .inh off _ => off < t.inherit.length
      | .defn .. => false
    else true)

/-- first loop: `f_def = n_tot - 1; while (f_def >= 0) { if (expected) break; f_def--; } f_def++` -/
def scanFDef (t : RTab) : Nat → Nat
  | 0 => 0
  | k + 1 => if expectedAt t k then k + 1 else scanFDef t k

/-- second loop: `while (f_ov < f_def && inherited (f_ov)) { if (f_ov != EXPECTED) break; f_ov++; }` -/
def scanFOv (t : RTab) (fDef : Nat) : Nat → Nat → Nat
  | 0, fOv => fOv
  | fuel + 1, fOv => if fOv < fDef && expectedAt t fOv then scanFOv t fDef fuel (fOv + 1) else fOv

/-- third loop on `l_ov + 1` (l_ov itself can be -1): `while (l_ov > f_ov && inherited (l_ov)) { if (l_ov != EXPECTED)
    break; l_ov--; }` -/
def scanLOv (t : RTab) (fOv : Nat) : Nat → Nat
  | 0 => 0
  | l + 1 => if l > fOv && expectedAt t l then scanLOv t fOv l else l + 1

/-- result of the `for (i = 0, j = 0; i < n_ov; i++)` loop -/
structure FillRes where
  ix : List Nat             -- cftp->index[..] for the positions processed
  kept : List Nat           -- the slots whose entries are stored (p[cftp->index[i]] = *FUNCTION_RENTRY (f_ov + i)), in order
  j : Nat
  woops : Option Nat        -- the slot `f_ov + i` at which j reached 256: it becomes first_defined
  deriving Repr

/-- the loop from slot `s` on, `cnt` positions to go, counter `j`.  An expected slot gets the marker; any other slot
    gets `(unsigned char) j++`; when j reaches 256 ("Woops.  Fix things up a bit") this position and all later ones are
    set to the marker, j = 255, and the loop is left. -/
def fillGo (E : Nat → Bool) : Nat → Nat → Nat → FillRes
  | _, 0, j => { ix := [], kept := [], j := j, woops := none }
  | s, cnt + 1, j =>
    if E s then
      let r := fillGo E (s + 1) cnt j
      { r with ix := cmpMarker :: r.ix }
    else if j + 1 == 256 then
      { ix := List.replicate (cnt + 1) cmpMarker, kept := [], j := 255, woops := some s }
    else
      let r := fillGo E (s + 1) cnt (j + 1)
      { r with ix := (j % 256) :: r.ix, kept := s :: r.kept }

/-- compress_function_tables () after the scans.  `repaired = false` is the overflow branch as it was before the
    `fix:` commit (num_compressed = i, n_def not recomputed); kept for the Lean-checked witness. -/
def compressWith (repaired : Bool) (t : RTab) (fDef0 fOv nOv : Nat) : CTable :=
  let nTot := t.rt.length
  let r := fillGo (expectedAt t) fOv nOv 0
  -- cftp->first_defined = f_def (= f_ov + i in the overflow branch)
  let fDef := match r.woops with | none => fDef0 | some s0 => s0
  -- n_def = n_tot - f_def
  let nDef := match r.woops with
    | none => nTot - fDef0
    | some s0 => if repaired then nTot - s0 else nTot - fDef0
  -- cftp->num_compressed = f_def - n_ov   (readers compute n_ov back as first_defined - num_compressed)
  let numCompressed := match r.woops with
    | none => fDef0 - nOv
    | some s0 => if repaired then fOv else s0 - fOv
  let offsets : List REntry :=
    if r.j + nDef == 0 then []
    else if fDef != 0 then r.kept.filterMap (fun s => t.rt[s]?) ++ (t.rt.drop fDef).take nDef
    else t.rt
  { firstDefined := fDef, firstOverload := fOv, numCompressed := numCompressed,
    -- cftp->num_deleted = first_defined - j
    numDeleted := fDef - r.j, index := r.ix, offsets := offsets }

def compressG (repaired : Bool) (t : RTab) : Option CTable :=
  if !t.readable then none else
  let fDef0 := scanFDef t t.rt.length
  let fOv := scanFOv t fDef0 fDef0 0
  let lOv1 := scanLOv t fOv fDef0
  some (compressWith repaired t fDef0 fOv (lOv1 - fOv))

/-- compress_function_tables (); `none` = an access out of range -/
def compress (t : RTab) : Option CTable := compressG true t

/-- the reconstruction loop of find_func_entry: `while (last > first) { mid = (last + first + 1) / 2;
    if (inherit[mid].fio > index) last = mid - 1; else first = mid; }` -/
def inhSearch (inh : List Inherit) (index : Nat) : Nat → Nat → Nat → Option Nat
  | 0, first, _ => some first
  | fuel + 1, first, last =>
    if last > first then
      let mid := (last + first + 1) / 2
      match inh[mid]? with
      | none => none
      | some ih => if ih.fio > index then inhSearch inh index fuel first (mid - 1) else inhSearch inh index fuel mid last
    else some first

/-- "The entry was omitted.  Remake it from the inheritance information": `first = 0, last = num_inherited - 1`, the
    binary search, then `ret.inh.offset = first; ret.inh.index = index - inherit[first].function_index_offset`
    (no inherit at all / a negative difference = `none`) -/
def remake (inh : List Inherit) (index : Nat) : Option REntry :=
  if inh.isEmpty then none else
  match inhSearch inh index inh.length 0 (inh.length - 1) with
  | none => none
  | some first =>
    match inh[first]? with
    | none => none
    | some ih => if ih.fio ≤ index then some (.inh first (index - ih.fio)) else none

/-- find_func_entry (prog, index): `if (index < f_ov || (idx = index - f_ov) >= n_ov || (fidx = index[idx]) == 255)`
    remake the entry, else `prog->function_offsets + fidx` -/
def findFuncEntryLow (inh : List Inherit) (c : CTable) (index : Nat) : Option REntry :=
  let fOv := c.firstOverload
  let nOv := c.firstDefined - c.numCompressed
  if index < fOv || index - fOv ≥ nOv then remake inh index
  else
    match c.index[index - fOv]? with
    | none => none
    | some fidx => if fidx == cmpMarker then remake inh index else c.offsets[fidx]?

/-- FIND_FUNC_ENTRY (p, i) -/
def findFuncEntry (inh : List Inherit) (c : CTable) (i : Nat) : Option REntry :=
  if i < c.firstDefined then findFuncEntryLow inh c i
  else if c.numDeleted ≤ i then c.offsets[i - c.numDeleted]? else none

/-- the whole table read back through FIND_FUNC_ENTRY -/
def decompress (inh : List Inherit) (c : CTable) (n : Nat) : List (Option REntry) :=
  (List.range n).map (findFuncEntry inh c)

/-- the hypothesis of the round-trip theorem that is about the INHERIT LIST (decidable, evaluated by the driver on every
    program it builds): function_index_offsets never decrease, and an expected slot names the LAST inherit whose
    offset is not beyond it (what the binary search of find_func_entry returns) -/
def fioSorted : List Inherit → Bool
  | [] => true
  | [_] => true
  | a :: b :: rest => a.fio ≤ b.fio && fioSorted (b :: rest)

def expectedNamesLast (t : RTab) : Bool :=
  (List.range t.rt.length).all fun i =>
    !(expectedAt t i) ||
    (match t.rt[i]? with
     | some (.inh off _) => (t.inherit.drop (off + 1)).all (fun ih => ih.fio > i)
     | _ => true)

def RTab.cmpWF (t : RTab) : Bool := t.readable && fioSorted t.inherit && expectedNamesLast t

/-- the NAME_INHERITED loop of setup_new_frame / setup_inherited_frame (Model.chase) with every runtime entry read the
    way the C code reads it: through FIND_FUNC_ENTRY on the program's COMPRESSED table -/
def chaseC (w : World) : Nat → Nat → Nat → Nat → Nat → Option Frame
  | 0, _, _, _, _ => none
  | fuel + 1, p, index, fio, vio => do
    let P ← w.progs[p]?
    let fl ← P.flags[index]?
    let c ← compress (RTab.ofProgram P)
    let e ← findFuncEntry P.inherit c index
    if hasBit fl nameInherited then
      match e with
      | .inh off idx =>
        let ih ← P.inherit[off]?
        chaseC w fuel ih.prog idx (fio + ih.fio) (vio + ih.vio)
      | .defn .. => none
    else
      match e with
      | .defn fi _ => some { prog := p, fidx := fi, fio := fio, vio := vio }
      | .inh .. => none

/-! ### rendering for the `cmp` line of the harness -/

def renderREntry : REntry → String
  | .defn a b => s!"D:{a}:{b}"
  | .inh a b => s!"I:{a}:{b}"

def renderCmp (name : String) (c : Option CTable) : String :=
  match c with
  | none => s!"cmp {name} crash"
  | some c =>
    -- the index bytes in use: readers take `first_defined - num_compressed` of them (after the overflow branch the
    -- allocation is longer, the rest holds markers)
    let used := c.index.take (c.firstDefined - c.numCompressed)
    let ix := if used.isEmpty then "-" else ",".intercalate (used.map toString)
    let st := if c.offsets.isEmpty then "-" else ",".intercalate (c.offsets.map renderREntry)
    s!"cmp {name} fdef={c.firstDefined} fov={c.firstOverload} ncomp={c.numCompressed} ndel={c.numDeleted} ix={ix} st={st}"

end NV.C07
