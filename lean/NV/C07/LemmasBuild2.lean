/-
C07 — the construction (NV/C07/Build.lean) establishes the alias ordering for every program, for all inputs:
per-operation preservation lemmas (append a slot, add an identifier, modify a slot) composed through
copy_function / overload_function / define_new_function / copy_functions / the items of a file.
-/
import NV.C07.Build
import NV.C07.LemmasBuild

namespace NV.C07

open NV.Gen.C07

/-! ### bit toolkit -/

theorem hasBit_two_pow (x k : Nat) : hasBit x (2^k) = x.testBit k := by
  unfold hasBit
  cases h : x.testBit k
  · have : x &&& 2^k = 0 := by
      apply Nat.eq_of_testBit_eq
      intro i
      simp only [Nat.testBit_and, Nat.testBit_two_pow, Nat.zero_testBit]
      by_cases hk : k = i
      · subst hk; simp [h]
      · simp [hk]
    simp [this]
  · have : (x &&& 2^k).testBit k = true := by simp [Nat.testBit_and, h]
    have hne : x &&& 2^k ≠ 0 := by
      intro h0; rw [h0] at this; simp at this
    simp [hne]

theorem hb_alias (x : Nat) : hasBit x nameAlias = x.testBit 5 := hasBit_two_pow x 5

/-- modifiers written in the source (on functions and on inherit statements) never contain NAME_ALIAS -/
def bitsOK (m : Nat) : Prop := hasBit m nameAlias = false

theorem inheritedFlags_noAlias (a m : Nat) (hm : bitsOK m) : hasBit (inheritedFlags a m) nameAlias = false := by
  unfold bitsOK at hm
  rw [hb_alias] at *
  unfold inheritedFlags
  simp only
  split <;> split <;>
    simp +decide [Nat.testBit_and, Nat.testBit_or, Nat.testBit_xor, hm, nameMask, nameUndefined, nameStrictTypes,
      namePrototype, nameTrueVarargs, nameHidden, nameStatic, nameNoMask, namePrivate, nameProtected, namePublic,
      nameVarargs, nameDefByInherit]

theorem defFlags_noAlias (m fl : Nat) (hm : bitsOK m) (hfl : fl = (nameUndefined ||| namePrototype) ∨ fl = 0) :
    hasBit (m ||| fl ||| nameStrictTypes) nameAlias = false := by
  unfold bitsOK at hm
  rw [hb_alias] at *
  rcases hfl with rfl | rfl <;>
    simp +decide [Nat.testBit_or, hm, nameUndefined, namePrototype, nameStrictTypes]

theorem get_modify_same {α} (l : List α) (i : Nat) (f : α → α) : (l.modify i f)[i]? = (l[i]?).map f := by
  simp

theorem get_modify_ne {α} (l : List α) (i j : Nat) (f : α → α) (h : i ≠ j) : (l.modify i f)[j]? = l[j]? := by
  simp [h]

/-! ### the invariant -/

/-- identifiers point to existing, non-alias slots; an alias slot names an earlier slot -/
structure AInvP (slots : List BSlot) (idents : List (NameKey × Nat)) : Prop where
  identLt : ∀ (n : NameKey) (r : Nat), (n, r) ∈ idents → r < slots.length
  identNA : ∀ (n : NameKey) (r : Nat) (sl : BSlot), (n, r) ∈ idents → slots[r]? = some sl → hasBit sl.flags nameAlias = false
  ordered : ∀ (i : Nat) (sl : BSlot), slots[i]? = some sl → hasBit sl.flags nameAlias = true → sl.aliasFor < i

def AInv (s : BState) : Prop := AInvP s.slots s.idents

theorem ainv_empty : AInv {} := ⟨by intro n r h; simp at h, by intro n r sl h; simp at h, by intro i sl h; simp at h⟩

theorem ainv_append (slots : List BSlot) (idents : List (NameKey × Nat)) (x : BSlot) (h : AInvP slots idents)
    (hx : hasBit x.flags nameAlias = false ∨ x.aliasFor < slots.length) : AInvP (slots ++ [x]) idents := by
  refine ⟨?_, ?_, ?_⟩
  · intro n r hm
    have := h.identLt n r hm
    simp only [List.length_append, List.length_cons, List.length_nil]; omega
  · intro n r sl hm hs
    have hlt := h.identLt n r hm
    rw [List.getElem?_append_left hlt] at hs
    exact h.identNA n r sl hm hs
  · intro i sl hs hal
    by_cases hi : i < slots.length
    · rw [List.getElem?_append_left hi] at hs
      exact h.ordered i sl hs hal
    · have hlen : i = slots.length := by
        have : i < (slots ++ [x]).length := by
          rcases Nat.lt_or_ge i (slots ++ [x]).length with h' | h'
          · exact h'
          · rw [List.getElem?_eq_none_iff.mpr h'] at hs; simp at hs
        simp only [List.length_append, List.length_cons, List.length_nil] at this
        omega
      subst hlen
      simp only [List.getElem?_append_right (Nat.le_refl _), Nat.sub_self, List.getElem?_cons_zero,
        Option.some.injEq] at hs
      subst hs
      rcases hx with hx | hx
      · rw [hx] at hal; simp at hal
      · exact hx

theorem ainv_addIdent (slots : List BSlot) (idents : List (NameKey × Nat)) (n : NameKey) (r : Nat)
    (h : AInvP slots idents) (hr : r < slots.length)
    (hna : ∀ sl, slots[r]? = some sl → hasBit sl.flags nameAlias = false) : AInvP slots (idents ++ [(n, r)]) := by
  refine ⟨?_, ?_, h.ordered⟩
  · intro n' r' hm
    rcases List.mem_append.mp hm with hm | hm
    · exact h.identLt n' r' hm
    · simp only [List.mem_singleton, Prod.mk.injEq] at hm
      omega
  · intro n' r' sl hm hs
    rcases List.mem_append.mp hm with hm | hm
    · exact h.identNA n' r' sl hm hs
    · simp only [List.mem_singleton, Prod.mk.injEq] at hm
      obtain ⟨_, rfl⟩ := hm
      exact hna sl hs

theorem ainv_modify (slots : List BSlot) (idents : List (NameKey × Nat)) (i : Nat) (f : BSlot → BSlot)
    (h : AInvP slots idents)
    (hf : ∀ sl, slots[i]? = some sl → hasBit (f sl).flags nameAlias = false) : AInvP (slots.modify i f) idents := by
  have key : ∀ (j : Nat) (sl : BSlot), (slots.modify i f)[j]? = some sl →
      (j = i ∧ hasBit sl.flags nameAlias = false) ∨ (j ≠ i ∧ slots[j]? = some sl) := by
    intro j sl hs
    by_cases hij : i = j
    · subst hij
      rw [get_modify_same] at hs
      cases hsl : slots[i]? with
      | none => rw [hsl] at hs; simp at hs
      | some sl0 =>
        rw [hsl] at hs
        simp only [Option.map_some, Option.some.injEq] at hs
        subst hs
        exact Or.inl ⟨rfl, hf sl0 hsl⟩
    · rw [get_modify_ne _ _ _ _ hij] at hs
      exact Or.inr ⟨fun h' => hij h'.symm, hs⟩
  refine ⟨?_, ?_, ?_⟩
  · intro n r hm
    simpa using h.identLt n r hm
  · intro n r sl hm hs
    rcases key r sl hs with ⟨_, hna⟩ | ⟨_, hs'⟩
    · exact hna
    · exact h.identNA n r sl hm hs'
  · intro j sl hs hal
    rcases key j sl hs with ⟨_, hna⟩ | ⟨_, hs'⟩
    · rw [hna] at hal; simp at hal
    · exact h.ordered j sl hs' hal

theorem ident_mem (s : BState) (name : NameKey) (num : Nat) (h : s.ident name = some num) :
    ∃ n, (n, num) ∈ s.idents := by
  unfold BState.ident at h
  cases hf : s.idents.find? (·.1 == name) with
  | none => rw [hf] at h; simp at h
  | some pr =>
    rw [hf] at h
    simp only [Option.map_some, Option.some.injEq] at h
    subst h
    exact ⟨pr.1, List.mem_of_find?_eq_some hf⟩

/-! ### the operations -/

theorem ainv_copyFunction (s : BState) (src idx m : Nat) (name : NameKey) (h : AInv s) (hm : bitsOK m) :
    AInv (copyFunction s src idx m name) := by
  unfold AInv copyFunction
  simp only
  apply ainv_addIdent
  · exact ainv_append _ _ _ h (Or.inl (inheritedFlags_noAlias src m hm))
  · simp
  · intro sl hs
    simp only [List.getElem?_append_right (Nat.le_refl _), Nat.sub_self, List.getElem?_cons_zero,
      Option.some.injEq] at hs
    subst hs
    exact inheritedFlags_noAlias src m hm

theorem ainv_cfuncs (s : BState) (c : List CFunc) (h : AInv s) : AInv { s with cfuncs := c } := h

theorem ainv_modifySlot (s : BState) (i : Nat) (f : BSlot → BSlot) (h : AInv s)
    (hf : ∀ sl, s.slots[i]? = some sl → hasBit (f sl).flags nameAlias = false) : AInv (modifySlot s i f) := by
  unfold AInv modifySlot
  exact ainv_modify _ _ _ _ h hf

theorem modifySlot_get (s : BState) (i : Nat) (f : BSlot → BSlot) (sl : BSlot)
    (h : (modifySlot s i f).slots[i]? = some sl) : ∃ sl0, s.slots[i]? = some sl0 ∧ sl = f sl0 := by
  unfold modifySlot at h
  simp only at h
  rw [get_modify_same] at h
  cases hs : s.slots[i]? with
  | none => rw [hs] at h; simp at h
  | some sl0 =>
    rw [hs] at h
    simp only [Option.map_some, Option.some.injEq] at h
    exact ⟨sl0, rfl, h.symm⟩

theorem ainv_addAlias (s : BState) (idx old : Nat) (h : AInv s) (hold : old < s.slots.length) : AInv (addAlias s idx old) :=
  ainv_append _ _ _ h (Or.inr hold)

/-- "slot `old` exists and is not an alias", carried along the steps of overload_function -/
def OldNA (s : BState) (old : Nat) : Prop := ∀ sl, s.slots[old]? = some sl → hasBit sl.flags nameAlias = false

theorem oldNA_addAlias (s : BState) (idx old : Nat) (hold : old < s.slots.length) (h : OldNA s old) :
    OldNA (addAlias s idx old) old := by
  intro sl hs
  unfold addAlias at hs
  simp only at hs
  rw [List.getElem?_append_left hold] at hs
  exact h sl hs

theorem ainv_latestWins (s : BState) (oldsl : BSlot) (src idx old m : Nat) (h : AInv s) (hm : bitsOK m) :
    AInv (latestWins s oldsl src idx old m) := by
  unfold latestWins
  split
  · apply ainv_modifySlot
    · split
      · exact h
      · exact h
    · intro sl _; exact inheritedFlags_noAlias src m hm
  · exact h

theorem oldNA_latestWins (s : BState) (oldsl : BSlot) (src idx old m : Nat) (hm : bitsOK m) (h : OldNA s old) :
    OldNA (latestWins s oldsl src idx old m) old := by
  unfold latestWins
  split
  · intro sl hs
    obtain ⟨sl0, _, rfl⟩ := modifySlot_get _ _ _ _ hs
    exact inheritedFlags_noAlias src m hm
  · exact h

theorem ainv_bumpCount (s : BState) (src old : Nat) (h : AInv s) (hna : OldNA s old) : AInv (bumpCount s src old) := by
  unfold bumpCount
  split
  · exact ainv_modifySlot s old _ h (fun sl hs => hna sl hs)
  · exact h

theorem ainv_overloadFunction (s : BState) (src idx old m : Nat) (h : AInv s) (hm : bitsOK m)
    (hold : old < s.slots.length) (hna : OldNA s old) : AInv (overloadFunction s src idx old m) := by
  unfold overloadFunction
  cases s.slots[old]? with
  | none => exact h
  | some oldsl =>
    exact ainv_bumpCount _ _ _ (ainv_latestWins _ _ _ _ _ _ (ainv_addAlias s idx old h hold) hm)
      (oldNA_latestWins _ _ _ _ _ _ hm (oldNA_addAlias s idx old hold hna))

/-! ### define_new_function, copy_functions, the items of a file -/

theorem ainv_defineNewFunction (s : BState) (name : NameKey) (nameStr : String) (fl m : Nat) (h : AInv s)
    (hm : bitsOK m) (hfl : fl = (nameUndefined ||| namePrototype) ∨ fl = 0) :
    AInv (defineNewFunction s name nameStr fl m).1 := by
  unfold defineNewFunction
  simp only
  cases hid : s.ident name with
  | some rn =>
    simp only
    cases hsl : s.slots[rn]? with
    | none => exact h
    | some sl =>
      simp only
      split
      · exact h
      · split
        · exact h
        · split
          · exact ainv_modifySlot _ _ _ h (fun _ _ => defFlags_noAlias m fl hm hfl)
          · exact ainv_modifySlot _ _ _ h (fun _ _ => defFlags_noAlias m fl hm hfl)
  | none =>
    simp only
    unfold AInv
    simp only
    apply ainv_addIdent
    · exact ainv_append _ _ _ h (Or.inl (defFlags_noAlias m fl hm hfl))
    · simp
    · intro sl hs
      simp only [List.getElem?_append_right (Nat.le_refl _), Nat.sub_self, List.getElem?_cons_zero,
        Option.some.injEq] at hs
      subst hs
      exact defFlags_noAlias m fl hm hfl

theorem ainv_copyStep (w : World) (Q : Program) (m q : Nat) (hm : bitsOK m) (s0 : BState) (i : Nat) (h0 : AInv s0) :
    AInv (copyStep w q Q m s0 i) := by
  unfold copyStep
  cases chase w w.fuel q i 0 0 with
  | none => exact h0
  | some fr =>
    simp only
    cases (w.progs[fr.prog]?.bind (·.ft[fr.fidx]?)) with
    | none => exact h0
    | some fe =>
      simp only
      cases hid : s0.ident fe.name with
      | none => exact ainv_copyFunction s0 _ _ _ _ h0 hm
      | some num =>
        obtain ⟨n, hmem⟩ := ident_mem s0 fe.name num hid
        exact ainv_overloadFunction s0 _ _ _ _ h0 hm (h0.identLt n num hmem)
          (fun sl hs => h0.identNA n num sl hmem hs)

theorem ainv_copyFunctions (w : World) (Q : Program) (m q : Nat) (hm : bitsOK m) (l : List Nat) :
    ∀ s0, AInv s0 → AInv (l.foldl (copyStep w q Q m) s0) := by
  induction l with
  | nil => intro s0 h0; exact h0
  | cons i rest ih =>
    intro s0 h0
    simp only [List.foldl_cons]
    exact ih _ (ainv_copyStep w Q m q hm s0 i h0)

theorem ainv_doInherit (w : World) (s : BState) (m q : Nat) (h : AInv s) (hm : bitsOK m) : AInv (doInherit w s m q) := by
  unfold doInherit
  cases w.progs[q]? with
  | none => exact h
  | some Q =>
    simp only
    exact ainv_copyFunctions w Q m q hm _ _ h

/-- the modifiers of an item never contain NAME_ALIAS -/
def Item.modsOK : Item → Prop
  | .inh m _ => bitsOK m
  | .proto m _ _ => bitsOK m
  | .defn m _ _ _ => bitsOK m
  | .var _ => True

theorem ainv_doItem (w : World) (s : BState) (it : Item) (h : AInv s) (hm : it.modsOK) : AInv (doItem w s it) := by
  cases it with
  | inh m q => exact ainv_doInherit w s m q h hm
  | var m => exact h
  | proto m name nameStr => exact ainv_defineNewFunction s name nameStr _ m h hm (Or.inl rfl)
  | defn m name nameStr calls =>
    unfold doItem
    simp only
    have h1 := ainv_defineNewFunction s name nameStr (nameUndefined ||| namePrototype) m h hm (Or.inl rfl)
    have h2 := ainv_defineNewFunction _ name nameStr 0 m h1 hm (Or.inr rfl)
    split
    · exact h2
    · exact h2

theorem ainv_items (w : World) (items : List Item) (hm : ∀ it ∈ items, it.modsOK) :
    ∀ s, AInv s → AInv (items.foldl (doItem w) s) := by
  induction items with
  | nil => intro s h; exact h
  | cons it rest ih =>
    intro s h
    exact ih (fun x hx => hm x (List.mem_cons_of_mem _ hx)) _ (ainv_doItem w s it h (hm it List.mem_cons_self))

/-- the hypothesis of the epilog theorem holds for every program the construction produces -/
theorem built_aliasOrdered (w : World) (items : List Item) (hm : ∀ it ∈ items, it.modsOK) :
    aliasOrdered (items.foldl (doItem w) {}).slots = true := by
  have h := ainv_items w items hm {} ainv_empty
  unfold aliasOrdered
  rw [List.all_eq_true]
  intro ⟨sl, i⟩ hmem
  have hs := List.mem_zipIdx_iff_getElem?.mp hmem
  simp only [Bool.or_eq_true, Bool.not_eq_true', decide_eq_true_eq]
  cases hal : hasBit sl.flags nameAlias with
  | false => exact Or.inl rfl
  | true => exact Or.inr (h.ordered i sl hs hal)

/-! ### the inherit list: every entry names a program of the world (clause `inherit.prog < p` of wfFind / wfSlots) -/

theorem inherits_copyFunction (s : BState) (a b c : Nat) (n : NameKey) : (copyFunction s a b c n).inherits = s.inherits := rfl

theorem inherits_modifySlot (s : BState) (i : Nat) (f : BSlot → BSlot) : (modifySlot s i f).inherits = s.inherits := rfl

theorem inherits_overloadFunction (s : BState) (a b c d : Nat) : (overloadFunction s a b c d).inherits = s.inherits := by
  unfold overloadFunction
  cases s.slots[c]? with
  | none => rfl
  | some old =>
    simp only [bumpCount, latestWins, addAlias]
    split <;> split <;> (try split) <;> rfl

theorem inherits_defineNewFunction (s : BState) (n : NameKey) (ns : String) (a b : Nat) :
    (defineNewFunction s n ns a b).1.inherits = s.inherits := by
  unfold defineNewFunction
  simp only
  cases s.ident n with
  | none => rfl
  | some rn =>
    simp only
    cases s.slots[rn]? with
    | none => rfl
    | some sl =>
      simp only
      split
      · rfl
      · split
        · rfl
        · split <;> rfl

theorem inherits_copyStep (w : World) (Q : Program) (m q : Nat) (s0 : BState) (i : Nat) :
    (copyStep w q Q m s0 i).inherits = s0.inherits := by
  unfold copyStep
  cases chase w w.fuel q i 0 0 with
  | none => rfl
  | some fr =>
    simp only
    cases (w.progs[fr.prog]?.bind (·.ft[fr.fidx]?)) with
    | none => rfl
    | some fe =>
      simp only
      cases s0.ident fe.name with
      | none => rfl
      | some num => exact inherits_overloadFunction s0 _ _ _ _

theorem inherits_copyFunctions (w : World) (Q : Program) (m q : Nat) (l : List Nat) :
    ∀ s0 : BState, (l.foldl (copyStep w q Q m) s0).inherits = s0.inherits := by
  induction l with
  | nil => intro s0; rfl
  | cons i rest ih =>
    intro s0
    simp only [List.foldl_cons]
    rw [ih, inherits_copyStep]

def InhOK (w : World) (s : BState) : Prop := ∀ ih ∈ s.inherits, ih.prog < w.progs.length

theorem inhOK_doItem (w : World) (s : BState) (it : Item) (h : InhOK w s) : InhOK w (doItem w s it) := by
  cases it with
  | var m => exact h
  | proto m name nameStr =>
    show InhOK w (defineNewFunction s name nameStr (nameUndefined ||| namePrototype) m).1
    unfold InhOK
    rw [inherits_defineNewFunction]; exact h
  | defn m name nameStr calls =>
    unfold InhOK doItem
    simp only
    split <;> (simp only [inherits_defineNewFunction]; exact h)
  | inh m q =>
    show InhOK w (doInherit w s m q)
    unfold InhOK doInherit
    cases hq : w.progs[q]? with
    | none => exact h
    | some Q =>
      intro ih hm
      simp only at hm
      rw [inherits_copyFunctions] at hm
      rcases List.mem_append.mp hm with hm | hm
      · exact h ih hm
      · simp only [List.mem_singleton] at hm
        subst hm
        rcases Nat.lt_or_ge q w.progs.length with hlt | hge
        · exact hlt
        · rw [List.getElem?_eq_none_iff.mpr hge] at hq; simp at hq

/-- every inherit entry of every built program names a program of the world it was compiled against -/
theorem built_inherits_in_world (w : World) (name : String) (id : Nat) (items : List Item) :
    ∀ ih ∈ (buildProgram w name id items).inherit, ih.prog < w.progs.length := by
  have key : ∀ (l : List Item) s, InhOK w s → InhOK w (l.foldl (doItem w) s) := by
    intro l
    induction l with
    | nil => intro s h; exact h
    | cons it rest ih => intro s h; exact ih _ (inhOK_doItem w s it h)
  exact key items {} (by intro ih h; simp at h)

end NV.C07
