import NV.C07.Model
namespace NV.C07.Witness
end NV.C07.Witness
