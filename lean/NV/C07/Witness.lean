/-
C07 — Lean-checked witness of the defect that was repaired by the `fix:` commit in src/apply.c.

`applyLowOld` is apply_low as it was BEFORE the fix: when find_function found the function but the caller was
not allowed to run it, the miss path stored a NEGATIVE entry ("the function isn't here").  The witness shows
that with that code the cache was not transparent: after a refused call_other, a driver apply of the same
static function fails although it succeeds on the empty cache.  (The same history on the repaired model is
the non-vacuity example of `cache_transparent` in Props.lean; on the real driver it is the corpus case
corpus/C07/refused-then-driver.case.)
-/
import NV.C07.Model
import NV.C07.Compress
import NV.C07.Binary
import NV.C07.LemmasReuse

namespace NV.C07.Witness

open NV.C07 NV.Gen.C07

/-- the miss path before the fix -/
def applyMissOld (w : World) (c : Cache) (origin obProg id ix : Nat) (name : NameKey) : ApplyRes × Cache :=
  let negative := c.set ix (some { id := id, oprogp := obProg, name := name, progp := none })
  match find w obProg name with
  | .crash => (.crash, c)
  | .found q k fio vio =>
    match enter w origin obProg q k fio vio with
    | .call a b f v =>
      (.call a b f v, c.set ix (some { id := id, oprogp := obProg, name := name, progp := some (q, k, fio, vio) }))
    | r => (r, negative)          -- found but not visible: recorded as "not here"
  | .none => (.fail, negative)

def applyLowOld (w : World) (c : Cache) (origin obProg : Nat) (ptr : Nat) (name : NameKey) : ApplyRes × Cache :=
  match w.progs[obProg]? with
  | none => (.crash, c)
  | some P =>
    let ix := slotOf P.id ptr
    match cacheLookup c ix P.id obProg name with
    | some e =>
      match e.progp with
      | some (q, k, fio, vio) => (enter w origin obProg q k fio vio, c)
      | none => (.fail, c)
    | none => applyMissOld w c origin obProg P.id ix name

/-- one program with a static function `1` -/
def w0 : World :=
  { progs := [{ name := "p0", id := 3, nvt := 1, nvd := 1, ft := [{ name := 1, rindex := 0 }],
                flags := [nameStatic], rt := [.defn 0 0], inherit := [] }] }

/-- with the old code: call_other refused (correct), then the driver apply of the same function fails, although
    on the empty cache it runs -/
theorem old_cache_not_transparent :
    (applyLowOld w0 Cache.empty originDriver 0 1 1).1 = .call 0 0 0 0 ∧
    (applyLowOld w0 (applyLowOld w0 Cache.empty originCallOther 0 1 1).2 originDriver 0 1 1).1 = .fail := by
  decide

/-- f_call_other with the origin stored ONCE, before the targets are resolved (the seeded change the check first
    missed): the second element of an array target — or the only target, if resolving it loaded an object — is entered
    with whatever the global holds, i.e. 0 = the driver's origin, and a static function runs. -/
def targetStoredOnce (w : World) (g : Cache × Nat) (p ptr : Nat) (name : NameKey) : ApplyRes × (Cache × Nat) :=
  let (r, c, co) := applyLowG w g.1 g.2 p ptr name
  (r, (c, co))

theorem origin_stored_once_runs_static :
    -- array ({ob, ob}), static function `1` of program 0: first element refused, second one runs
    let g0 : Cache × Nat := (Cache.empty, originCallOther)
    (targetStoredOnce w0 g0 0 1 1).1 = .fail ∧
    (targetStoredOnce w0 (targetStoredOnce w0 g0 0 1 1).2 0 1 1).1 = .call 0 0 0 0 := by
  decide

/-! ### compress_function_tables before the `fix:` commit for its overflow branch

`compressG false` is the code as it was: in the "Woops" branch `num_compressed = i` (readers then take
`first_defined - num_compressed = f_ov` for the number of index bytes) and `n_def` keeps its old value (the entries from
the new first_defined on are not all copied).  The table is the one the compiler builds for
`inherit A; inherit B;` where B inherits A and A defines 260 functions (corpus/C07/compress-overflow-260.case):
slots 0..259 were taken over by B's definitions (entry `inh 1 i`, not at the expected place), slots 260..520 are B's. -/

def wideTab : RTab :=
  { flags := List.replicate 521 nameInherited,
    rt := (List.range 260).map (fun i => REntry.inh 1 i) ++ (List.range 261).map (fun i => REntry.inh 1 i),
    inherit := [{ prog := 0, fio := 0, vio := 0 }, { prog := 1, fio := 260, vio := 1 }] }

/-- with the old code: slot 0 is read back as `inh 0 0` (the FIRST copy of A: other variables) instead of `inh 1 0`,
    and slot 300 lies beyond the stored table (the heap-buffer-overflow ASan reports on the real driver); with the
    repaired code both are right (instance of `find_func_entry_compress`) -/
theorem old_compress_overflow_branch_loses_entries :
    wideTab.cmpWF = true ∧
    (compressG false wideTab).bind (fun c => findFuncEntry wideTab.inherit c 0) = some (.inh 0 0) ∧
    (compressG false wideTab).map (fun c => findFuncEntry wideTab.inherit c 300) = some none ∧
    (compressG true wideTab).bind (fun c => findFuncEntry wideTab.inherit c 0) = some (.inh 1 0) ∧
    (compressG true wideTab).bind (fun c => findFuncEntry wideTab.inherit c 300) = some (.inh 1 40) := by
  decide +kernel

/-! ### sort_function_table with `temp[oldix]` instead of `inverse[oldix]` (a seeded change the check first missed) -/

/-- the fix-up written with the sort permutation itself instead of its inverse -/
def permuteBad (P : Program) (order : List Nat) : Program :=
  { P with
    ft := order.filterMap (fun i => P.ft[i]?),
    rt := (P.flags.zip P.rt).map fun x =>
      if hasBit x.1 nameInherited then x.2
      else match x.2 with
        | .defn fi na => .defn (order.getD fi 0) na
        | e => e }

def P3 : Program :=
  { id := 1, ft := [{ name := 10, rindex := 0, nameStr := "a" }, { name := 20, rindex := 1, nameStr := "b" },
                    { name := 30, rindex := 2, nameStr := "c" }],
    flags := [0, 0, 0], rt := [.defn 0 0, .defn 1 0, .defn 2 0], inherit := [] }

/-- a 3-cycle is not its own inverse: slot 0 (function "a") then denotes another function; a reversal (its own
    inverse) or the identity hide the mistake — which is why the generator re-creates the names in RANDOM orders -/
theorem temp_instead_of_inverse_misdispatches :
    (slotEntry (permuteBad P3 [2, 0, 1]) 0).map (·.nameStr) = some "b" ∧
    (slotEntry (permuteProgram P3 [2, 0, 1]) 0).map (·.nameStr) = some "a" ∧
    (slotEntry (permuteBad P3 [2, 1, 0]) 0).map (·.nameStr) = some "a" := by
  decide

/-! ### the hit test of apply_low without `entry->id == progp->id_number` -/

def cacheLookupNoId (c : Cache) (ix obProg : Nat) (name : NameKey) : Option CacheEntry :=
  match c[ix]? with
  | some (some e) => if e.oprogp == obProg && e.name == name then some e else none
  | _ => none

def applyLowNoId (w : World) (c : Cache) (origin obProg : Nat) (ptr : Nat) (name : NameKey) : ApplyRes × Cache :=
  match w.progs[obProg]? with
  | none => (.crash, c)
  | some P =>
    let ix := slotOf P.id ptr
    match cacheLookupNoId c ix obProg name with
    | some e =>
      match e.progp with
      | some (q, k, fio, vio) => (enter w origin obProg q k fio vio, c)
      | none => (.fail, c)
    | none => applyMiss w c origin obProg P.id ix name

/-- the program that is allocated at address 0 after `w0`'s program has been freed: another id, and the name `1` is
    not a function of it (its only function is `2`) -/
def pNew : Program := { name := "q0", id := 9, nvt := 1, nvd := 1, ft := [{ name := 2, rindex := 0 }], flags := [0],
                        rt := [.defn 0 0], inherit := [] }

/-- a driver apply of `1` caches (id 3, address 0, `1`); the program is freed and `pNew` gets its address.  A call of
    `1` through a string whose pointer happens to hash to the old slot: without the id test the stale entry answers
    (function `1` of a program that no longer exists "runs"), with it the call fails as on an empty cache — the
    instance of `cache_transparent_across_reuse`. -/
theorem no_id_test_answers_from_a_freed_program :
    let c := (applyLow w0 Cache.empty originDriver 0 1 1).2
    let w' := reuse w0 0 pNew
    slotOf 9 11 = slotOf 3 1 ∧
    (applyLowNoId w' c originDriver 0 11 1).1 = .call 0 0 0 0 ∧
    (applyLow w' c originDriver 0 11 1).1 = .fail ∧
    (applyLow w' Cache.empty originDriver 0 11 1).1 = .fail := by
  decide

end NV.C07.Witness
