/-
C07 — executable model of the CONSTRUCTION of a program's function tables by the LPC compiler
(lib/lpc/compiler.c, lib/lpc/grammar.y), written from the code as it exists after the `fix:` commits:

  inheritance rule (grammar.y)    inherit_t { prog, function_index_offset = #runtime entries so far,
                                  variable_index_offset = #variables so far, type_mod }, then copy_functions
  copy_functions                  for every runtime slot of the inherited program: walk to the real definition to
                                  get the name; known identifier -> overload_function, else copy_function
  copy_function                   new slot: flags = (flags & NAME_MASK) | DEF_BY_INHERIT | UNDEFINED,
                                  private => hidden, |= type_mod, public cancels private; identifier -> this slot
  overload_function               new ALIAS slot (alias_for = the identifier's slot); "the latest wins": if the old slot
                                  is not defined at this level and the new function has code, the old slot takes the
                                  new flags / entry (a prototype of this level is marked for removal)
  define_new_function             prototypes and definitions (called twice per definition: header, then after the body)
  epilog                          DEF_BY_INHERIT & UNDEFINED slots become INHERITED (and lose UNDEFINED when real);
                                  alias slots take the flags of the aliased slot (and its entry when that one is
                                  defined here or overloaded at least twice)
  copy_and_sort_function_table    compiler functions sorted by name pointer, removed ones dropped, f_index remapped
  arrange_call_inherited /        operands of `::f()`, `A::f()`; local calls and `(: f :)` use the identifier's slot
  find_matching_function

compress_function_tables + FIND_FUNC_ENTRY are not modelled separately: the model builds the uncompressed runtime
entries and the harness dumps the real ones through FIND_FUNC_ENTRY, so compression followed by decompression is
validated to be the identity on every compiled program.

The driver renders the MODEL-built tables in the format of the harness' `tbl` lines; the trace comparison then
demands that they are identical to the REAL dumped tables for every generated program.
-/
import NV.C07.Model

namespace NV.C07

open NV.Gen.C07

/-- a call written in a function body -/
inductive SrcCall where
  | loc (name : NameKey)
  | fp (name : NameKey)
  | sup (parent : Option Nat) (name : NameKey)     -- `A::f()` (A = index of the program) / `::f()`
  | stashSup (parent : Option Nat) (name : NameKey)  -- `(: A::f() :)` made and stored
  | stashLoc (name : NameKey)                       -- `(: f() :)` made and stored
  | runStash                                        -- the stored functional is fetched and evaluated (no operand of its own)
  deriving Repr, BEq, DecidableEq

/-- one top-level item of a source file, in source order -/
inductive Item where
  | inh (mods : Nat) (prog : Nat)                                   -- `mods inherit "prog";`
  | proto (mods : Nat) (name : NameKey) (nameStr : String)          -- `mods string f();`
  | defn (mods : Nat) (name : NameKey) (nameStr : String) (calls : List SrcCall)
  | var (mods : Nat)                                                -- a global variable declaration
  deriving Repr

/-- one runtime function entry while compiling: A_FUNCTION_FLAGS + A_RUNTIME_FUNCTIONS + A_FUNCTION_DEFS -/
structure BSlot where
  flags : Nat
  rt : REntry                  -- `defn cidx numArg` holds the COMPILER function index until the table is sorted
  isLocal : Bool               -- FUNCTION_PROG (n) == 0
  cidx : Nat                   -- FUNCTION_TEMP (n)->u.index when local
  aliasFor : Nat               -- FUNCTION_ALIAS (n)
  deriving Repr

/-- one A_COMPILER_FUNCTIONS entry -/
structure CFunc where
  name : NameKey
  nameStr : String
  rindex : Nat
  removed : Bool := false      -- address == USHRT_MAX
  ops : List CallOp := []
  deriving Repr

structure BState where
  slots : List BSlot := []
  cfuncs : List CFunc := []
  idents : List (NameKey × Nat) := []       -- ihe->dn.function_num
  inherits : List Inherit := []
  nvars : Nat := 0                          -- entries of A_VAR_TEMP
  nvd : Nat := 0                            -- entries of A_VAR_NAME
  deriving Repr

def nameMask : Nat :=
  nameUndefined ||| nameStrictTypes ||| namePrototype ||| nameTrueVarargs |||
  (nameHidden ||| nameStatic ||| nameNoMask ||| namePrivate ||| nameProtected ||| namePublic ||| nameVarargs)

def nameNoCode : Nat := nameUndefined ||| nameAlias ||| namePrototype

def BState.ident (s : BState) (name : NameKey) : Option Nat := (s.idents.find? (·.1 == name)).map (·.2)

/-- flags of an inherited function at this level (shared by copy_function and overload_function) -/
def inheritedFlags (srcFlags typemod : Nat) : Nat :=
  let f := (srcFlags &&& nameMask) ||| nameDefByInherit ||| nameUndefined
  let f := if hasBit f namePrivate then f ||| nameHidden else f
  let f := f ||| typemod
  if hasBit f namePublic then f &&& (f ^^^ namePrivate) else f

def modifySlot (s : BState) (i : Nat) (f : BSlot → BSlot) : BState :=
  { s with slots := s.slots.modify i f }

/-- copy_function (prog, index, defprog, defindex, typemod) -/
def copyFunction (s : BState) (srcFlags index typemod : Nat) (name : NameKey) : BState :=
  let wh := s.slots.length
  { s with
    slots := s.slots ++ [{ flags := inheritedFlags srcFlags typemod, rt := .inh (s.inherits.length - 1) index,
                           isLocal := false, cidx := 0, aliasFor := 1 }],
    idents := s.idents ++ [(name, wh)] }

/-- overload_function, part 1: the new alias entry (FUNCTION_ALIAS (alias) = oldindex) -/
def addAlias (s : BState) (index oldindex : Nat) : BState :=
  { s with slots := s.slots ++ [{ flags := nameInherited ||| nameAlias, rt := .inh (s.inherits.length - 1) index,
                                  isLocal := false, cidx := 0, aliasFor := oldindex }] }

/-- overload_function, part 2: "the latest function wins" — if the old slot is not defined at this level and the new
    function has code, the old slot takes the new flags and entry; a prototype of this level is marked for removal -/
def latestWins (s : BState) (old : BSlot) (srcFlags index oldindex typemod : Nat) : BState :=
  if hasBit old.flags nameUndefined && !(hasBit srcFlags nameNoCode) then
    modifySlot
      (if old.isLocal then { s with cfuncs := s.cfuncs.modify old.cidx (fun c => { c with removed := true }) } else s)
      oldindex (fun sl => { sl with flags := inheritedFlags srcFlags typemod, isLocal := false,
                                    rt := .inh (s.inherits.length - 1) index })
  else s

/-- overload_function, part 3: `if (!(newflags & NAME_ALIAS)) FUNCTION_ALIAS (oldindex)++` -/
def bumpCount (s : BState) (srcFlags oldindex : Nat) : BState :=
  if !(hasBit srcFlags nameAlias) then modifySlot s oldindex (fun sl => { sl with aliasFor := sl.aliasFor + 1 }) else s

/-- overload_function (prog, index, defprog, defindex, oldindex, typemod) -/
def overloadFunction (s : BState) (srcFlags index oldindex typemod : Nat) : BState :=
  match s.slots[oldindex]? with
  | none => s
  | some old => bumpCount (latestWins (addAlias s index oldindex) old srcFlags index oldindex typemod) srcFlags oldindex

/-- one iteration of copy_functions: runtime slot i of the inherited program Q (= world program q) -/
def copyStep (w : World) (q : Nat) (Q : Program) (mods : Nat) (s : BState) (i : Nat) : BState :=
  match chase w w.fuel q i 0 0 with
  | none => s
  | some fr =>
    match (w.progs[fr.prog]?.bind (·.ft[fr.fidx]?)) with
    | none => s
    | some fe =>
      let srcFlags := Q.flags.getD i 0
      match s.ident fe.name with
      | some num => overloadFunction s srcFlags i num mods
      | none => copyFunction s srcFlags i mods fe.name

/-- the inheritance rule of grammar.y + copy_variables (count only) + copy_functions -/
def doInherit (w : World) (s : BState) (mods q : Nat) : BState :=
  match w.progs[q]? with
  | none => s
  | some Q =>
    let s := { s with inherits := s.inherits ++ [{ prog := q, fio := s.slots.length, vio := s.nvars, typeMod := mods }],
                      nvars := s.nvars + Q.nvt }
    (List.range Q.flags.length).foldl (copyStep w q Q mods) s

/-- the number of parameters of a generated function is a function of its name (fK has K mod 3 parameters): the
    `num_arg` the grammar passes to define_new_function -/
def arityOf (fn : String) : Nat := if fn.startsWith "f" then digitsOf fn % 3 else 0

/-- define_new_function (name, num_arg, num_local, flags, type): `flags` = NAME_UNDEFINED|NAME_PROTOTYPE for the
    header / a prototype, 0 for the definition proper; all generated functions are typed, so exact_types is on -/
def defineNewFunction (s : BState) (name : NameKey) (nameStr : String) (flags mods : Nat) : BState × Option Nat :=
  let isProto := hasBit flags namePrototype
  match s.ident name with
  | some rn =>
    match s.slots[rn]? with
    | none => (s, none)
    | some sl =>
      if !(hasBit sl.flags nameUndefined) && !isProto then (s, none)          -- "Redeclaration of function"
      else if isProto then (s, none)                                           -- yet another prototype
      else
        -- reuse the compiler function of a prototype of this level, else a new one
        let (s, num) :=
          if sl.isLocal then (s, sl.cidx)
          else ({ s with cfuncs := s.cfuncs ++ [{ name, nameStr, rindex := rn }] }, s.cfuncs.length)
        let s := modifySlot s rn (fun sl => { sl with isLocal := true, cidx := num, flags := mods ||| flags ||| nameStrictTypes,
                                                      rt := .defn num (arityOf nameStr), aliasFor := sl.aliasFor + 1 })
        let s := { s with cfuncs := s.cfuncs.modify num (fun c => { c with rindex := rn }) }
        (s, some num)
  | none =>
    let num := s.cfuncs.length
    let rn := s.slots.length
    ({ s with cfuncs := s.cfuncs ++ [{ name, nameStr, rindex := rn }],
              slots := s.slots ++ [{ flags := mods ||| flags ||| nameStrictTypes, rt := .defn num (arityOf nameStr), isLocal := true,
                                     cidx := num, aliasFor := 1 }],
              idents := s.idents ++ [(name, rn)] },
     if isProto then none else some num)

/-- arrange_call_inherited: inherits first to last (restricted by name), find_matching_function in each -/
def arrangeCallInherited (w : World) (s : BState) (parent : Option Nat) (name : NameKey) : Option CallOp :=
  (s.inherits.zipIdx.filter (fun (ih, _) => match parent with | none => true | some a => ih.prog == a)).findSome?
    fun (ih, k) =>
      match find w ih.prog name with
      | .found q i fio _ => ((w.progs[q]?.bind (·.ft[i]?)).map (fun e => CallOp.sup k (e.rindex + fio)))
      | _ => none

def compileCalls (w : World) (s : BState) (calls : List SrcCall) : List CallOp :=
  calls.filterMap fun c =>
    match c with
    | .loc n => (s.ident n).map CallOp.loc
    | .fp n => (s.ident n).map CallOp.fp
    | .sup par n => arrangeCallInherited w s par n
    | .stashSup par n => (arrangeCallInherited w s par n).map fun
        | .sup k i => CallOp.stashSup k i
        | o => o
    | .stashLoc n => (s.ident n).map CallOp.stashLoc
    | .runStash => some CallOp.runStash

def doItem (w : World) (s : BState) : Item → BState
  | .inh mods q => doInherit w s mods q
  | .var _ => { s with nvars := s.nvars + 1, nvd := s.nvd + 1 }
  | .proto mods name nameStr => (defineNewFunction s name nameStr (nameUndefined ||| namePrototype) mods).1
  | .defn mods name nameStr calls =>
    -- header: a prototype; then the body is compiled; then the definition proper
    let s := (defineNewFunction s name nameStr (nameUndefined ||| namePrototype) mods).1
    let ops := compileCalls w s calls
    let (s, fn) := defineNewFunction s name nameStr 0 mods
    match fn with
    | some num => { s with cfuncs := s.cfuncs.modify num (fun c => { c with ops := ops }) }
    | none => s

/-- the new value of runtime entry i in one iteration of the loop of epilog(); `slots` is the table before the
    iteration (the aliased entry is read after entry i itself has been updated, which only matters if an entry
    aliased itself) -/
def epilogSlot (slots : List BSlot) (i : Nat) (sl : BSlot) : BSlot :=
  -- functions not defined at this level but defined below: inherited (and real, unless prototype / alias)
  let byInh := hasBit sl.flags nameUndefined && hasBit sl.flags nameDefByInherit
  let ff := if byInh && !(hasBit sl.flags (namePrototype ||| nameAlias)) then sl.flags &&& (sl.flags ^^^ nameUndefined)
            else sl.flags
  let f1 := if byInh then ff ||| nameInherited else sl.flags
  let fr : Nat × REntry :=
    if hasBit ff nameAlias then
      match (if sl.aliasFor = i then some { sl with flags := f1 } else slots[sl.aliasFor]?) with
      | none => (f1, sl.rt)
      | some wh =>
        if !(hasBit wh.flags nameInherited) || wh.aliasFor ≥ 2 then (wh.flags ||| nameAlias, wh.rt)
        else (wh.flags ||| nameAlias, sl.rt)
    else (f1, sl.rt)
  { sl with flags := fr.1, rt := fr.2 }

/-- one iteration of the loop of epilog() over the runtime entries -/
def epilogStep (slots : List BSlot) (i : Nat) : List BSlot :=
  match slots[i]? with
  | none => slots
  | some sl => slots.set i (epilogSlot slots i sl)

def epilogSlots (slots : List BSlot) : List BSlot := (List.range slots.length).foldl epilogStep slots

/-- insertion of a compiler function index into a list sorted by name pointer -/
def insertByKey (cf : List CFunc) (x : Nat) : List Nat → List Nat
  | [] => [x]
  | y :: rest =>
    if ((cf[x]?.map (·.name)).getD 0) < ((cf[y]?.map (·.name)).getD 0) then x :: y :: rest
    else y :: insertByKey cf x rest

/-- copy_and_sort_function_table: order of the surviving compiler functions -/
def sortedOrder (cf : List CFunc) : List Nat :=
  ((List.range cf.length).filter (fun i => !((cf[i]?.map (·.removed)).getD true))).foldl (fun acc i => insertByKey cf i acc) []

/-- the finished program -/
def finish (name : String) (id : Nat) (s : BState) (heartBeatKey : Option NameKey := none) : Program :=
  let slots := epilogSlots s.slots
  let order := sortedOrder s.cfuncs
  let inverse (old : Nat) : Nat := (order.findIdx? (· == old)).getD order.length
  { name, id, nvt := s.nvars, nvd := s.nvd,
    ft := order.filterMap (fun i => s.cfuncs[i]?.map (fun c => { name := c.name, rindex := c.rindex, nameStr := c.nameStr, ops := c.ops })),
    flags := slots.map (·.flags),
    rt := slots.map (fun sl =>
      if hasBit sl.flags nameInherited then sl.rt
      else match sl.rt with
        | .defn ci na => .defn (inverse ci) na
        | e => e),
    inherit := s.inherits,
    -- epilog(): `ihe = lookup_ident ("heart_beat"); prog->heart_beat = ihe ? ihe->dn.function_num : -1`
    heartBeat := heartBeatKey.bind s.ident }

/-- compile one source file against the world of already compiled programs -/
def buildProgram (w : World) (name : String) (id : Nat) (items : List Item) (heartBeatKey : Option NameKey := none) :
    Program :=
  finish name id (items.foldl (doItem w) {}) heartBeatKey

/-! ### rendering in the format of the harness' `tbl` line -/

def renderOps (ops : List CallOp) : String :=
  -- what the bytecode shows: the call inside a stored functional looks like any other; fetching the stored functional
  -- back has no operand
  let shown := ops.filterMap fun
    | .loc i => some s!"L{i}"
    | .fp i => some s!"F{i}"
    | .sup a b => some s!"S{a}.{b}"
    | .stashSup a b => some s!"S{a}.{b}"
    | .stashLoc i => some s!"L{i}"
    | .runStash => none
  if shown.isEmpty then "-" else "+".intercalate shown

def renderTbl (w : World) (P : Program) : String :=
  let ft := if P.ft.isEmpty then "-" else
    ",".intercalate (P.ft.map fun e =>
      let real := match P.flags[e.rindex]? with
        | some fl => !(hasBit fl (nameInherited ||| nameNoCode))
        | none => false
      s!"{e.nameStr}:{e.name}:{e.rindex}:{if real then renderOps e.ops else "-"}")
  let fl := if P.flags.isEmpty then "-" else
    ",".intercalate ((P.flags.zip P.rt).map fun (f, e) =>
      match e with
      | .defn a b => s!"{f}:D:{a}:{b}"
      | .inh a b => s!"{f}:I:{a}:{b}")
  let inh := if P.inherit.isEmpty then "-" else
    ",".intercalate (P.inherit.map fun ih =>
      s!"{((w.progs[ih.prog]?).map (·.name)).getD "?"}:{ih.fio}:{ih.vio}:{ih.typeMod}")
  let hb := match P.heartBeat with | some i => toString i | none => "-1"
  s!"tbl {P.name} id={P.id} nvt={P.nvt} nvd={P.nvd} ft={ft} fl={fl} hb={hb} inh={inh}"

end NV.C07
