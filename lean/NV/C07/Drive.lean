/-
C07 driver.

Case lines (shared with harness/c07 and props/c07.py):
  prog <pK> <item>...          abstract source of one program, items in source order:
                                 i:<mods>:<pJ>            inherit statement
                                 p:<mods>:<fn>            prototype
                                 d:<mods>:<fn>:<calls>    definition; calls = `-` or `+`-separated
                                                          L<fn> | S<pJ>.<fn> | S*.<fn> | F<fn>
                               <mods> = `-` or `_`-separated static/private/protected/public
  names <n>... | ld <oid> <pK> | dump <oid>... | call <origin> <oid> <fn> | cold | evict <oid> <fn>

`model` mode: the case body is  <case lines> / -- / <nm, tbl, obj and `ld .. !fail` lines of the implementation trace>;
the MODEL's find_function / apply_low / frame setup run on the REAL tables dumped by the harness.
`judge` mode: <case lines> / -- / <implementation trace>; the SPEC resolver runs on the abstract graph of the
case; in addition WF is evaluated on every dumped table and the abstraction of the real tables is compared
with the abstract graph.
-/
import NV.Common.Proto
import NV.C07.Model
import NV.C07.Spec
import NV.C07.WF
import NV.C07.Build
import NV.C07.LemmasBuild
import NV.C07.Compress
import NV.C07.Binary

namespace NV.C07

open NV.Proto

/-! ### parsing the dumped tables -/

def splitOnC (s : String) (c : String) : List String := if s == "-" || s == "" then [] else s.splitOn c

def parseOps (s : String) : List CallOp :=
  (splitOnC s "+").filterMap fun t =>
    let body := (t.drop 1).toString
    if t.startsWith "L" then body.toNat?.map CallOp.loc
    else if t.startsWith "F" then body.toNat?.map CallOp.fp
    else if t.startsWith "S" then
      match body.splitOn "." with
      | [a, b] => do some (CallOp.sup (← a.toNat?) (← b.toNat?))
      | _ => none
    else none

def kv (t : String) (k : String) : Option String :=
  if t.startsWith (k ++ "=") then some (t.drop (k.length + 1)).toString else none

structure RawProg where
  name : String
  id : Nat
  nvt : Nat
  nvd : Nat
  ft : List FnEntry
  flags : List Nat
  rt : List REntry
  inh : List (String × Nat × Nat × Nat)
  hb : Int := -1

def parseTbl (line : String) : Option RawProg :=
  match toks line with
  | ["tbl", name, id, nvt, nvd, ft, fl, hb, inh] => do
    let hb ← (← kv hb "hb").toInt?
    let id ← (← kv id "id").toNat?
    let nvt ← (← kv nvt "nvt").toNat?
    let nvd ← (← kv nvd "nvd").toNat?
    let ft ← (splitOnC (← kv ft "ft") ",").mapM fun e =>
      match e.splitOn ":" with
      | [n, key, ri, ops] => do
        some ({ name := ← key.toNat?, rindex := ← ri.toNat?, nameStr := n, ops := parseOps ops } : FnEntry)
      | _ => none
    let sl ← (splitOnC (← kv fl "fl") ",").mapM fun e =>
      match e.splitOn ":" with
      | [f, "D", a, b] => do some (← f.toNat?, REntry.defn (← a.toNat?) (← b.toNat?))
      | [f, "I", a, b] => do some (← f.toNat?, REntry.inh (← a.toNat?) (← b.toNat?))
      | _ => none
    let inh ← (splitOnC (← kv inh "inh") ",").mapM fun e =>
      match e.splitOn ":" with
      | [n, a, b, c] => do some (n, ← a.toNat?, ← b.toNat?, ← c.toNat?)
      | _ => none
    some { name, id, nvt, nvd, ft, flags := sl.map (·.1), rt := sl.map (·.2), inh, hb }
  | _ => none

structure Dump where
  names : List (String × Nat) := []
  raws : List RawProg := []
  objs : List (String × String) := []       -- oid, program name
  failed : List String := []                -- oids whose load failed
  lines : List String := []                 -- nm/tbl/obj lines in order
  bad : List String := []
  binloads : Option Nat := none             -- the observed `binloads` line of this epoch's dump

def parseDump (lines : List String) : Dump :=
  let d := lines.foldl (fun (d : Dump) line =>
    match toks line with
    | ["nm", n, k] =>
      match k.toNat? with
      | some k => { d with names := (n, k) :: d.names, lines := line :: d.lines }
      | none => { d with bad := line :: d.bad }
    | "tbl" :: _ =>
      match parseTbl line with
      | some r => { d with raws := r :: d.raws, lines := line :: d.lines }
      | none => { d with bad := line :: d.bad }
    | "cmp" :: _ => { d with lines := line :: d.lines }
    | ["obj", oid, p] => { d with objs := (oid, p) :: d.objs, lines := line :: d.lines }
    | ["ld", oid, "!fail"] => { d with failed := oid :: d.failed }
    | ["binloads", n] => { d with binloads := n.toNat? }
    | _ => d) {}
  { d with names := d.names.reverse, raws := d.raws.reverse, objs := d.objs.reverse, lines := d.lines.reverse }

def Dump.world (d : Dump) : World :=
  let idx (n : String) : Nat := (d.raws.findIdx? (·.name == n)).getD d.raws.length
  { progs := d.raws.map fun r =>
      { name := r.name, id := r.id, nvt := r.nvt, nvd := r.nvd, ft := r.ft, flags := r.flags, rt := r.rt,
        heartBeat := if r.hb < (0 : Int) then none else some (Int.toNat r.hb),
        inherit := r.inh.map fun (n, a, b, c) => { prog := idx n, fio := a, vio := b, typeMod := c } } }

def Dump.key (d : Dump) (n : String) : Option Nat := (d.names.find? (·.1 == n)).map (·.2)

/-- the dumped lines of a trace, split at the `reload ...` lines: after a reload every program is loaded anew (other
    name pointers, other program ids), so each epoch has its own tables -/
def splitEpochs (lines : List String) : List (List String) :=
  let (cur, done) := lines.foldl (fun (acc : List String × List (List String)) l =>
    if l.startsWith "reload " then ([], acc.1.reverse :: acc.2) else (l :: acc.1, acc.2)) ([], [])
  (cur.reverse :: done).reverse

/-! ### parsing the case -/

def parseMods (s : String) : Spec.Mods :=
  let ms := splitOnC s "_"
  { static := ms.contains "static", priv := ms.contains "private", prot := ms.contains "protected",
    pub := ms.contains "public" }

def parseACalls (s : String) : List Spec.ACall :=
  (splitOnC s "+").filterMap fun t =>
    let body := (t.drop 1).toString
    -- L local call; F `evaluate((: f :))`; G the same pointer handed to ANOTHER object that evaluates it
    -- (call_function_pointer switches back to the owner); H / I `(: f() :)`: a functional whose body makes the
    -- local call, evaluated here / by the other object (the functional carries the creator's index offsets)
    if t.startsWith "L" || t.startsWith "H" || t.startsWith "I" then some (.loc body)
    else if t.startsWith "F" || t.startsWith "G" then some (.fp body)
    -- S `::f()` / `A::f()`; J the same call inside a functional `(: ::f() :)` evaluated here; K that functional evaluated
    -- by ANOTHER object (it refers to no global and no local function: only the offsets saved in the pointer tell
    -- the inherited function which copy of the variables and which slots are its own)
    else if t.startsWith "S" || t.startsWith "J" || t.startsWith "K" then
      match body.splitOn "." with
      | ["*", f] => some (.sup none f)
      | [a, f] => some (.sup (some a) f)
      | _ => none
    -- M `(: A::f() :)` and O `(: f() :)` are made and STORED in /c07/caller; N fetches the stored functional of this
    -- object back and evaluates it in whatever function (of whatever inherit level) executes the N
    else if t.startsWith "M" then
      match body.splitOn "." with
      | ["*", f] => some (.stashSup none f)
      | [a, f] => some (.stashSup (some a) f)
      | _ => none
    else if t.startsWith "O" then some (.stashLoc body)
    else if t == "N" then some .runStash
    else none

def parseProg (ts : List String) : Option Spec.AProg :=
  match ts with
  | "prog" :: name :: items =>
    let P : Spec.AProg := { name, inherits := [], fns := [] }
    some (items.foldl (fun (P : Spec.AProg) it =>
      match it.splitOn ":" with
      | ["i", m, par] => { P with inherits := P.inherits ++ [{ mods := parseMods m, parent := par }] }
      | ["p", m, f] =>
        if P.fns.any (·.name == f) then P
        else { P with fns := P.fns ++ [{ name := f, mods := parseMods m, isDef := false, calls := [], nargs := Spec.arityOf f }] }
      | ["d", m, f, cs] =>
        { P with fns := P.fns.filter (·.name != f) ++ [{ name := f, mods := parseMods m, isDef := true, calls := parseACalls cs, nargs := Spec.arityOf f }] }
      | ["v", _] => { P with hasW := true }
      | _ => P) P)
  | _ => none

inductive Cmd where
  | ld (oid prog : String)
  | dump
  | call (o : Origin) (oid fn : String) (args : List Int := [])
  | callT (isArray : Bool) (ts : List Target) (fn : String)
  | cold
  | evict (oid fn : String)
  | reload

structure Parsed where
  savebin : Bool := false
  graph : Spec.AGraph := []
  srcs : List (String × List String) := []      -- program name, its items in source order
  cmds : List Cmd := []
  bad : List String := []

def parseOrigin : String → Option Origin
  | "co" => some .co | "com" => some .com | "drv" => some .drv | "cot" => some .cot | "rco" => some .rco
  | "hb" => some .hb
  | _ => none

def parseTarget (e : String) : Target :=
  if e.startsWith "=" then .path (((e.drop 1).toString.splitOn "/").getLastD "")
  else if e == "0" then .other
  else .obj e

def parseCase (lines : List String) : Parsed :=
  let p := lines.foldl (fun (p : Parsed) line =>
    match toks line with
    | [] => p
    | "prog" :: rest =>
      match parseProg ("prog" :: rest) with
      | some P => { p with graph := p.graph ++ [P], srcs := p.srcs ++ [(P.name, rest.drop 1)] }
      | none => { p with bad := line :: p.bad }
    | "names" :: _ => p
    | ["ld", oid, prog] => { p with cmds := .ld oid ((prog.splitOn "/").getLastD prog) :: p.cmds }
    | "dump" :: _ => { p with cmds := .dump :: p.cmds }
    | ["call", "coa", elems, fn] => { p with cmds := .callT true ((elems.splitOn ",").map parseTarget) fn :: p.cmds }
    | ["call", "cos", elem, fn] => { p with cmds := .callT false [parseTarget elem] fn :: p.cmds }
    | ["call", o, oid, fn] =>
      match parseOrigin o with
      | some o => { p with cmds := .call o oid fn :: p.cmds }
      | none => { p with bad := line :: p.bad }
    | ["call", o, oid, fn, args] =>
      match parseOrigin o, (args.splitOn ",").mapM String.toInt? with
      | some o, some as => { p with cmds := .call o oid fn as :: p.cmds }
      | _, _ => { p with bad := line :: p.bad }
    | ["cold"] => { p with cmds := .cold :: p.cmds }
    | ["savebin"] => { p with savebin := true }
    | "reload" :: _ => { p with cmds := .reload :: p.cmds }
    | ["evict", oid, fn] => { p with cmds := .evict oid fn :: p.cmds }
    | _ => if line.startsWith "#" then p else { p with bad := line :: p.bad }) {}
  { p with cmds := p.cmds.reverse }

/-! ### model mode -/

def modBits (s : String) : Nat :=
  (splitOnC s "_").foldl (fun acc m =>
    acc ||| (if m == "static" then Gen.C07.nameStatic else if m == "private" then Gen.C07.namePrivate
             else if m == "protected" then Gen.C07.nameProtected else if m == "public" then Gen.C07.namePublic else 0)) 0

/-- the source items of one program for the construction model -/
def toItems (progIdx : String → Nat) (key : String → Nat) (items : List String) : List Item :=
  let its := items.filterMap fun it =>
    match it.splitOn ":" with
    | ["i", m, par] => some (Item.inh (modBits m) (progIdx par))
    | ["p", m, f] => some (Item.proto (modBits m) (key f) f)
    | ["d", m, f, cs] =>
      let calls := (parseACalls cs).map fun c =>
        match c with
        | .loc n => SrcCall.loc (key n)
        | .fp n => SrcCall.fp (key n)
        | .sup par n => SrcCall.sup (par.map progIdx) (key n)
        | .stashSup par n => SrcCall.stashSup (par.map progIdx) (key n)
        | .stashLoc n => SrcCall.stashLoc (key n)
        | .runStash => SrcCall.runStash
      some (Item.defn (modBits m) (key f) f calls)
    | _ => none
  let extra := items.filterMap fun it =>
    match it.splitOn ":" with
    | ["v", m] => some (Item.var (modBits m))
    | _ => none
  -- the variable of the program's own level is declared after the last inherit statement
  its ++ [Item.var 0] ++ extra

/-- compile every program of the case with the construction model, parents first (case order) -/
def buildWorld (p : Parsed) (d : Dump) : World :=
  let progIdx (n : String) : Nat := (p.srcs.findIdx? (·.1 == n)).getD p.srcs.length
  let key (n : String) : Nat := (d.key n).getD (900000 + n.length * 131 + NV.C07.digitsOf n)
  p.srcs.foldl (fun (w : World) (name, items) =>
    let id := ((d.raws.find? (·.name == name)).map (·.id)).getD 0
    let st := (toItems progIdx key items).foldl (doItem w) {}
    -- the hypothesis of `built_alias_flags_agree`, evaluated on every program built; a violation is made visible
    -- in the program name, i.e. in the compared `tbl` line
    let name' := if aliasOrdered st.slots then name else name ++ "!alias-not-ordered"
    { progs := w.progs ++ [{ finish name id st (d.key "heart_beat") with name := name' }] }) { progs := [] }

/-- the per-epoch environment of the model run -/
structure MEnv where
  d : Dump
  w : World
  rest : List Dump          -- the dumps of the epochs to come
  epoch : Nat := 0

def runModel (body : List String) : List String :=
  let (input, dumped) := splitJudge body
  let p := parseCase input
  let ds := (splitEpochs dumped).map parseDump
  let bad := ds.foldl (fun acc d => acc ++ d.bad) []
  if !p.bad.isEmpty then p.bad.map (fun l => s!"bad-line {l}")
  else if !bad.isEmpty then bad.map (fun l => s!"bad-dump {l}")
  else
    -- the tables are BUILT by the model of the compiler; from the implementation's dump only the name-pointer
    -- ranks, the program ids and the list of dumped programs / objects are taken
    let d0 := ds.headD {}
    let env0 : MEnv := { d := d0, w := buildWorld p d0, rest := ds.drop 1 }
    let (_, s) := p.cmds.foldl (fun (es : MEnv × St) c =>
      let (env, s) := es
      let d := env.d
      let w := env.w
      let fresh := (d.names.foldl (fun m x => max m x.2) 0) + 1000
      let createKey := (d.key "create").getD (fresh + 7)
      let progOf (n : String) : Option Nat := w.progs.findIdx? (·.name == n)
      match c with
      | .ld oid pn =>
        (env,
         if d.failed.contains oid then { s with out := Ev.line s!"ld {oid} !fail" :: s.out }
         else match progOf pn with
          | some pi => { loadObj w createKey (w.progs.length + 1) { s with callOrigin := 0 } pi with labels := (oid, pi) :: s.labels.filter (·.1 != oid) }
          | none => { s with out := Ev.line s!"bad-prog {pn}" :: s.out })
      | .dump =>
        let lines := d.lines.map fun l =>
          match toks l with
          | "tbl" :: name :: _ =>
            match w.progs.find? (·.name == name) with
            | some P =>
              -- a program compiled again has a new id and the same table: the id is the environment's, taken from
              -- the dumped line
              renderTbl w { P with id := ((parseTbl l).map (·.id)).getD P.id }
            | none => s!"tbl {name} not-in-case"
          | "cmp" :: name :: _ =>
            -- the COMPRESSED table is computed by the model of compress_function_tables from the model-built table;
            -- the decidable hypothesis of `find_func_entry_compress` is evaluated on it (a violation is made visible in
            -- the compared line), and so is the round trip itself
            match w.progs.find? (·.name == name) with
            | some P =>
              let t := RTab.ofProgram P
              let c := compress t
              let wf := if t.cmpWF then "" else "!cmpwf"
              let rtOk := match c with
                | some c => decompress P.inherit c P.rt.length == P.rt.map some
                | none => false
              renderCmp (name ++ wf ++ (if rtOk then "" else "!roundtrip")) c
            | none => s!"cmp {name} not-in-case"
          | _ => l
        -- programs that came from saved binaries since the start of the case / the last reload.  Before a reload nothing
        -- can have been loaded from a binary (exact: 0).  After it the line has to show that binaries WERE used when the
        -- dispatch comparison is made: at least one and at most one per program file loaded so far.  Which programs the
        -- driver agrees to save / accepts as up to date is decided by save_binary / load_binary's staleness and size rules
        -- (the subject of C17 / C18), so the count inside these bounds is observed, not predicted; outside them the model
        -- prints its own expectation (every file loaded so far) and the traces differ.
        let full := s.objs.length
        let nbin :=
          if !(p.savebin && env.epoch > 0) || full == 0 then 0
          else match d.binloads with
            | some k => if 1 ≤ k && k ≤ full then k else full
            | none => full
        (env, { s with out := Ev.line s!"binloads {nbin}" :: ((lines.map Ev.line).reverse ++ s.out) })
      | .call o oid fn args =>
        (env,
         if o == .hb then doHeartBeat w s oid fn else
         match d.key fn with
         | some k => doCall w s o oid fn k args
         | none => { s with out := Ev.line s!"bad-name {fn}" :: s.out })
      | .callT isArray ts fn =>
        (env,
         match d.key fn with
         | some k => doCallTargets w createKey progOf s isArray ts fn k
         | none => { s with out := Ev.line s!"bad-name {fn}" :: s.out })
      | .cold => (env, { s with cache := Cache.empty })
      | .evict oid fn =>
        (env,
         match d.key fn with
         | some k => doEvict w s oid fn k (fresh + k)
         | none => { s with out := Ev.line s!"bad-name {fn}" :: s.out })
      | .reload =>
        -- everything is freed and loaded anew: the name strings live at other addresses (the ranks of the next dump);
        -- a freshly compiled program and a program re-sorted by sort_function_table must be the same table
        let d' := env.rest.headD {}
        let w' := buildWorld p d'
        let key' (n : String) : Nat := (d'.key n).getD (900000 + n.length * 131 + NV.C07.digitsOf n)
        let mism := (w.progs.zip w'.progs).filterMap fun (P, P') =>
          let R := resortProgram P key'
          if R.ft.map (fun e => (e.name, e.rindex, e.nameStr, e.ops)) == P'.ft.map (fun e => (e.name, e.rindex, e.nameStr, e.ops))
             && R.rt == P'.rt && R.flags == P'.flags then none
          else some (Ev.line s!"resort-mismatch {P.name}")
        ({ d := d', w := w', rest := env.rest.drop 1, epoch := env.epoch + 1 },
         { cache := Cache.empty, callOrigin := 0, objs := [], labels := [], out := mism ++ (Ev.line "reload done" :: s.out) }))
      (env0, ({} : St))
    s.out.reverse.map Ev.render

/-! ### judge mode -/

def parseEv (line : String) : Option Spec.Ev :=
  match toks line with
  | ["call", o, oid, fn] => some (.call o oid fn)
  | ["run", tag, old] =>
    match tag.splitOn ":", old.toInt? with
    | [f, n], some v => some (.run f n v)
    | _, _ => none
  | "args" :: vs => (vs.mapM String.toInt?).map .args
  | "err" :: _ => some .err
  | ["ret", v] => some (.ret v)
  | "vars" :: oid :: vs => (vs.mapM String.toInt?).map (.vars oid)
  | _ => none

/-- compare expected and observed events; verdict lines -/
def compareEvs (exp obs : List Spec.Ev) : List String :=
  let rec go (i : Nat) : List Spec.Ev → List Spec.Ev → List String
    | [], [] => []
    | e :: _, [] => [s!"dispatch at={i} expected=({e.show}) got=(end-of-trace)"]
    | [], o :: _ => [s!"dispatch at={i} expected=(end) got=({o.show})"]
    | e :: es, o :: os =>
      if e == o then go (i + 1) es os
      else
        let kind :=
          match e, o with
          | .ret "!no", .run .. => "visibility"       -- a refused call ran
          | .ret "0", .run .. => "visibility"
          | .run .., .ret "!no" => "call-lost"        -- an allowed call did not run
          | .run .., .ret "swept" => "call-lost"
          | .vars .., .vars .. => "variables"
          | .args .., .args .. => "arguments"         -- the callee found other values in its parameters
          | _, _ => "dispatch"
        [s!"{kind} at={i} expected=({e.show}) got=({o.show})"]
  go 0 exp obs

/-- the real tables must describe the same graph as the case: same programs, same defined names, same
    inherit lists -/
def abstractionCheck (g : Spec.AGraph) (d : Dump) : List String :=
  let w := d.world
  g.foldl (fun acc P =>
    match d.raws.find? (·.name == P.name) with
    | none => acc     -- not loaded in this case
    | some r =>
      let realDefs := (r.ft.filter (fun e => !(hasBit (r.flags.getD e.rindex 0) (Gen.C07.nameUndefined ||| Gen.C07.namePrototype ||| Gen.C07.nameInherited)))).map (·.nameStr)
      let specDefs := (P.fns.filter (·.isDef)).map (·.name)
      let realInh := r.inh.map (·.1)
      let specInh := P.inherits.map (·.parent)
      let acc := if realDefs.all specDefs.contains && specDefs.all realDefs.contains then acc
                 else acc ++ [s!"abstraction prog={P.name} defs real={realDefs} spec={specDefs}"]
      if realInh == specInh then acc else acc ++ [s!"abstraction prog={P.name} inherits real={realInh} spec={specInh}"]) []
  ++ (if w.progs.isEmpty && !d.objs.isEmpty then ["abstraction no-tables"] else [])

/-- every runtime slot of every dumped program against the specification: the slot's function name resolves in the
    abstract graph iff the slot is not NAME_UNDEFINED; if it resolves, the slot chases to the program the resolver
    names and its modifier bits are the specification's effective modifiers along that path -/
def slotsAgainstSpec (g : Spec.AGraph) (d : Dump) : List String :=
  let w := d.world
  let U := Gen.C07.nameUndefined
  w.progs.zipIdx.foldl (fun acc (P, pi) =>
    if (w.progs.take pi).any (·.name == P.name) then acc else     -- a re-compiled copy of the same file
    let gp := g.indexOf P.name
    if gp ≥ g.length then acc else
    (List.range P.flags.length).foldl (fun acc i =>
      let fl := P.flags.getD i 0
      match chase w w.fuel pi i 0 0 with
      | none => acc ++ [s!"build-slot prog={P.name} slot={i} does-not-chase"]
      | some fr =>
        let defProg := ((w.progs[fr.prog]?).map (·.name)).getD "?"
        let fn := ((w.progs[fr.prog]?.bind (·.ft[fr.fidx]?)).map (·.nameStr)).getD "?"
        match Spec.resolve g.toS gp fn with
        | none =>
          if hasBit fl U then acc else acc ++ [s!"build-slot prog={P.name} slot={i} fn={fn} unresolvable-but-not-undefined flags={fl}"]
        | some path =>
          let m := Spec.effMods g fn gp path
          let want := ((g[Spec.endOf g gp path]?).map (·.name)).getD "?"
          let ok := !(hasBit fl U) && defProg == want &&
            hasBit fl Gen.C07.nameStatic == m.static && hasBit fl Gen.C07.namePrivate == m.priv &&
            hasBit fl Gen.C07.nameProtected == m.prot && hasBit fl Gen.C07.namePublic == m.pub
          if ok then acc
          else acc ++ [s!"build-slot prog={P.name} slot={i} fn={fn} flags={fl} target={defProg} spec-target={want} spec-mods=static:{m.static},private:{m.priv},protected:{m.prot},public:{m.pub}"]) acc) []

def runJudge (body : List String) : List String :=
  let (input, impl) := splitJudge body
  let p := parseCase input
  let d := parseDump impl
  let crashes := impl.filter (fun l => l.startsWith "crash" || l.startsWith "sanitizer" || l.startsWith "badcmd")
  -- a case whose graph names a program it does not define is not a case (the shrinker must not produce one)
  let dangling := p.graph.foldl (fun acc P =>
    acc ++ (P.inherits.filter (fun i => p.graph.all (·.name != i.parent))).map (fun i => s!"{P.name} inherits undefined {i.parent}")) []
  if !p.bad.isEmpty then p.bad.map (fun l => s!"bad malformed-case {l}")
  else if !dangling.isEmpty then dangling.map (fun l => s!"bad malformed-case {l}")
  else if !crashes.isEmpty then crashes.map (fun l => s!"bad crash {l}")
  else if !d.failed.isEmpty then d.failed.map (fun o => s!"bad load-failed {o}")
  else
    let g := p.graph
    -- expected events from the specification
    let toST (t : Target) : Spec.STarget := match t with | .obj l => .obj l | .path n => .path n | .other => .other
    let st := p.cmds.foldl (fun (st : Spec.SSt) c =>
      match c with
      | .ld oid pn =>
        let pi := g.indexOf pn
        { Spec.specLoad g (g.length + 1) st pi with labels := (oid, pi) :: st.labels }
      | .call o oid fn args => Spec.specCall g st o.str oid fn args
      | .callT isArray ts fn => Spec.specCallTargets g st isArray (ts.map toST) fn
      | .reload => { st with objs := [], labels := [], stash := none }   -- every object is gone; variables start from 0
      | _ => st) {}
    let expRev := st.evs
    let obs := impl.filterMap parseEv
    let v1 := compareEvs expRev.reverse obs
    -- the table checks are made on the tables of every epoch (before / after each reload)
    let v23 := ((splitEpochs impl).map parseDump).foldl (fun acc d =>
      let w := d.world
      let v2 := if d.raws.isEmpty then [] else (wfReport w).map (fun s => s!"wf {s}")
      acc ++ v2 ++ abstractionCheck g d ++ slotsAgainstSpec g d) []
    -- a case that saves binaries must really load them after a reload (otherwise the comparison would say nothing
    -- about load_binary): `binloads 0` after a reload with objects loaded is a harness failure
    match v1 ++ v23 with
    | [] => ["ok"]
    | vs => vs.map (fun v => s!"bad {v}")

def main (mode : String) : IO Unit :=
  match mode with
  | "model" => serve runModel
  | "judge" => serve runJudge
  | _ => IO.eprintln s!"C07: unknown mode {mode}"

end NV.C07
