/-
C07 — decidable well-formedness of dumped program tables, and the abstraction of tables to the
specification's graph.  `WF` is the hypothesis of `find_function_correct` and `frame_offsets_correct`;
the judge EVALUATES it on every real table dumped by the harness (`wfReport`), so the hypothesis is checked on
exactly the data the theorems are applied to.
-/
import NV.C07.Model
import NV.C07.Spec

namespace NV.C07

open NV.Gen.C07

/-- is table entry `e` of program P a real definition (has code at this level)? -/
def isReal (P : Program) (e : FnEntry) : Bool :=
  match P.flags[e.rindex]? with
  | some fl => !(hasBit fl (nameUndefined ||| namePrototype ||| nameInherited))
  | none => false

/-- prototype / undefined entry that is NOT marked inherited: find_function answers "not here" -/
def isBlocker (P : Program) (e : FnEntry) : Bool :=
  match P.flags[e.rindex]? with
  | some fl => hasBit fl (nameUndefined ||| namePrototype ||| nameInherited) && !(hasBit fl nameInherited)
  | none => false

/-- the specification's view of the tables: which names have a body where, who inherits whom -/
def abstr (w : World) : List (Spec.SProg NameKey) :=
  w.progs.map fun P => { defs := (P.ft.filter (isReal P)).map (·.name), inherits := P.inherit.map (·.prog) }

/-- strictly increasing name pointers -/
def sortedKeys : List Nat → Bool
  | [] => true
  | [_] => true
  | a :: b :: rest => a < b && sortedKeys (b :: rest)

/-- the clauses used by `find_function_correct` -/
def wfFindProg (w : World) (p : Nat) (P : Program) : Bool :=
  sortedKeys (P.ft.map (·.name)) &&
  P.ft.all (fun e => e.rindex < P.flags.length) &&
  P.inherit.all (fun ih => ih.prog < p) &&
  -- an undefined / prototype-only entry hides nothing: no inherit provides that name
  P.ft.all (fun e => !(isBlocker P e) ||
    P.inherit.all (fun ih => (Spec.resolveFrom (abstr w) (w.progs.length + 1) ih.prog e.name).isNone))

def wfFind (w : World) : Bool := w.progs.zipIdx.all (fun (P, p) => wfFindProg w p P)

/-- the clauses about runtime slots used by the frame theorems: every slot has an entry of the kind its flags
    announce, inherited entries point into an inherit and into that program's slots, defined entries into the
    function table -/
def wfSlotsProg (w : World) (p : Nat) (P : Program) : Bool :=
  P.rt.length == P.flags.length &&
  P.inherit.all (fun ih => ih.prog < p) &&
  (P.flags.zip P.rt).all (fun (fl, e) =>
    match e with
    | .inh off idx =>
      hasBit fl nameInherited &&
      (match P.inherit[off]? with
       | some ih =>
         (match w.progs[ih.prog]? with
          | some Q =>
            -- in range, and "undefined" is inherited with the slot: the NAME_UNDEFINED test of local calls and
            -- function pointers looks at THIS slot only
            (match Q.flags[idx]? with
             | some fq => hasBit fl nameUndefined == hasBit fq nameUndefined
             | none => false)
          | none => false)
       | none => false)
    | .defn fi _ => !(hasBit fl nameInherited) && fi < P.ft.length)

def wfSlots (w : World) : Bool := w.progs.zipIdx.all (fun (P, p) => wfSlotsProg w p P)

/-- inherit offsets are laid out as the compiler lays them out: consecutive blocks of slots / variables -/
def wfOffsetsProg (w : World) (P : Program) : Bool :=
  let rec go (fnext vnext : Nat) : List Inherit → Bool
    | [] => fnext ≤ P.flags.length && vnext + P.nvd == P.nvt
    | ih :: rest =>
      match w.progs[ih.prog]? with
      | none => false
      | some Q => fnext ≤ ih.fio && ih.vio == vnext && go (ih.fio + Q.flags.length) (vnext + Q.nvt) rest
  go 0 0 P.inherit

/-- table entries and runtime slots point at each other: the slot `function_table[k].runtime_index` is defined here (or
    is a prototype / undefined entry of this level) and its `def.f_index` is k again; conversely a slot defined here that
    is not an alias points to an entry whose runtime_index is that slot.  (sort_function_table, which re-sorts the table
    of a program loaded from a saved binary, must keep exactly this.) -/
def wfBackrefsProg (P : Program) : Bool :=
  P.ft.zipIdx.all (fun (e, k) =>
    match P.flags[e.rindex]?, P.rt[e.rindex]? with
    | some fl, some (.defn fi _) => hasBit fl nameInherited || fi == k
    | some fl, some (.inh ..) => hasBit fl nameInherited
    | _, _ => false) &&
  (P.flags.zip P.rt).zipIdx.all (fun ((fl, e), i) =>
    match e with
    | .defn fi _ =>
      hasBit fl nameInherited || hasBit fl nameAlias ||
        (match P.ft[fi]? with
         | some fe => fe.rindex == i
         | none => false)
    | .inh .. => true)

def WF (w : World) : Bool := wfFind w && wfSlots w && w.progs.all (wfOffsetsProg w) && w.progs.all wfBackrefsProg

/-- which clause fails where (for the judge) -/
def wfReport (w : World) : List String :=
  w.progs.zipIdx.foldl (fun acc (P, p) =>
    acc ++ (if wfFindProg w p P then [] else [s!"prog={P.name} clause=find (sorted table / indices / prototype entries)"])
        ++ (if wfSlotsProg w p P then [] else [s!"prog={P.name} clause=slots"])
        ++ (if wfOffsetsProg w P then [] else [s!"prog={P.name} clause=offsets"])
        ++ (if wfBackrefsProg P then [] else [s!"prog={P.name} clause=backrefs (function_table <-> runtime slots)"])) []

end NV.C07
