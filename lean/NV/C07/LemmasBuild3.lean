/-
C07 — one more invariant of the table construction, for ALL programs the construction model builds: the
function_index_offsets of the inherit list never decrease (each inherit statement records the number of runtime
slots so far, and no operation ever removes a slot).  This is the clause `fioSorted` of `cmpWF`, the hypothesis under
which find_func_entry's binary search over the inherit list is correct (`find_func_entry_compress`).
-/
import NV.C07.Build
import NV.C07.Compress
import NV.C07.LemmasBuild
import NV.C07.LemmasBuild2

namespace NV.C07

open NV.Gen.C07

/-! ### no operation removes a runtime slot -/

theorem len_modifySlot (s : BState) (i : Nat) (f : BSlot → BSlot) : (modifySlot s i f).slots.length = s.slots.length := by
  simp [modifySlot]

theorem len_copyFunction (s : BState) (a b c : Nat) (n : NameKey) :
    s.slots.length ≤ (copyFunction s a b c n).slots.length := by
  simp [copyFunction]

theorem len_overloadFunction (s : BState) (a b c d : Nat) : s.slots.length ≤ (overloadFunction s a b c d).slots.length := by
  unfold overloadFunction
  cases s.slots[c]? with
  | none => exact Nat.le_refl _
  | some old =>
    simp only [bumpCount, latestWins, addAlias]
    split <;> split <;> (try split) <;> simp [modifySlot]

theorem len_defineNewFunction (s : BState) (n : NameKey) (ns : String) (a b : Nat) :
    s.slots.length ≤ (defineNewFunction s n ns a b).1.slots.length := by
  unfold defineNewFunction
  simp only
  cases s.ident n with
  | none => simp
  | some rn =>
    simp only
    cases s.slots[rn]? with
    | none => exact Nat.le_refl _
    | some sl =>
      simp only
      split
      · exact Nat.le_refl _
      · split
        · exact Nat.le_refl _
        · split <;> simp [modifySlot]

theorem len_copyStep (w : World) (Q : Program) (m q : Nat) (s0 : BState) (i : Nat) :
    s0.slots.length ≤ (copyStep w q Q m s0 i).slots.length := by
  unfold copyStep
  cases chase w w.fuel q i 0 0 with
  | none => exact Nat.le_refl _
  | some fr =>
    simp only
    cases (w.progs[fr.prog]?.bind (·.ft[fr.fidx]?)) with
    | none => exact Nat.le_refl _
    | some fe =>
      simp only
      cases s0.ident fe.name with
      | none => exact len_copyFunction s0 _ _ _ _
      | some num => exact len_overloadFunction s0 _ _ _ _

theorem len_copyFunctions (w : World) (Q : Program) (m q : Nat) (l : List Nat) :
    ∀ s0 : BState, s0.slots.length ≤ (l.foldl (copyStep w q Q m) s0).slots.length := by
  induction l with
  | nil => intro s0; exact Nat.le_refl _
  | cons i rest ih =>
    intro s0
    simp only [List.foldl_cons]
    exact Nat.le_trans (len_copyStep w Q m q s0 i) (ih _)

theorem epilogSlots_length (slots : List BSlot) : (epilogSlots slots).length = slots.length := by
  unfold epilogSlots
  have key : ∀ (l : List Nat) (acc : List BSlot), (l.foldl epilogStep acc).length = acc.length := by
    intro l
    induction l with
    | nil => intro acc; rfl
    | cons a rest ih => intro acc; simp only [List.foldl_cons]; rw [ih, epilogStep_length]
  exact key _ _

/-! ### the invariant -/

/-- offsets in order, and none beyond the slots that exist -/
def FioOK (s : BState) : Prop :=
  List.Pairwise (fun a b : Inherit => a.fio ≤ b.fio) s.inherits ∧ ∀ ih ∈ s.inherits, ih.fio ≤ s.slots.length

theorem fioOK_of_same_inherits (s s' : BState) (h : FioOK s) (hi : s'.inherits = s.inherits)
    (hl : s.slots.length ≤ s'.slots.length) : FioOK s' := by
  refine ⟨by rw [hi]; exact h.1, ?_⟩
  intro ih hm
  rw [hi] at hm
  exact Nat.le_trans (h.2 ih hm) hl

theorem fioOK_doItem (w : World) (s : BState) (it : Item) (h : FioOK s) : FioOK (doItem w s it) := by
  cases it with
  | var m => exact fioOK_of_same_inherits s _ h rfl (Nat.le_refl _)
  | proto m name nameStr =>
    exact fioOK_of_same_inherits s _ h (inherits_defineNewFunction s _ _ _ _) (len_defineNewFunction s _ _ _ _)
  | defn m name nameStr calls =>
    have h1 : FioOK (defineNewFunction s name nameStr (nameUndefined ||| namePrototype) m).1 :=
      fioOK_of_same_inherits s _ h (inherits_defineNewFunction s _ _ _ _) (len_defineNewFunction s _ _ _ _)
    have h2 : FioOK (defineNewFunction (defineNewFunction s name nameStr (nameUndefined ||| namePrototype) m).1 name nameStr 0 m).1 :=
      fioOK_of_same_inherits _ _ h1 (inherits_defineNewFunction _ _ _ _ _) (len_defineNewFunction _ _ _ _ _)
    unfold doItem
    simp only
    split
    · exact fioOK_of_same_inherits _ _ h2 rfl (Nat.le_refl _)
    · exact h2
  | inh m q =>
    show FioOK (doInherit w s m q)
    unfold doInherit
    cases hq : w.progs[q]? with
    | none => exact h
    | some Q =>
      simp only
      -- the state right after the inherit entry has been appended
      have h0 : FioOK { s with inherits := s.inherits ++ [{ prog := q, fio := s.slots.length, vio := s.nvars, typeMod := m }],
                               nvars := s.nvars + Q.nvt } := by
        refine ⟨?_, ?_⟩
        · simp only
          rw [List.pairwise_append]
          refine ⟨h.1, by simp, ?_⟩
          intro a ha b hb
          simp only [List.mem_singleton] at hb
          subst hb
          exact h.2 a ha
        · intro ih hm
          simp only at hm
          rcases List.mem_append.mp hm with hm | hm
          · exact h.2 ih hm
          · simp only [List.mem_singleton] at hm
            subst hm; exact Nat.le_refl _
      exact fioOK_of_same_inherits _ _ h0 (inherits_copyFunctions w Q m q _ _) (len_copyFunctions w Q m q _ _)

theorem fioSorted_of_pairwise : ∀ (l : List Inherit), List.Pairwise (fun a b : Inherit => a.fio ≤ b.fio) l →
    fioSorted l = true := by
  intro l
  induction l with
  | nil => intro _; rfl
  | cons a rest ih =>
    intro h
    cases rest with
    | nil => rfl
    | cons b rest' =>
      rw [List.pairwise_cons] at h
      simp only [fioSorted, Bool.and_eq_true, decide_eq_true_eq]
      exact ⟨h.1 b (by simp), ih h.2⟩

/-- **built_fio_sorted**: in every program the construction model builds, for every world and every list of source
    items, the function_index_offsets of the inherit list never decrease and none lies beyond the runtime table —
    the `fioSorted` clause of `cmpWF` holds by construction -/
theorem built_fio_sorted (w : World) (name : String) (id : Nat) (items : List Item) :
    fioSorted (buildProgram w name id items).inherit = true ∧
    ∀ ih ∈ (buildProgram w name id items).inherit, ih.fio ≤ (buildProgram w name id items).flags.length := by
  have key : ∀ (l : List Item) s, FioOK s → FioOK (l.foldl (doItem w) s) := by
    intro l
    induction l with
    | nil => intro s h; exact h
    | cons it rest ih => intro s h; exact ih _ (fioOK_doItem w s it h)
  have h := key items {} ⟨by simp, by intro ih h; simp at h⟩
  refine ⟨fioSorted_of_pairwise _ h.1, ?_⟩
  intro ih hm
  have : (buildProgram w name id items).flags.length = (items.foldl (doItem w) {}).slots.length := by
    simp [buildProgram, finish, epilogSlots_length]
  rw [this]
  exact h.2 ih hm

end NV.C07
