/-
C07 — one more invariant of the table construction, for ALL programs the construction model builds: the
function_index_offsets of the inherit list never decrease (each inherit statement records the number of runtime
slots so far, and no operation ever removes a slot).  This is the clause `fioSorted` of `cmpWF`, the hypothesis under
which find_func_entry's binary search over the inherit list is correct (`find_func_entry_compress`).
-/
import NV.C07.Build
import NV.C07.Compress
import NV.C07.LemmasBuild
import NV.C07.LemmasBuild2

namespace NV.C07

open NV.Gen.C07

/-! ### no operation removes a runtime slot -/

theorem len_modifySlot (s : BState) (i : Nat) (f : BSlot → BSlot) : (modifySlot s i f).slots.length = s.slots.length := by
  simp [modifySlot]

theorem len_copyFunction (s : BState) (a b c : Nat) (n : NameKey) :
    s.slots.length ≤ (copyFunction s a b c n).slots.length := by
  simp [copyFunction]

theorem len_overloadFunction (s : BState) (a b c d : Nat) : s.slots.length ≤ (overloadFunction s a b c d).slots.length := by
  unfold overloadFunction
  cases s.slots[c]? with
  | none => exact Nat.le_refl _
  | some old =>
    simp only [bumpCount, latestWins, addAlias]
    split <;> split <;> (try split) <;> simp [modifySlot]

theorem len_defineNewFunction (s : BState) (n : NameKey) (ns : String) (a b : Nat) :
    s.slots.length ≤ (defineNewFunction s n ns a b).1.slots.length := by
  unfold defineNewFunction
  simp only
  cases s.ident n with
  | none => simp
  | some rn =>
    simp only
    cases s.slots[rn]? with
    | none => exact Nat.le_refl _
    | some sl =>
      simp only
      split
      · exact Nat.le_refl _
      · split
        · exact Nat.le_refl _
        · split <;> simp [modifySlot]

theorem len_copyStep (w : World) (Q : Program) (m q : Nat) (s0 : BState) (i : Nat) :
    s0.slots.length ≤ (copyStep w q Q m s0 i).slots.length := by
  unfold copyStep
  cases chase w w.fuel q i 0 0 with
  | none => exact Nat.le_refl _
  | some fr =>
    simp only
    cases (w.progs[fr.prog]?.bind (·.ft[fr.fidx]?)) with
    | none => exact Nat.le_refl _
    | some fe =>
      simp only
      cases s0.ident fe.name with
      | none => exact len_copyFunction s0 _ _ _ _
      | some num => exact len_overloadFunction s0 _ _ _ _

theorem len_copyFunctions (w : World) (Q : Program) (m q : Nat) (l : List Nat) :
    ∀ s0 : BState, s0.slots.length ≤ (l.foldl (copyStep w q Q m) s0).slots.length := by
  induction l with
  | nil => intro s0; exact Nat.le_refl _
  | cons i rest ih =>
    intro s0
    simp only [List.foldl_cons]
    exact Nat.le_trans (len_copyStep w Q m q s0 i) (ih _)

theorem epilogSlots_length (slots : List BSlot) : (epilogSlots slots).length = slots.length := by
  unfold epilogSlots
  have key : ∀ (l : List Nat) (acc : List BSlot), (l.foldl epilogStep acc).length = acc.length := by
    intro l
    induction l with
    | nil => intro acc; rfl
    | cons a rest ih => intro acc; simp only [List.foldl_cons]; rw [ih, epilogStep_length]
  exact key _ _

/-! ### the invariant -/

/-- offsets in order, and none beyond the slots that exist -/
def FioOK (s : BState) : Prop :=
  List.Pairwise (fun a b : Inherit => a.fio ≤ b.fio) s.inherits ∧ ∀ ih ∈ s.inherits, ih.fio ≤ s.slots.length

theorem fioOK_of_same_inherits (s s' : BState) (h : FioOK s) (hi : s'.inherits = s.inherits)
    (hl : s.slots.length ≤ s'.slots.length) : FioOK s' := by
  refine ⟨by rw [hi]; exact h.1, ?_⟩
  intro ih hm
  rw [hi] at hm
  exact Nat.le_trans (h.2 ih hm) hl

theorem fioOK_doItem (w : World) (s : BState) (it : Item) (h : FioOK s) : FioOK (doItem w s it) := by
  cases it with
  | var m => exact fioOK_of_same_inherits s _ h rfl (Nat.le_refl _)
  | proto m name nameStr =>
    exact fioOK_of_same_inherits s _ h (inherits_defineNewFunction s _ _ _ _) (len_defineNewFunction s _ _ _ _)
  | defn m name nameStr calls =>
    have h1 : FioOK (defineNewFunction s name nameStr (nameUndefined ||| namePrototype) m).1 :=
      fioOK_of_same_inherits s _ h (inherits_defineNewFunction s _ _ _ _) (len_defineNewFunction s _ _ _ _)
    have h2 : FioOK (defineNewFunction (defineNewFunction s name nameStr (nameUndefined ||| namePrototype) m).1 name nameStr 0 m).1 :=
      fioOK_of_same_inherits _ _ h1 (inherits_defineNewFunction _ _ _ _ _) (len_defineNewFunction _ _ _ _ _)
    unfold doItem
    simp only
    split
    · exact fioOK_of_same_inherits _ _ h2 rfl (Nat.le_refl _)
    · exact h2
  | inh m q =>
    show FioOK (doInherit w s m q)
    unfold doInherit
    cases hq : w.progs[q]? with
    | none => exact h
    | some Q =>
      simp only
      -- the state right after the inherit entry has been appended
      have h0 : FioOK { s with inherits := s.inherits ++ [{ prog := q, fio := s.slots.length, vio := s.nvars, typeMod := m }],
                               nvars := s.nvars + Q.nvt } := by
        refine ⟨?_, ?_⟩
        · simp only
          rw [List.pairwise_append]
          refine ⟨h.1, by simp, ?_⟩
          intro a ha b hb
          simp only [List.mem_singleton] at hb
          subst hb
          exact h.2 a ha
        · intro ih hm
          simp only at hm
          rcases List.mem_append.mp hm with hm | hm
          · exact h.2 ih hm
          · simp only [List.mem_singleton] at hm
            subst hm; exact Nat.le_refl _
      exact fioOK_of_same_inherits _ _ h0 (inherits_copyFunctions w Q m q _ _) (len_copyFunctions w Q m q _ _)

theorem fioSorted_of_pairwise : ∀ (l : List Inherit), List.Pairwise (fun a b : Inherit => a.fio ≤ b.fio) l →
    fioSorted l = true := by
  intro l
  induction l with
  | nil => intro _; rfl
  | cons a rest ih =>
    intro h
    cases rest with
    | nil => rfl
    | cons b rest' =>
      rw [List.pairwise_cons] at h
      simp only [fioSorted, Bool.and_eq_true, decide_eq_true_eq]
      exact ⟨h.1 b (by simp), ih h.2⟩

/-- **built_fio_sorted**: in every program the construction model builds, for every world and every list of source
    items, the function_index_offsets of the inherit list never decrease and none lies beyond the runtime table —
    the `fioSorted` clause of `cmpWF` holds by construction -/
theorem built_fio_sorted (w : World) (name : String) (id : Nat) (items : List Item) :
    fioSorted (buildProgram w name id items).inherit = true ∧
    ∀ ih ∈ (buildProgram w name id items).inherit, ih.fio ≤ (buildProgram w name id items).flags.length := by
  have key : ∀ (l : List Item) s, FioOK s → FioOK (l.foldl (doItem w) s) := by
    intro l
    induction l with
    | nil => intro s h; exact h
    | cons it rest ih => intro s h; exact ih _ (fioOK_doItem w s it h)
  have h := key items {} ⟨by simp, by intro ih h; simp at h⟩
  refine ⟨fioSorted_of_pairwise _ h.1, ?_⟩
  intro ih hm
  have : (buildProgram w name id items).flags.length = (items.foldl (doItem w) {}).slots.length := by
    simp [buildProgram, finish, epilogSlots_length]
  rw [this]
  exact h.2 ih hm

/-! ### every function table entry points at an existing runtime slot (clause "indices in range" of wfFind) -/

/-- `function_table[k].runtime_index` is a slot of the runtime table under construction -/
def RidxOK (s : BState) : Prop := ∀ c ∈ s.cfuncs, c.rindex < s.slots.length

theorem ridxOK_of_same_cfuncs (s s' : BState) (h : RidxOK s) (hc : s'.cfuncs = s.cfuncs)
    (hl : s.slots.length ≤ s'.slots.length) : RidxOK s' := by
  intro c hm
  rw [hc] at hm
  exact Nat.lt_of_lt_of_le (h c hm) hl

theorem mem_modify_cf (l : List CFunc) (i : Nat) (f : CFunc → CFunc) (c : CFunc) (h : c ∈ l.modify i f) :
    c ∈ l ∨ ∃ c0 ∈ l, c = f c0 := by
  induction l generalizing i with
  | nil => simp at h
  | cons a rest ih =>
    cases i with
    | zero =>
      simp only [List.modify_zero_cons, List.mem_cons] at h
      rcases h with h | h
      · exact Or.inr ⟨a, by simp, h⟩
      · exact Or.inl (by simp [h])
    | succ j =>
      simp only [List.modify_succ_cons, List.mem_cons] at h
      rcases h with h | h
      · exact Or.inl (by simp [h])
      · rcases ih j h with h | ⟨c0, h0, h1⟩
        · exact Or.inl (by simp [h])
        · exact Or.inr ⟨c0, by simp [h0], h1⟩

theorem cfuncs_copyFunction (s : BState) (a b c : Nat) (n : NameKey) : (copyFunction s a b c n).cfuncs = s.cfuncs := rfl

theorem ridxOK_overloadFunction (s : BState) (a b c d : Nat) (h : RidxOK s) : RidxOK (overloadFunction s a b c d) := by
  unfold overloadFunction
  cases hs : s.slots[c]? with
  | none => exact h
  | some old =>
    simp only
    -- cfuncs only change by marking one entry removed; slots only grow
    intro cf hm
    have hlen : s.slots.length ≤ (bumpCount (latestWins (addAlias s b c) old a b c d) a c).slots.length := by
      have := len_overloadFunction s a b c d
      unfold overloadFunction at this
      simp only [hs] at this
      exact this
    have hcf : cf ∈ s.cfuncs ∨ ∃ c0 ∈ s.cfuncs, cf = { c0 with removed := true } := by
      simp only [bumpCount, latestWins, addAlias, modifySlot] at hm
      split at hm <;> split at hm <;> (try split at hm) <;>
        first
          | exact Or.inl hm
          | exact mem_modify_cf _ _ _ _ hm
    rcases hcf with hcf | ⟨c0, h0, h1⟩
    · exact Nat.lt_of_lt_of_le (h cf hcf) hlen
    · subst h1; exact Nat.lt_of_lt_of_le (h c0 h0) hlen

theorem ridxOK_defineNewFunction (s : BState) (n : NameKey) (ns : String) (a b : Nat) (h : RidxOK s)
    (hid : ∀ rn, s.ident n = some rn → rn < s.slots.length) : RidxOK (defineNewFunction s n ns a b).1 := by
  unfold defineNewFunction
  simp only
  cases hi : s.ident n with
  | none =>
    simp only
    intro cf hm
    simp only [List.mem_append, List.mem_singleton] at hm
    simp only [List.length_append, List.length_singleton]
    rcases hm with hm | hm
    · have := h cf hm; omega
    · subst hm; simp
  | some rn =>
    have hrn := hid rn hi
    simp only
    cases hsl : s.slots[rn]? with
    | none => exact h
    | some sl =>
      simp only
      split
      · exact h
      · split
        · exact h
        · split
          · -- the compiler function of a prototype of this level is reused
            intro cf hm
            simp only [modifySlot, List.length_modify] at hm ⊢
            rcases mem_modify_cf _ _ _ _ hm with hm | ⟨c0, _, h1⟩
            · exact h cf hm
            · subst h1; exact hrn
          · intro cf hm
            simp only [modifySlot, List.length_modify] at hm ⊢
            rcases mem_modify_cf _ _ _ _ hm with hm | ⟨c0, _, h1⟩
            · simp only [List.mem_append, List.mem_singleton] at hm
              rcases hm with hm | hm
              · exact h cf hm
              · subst hm; exact hrn
            · subst h1; exact hrn

theorem ident_lt (s : BState) (h : AInv s) (n : NameKey) (rn : Nat) (hi : s.ident n = some rn) : rn < s.slots.length := by
  unfold BState.ident at hi
  cases hf : s.idents.find? (·.1 == n) with
  | none => simp [hf] at hi
  | some x =>
    simp only [hf, Option.map_some, Option.some.injEq] at hi
    have hm : x ∈ s.idents := List.mem_of_find?_eq_some hf
    subst hi
    exact h.identLt x.1 x.2 hm

theorem cfuncs_copyStep_ridx (w : World) (Q : Program) (m q : Nat) (s0 : BState) (i : Nat) (h : RidxOK s0) :
    RidxOK (copyStep w q Q m s0 i) := by
  unfold copyStep
  cases chase w w.fuel q i 0 0 with
  | none => exact h
  | some fr =>
    simp only
    cases (w.progs[fr.prog]?.bind (·.ft[fr.fidx]?)) with
    | none => exact h
    | some fe =>
      simp only
      cases s0.ident fe.name with
      | none => exact ridxOK_of_same_cfuncs s0 _ h rfl (len_copyFunction s0 _ _ _ _)
      | some num => exact ridxOK_overloadFunction s0 _ _ _ _ h

theorem ridxOK_copyFunctions (w : World) (Q : Program) (m q : Nat) (l : List Nat) :
    ∀ s0 : BState, RidxOK s0 → RidxOK (l.foldl (copyStep w q Q m) s0) := by
  induction l with
  | nil => intro s0 h; exact h
  | cons i rest ih =>
    intro s0 h
    simp only [List.foldl_cons]
    exact ih _ (cfuncs_copyStep_ridx w Q m q s0 i h)

theorem ridxOK_doItem (w : World) (s : BState) (it : Item) (ha : AInv s) (hm : it.modsOK) (h : RidxOK s) :
    RidxOK (doItem w s it) := by
  cases it with
  | var m => exact ridxOK_of_same_cfuncs s _ h rfl (Nat.le_refl _)
  | proto m name nameStr =>
    exact ridxOK_defineNewFunction s name nameStr _ m h (ident_lt s ha name)
  | inh m q =>
    show RidxOK (doInherit w s m q)
    unfold doInherit
    cases w.progs[q]? with
    | none => exact h
    | some Q =>
      simp only
      exact ridxOK_copyFunctions w Q m q _ _ (ridxOK_of_same_cfuncs s _ h rfl (Nat.le_refl _))
  | defn m name nameStr calls =>
    have a1 := ainv_defineNewFunction s name nameStr (nameUndefined ||| namePrototype) m ha hm (Or.inl rfl)
    have r1 := ridxOK_defineNewFunction s name nameStr (nameUndefined ||| namePrototype) m h (ident_lt s ha name)
    have r2 := ridxOK_defineNewFunction _ name nameStr 0 m r1 (ident_lt _ a1 name)
    unfold doItem
    simp only
    split
    · -- the compiled call operands are stored into the compiler function: its runtime index is untouched
      intro cf hmem
      simp only at hmem
      rcases mem_modify_cf _ _ _ _ hmem with hmem | ⟨c0, h0, h1⟩
      · exact r2 cf hmem
      · subst h1; exact r2 c0 h0
    · exact r2

/-- **built_indices_in_range** — clause "runtime indices in range" of `wfFind`, for ALL programs: in every program the
    construction model builds (any world, any source items with well-formed modifiers) every function table entry
    points at an existing runtime slot -/
theorem built_indices_in_range (w : World) (name : String) (id : Nat) (items : List Item)
    (hm : ∀ it ∈ items, it.modsOK) :
    ∀ e ∈ (buildProgram w name id items).ft, e.rindex < (buildProgram w name id items).flags.length := by
  have key : ∀ (l : List Item), (∀ it ∈ l, it.modsOK) → ∀ s, AInv s → RidxOK s →
      AInv (l.foldl (doItem w) s) ∧ RidxOK (l.foldl (doItem w) s) := by
    intro l
    induction l with
    | nil => intro _ s a r; exact ⟨a, r⟩
    | cons it rest ih =>
      intro hl s a r
      exact ih (fun x hx => hl x (List.mem_cons_of_mem _ hx)) _
        (ainv_doItem w s it a (hl it List.mem_cons_self)) (ridxOK_doItem w s it a (hl it List.mem_cons_self) r)
  have h := (key items hm {} ainv_empty (by intro c hc; simp at hc)).2
  intro e he
  have hlen : (buildProgram w name id items).flags.length = (items.foldl (doItem w) {}).slots.length := by
    simp [buildProgram, finish, epilogSlots_length]
  rw [hlen]
  simp only [buildProgram, finish, List.mem_filterMap] at he
  obtain ⟨i, _, hi⟩ := he
  cases hc : (items.foldl (doItem w) {}).cfuncs[i]? with
  | none => simp [hc] at hi
  | some c =>
    simp only [hc, Option.map_some, Option.some.injEq] at hi
    subst hi
    exact h c (List.mem_of_getElem? hc)

end NV.C07
