/-
C07 — helper lemmas: cache invariant, chains of inherits, binary search.
-/
import NV.C07.Model
import NV.C07.Spec
import NV.C07.WF

namespace NV.C07

open NV.Gen.C07

/-! ### the apply cache -/

/-- what a cache entry claims about its (program, name) is what find_function says -/
def EntryOk (w : World) (e : CacheEntry) : Prop :=
  match e.progp with
  | some (q, k, f, v) => find w e.oprogp e.name = .found q k f v
  | none => find w e.oprogp e.name = .none

/-- every entry of the cache is truthful -/
def Inv (w : World) (c : Cache) : Prop := ∀ (i : Nat) (e : CacheEntry), c[i]? = some (some e) → EntryOk w e

theorem inv_empty (w : World) : Inv w Cache.empty := by
  intro i e h
  unfold Cache.empty at h
  rw [List.getElem?_replicate] at h
  split at h <;> simp at h

theorem inv_set (w : World) (c : Cache) (ix : Nat) (e : CacheEntry) (hc : Inv w c) (he : EntryOk w e) :
    Inv w (c.set ix (some e)) := by
  intro i e' h
  rw [List.getElem?_set] at h
  split at h
  · split at h
    · simp at h; subst h; exact he
    · simp at h
  · exact hc i e' h

theorem cacheLookup_empty (ix id p : Nat) (name : NameKey) : cacheLookup Cache.empty ix id p name = none := by
  unfold cacheLookup Cache.empty
  rw [List.getElem?_replicate]
  split <;> rename_i h
  · split at h <;> simp at h
  · rfl

theorem cacheLookup_some (c : Cache) (ix id p : Nat) (name : NameKey) (e : CacheEntry)
    (h : cacheLookup c ix id p name = some e) : c[ix]? = some (some e) ∧ e.oprogp = p ∧ e.name = name := by
  unfold cacheLookup at h
  split at h
  · rename_i e' hs
    split at h
    · rename_i hm
      simp only [Option.some.injEq] at h
      subst h
      simp only [Bool.and_eq_true, beq_iff_eq] at hm
      exact ⟨hs, hm.1.2, hm.2⟩
    · simp at h
  · simp at h

/-- the miss path does not look at the cache for its answer, and stores a truthful entry -/
theorem applyMiss_spec (w : World) (c : Cache) (hc : Inv w c) (origin p id ix : Nat) (name : NameKey) :
    (applyMiss w c origin p id ix name).1 = (applyMiss w Cache.empty origin p id ix name).1 ∧
    Inv w (applyMiss w c origin p id ix name).2 := by
  unfold applyMiss
  cases hf : find w p name with
  | crash => exact ⟨rfl, hc⟩
  | none => exact ⟨rfl, inv_set w c _ _ hc (by simp [EntryOk, hf])⟩
  | found q k f v => exact ⟨rfl, inv_set w c _ _ hc (by simp [EntryOk, hf])⟩

/-- apply_low on a truthful cache answers as on the empty cache, and leaves the cache truthful -/
theorem applyLow_inv (w : World) (c : Cache) (hc : Inv w c) (origin p ptr : Nat) (name : NameKey) :
    (applyLow w c origin p ptr name).1 = (applyLow w Cache.empty origin p ptr name).1 ∧
    Inv w (applyLow w c origin p ptr name).2 := by
  unfold applyLow
  cases hP : w.progs[p]? with
  | none => exact ⟨rfl, hc⟩
  | some P =>
    simp only [cacheLookup_empty]
    cases hl : cacheLookup c (slotOf P.id ptr) P.id p name with
    | none => exact applyMiss_spec w c hc origin p P.id _ name
    | some e =>
      obtain ⟨hslot, hop, hnm⟩ := cacheLookup_some _ _ _ _ _ _ hl
      have hok := hc _ e hslot
      unfold EntryOk at hok
      rw [hop, hnm] at hok
      simp only
      unfold applyMiss
      cases hpp : e.progp with
      | none =>
        rw [hpp] at hok
        simp only at hok
        simp only [hok]
        exact ⟨trivial, hc⟩
      | some t =>
        obtain ⟨q, k, f, v⟩ := t
        rw [hpp] at hok
        simp only at hok
        simp only [hok]
        exact ⟨trivial, hc⟩

/-! ### histories of apply calls -/

/-- one apply call: origin, program of the object, pointer of the name string, the name -/
structure ApplyCall where
  origin : Nat
  prog : Nat
  ptr : Nat
  name : NameKey
  deriving Repr

/-- the cache after a history of calls -/
def cacheAfter (w : World) (c : Cache) : List ApplyCall → Cache
  | [] => c
  | a :: rest => cacheAfter w (applyLow w c a.origin a.prog a.ptr a.name).2 rest

theorem inv_cacheAfter (w : World) (c : Cache) (hc : Inv w c) (h : List ApplyCall) : Inv w (cacheAfter w c h) := by
  induction h generalizing c with
  | nil => exact hc
  | cons a rest ih => exact ih _ (applyLow_inv w c hc a.origin a.prog a.ptr a.name).2

/-! ### chains of inherit entries -/

/-- `path` is a chain of inherit entries leading from program p to program q -/
def ValidChain (w : World) : Nat → List Inherit → Nat → Prop
  | p, [], q => p = q
  | p, ih :: rest, q => (∃ P, w.progs[p]? = some P ∧ ih ∈ P.inherit) ∧ ValidChain w ih.prog rest q

def sumFio (path : List Inherit) : Nat := (path.map (·.fio)).sum
def sumVio (path : List Inherit) : Nat := (path.map (·.vio)).sum

theorem chase_sums (w : World) : ∀ (fuel p index fio vio : Nat) (fr : Frame),
    chase w fuel p index fio vio = some fr →
    ∃ path, ValidChain w p path fr.prog ∧ fr.fio = fio + sumFio path ∧ fr.vio = vio + sumVio path := by
  intro fuel
  induction fuel with
  | zero => intro p index fio vio fr h; simp [chase] at h
  | succ n ih =>
    intro p index fio vio fr h
    unfold chase at h
    cases hP : w.progs[p]? with
    | none => simp [hP] at h
    | some P =>
      cases hfl : P.flags[index]? with
      | none => simp [hP, hfl] at h
      | some fl =>
        cases he : P.rt[index]? with
        | none => simp [hP, hfl, he] at h
        | some e =>
          simp only [hP, hfl, he, Option.bind_eq_bind, Option.bind_some] at h
          by_cases hb : hasBit fl nameInherited = true
          · simp only [hb, if_true] at h
            cases e with
            | defn a b => simp at h
            | inh off idx =>
              simp only at h
              cases hih : P.inherit[off]? with
              | none => simp [hih] at h
              | some ihd =>
                simp only [hih, Option.bind_some] at h
                obtain ⟨path, hv, hf, hvv⟩ := ih _ _ _ _ _ h
                refine ⟨ihd :: path, ⟨⟨P, hP, List.mem_of_getElem? hih⟩, hv⟩, ?_, ?_⟩
                · simp only [sumFio, List.map_cons, List.sum_cons] at *; omega
                · simp only [sumVio, List.map_cons, List.sum_cons] at *; omega
          · simp only [hb] at h
            cases e with
            | inh a b => simp at h
            | defn fi na =>
              simp only [Bool.false_eq_true, if_false, Option.some.injEq] at h
              subst h
              exact ⟨[], rfl, by simp [sumFio], by simp [sumVio]⟩

/-! ### find_function: offsets are sums along the chain it descended -/

theorem searchInh_found (rec : Nat → FindRes) (l : List Inherit) (q k f v : Nat)
    (h : searchInh rec l = .found q k f v) :
    ∃ ih f' v', ih ∈ l ∧ rec ih.prog = .found q k f' v' ∧ f = f' + ih.fio ∧ v = v' + ih.vio := by
  induction l with
  | nil => simp [searchInh] at h
  | cons a rest ihl =>
    unfold searchInh at h
    cases hr : rec a.prog with
    | crash => simp [hr] at h
    | none =>
      simp only [hr] at h
      obtain ⟨ih, f', v', hm, h1, h2, h3⟩ := ihl h
      exact ⟨ih, f', v', List.mem_cons_of_mem _ hm, h1, h2, h3⟩
    | found q' k' f' v' =>
      simp only [hr, FindRes.found.injEq] at h
      obtain ⟨rfl, rfl, rfl, rfl⟩ := h
      exact ⟨a, f', v', List.mem_cons_self, hr, rfl, rfl⟩

theorem findFunction_sums (w : World) (name : NameKey) : ∀ (fuel p q k f v : Nat),
    findFunction w fuel p name = .found q k f v →
    ∃ path, ValidChain w p path q ∧ f = sumFio path ∧ v = sumVio path := by
  intro fuel
  induction fuel with
  | zero => intro p q k f v h; simp [findFunction] at h
  | succ n ih =>
    intro p q k f v h
    unfold findFunction at h
    cases hP : w.progs[p]? with
    | none => simp [hP] at h
    | some P =>
      simp only [hP] at h
      cases hts : tableSearch P name with
      | crash => simp [hts] at h
      | notHere => simp [hts] at h
      | here k' =>
        simp only [hts, FindRes.found.injEq] at h
        obtain ⟨rfl, rfl, rfl, rfl⟩ := h
        exact ⟨[], rfl, by simp [sumFio], by simp [sumVio]⟩
      | inherits =>
        simp only [hts] at h
        obtain ⟨ihd, f', v', hm, hrec, hf, hv⟩ := searchInh_found _ _ _ _ _ _ h
        obtain ⟨path, hvc, hf', hv'⟩ := ih _ _ _ _ _ hrec
        refine ⟨ihd :: path, ⟨⟨P, hP, by simpa using hm⟩, hvc⟩, ?_, ?_⟩
        · simp only [sumFio, List.map_cons, List.sum_cons] at *; omega
        · simp only [sumVio, List.map_cons, List.sum_cons] at *; omega

end NV.C07
