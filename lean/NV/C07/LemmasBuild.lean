/-
C07 — lemmas about the model of the table construction (NV/C07/Build.lean).
-/
import NV.C07.Build

namespace NV.C07

open NV.Gen.C07

theorem hasBit_or' (x a b : Nat) : hasBit x (a ||| b) = (hasBit x a || hasBit x b) := by
  simp only [hasBit, Nat.and_or_distrib_left]
  rw [Bool.eq_iff_iff]
  simp only [bne_iff_ne, ne_eq, Bool.or_eq_true, Nat.or_eq_zero_iff]
  exact Decidable.not_and_iff_not_or_not

/-- every runtime slot flagged NAME_ALIAS names an EARLIER slot as the one it aliases (overload_function creates
    the alias after the identifier's slot); decidable, evaluated by the driver on every program it builds -/
def aliasOrdered (slots : List BSlot) : Bool :=
  slots.zipIdx.all fun (sl, i) => !(hasBit sl.flags nameAlias) || decide (sl.aliasFor < i)

theorem epilogSlot_aliasFor (slots : List BSlot) (i : Nat) (sl : BSlot) :
    (epilogSlot slots i sl).aliasFor = sl.aliasFor := rfl

theorem epilogStep_length (slots : List BSlot) (i : Nat) : (epilogStep slots i).length = slots.length := by
  unfold epilogStep
  cases slots[i]? <;> simp

/-- an iteration touches slot i only -/
theorem epilogStep_other (slots : List BSlot) (i j : Nat) (h : i ≠ j) : (epilogStep slots i)[j]? = slots[j]? := by
  unfold epilogStep
  cases slots[i]? with
  | none => rfl
  | some sl => simp [List.getElem?_set, h]

theorem epilogStep_self (slots : List BSlot) (i : Nat) (sl : BSlot) (hi : slots[i]? = some sl) :
    (epilogStep slots i)[i]? = some (epilogSlot slots i sl) := by
  have hlt : i < slots.length := by
    rcases Nat.lt_or_ge i slots.length with h | h
    · exact h
    · rw [List.getElem?_eq_none_iff.mpr h] at hi; simp at hi
  unfold epilogStep
  rw [hi]
  simp [List.getElem?_set, hlt]

/-- the iteration for an alias slot whose aliased slot is another slot gives it that slot's flags | NAME_ALIAS -/
theorem epilogSlot_alias (slots : List BSlot) (i : Nat) (sl wh : BSlot)
    (hal : hasBit sl.flags nameAlias = true) (hne : sl.aliasFor ≠ i) (hw : slots[sl.aliasFor]? = some wh) :
    (epilogSlot slots i sl).flags = wh.flags ||| nameAlias := by
  have hpa : hasBit sl.flags (namePrototype ||| nameAlias) = true := by rw [hasBit_or', hal]; simp
  unfold epilogSlot
  simp only [hpa, Bool.not_true, Bool.and_false, Bool.false_eq_true, if_false, hal, if_true, hne, hw]
  split <;> rfl

theorem aliasOrdered_lt (slots : List BSlot) (hord : aliasOrdered slots = true) (j : Nat) (a : BSlot)
    (ha : slots[j]? = some a) (hal : hasBit a.flags nameAlias = true) : a.aliasFor < j := by
  unfold aliasOrdered at hord
  have := List.all_eq_true.mp hord (a, j) (List.mem_zipIdx_iff_getElem?.mpr ha)
  simpa [hal] using this

theorem get_of_lt (l : List BSlot) (i : Nat) (h : i < l.length) : ∃ x, l[i]? = some x :=
  ⟨l[i], List.getElem?_eq_getElem h⟩

theorem lt_of_get (l : List BSlot) (i : Nat) (x : BSlot) (h : l[i]? = some x) : i < l.length := by
  rcases Nat.lt_or_ge i l.length with h' | h'
  · exact h'
  · rw [List.getElem?_eq_none_iff.mpr h'] at h; simp at h

/-- the loop of epilog() after n iterations -/
theorem epilog_prefix (slots : List BSlot) (hord : aliasOrdered slots = true) : ∀ n, n ≤ slots.length →
    ((List.range n).foldl epilogStep slots).length = slots.length ∧
    (∀ (j : Nat), n ≤ j → ((List.range n).foldl epilogStep slots)[j]? = slots[j]?) ∧
    (∀ (j : Nat) (a b : BSlot), slots[j]? = some a → ((List.range n).foldl epilogStep slots)[j]? = some b → b.aliasFor = a.aliasFor) ∧
    (∀ (j : Nat) (a : BSlot), j < n → slots[j]? = some a → hasBit a.flags nameAlias = true →
      ∃ b wh, ((List.range n).foldl epilogStep slots)[j]? = some b ∧
        ((List.range n).foldl epilogStep slots)[a.aliasFor]? = some wh ∧ b.flags = wh.flags ||| nameAlias) := by
  intro n
  induction n with
  | zero =>
    intro _
    refine ⟨rfl, fun _ _ => rfl, ?_, ?_⟩
    · intro j a b ha hb
      simp only [List.range_zero, List.foldl_nil] at hb
      rw [ha] at hb
      simp only [Option.some.injEq] at hb
      subst hb; rfl
    · intro j a hj; omega
  | succ n ih =>
    intro hn
    obtain ⟨h1, h2, h3, h4⟩ := ih (by omega)
    rw [List.range_succ, List.foldl_append]
    simp only [List.foldl_cons, List.foldl_nil]
    generalize hS : (List.range n).foldl epilogStep slots = S at h1 h2 h3 h4
    have hSn : S[n]? = slots[n]? := h2 n (Nat.le_refl _)
    obtain ⟨an, han⟩ := get_of_lt slots n (by omega)
    refine ⟨by rw [epilogStep_length, h1], ?_, ?_, ?_⟩
    · intro j hj
      rw [epilogStep_other S n j (by omega)]
      exact h2 j (by omega)
    · intro j a b ha hb
      by_cases hjn : j = n
      · subst hjn
        rw [epilogStep_self S j an (by rw [hSn, han])] at hb
        simp only [Option.some.injEq] at hb
        subst hb
        rw [ha] at han
        simp only [Option.some.injEq] at han
        subst han
        rfl
      · rw [epilogStep_other S n j (Ne.symm hjn)] at hb
        exact h3 j a b ha hb
    · intro j a hj ha hal
      have hlt := aliasOrdered_lt slots hord j a ha hal
      by_cases hjn : j = n
      · subst hjn
        rw [ha] at han
        simp only [Option.some.injEq] at han
        subst han
        obtain ⟨wh, hwh⟩ := get_of_lt S a.aliasFor (by rw [h1]; omega)
        refine ⟨epilogSlot S j a, wh, epilogStep_self S j a (by rw [hSn, ha]), ?_, ?_⟩
        · rw [epilogStep_other S j a.aliasFor (by omega)]; exact hwh
        · exact epilogSlot_alias S j a wh hal (by omega) hwh
      · obtain ⟨b, wh, hb, hw, hf⟩ := h4 j a (by omega) ha hal
        refine ⟨b, wh, ?_, ?_, hf⟩
        · rw [epilogStep_other S n j (Ne.symm hjn)]; exact hb
        · rw [epilogStep_other S n a.aliasFor (by omega)]; exact hw

/-- after epilog() every alias slot carries exactly the flags of the slot it aliases (plus NAME_ALIAS): the
    modifiers static / private / protected / public, NAME_UNDEFINED, NAME_PROTOTYPE, NAME_TRUE_VARARGS, ... of all
    runtime slots of one function name agree -/
theorem epilogSlots_alias (slots : List BSlot) (hord : aliasOrdered slots = true) (j : Nat) (a : BSlot)
    (ha : slots[j]? = some a) (hal : hasBit a.flags nameAlias = true) :
    ∃ b wh, (epilogSlots slots)[j]? = some b ∧ (epilogSlots slots)[a.aliasFor]? = some wh ∧
      b.flags = wh.flags ||| nameAlias :=
  (epilog_prefix slots hord slots.length (Nat.le_refl _)).2.2.2 j a (lt_of_get slots j a ha) ha hal

end NV.C07
