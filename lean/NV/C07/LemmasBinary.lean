/-
C07 — sort_function_table (a program loaded from its saved binary is re-sorted by the new name pointers): for EVERY
permutation `temp[]` the function a runtime slot denotes, the flags, the inherit list and the set of table entries are
unchanged (NV/C07/Binary.lean); the order the model's sort produces is a permutation.
-/
import NV.C07.Binary
import NV.C07.LemmasCompress

namespace NV.C07

open NV.Gen.C07

/-- `temp[inverse[x]] = x` for every x that occurs in `temp` -/
theorem inversePerm_getElem : ∀ (order : List Nat) (x : Nat), x ∈ order → order[inversePerm order x]? = some x := by
  intro order
  induction order with
  | nil => intro x h; simp at h
  | cons a rest ih =>
    intro x h
    unfold inversePerm
    by_cases hax : a = x
    · subst hax; simp [List.findIdx?_cons]
    · have hx : x ∈ rest := by
        rcases List.mem_cons.mp h with h | h
        · exact absurd h.symm hax
        · exact h
      have hne : (a == x) = false := by simpa using hax
      have := ih x hx
      unfold inversePerm at this
      simp only [List.findIdx?_cons, hne]
      cases hf : List.findIdx? (fun y => y == x) rest with
      | none =>
        rw [hf] at this
        simp at this
      | some k =>
        rw [hf] at this
        simpa using this

/-- an index that does not occur in `temp` is mapped beyond the table -/
theorem inversePerm_not_mem (order : List Nat) (x : Nat) (h : x ∉ order) : inversePerm order x = order.length := by
  unfold inversePerm
  have : List.findIdx? (fun y => y == x) order = none := by
    rw [List.findIdx?_eq_none_iff]
    intro y hy
    simp
    intro hyx
    subst hyx
    exact h hy
  simp [this]

/-- the permuted table, entry by entry -/
theorem permuted_ft_get (P : Program) (order : List Nat) (hp : IsPerm order P.ft.length) (k : Nat) :
    (permuteProgram P order).ft[k]? = (order[k]?).bind (fun i => P.ft[i]?) := by
  have hall : ∀ x ∈ order, ((fun i => P.ft[i]?) x).isSome = true := by
    intro x hx
    have := hp.1 x hx
    simp [this]
  exact (filterMap_all_some (fun i => P.ft[i]?) order hall).2 k

theorem permuted_ft_length (P : Program) (order : List Nat) (hp : IsPerm order P.ft.length) :
    (permuteProgram P order).ft.length = order.length := by
  have hall : ∀ x ∈ order, ((fun i => P.ft[i]?) x).isSome = true := by
    intro x hx
    have := hp.1 x hx
    simp [this]
  exact (filterMap_all_some (fun i => P.ft[i]?) order hall).1

/-- **Dispatch by runtime index survives every permutation.**  For every program, every permutation `temp[]` of its
    function table and every runtime slot: the function the slot denotes after sort_function_table (table permuted,
    `def.f_index = inverse[oldix]`) is the function it denoted before. -/
theorem permute_slot_entry (P : Program) (order : List Nat) (hp : IsPerm order P.ft.length) (i : Nat) :
    slotEntry (permuteProgram P order) i = slotEntry P i := by
  unfold slotEntry
  have hfl : (permuteProgram P order).flags = P.flags := rfl
  rw [hfl]
  cases hf : P.flags[i]? with
  | none => simp
  | some fl =>
    cases hr : P.rt[i]? with
    | none =>
      have : (permuteProgram P order).rt[i]? = none := by
        rw [List.getElem?_eq_none_iff] at hr ⊢
        simp only [permuteProgram, List.length_map, List.length_zip]
        omega
      simp [this]
    | some e =>
      have hz : (P.flags.zip P.rt)[i]? = some (fl, e) := by
        rw [List.getElem?_zip_eq_some]; exact ⟨hf, hr⟩
      have hrt : (permuteProgram P order).rt[i]? = some (fixEntry order fl e) := by
        simp only [permuteProgram, List.getElem?_map, hz, Option.map_some]
      rw [hrt]
      by_cases hinh : hasBit fl nameInherited = true
      · cases e <;> simp [fixEntry, hinh]
      · have hinh' : hasBit fl nameInherited = false := by simpa using hinh
        cases e with
        | inh a b => simp [fixEntry, hinh']
        | defn fi na =>
          simp only [fixEntry, hinh', Bool.false_eq_true, if_false]
          by_cases hfi : fi < P.ft.length
          · have hm := hp.2 fi hfi
            rw [permuted_ft_get P order hp, inversePerm_getElem order fi hm]
            simp
          · have hnm : fi ∉ order := fun h => hfi (hp.1 fi h)
            rw [inversePerm_not_mem order fi hnm]
            have h1 : (permuteProgram P order).ft[order.length]? = none := by
              rw [List.getElem?_eq_none_iff, permuted_ft_length P order hp]; omega
            have h2 : P.ft[fi]? = none := by
              rw [List.getElem?_eq_none_iff]; omega
            rw [h1, h2]

/-- the table holds the same entries after the permutation (with a sorted table, `bsearch_correct` /
    `find_function_correct` then give the same function for every NAME) -/
theorem permute_ft_mem (P : Program) (order : List Nat) (hp : IsPerm order P.ft.length) (e : FnEntry) :
    e ∈ (permuteProgram P order).ft ↔ e ∈ P.ft := by
  constructor
  · intro h
    simp only [permuteProgram, List.mem_filterMap] at h
    obtain ⟨i, _, hi⟩ := h
    exact List.mem_of_getElem? hi
  · intro h
    obtain ⟨i, hi, he⟩ := List.getElem_of_mem h
    simp only [permuteProgram, List.mem_filterMap]
    exact ⟨i, hp.2 i hi, by simp [List.getElem?_eq_getElem hi, he]⟩

/-- flags, inherit list, variables and the heart_beat slot are not touched -/
theorem permute_keeps_rest (P : Program) (order : List Nat) :
    (permuteProgram P order).flags = P.flags ∧ (permuteProgram P order).inherit = P.inherit ∧
    (permuteProgram P order).heartBeat = P.heartBeat ∧ (permuteProgram P order).nvt = P.nvt ∧
    (permuteProgram P order).rt.length = min P.flags.length P.rt.length := by
  simp [permuteProgram]

/-! ### the model's sort produces a permutation -/

theorem mem_insertIdx (key : Nat → Nat) (x y : Nat) : ∀ l, y ∈ insertIdx key x l ↔ y = x ∨ y ∈ l := by
  intro l
  induction l with
  | nil => simp [insertIdx]
  | cons a rest ih =>
    unfold insertIdx
    split
    · simp
    · simp [ih]; constructor
      · rintro (h | h | h)
        · exact Or.inr (Or.inl h)
        · exact Or.inl h
        · exact Or.inr (Or.inr h)
      · rintro (h | h | h)
        · exact Or.inr (Or.inl h)
        · exact Or.inl h
        · exact Or.inr (Or.inr h)

theorem mem_foldl_insertIdx (key : Nat → Nat) : ∀ (xs acc : List Nat) (y : Nat),
    y ∈ xs.foldl (fun acc i => insertIdx key i acc) acc ↔ y ∈ xs ∨ y ∈ acc := by
  intro xs
  induction xs with
  | nil => intro acc y; simp
  | cons a rest ih =>
    intro acc y
    simp only [List.foldl_cons, ih, mem_insertIdx, List.mem_cons]
    constructor
    · rintro (h | h | h)
      · exact Or.inl (Or.inr h)
      · exact Or.inl (Or.inl h)
      · exact Or.inr h
    · rintro ((h | h) | h)
      · exact Or.inr (Or.inl h)
      · exact Or.inl h
      · exact Or.inr (Or.inr h)

theorem sortIdx_isPerm (key : Nat → Nat) (n : Nat) : IsPerm (sortIdx key n) n := by
  unfold IsPerm sortIdx
  constructor
  · intro x hx
    rw [mem_foldl_insertIdx] at hx
    simpa using hx
  · intro i hi
    rw [mem_foldl_insertIdx]
    left; simpa using hi

/-- **A program loaded from its saved binary dispatches like the compiled one.**  Whatever pointers the re-interned
    function names get (`rekey`), after load_binary + sort_function_table every runtime slot denotes the function it
    denoted in the compiled program (the entry with its new name pointer), for all programs. -/
theorem resort_slot_entry (P : Program) (rekey : String → NameKey) (i : Nat) :
    slotEntry (resortProgram P rekey) i = (slotEntry P i).map (fun e => { e with name := rekey e.nameStr }) := by
  unfold resortProgram
  simp only
  rw [permute_slot_entry _ _ (by simpa using sortIdx_isPerm _ _)]
  unfold slotEntry
  simp only
  cases P.flags[i]? with
  | none => rfl
  | some fl =>
    cases P.rt[i]? with
    | none => rfl
    | some e =>
      cases e with
      | inh a b => rfl
      | defn fi na =>
        simp only
        split
        · rfl
        · simp [List.getElem?_map]

/-- non-vacuity: a 3-cycle (the kind of permutation that is not its own inverse) on a program with three functions -/
example :
    let P : Program := { id := 1, ft := [{ name := 10, rindex := 0, nameStr := "a" }, { name := 20, rindex := 1, nameStr := "b" },
                                          { name := 30, rindex := 2, nameStr := "c" }],
                         flags := [0, 0, 0], rt := [.defn 0 0, .defn 1 0, .defn 2 0], inherit := [] }
    let rekey : String → NameKey := fun s => if s == "a" then 25 else if s == "b" then 35 else 15
    (resortProgram P rekey).ft.map (·.nameStr) = ["c", "a", "b"] ∧
    (resortProgram P rekey).rt = [.defn 1 0, .defn 2 0, .defn 0 0] ∧
    ((List.range 3).map (fun i => (slotEntry (resortProgram P rekey) i).map (·.nameStr))) = [some "a", some "b", some "c"] := by
  decide

end NV.C07
