/-
C07 — specification: what a call by name must do, stated on the ABSTRACT inheritance graph of the LPC
sources (which program inherits which, in which order and with which modifiers; which names each program
defines and with which modifiers).  Nothing here knows about function tables, runtime indices, offsets,
aliases, flags words or the apply cache.

Language rules (LPC as implemented by this driver family):
  * a call by name on an object of program T runs T's own definition of the name if there is one, else the
    definition found in T's inherits searched from the LAST inherit statement to the first, recursively;
    prototypes without a body neither provide nor hide a definition;
  * `::f()` searches the inherits from the FIRST to the last, `A::f()` only those named A; below that level the
    search is the ordinary one;
  * a local call `f()` (and a function pointer `(: f :)`) made by inherited code is virtual: it is resolved by
    name in the program of the object;
  * inheritance is not virtual: every inherit statement gives its own copy of the parent's variables; a
    function runs with the variables of the copy it was reached through;
  * effective modifiers = the definition's modifiers combined, level by level, with the modifiers of the
    inherit statements it is reached through; `public` cancels `private`;
  * call_other refuses static, private and protected functions; the driver (applies, call_out) and local
    calls do not; the outcome never depends on earlier calls.
-/
namespace NV.C07.Spec

/-! ### the resolver, generic in the type of names (used by the theorems and by the judge) -/

structure SProg (ν : Type) where
  defs : List ν            -- names that have a body in this program
  inherits : List Nat      -- inherited programs (indices into the graph) in declaration order
  deriving Repr

/-- search the inherits from the LAST to the first; `k` is the inherit index of the head of the list; the
    result is the path (inherit indices, outermost first) to the definition -/
def searchLF (rec : Nat → Option (List Nat)) : Nat → List Nat → Option (List Nat)
  | _, [] => none
  | k, q :: rest =>
    match searchLF rec (k + 1) rest with
    | some r => some r
    | none => (rec q).map (k :: ·)

/-- the path (list of inherit indices, outermost first) from program p to the definition a call by name
    reaches: own definition, else the inherits last to first -/
def resolveFrom {ν : Type} [DecidableEq ν] (g : List (SProg ν)) : Nat → Nat → ν → Option (List Nat)
  | 0, _, _ => none
  | fuel + 1, p, name =>
    match g[p]? with
    | none => none
    | some P =>
      if name ∈ P.defs then some []
      else searchLF (fun q => resolveFrom g fuel q name) 0 P.inherits

def resolve {ν : Type} [DecidableEq ν] (g : List (SProg ν)) (p : Nat) (name : ν) : Option (List Nat) :=
  resolveFrom g (g.length + 1) p name

/-! ### the abstract graph of a case -/

structure Mods where
  static : Bool := false
  priv : Bool := false
  prot : Bool := false
  pub : Bool := false
  deriving Repr, BEq, DecidableEq

/-- one level of inheritance: the function's modifiers seen through an inherit statement with modifiers m -/
def Mods.through (f m : Mods) : Mods :=
  let r : Mods := { static := f.static || m.static, priv := f.priv || m.priv, prot := f.prot || m.prot,
                    pub := f.pub || m.pub }
  if r.pub then { r with priv := false } else r

/-- may a caller of this kind run a function with these effective modifiers? -/
inductive Caller where
  | callOther | driver | callOut | localCall
  deriving Repr, BEq, DecidableEq

def allowed (c : Caller) (m : Mods) : Bool :=
  match c with
  | .callOther => !(m.static || m.priv || m.prot)
  | _ => true

inductive ACall where
  | loc (fn : String)
  | sup (parent : Option String) (fn : String)
  | fp (fn : String)
  | stashSup (parent : Option String) (fn : String)   -- `(: A::f() :)` is made and stored, not evaluated
  | stashLoc (fn : String)                            -- `(: f() :)` is made and stored
  | runStash                                          -- the stored functional of this object is evaluated here
  deriving Repr, BEq

structure AFn where
  name : String
  mods : Mods
  isDef : Bool
  calls : List ACall
  nargs : Nat := 0          -- number of parameters
  deriving Repr

structure AInh where
  mods : Mods
  parent : String
  deriving Repr

structure AProg where
  name : String
  inherits : List AInh
  fns : List AFn
  hasW : Bool := false      -- declares `private int w;` besides the variable of its own level
  deriving Repr

abbrev AGraph := List AProg

def AGraph.indexOf (g : AGraph) (name : String) : Nat := (g.findIdx? (·.name == name)).getD g.length

def AGraph.toS (g : AGraph) : List (SProg String) :=
  g.map (fun P => { defs := (P.fns.filter (·.isDef)).map (·.name), inherits := P.inherits.map (fun i => g.indexOf i.parent) })

/-- number of variables of an object of program p (every generated program declares one variable of its own level,
    some a second, private one that has the same name `w` at every level) -/
def size (g : AGraph) : Nat → Nat → Nat
  | 0, _ => 0
  | fuel + 1, p =>
    match g[p]? with
    | none => 0
    | some P => (P.inherits.map (fun i => size g fuel (g.indexOf i.parent))).sum + (if P.hasW then 2 else 1)

/-- index of the variable that the code of the program reached by `path` from p uses -/
def varIndex (g : AGraph) : Nat → List Nat → Nat
  | p, [] => size g (g.length + 1) p - (if ((g[p]?).map (·.hasW)).getD false then 2 else 1)
  | p, k :: rest =>
    match g[p]? with
    | none => 0
    | some P =>
      let before := ((P.inherits.take k).map (fun i => size g (g.length + 1) (g.indexOf i.parent))).sum
      match P.inherits[k]? with
      | none => 0
      | some i => before + varIndex g (g.indexOf i.parent) rest

/-- the program a path ends in -/
def endOf (g : AGraph) : Nat → List Nat → Nat
  | p, [] => p
  | p, k :: rest =>
    match (g[p]?.bind (·.inherits[k]?)) with
    | none => g.length
    | some i => endOf g (g.indexOf i.parent) rest

/-- effective modifiers of `name` defined at the end of `path`, seen from p -/
def effMods (g : AGraph) (name : String) : Nat → List Nat → Mods
  | p, [] => (((g[p]?.bind (fun P => P.fns.find? (fun f => f.name == name && f.isDef))).map (·.mods)).getD {})
  | p, k :: rest =>
    match (g[p]?.bind (·.inherits[k]?)) with
    | none => {}
    | some i => (effMods g name (g.indexOf i.parent) rest).through i.mods

/-- `::fn` / `A::fn` from code of program p: first inherit (in declaration order, restricted to A) in which fn
    resolves -/
def resolveSuper (g : AGraph) (p : Nat) (parent : Option String) (fn : String) : Option (List Nat) :=
  match g[p]? with
  | none => none
  | some P =>
    let cands := P.inherits.zipIdx.filter (fun (i, _) => match parent with | none => true | some a => i.parent == a)
    cands.findSome? (fun (i, k) => (resolve g.toS (g.indexOf i.parent) fn).map (k :: ·))

/-! ### observable events and the reference interpreter -/

inductive Ev where
  | call (origin oid fn : String)
  | run (file fn : String) (old : Int)
  | args (vs : List Int)                  -- what a function with parameters found in them
  | err
  | ret (v : String)
  | vars (oid : String) (vs : List Int)
  deriving Repr, BEq, DecidableEq

def Ev.show : Ev → String
  | .call o oid fn => s!"call {o} {oid} {fn}"
  | .run f n old => s!"run {f}:{n} {old}"
  | .args vs => vs.foldl (fun s v => s ++ " " ++ toString v) "args"
  | .err => "err <runtime error>"
  | .ret v => s!"ret {v}"
  | .vars oid vs => vs.foldl (fun s v => s ++ " " ++ toString v) s!"vars {oid}"

def digitsOf (s : String) : Nat := ((String.ofList (s.toList.filter Char.isDigit)).toNat?).getD 0
def codeOf (file fn : String) : Int := Int.ofNat ((digitsOf file + 1) * 100 + digitsOf fn)

/-- the number of parameters of a generated function is a function of its name: fK has K mod 3 parameters -/
def arityOf (fn : String) : Nat := if fn.startsWith "f" then digitsOf fn % 3 else 0

/-- what the callee must see: its parameters hold the first arguments, in order; parameters without an argument
    hold 0; surplus arguments are dropped -/
def seenArgs (actual : List Int) (arity : Nat) : List Int :=
  (List.range arity).map (fun i => actual.getD i 0)

/-- the arguments the generated bodies pass: local / `::` calls and calls inside functionals (11, 12, as many as the
    callee has parameters), function pointers (21, 22, 23, whatever the callee takes) -/
def localArgs : List Int := [11, 12]
def fpArgs : List Int := [21, 22, 23]

structure Run where
  vars : List Int
  evs : List Ev       -- newest first
  ok : Bool
  /-- the stored functional: program of the object that made it, the path (from that program) to the level that made
      it, and the call it makes.  A functional belongs to the place it was written in: whoever evaluates it, and
      whenever, its `::` means the inherits of ITS level and the function it reaches runs on the variables of ITS copy. -/
  stash : Option (Nat × List Nat × ACall) := none

/-- run the body of `fn` as defined in the program at the end of `path` (from the object's program T) -/
def runFn (g : AGraph) (T : Nat) : Nat → List Nat → String → List Int → List Int → List Ev →
    Option (Nat × List Nat × ACall) → Run
  | 0, _, _, _, vars, evs, stash => { vars, evs, ok := false, stash }
  | fuel + 1, path, fn, actual, vars, evs, stash =>
    let p := endOf g T path
    match g[p]?.bind (fun P => (P.fns.find? (fun f => f.name == fn && f.isDef)).map (fun f => (P, f))) with
    | none => { vars, evs := .err :: evs, ok := false, stash }
    | some (P, f) =>
      let vi := varIndex g T path
      let evs := Ev.run P.name fn (vars.getD vi 0) :: evs
      let evs := if f.nargs > 0 then Ev.args (seenArgs actual f.nargs) :: evs else evs
      let vars := vars.set vi (codeOf P.name fn)
      let vars := if P.hasW then vars.set (vi + 1) (codeOf P.name fn + 5000) else vars
      f.calls.foldl (fun (r : Run) c =>
        if !r.ok then r else
        -- the call that is made now, and the level it was written in
        let made : Option (List Nat × ACall) × Option (Nat × List Nat × ACall) :=
          match c with
          | .stashSup par n => (none, some (T, path, .sup par n))
          | .stashLoc n => (none, some (T, path, .loc n))
          | .runStash =>
            (match r.stash with
             | some (owner, cpath, cc) => if owner == T then (some (cpath, cc), none) else (none, r.stash)   -- fetched once
             | none => (none, r.stash))
          | c => (some (path, c), r.stash)
        match made with
        | (none, st) => { r with stash := st }
        | (some (cpath, cc), st) =>
          let target : Option (List Nat × String) :=
            match cc with
            | .loc n | .fp n => (resolve g.toS T n).map (fun pth => (pth, n))
            | .sup par n => (resolveSuper g (endOf g T cpath) par n).map (fun pth => (cpath ++ pth, n))
            | _ => none
          match target with
          | none => { r with evs := .err :: r.evs, ok := false, stash := st }
          | some (pth, n) =>
            let a := match cc with | .fp _ => fpArgs | _ => localArgs
            runFn g T fuel pth n a r.vars r.evs st) { vars, evs, ok := true, stash }

/-- one object per program file; labels of the case name them -/
structure SObj where
  prog : Nat
  vars : List Int

structure SSt where
  objs : List SObj := []
  labels : List (String × Nat) := []
  evs : List Ev := []            -- newest first
  stash : Option (Nat × List Nat × ACall) := none

def SSt.obj? (s : SSt) (p : Nat) : Option SObj := s.objs.find? (·.prog == p)

def SSt.setVars (s : SSt) (p : Nat) (vs : List Int) : SSt :=
  { s with objs := s.objs.map (fun o => if o.prog == p then { o with vars := vs } else o) }

def SSt.emit (s : SSt) (e : Ev) : SSt := { s with evs := e :: s.evs }

def SSt.showVars (s : SSt) (label : String) (p : Nat) : SSt :=
  match s.obj? p with
  | some o => s.emit (.vars label o.vars)
  | none => s

def callerOf (origin : String) : Caller :=
  if origin == "co" || origin == "com" || origin == "coa" || origin == "cos" then .callOther
  else if origin == "drv" || origin == "hb" then .driver
  else .callOut

/-- outcome of a call by name of a caller of kind c on the object of program p: depends on the graph, the kind of
    caller and the object's variables only — there is no call history and no "origin left over" in the specification -/
inductive Outcome where
  | absent                 -- no such function, or not allowed for this caller
  | ran (tag : String)
  | failed                 -- ran into a runtime error
  | noobj
  deriving Repr, BEq

def callOn (g : AGraph) (s : SSt) (c : Caller) (p : Nat) (fn : String) (args : List Int := []) : Outcome × SSt :=
  match s.obj? p with
  | none => (.noobj, s)
  | some ob =>
    match resolve g.toS p fn with
    | none => (.absent, s)
    | some path =>
      if !(allowed c (effMods g fn p path)) then (.absent, s)
      else
        let r := runFn g p 64 path fn args ob.vars s.evs s.stash
        let s := { (s.setVars p r.vars) with evs := r.evs, stash := r.stash }
        let defProg := ((g[endOf g p path]?).map (·.name)).getD "?"
        (if r.ok then .ran s!"\"{defProg}:{fn}\"" else .failed, s)

/-- loading the object of program p: the inherited files first, in the order of the inherit statements; every new
    object runs its `create` (a driver call: whatever its modifiers) if it has one -/
def specLoad (g : AGraph) : Nat → SSt → Nat → SSt
  | 0, s, _ => s
  | fuel + 1, s, p =>
    match s.obj? p with
    | some _ => s
    | none =>
      match g[p]? with
      | none => s
      | some P =>
        let s := P.inherits.foldl (fun s i => specLoad g fuel s (g.indexOf i.parent)) s
        let s := { s with objs := s.objs ++ [{ prog := p, vars := List.replicate (size g (g.length + 1) p) 0 }] }
        (callOn g s .driver p "create").2

inductive STarget where
  | obj (label : String)
  | path (name : String)
  | other
  deriving Repr, BEq

def STarget.label : STarget → String
  | .obj l => l
  | .path n => "=" ++ n
  | .other => "0"

def SSt.progOf (g : AGraph) (s : SSt) : STarget → Option Nat
  | .obj l => (s.labels.find? (·.1 == l)).map (·.2)
  | .path n => let i := g.indexOf n; if i < g.length then some i else none
  | .other => none

/-- expected events of `call <origin> <oid> <fn>` (single object target) -/
def specCall (g : AGraph) (s : SSt) (origin oid fn : String) (args : List Int := []) : SSt :=
  let s := s.emit (.call origin oid fn)
  match (s.labels.find? (·.1 == oid)).map (·.2) with
  | none => s.emit (.ret "!noobj")
  | some p =>
    -- the heart beat is not a call by a name the caller chooses: the driver runs the object's `heart_beat`, if any
    let fn' := if origin == "hb" then "heart_beat" else fn
    let quiet := if origin == "hb" then some "ticked" else if origin == "rco" then some "swept" else none
    let (o, s) := callOn g s (callerOf origin) p fn' args
    let txt := match quiet, o with
      | some q, _ => q
      | none, .absent => "!no"
      | none, .ran tag => tag
      | none, .failed => "!err"
      | none, .noobj => "!noobj"
    (s.emit (.ret txt)).showVars oid p

/-- expected events of a call_other on an array of targets / on a file name: every element is an ordinary call_other
    on that element's object (loaded on demand), independent of the other elements and of what loading did -/
def specCallTargets (g : AGraph) (s : SSt) (isArray : Bool) (ts : List STarget) (fn : String) : SSt :=
  let shown := ",".intercalate (ts.map STarget.label)
  let s := s.emit (.call (if isArray then "coa" else "cos") shown fn)
  let showAll (s : SSt) : SSt := ts.foldl (fun s t => match s.progOf g t with | some p => s.showVars t.label p | none => s) s
  if isArray then
    let (res, s, ok) := ts.foldl (fun (acc : List String × SSt × Bool) t =>
      let (res, s, ok) := acc
      if !ok then acc else
      match s.progOf g t with
      | none => (res ++ ["0"], s, true)
      | some p =>
        let s := match t with | .path _ => specLoad g (g.length + 1) s p | _ => s
        let (o, s) := callOn g s .callOther p fn
        match o with
        | .ran tag => (res ++ [tag], s, true)
        | .failed => (res, s, false)
        | _ => (res ++ ["0"], s, true)) ([], s, true)
    showAll (s.emit (.ret (if ok then "({" ++ ",".intercalate res ++ "})" else "!err")))
  else
    match ts with
    | [t] =>
      match s.progOf g t with
      | none => (s.emit .err).emit (.ret "!err")
      | some p =>
        let s := specLoad g (g.length + 1) s p
        let (o, s) := callOn g s .callOther p fn
        let txt := match o with | .ran tag => tag | .failed => "!err" | _ => "0"
        showAll (s.emit (.ret txt))
    | _ => s

end NV.C07.Spec
