/-
C07 — function_index_offset / variable_index_offset as a modelled register through EVERY call kind: whichever way a
function body is entered (a call by name through apply_low with any cache, a call by runtime slot — local call,
function pointer, the call inside a functional, heart_beat — or F_CALL_INHERITED from a frame that was entered
correctly, including a STORED functional evaluated later by other code, which runs from its creator's frame), the frame
has the offsets of a chain of inherit entries from the OBJECT's program to the program that defines the running
function: it sees the slots and the variable block of its own copy.
-/
import NV.C07.Model
import NV.C07.Lemmas

namespace NV.C07

open NV.Gen.C07

/-- the frame's offsets are the sums along a chain of inherit entries from the object's program to the frame's -/
def OwnBlock (w : World) (obProg : Nat) (fr : Frame) : Prop :=
  ∃ path, ValidChain w obProg path fr.prog ∧ fr.fio = sumFio path ∧ fr.vio = sumVio path

/-- every way the model enters a function body of an object of program `obProg` -/
inductive Entered (w : World) (obProg : Nat) : Frame → Prop
  /-- apply_low (call_other, driver applies, call_out, ...) with any truthful cache, hit or miss -/
  | byName (c : Cache) (hc : Inv w c) (origin ptr : Nat) (name : NameKey) (q k f v : Nat) (c' : Cache) :
      applyLow w c origin obProg ptr name = (.call q k f v, c') → Entered w obProg { prog := q, fidx := k, fio := f, vio := v }
  /-- setup_new_frame on a runtime slot of the object's program: F_CALL_FUNCTION_BY_ADDRESS, call_function_pointer
      FP_LOCAL, call_function (heart_beat) -/
  | bySlot (slot : Nat) (fr : Frame) : setupNewFrame w obProg slot = some fr → Entered w obProg fr
  /-- F_CALL_INHERITED executed by code running in a frame that was itself entered in one of these ways (the frame of
      the running body, or — for a functional — the frame its creator ran in, restored by call_function_pointer) -/
  | inherited (cur : Frame) (inh idx : Nat) (fr : Frame) :
      Entered w obProg cur → setupInheritedFrame w cur inh idx = some fr → Entered w obProg fr

theorem validChain_append (w : World) : ∀ (p : Nat) (l1 : List Inherit) (q : Nat) (l2 : List Inherit) (r : Nat),
    ValidChain w p l1 q → ValidChain w q l2 r → ValidChain w p (l1 ++ l2) r := by
  intro p l1
  induction l1 generalizing p with
  | nil =>
    intro q l2 r h1 h2
    simp only [ValidChain] at h1
    subst h1
    simpa using h2
  | cons ih rest hind =>
    intro q l2 r h1 h2
    simp only [ValidChain, List.cons_append] at h1 ⊢
    exact ⟨h1.1, hind ih.prog q l2 r h1.2 h2⟩

theorem sumFio_append (a b : List Inherit) : sumFio (a ++ b) = sumFio a + sumFio b := by simp [sumFio]
theorem sumVio_append (a b : List Inherit) : sumVio (a ++ b) = sumVio a + sumVio b := by simp [sumVio]

/-- a call by name that runs enters the frame find_function computes (whatever the cache holds) -/
theorem applyLow_call_is_find (w : World) (c : Cache) (hc : Inv w c) (origin p ptr : Nat) (name : NameKey)
    (q k f v : Nat) (c' : Cache) (h : applyLow w c origin p ptr name = (.call q k f v, c')) :
    find w p name = .found q k f v := by
  have h1 := (applyLow_inv w c hc origin p ptr name).1
  rw [h] at h1
  simp only at h1
  -- the cold path
  unfold applyLow at h1
  cases hP : w.progs[p]? with
  | none => simp [hP] at h1
  | some P =>
    simp only [hP, cacheLookup_empty] at h1
    unfold applyMiss at h1
    cases hf : find w p name with
    | crash => simp [hf] at h1
    | none => simp [hf] at h1
    | found q' k' f' v' =>
      simp only [hf] at h1
      unfold enter at h1
      cases hfl : applyFlags w p q' k' f' with
      | none => simp [hfl] at h1
      | some fl =>
        simp only [hfl] at h1
        split at h1
        · injection h1 with e1 e2 e3 e4
          subst e1; subst e2; subst e3; subst e4; rfl
        · simp at h1

/-- **every_frame_sees_its_own_block** — for every world, every object program, every cache history and every sequence
    of nested calls of any kind: the frame a body runs in has function_index_offset / variable_index_offset equal to
    the sums of the offsets along a chain of inherit entries from the object's program to the program that defines
    the running function. -/
theorem every_frame_sees_its_own_block (w : World) (obProg : Nat) (fr : Frame) (h : Entered w obProg fr) :
    OwnBlock w obProg fr := by
  induction h with
  | byName c hc origin ptr name q k f v c' hcall =>
    have hf := applyLow_call_is_find w c hc origin obProg ptr name q k f v c' hcall
    obtain ⟨path, hv, h1, h2⟩ := findFunction_sums w name _ _ _ _ _ _ hf
    exact ⟨path, hv, h1, h2⟩
  | bySlot slot fr hs =>
    obtain ⟨path, hv, h1, h2⟩ := chase_sums w _ _ _ _ _ _ hs
    exact ⟨path, hv, by omega, by omega⟩
  | inherited cur inh idx fr _ hs ih =>
    obtain ⟨p1, hv1, hf1, hvio1⟩ := ih
    unfold setupInheritedFrame at hs
    cases hP : w.progs[cur.prog]? with
    | none => simp [hP] at hs
    | some P =>
      cases hih : P.inherit[inh]? with
      | none => simp [hP, hih] at hs
      | some ihh =>
        simp only [hP, hih, Option.bind_eq_bind, Option.bind_some] at hs
        obtain ⟨p2, hv2, hf2, hvio2⟩ := chase_sums w _ _ _ _ _ _ hs
        have hstep : ValidChain w cur.prog [ihh] ihh.prog := by
          simp only [ValidChain]
          exact ⟨⟨P, hP, List.mem_of_getElem? hih⟩, trivial⟩
        refine ⟨p1 ++ ([ihh] ++ p2), ?_, ?_, ?_⟩
        · exact validChain_append w _ _ _ _ _ hv1 (validChain_append w _ _ _ _ _ hstep hv2)
        · rw [sumFio_append, sumFio_append]; simp [sumFio] at *; omega
        · rw [sumVio_append, sumVio_append]; simp [sumVio] at *; omega

/-- the executable model makes nested calls only through `calleeOf` (Model.execOps: ordinary calls from the running
    frame, stored functionals from their creator's frame): whatever it answers from a correctly entered frame is a
    correctly entered frame -/
theorem calleeOf_entered (w : World) (obProg : Nat) (cur : Frame) (hcur : Entered w obProg cur) (op : CallOp)
    (vars : List Int) (evs : List Ev) (stash : Stash) (f : Frame)
    (h : calleeOf w obProg cur op vars evs stash = .ok f) : Entered w obProg f := by
  unfold calleeOf at h
  cases op with
  | sup inh idx =>
    simp only at h
    cases hs : setupInheritedFrame w cur inh idx with
    | none => simp [hs] at h
    | some f' =>
      simp only [hs] at h
      injection h with h; subst h
      exact .inherited cur inh idx f' hcur hs
  | loc idx =>
    simp only at h
    cases hT : w.progs[obProg]? with
    | none => simp [hT] at h
    | some T =>
      simp only [hT] at h
      cases hfl : T.flags[idx + cur.fio]? with
      | none => simp [hfl] at h
      | some fl =>
        simp only [hfl] at h
        split at h
        · simp at h
        · cases hs : setupNewFrame w obProg (idx + cur.fio) with
          | none => simp [hs] at h
          | some f' =>
            simp only [hs] at h
            injection h with h; subst h
            exact .bySlot _ f' hs
  | fp idx =>
    simp only at h
    cases hT : w.progs[obProg]? with
    | none => simp [hT] at h
    | some T =>
      simp only [hT] at h
      cases hfl : T.flags[idx + cur.fio]? with
      | none => simp [hfl] at h
      | some fl =>
        simp only [hfl] at h
        split at h
        · simp at h
        · cases hs : setupNewFrame w obProg (idx + cur.fio) with
          | none => simp [hs] at h
          | some f' =>
            simp only [hs] at h
            injection h with h; subst h
            exact .bySlot _ f' hs
  | stashSup a b => simp at h
  | stashLoc a => simp at h
  | runStash => simp at h

/-- non-vacuity on a two-level world: the inherited static function entered by name, by slot and through `::` -/
example :
    let w : World := { progs := [
      { name := "p0", id := 3, nvt := 1, nvd := 1, ft := [{ name := 1, rindex := 0 }], flags := [0], rt := [.defn 0 0], inherit := [] },
      { name := "p1", id := 4, nvt := 3, nvd := 1, ft := [{ name := 2, rindex := 1 }],
        flags := [nameInherited, 0], rt := [.inh 0 0, .defn 0 0], inherit := [{ prog := 0, fio := 0, vio := 1 }] } ] }
    setupNewFrame w 1 0 = some { prog := 0, fidx := 0, fio := 0, vio := 1 } ∧
    setupInheritedFrame w { prog := 1, fidx := 0, fio := 0, vio := 0 } 0 0 = some { prog := 0, fidx := 0, fio := 0, vio := 1 } := by
  decide

end NV.C07
