/-
C07 — executable model of function dispatch in taedlar/neolith, written from the C code as it exists
(after the two `fix:` commits recorded in notes/C07.md):

  src/apply.c      find_function (binary search by name pointer + recursive search of the inherits,
                   last to first), function_visible, the apply cache (2^APPLY_CACHE_BITS slots, hashed by
                   program id and function-name pointer, positive and negative entries), apply_low
  src/frame.c      setup_new_frame / setup_inherited_frame (NAME_INHERITED chasing with offset accumulation)
  src/interpret.c  F_CALL_FUNCTION_BY_ADDRESS, F_CALL_INHERITED
  lib/lpc/functional.c  FP_LOCAL function pointers (make_lfun_funp / call_function_pointer)

A program is what the C structures hold: the sorted function table (name, runtime index), the flags array
and the (decompressed) runtime entries indexed by runtime index, the inherit list with function / variable
index offsets.  Pointers to programs are indices into a `World`; the pointer of a shared function-name string
is a `Nat` key (only its order and its hash matter).  A C access out of range is the explicit outcome
`crash`.  All flag bits, origins and the cache size come from the regenerated `NV.Gen.C07`.
-/
import NV.Gen.C07

namespace NV.C07

open NV.Gen.C07

/-- the pointer of a shared string (function name) -/
abbrev NameKey := Nat

/-- call operands the compiler put into a function body (dumped by the harness from the bytecode) -/
inductive CallOp where
  | loc (idx : Nat)                 -- F_CALL_FUNCTION_BY_ADDRESS idx
  | sup (inh : Nat) (idx : Nat)     -- F_CALL_INHERITED inh idx
  | fp (idx : Nat)                  -- F_FUNCTION_CONSTRUCTOR FP_LOCAL idx, then evaluate()
  | stashSup (inh : Nat) (idx : Nat) -- a functional `(: ::f() :)` is made and STORED (in /c07/caller), not evaluated
  | stashLoc (idx : Nat)            -- the same for `(: f() :)`
  | runStash                        -- the stored functional of this object, if any, is evaluated by THIS frame
  deriving Repr, BEq, DecidableEq

/-- compiler_function_t: one entry of `function_table` -/
structure FnEntry where
  name : NameKey
  rindex : Nat
  nameStr : String := ""
  ops : List CallOp := []
  deriving Repr

/-- runtime_function_u as returned by FIND_FUNC_ENTRY -/
inductive REntry where
  | defn (fIndex : Nat) (numArg : Nat)
  | inh (offset : Nat) (index : Nat)
  deriving Repr, BEq, DecidableEq

/-- inherit_t; `prog` is the index of the inherited program in the world -/
structure Inherit where
  prog : Nat
  fio : Nat
  vio : Nat
  typeMod : Nat := 0
  deriving Repr, BEq, DecidableEq

structure Program where
  name : String := ""
  id : Nat
  nvt : Nat := 0                    -- num_variables_total
  nvd : Nat := 0                    -- num_variables_defined
  ft : List FnEntry                 -- function_table[0 .. num_functions_defined)
  flags : List Nat                  -- function_flags[0 .. num_functions_total)
  rt : List REntry                  -- FIND_FUNC_ENTRY (prog, i) for every runtime index
  inherit : List Inherit
  heartBeat : Option Nat := none     -- prog->heart_beat (runtime index of `heart_beat`, -1 = none)
  deriving Repr

structure World where
  progs : List Program
  deriving Repr

/-- `x & mask` is non-zero -/
@[inline] def hasBit (x mask : Nat) : Bool := x &&& mask != 0

/-! ### find_function -/

/-- The `while (high >= low)` loop of find_function on the half-open interval [lo, hi)
    (`high = hi - 1`, so `mid = (high + low) / 2 = (lo + hi - 1) / 2`).  `fuel` bounds the iterations; the
    interval shrinks in every iteration, so `hi - lo` is enough. -/
def bsearchF (ft : List FnEntry) (name : NameKey) : Nat → Nat → Nat → Option Nat
  | 0, _, _ => none
  | fuel + 1, lo, hi =>
    if lo < hi then
      let mid := (lo + hi - 1) / 2
      match ft[mid]? with
      | none => none
      | some e =>
        if name < e.name then bsearchF ft name fuel lo mid
        else if name > e.name then bsearchF ft name fuel (mid + 1) hi
        else some mid
    else none

def bsearch (ft : List FnEntry) (name : NameKey) (lo hi : Nat) : Option Nat := bsearchF ft name (hi - lo) lo hi

/-- what the search of a program's own table says -/
inductive TableRes where
  | here (k : Nat)        -- a real definition at table index k
  | notHere               -- `return 0`: undefined / prototype only
  | inherits              -- not in the table, or the entry is NAME_INHERITED: search the inherits
  | crash
  deriving Repr, BEq, DecidableEq

def tableSearch (p : Program) (name : NameKey) : TableRes :=
  match bsearch p.ft name 0 p.ft.length with
  | none => .inherits
  | some mid =>
    match p.ft[mid]? with
    | none => .crash
    | some e =>
      match p.flags[e.rindex]? with
      | none => .crash
      | some fl =>
        if hasBit fl (nameUndefined ||| namePrototype ||| nameInherited) then
          if hasBit fl nameInherited then .inherits else .notHere
        else .here mid

/-- result of find_function: the program, the index into ITS function table, and the offsets -/
inductive FindRes where
  | crash
  | none
  | found (prog : Nat) (index : Nat) (fio : Nat) (vio : Nat)
  deriving Repr, BEq, DecidableEq

/-- `i = prog->num_inherited; while (i--) ...` over the inherits given last-first -/
def searchInh (rec : Nat → FindRes) : List Inherit → FindRes
  | [] => .none
  | ih :: rest =>
    match rec ih.prog with
    | .crash => .crash
    | .found q k f v => .found q k (f + ih.fio) (v + ih.vio)
    | .none => searchInh rec rest

/-- find_function (prog, name, &index, &fio, &vio); `fuel` bounds the inherit depth -/
def findFunction (w : World) : Nat → Nat → NameKey → FindRes
  | 0, _, _ => .crash
  | fuel + 1, p, name =>
    match w.progs[p]? with
    | none => .crash
    | some P =>
      match tableSearch P name with
      | .crash => .crash
      | .here k => .found p k 0 0
      | .notHere => .none
      | .inherits => searchInh (fun q => findFunction w fuel q name) P.inherit.reverse

/-- enough fuel for every well-formed world (inherited programs have smaller indices) -/
def World.fuel (w : World) : Nat := w.progs.length + 1

def find (w : World) (p : Nat) (name : NameKey) : FindRes := findFunction w w.fuel p name

/-! ### visibility -/

/-- function_visible (origin, func_flags): the decision itself is REGENERATED from the clang AST of the C function
    on every run (`NV.Gen.C07.functionVisibleGen`); the theorems below are stated over it -/
def functionVisible (origin flags : Nat) : Bool := functionVisibleGen origin flags

/-! ### the apply cache and apply_low -/

/-- cache_entry_t; `progp = none` is the negative entry ("the function isn't here") -/
structure CacheEntry where
  id : Nat
  oprogp : Nat
  name : NameKey
  progp : Option (Nat × Nat × Nat × Nat)     -- (progp, index, function_index_offset, variable_index_offset)
  deriving Repr, BEq, DecidableEq

abbrev Cache := List (Option CacheEntry)

def cacheSize : Nat := 2 ^ applyCacheBits

def Cache.empty : Cache := List.replicate cacheSize none

/-- `(progp->id_number ^ (intptr_t) fun ^ ((intptr_t) fun >> APPLY_CACHE_BITS)) & cache_mask`: the right-hand side of
    `ix = ...` in apply_low, REGENERATED from the clang AST on every run (`NV.Gen.C07.slotOfGen`); its shape and range
    are the bridging lemmas `slotOf_formula` / `slotOf_lt` (NV/C07/Tie.lean) -/
def slotOf (id ptr : Nat) : Nat := slotOfGen id ptr

/-- what apply_low does, seen from its caller -/
inductive ApplyRes where
  | crash
  | fail                                            -- returns 0: not there, or not visible to this caller
  | call (prog : Nat) (index : Nat) (fio : Nat) (vio : Nat)   -- frame set up, body runs
  deriving Repr, BEq, DecidableEq

/-- flags tested by apply_low: `ob->prog->function_flags[funp->runtime_index + fio]` -/
def applyFlags (w : World) (obProg : Nat) (q k fio : Nat) : Option Nat := do
  let Q ← w.progs[q]?
  let e ← Q.ft[k]?
  let P ← w.progs[obProg]?
  P.flags[e.rindex + fio]?

/-- the part of apply_low after the function is known -/
def enter (w : World) (origin obProg : Nat) (q k fio vio : Nat) : ApplyRes :=
  match applyFlags w obProg q k fio with
  | none => .crash
  | some fl => if functionVisible origin fl then .call q k fio vio else .fail

/-- the hit test of apply_low: `entry->id == progp->id_number && entry->oprogp == progp && !strcmp (entry->name, fun)` -/
def cacheLookup (c : Cache) (ix id obProg : Nat) (name : NameKey) : Option CacheEntry :=
  match c[ix]? with
  | some (some e) => if e.id == id && e.oprogp == obProg && e.name == name then some e else none
  | _ => none

/-- the miss path of apply_low: search, store a positive entry when the function exists (whether or not this
    caller may run it), a negative entry only when it does not exist -/
def applyMiss (w : World) (c : Cache) (origin obProg id ix : Nat) (name : NameKey) : ApplyRes × Cache :=
  match find w obProg name with
  | .crash => (.crash, c)
  | .found q k fio vio =>
    (enter w origin obProg q k fio vio,
     c.set ix (some { id := id, oprogp := obProg, name := name, progp := some (q, k, fio, vio) }))
  | .none =>
    (.fail, c.set ix (some { id := id, oprogp := obProg, name := name, progp := none }))

/-- apply_low (fun, ob, num_arg) with `call_origin = origin`; `ptr` is the pointer value of `fun` (used for the
    hash only), `name` the shared string it denotes (used by strcmp and by find_function). -/
def applyLow (w : World) (c : Cache) (origin obProg : Nat) (ptr : Nat) (name : NameKey) : ApplyRes × Cache :=
  match w.progs[obProg]? with
  | none => (.crash, c)
  | some P =>
    let ix := slotOf P.id ptr
    match cacheLookup c ix P.id obProg name with
    | some e =>
      match e.progp with
      | some (q, k, fio, vio) => (enter w origin obProg q k fio vio, c)
      | none => (.fail, c)
    | none => applyMiss w c origin obProg P.id ix name

/-! ### frames -/

structure Frame where
  prog : Nat        -- current_prog
  fidx : Nat        -- csp->fr.table_index
  fio : Nat         -- function_index_offset
  vio : Nat         -- variable_index_offset
  deriving Repr, BEq, DecidableEq

/-- the `while (current_prog->function_flags[index] & NAME_INHERITED)` loop shared by setup_new_frame
    (started with offsets 0) and setup_inherited_frame (started with the caller's offsets plus the
    inherit's); `none` = access out of range -/
def chase (w : World) : Nat → Nat → Nat → Nat → Nat → Option Frame
  | 0, _, _, _, _ => none
  | fuel + 1, p, index, fio, vio => do
    let P ← w.progs[p]?
    let fl ← P.flags[index]?
    let e ← P.rt[index]?
    if hasBit fl nameInherited then
      match e with
      | .inh off idx =>
        let ih ← P.inherit[off]?
        chase w fuel ih.prog idx (fio + ih.fio) (vio + ih.vio)
      | .defn .. => none
    else
      match e with
      | .defn fi _ => some { prog := p, fidx := fi, fio := fio, vio := vio }
      | .inh .. => none

def setupNewFrame (w : World) (obProg index : Nat) : Option Frame := chase w w.fuel obProg index 0 0

def setupInheritedFrame (w : World) (cur : Frame) (inh index : Nat) : Option Frame := do
  let P ← w.progs[cur.prog]?
  let ih ← P.inherit[inh]?
  chase w w.fuel ih.prog index (cur.fio + ih.fio) (cur.vio + ih.vio)

/-! ### running the generated LPC bodies

Every generated function `pK:fJ` logs `run pK:fJ <old value of its own variable>`, stores its code
`(K+1)*100 + J` into the variable of its own level, performs its calls in order and returns "pK:fJ". -/

inductive Ev where
  | line (s : String)                                 -- echoed harness line
  | call (origin oid fn : String)
  | run (file fn : String) (old : Int)
  | args (vs : List Int)                              -- the parameters as the callee finds them
  | err (msg : String)
  | ret (v : String)
  | vars (oid : String) (vs : List Int)
  deriving Repr, BEq, DecidableEq

def Ev.render : Ev → String
  | .line s => s
  | .call o oid fn => s!"call {o} {oid} {fn}"
  | .run f n old => s!"run {f}:{n} {old}"
  | .args vs => vs.foldl (fun s v => s ++ " " ++ toString v) "args"
  | .err m => s!"err {m}"
  | .ret v => s!"ret {v}"
  | .vars oid vs => vs.foldl (fun s v => s ++ " " ++ toString v) s!"vars {oid}"

def digitsOf (s : String) : Nat := ((String.ofList (s.toList.filter Char.isDigit)).toNat?).getD 0

/-- the value a generated body stores into its own variable -/
def codeOf (file fn : String) : Int := Int.ofNat ((digitsOf file + 1) * 100 + digitsOf fn)

inductive Outcome where
  | ok
  | error          -- LPC runtime error (caught by the harness)
  | crash          -- C access out of range
  deriving Repr, BEq, DecidableEq

/-- a stored functional: the program of the object that made it (its owner), the frame it was made in — a functional
    carries the creator's function_index_offset / variable_index_offset (funp->f.functional.fio / vio) and program —
    and the call its code makes -/
abbrev Stash := Option (Nat × Frame × CallOp)

structure Run where
  vars : List Int
  evs : List Ev            -- newest first
  out : Outcome
  stash : Stash := none

/-- name of runtime slot `index` of program p (function_name()) -/
def functionName (w : World) (p index : Nat) : String :=
  match chase w w.fuel p index 0 0 with
  | some fr => ((w.progs[fr.prog]?.bind (·.ft[fr.fidx]?)).map (·.nameStr)).getD "?"
  | none => "?"

/-! ### arguments: setup_variables (src/frame.c)

`setup_variables (actual, local, num_arg)`: with more arguments than parameters the surplus is popped
(`pop_n_elems (actual - num_arg)`), then the locals are pushed; with fewer, `push_undefineds` fills the missing
parameters and the locals.  The frame the callee sees therefore has exactly `num_arg` parameter cells: the first
`min actual num_arg` arguments in order, then undefined (the number 0). -/

/-- the parameter cells after setup_variables -/
def setupVariables (actual : List Int) (numArg : Nat) : List Int :=
  if actual.length ≥ numArg then actual.take numArg                      -- pop the surplus
  else actual ++ List.replicate (numArg - actual.length) 0               -- push_undefineds

/-- `def.num_arg` of the function a frame runs: the runtime entry that names table index `fidx` -/
def numArgOf (P : Program) (fidx : Nat) : Nat :=
  (P.rt.findSome? (fun e => match e with
    | .defn fi na => if fi == fidx then some na else none
    | .inh .. => none)).getD 0

/-- the arguments the generated bodies pass: local / `::` calls and the calls inside functionals, function pointers -/
def localArgs : List Int := [11, 12]
def fpArgs : List Int := [21, 22, 23]

/-- the frame a call made by code running in frame `fr` enters: F_CALL_FUNCTION_BY_ADDRESS / a function pointer
    (slot `idx + fr.fio` of the OBJECT's program, range and NAME_UNDEFINED tests, setup_new_frame) or F_CALL_INHERITED
    (setup_inherited_frame from `fr`'s offsets) -/
def calleeOf (w : World) (obProg : Nat) (fr : Frame) (op : CallOp) (vars : List Int) (evs : List Ev) (stash : Stash) :
    Except Run Frame :=
  match op with
  | .loc idx | .fp idx =>
    let off := idx + fr.fio
    match w.progs[obProg]? with
    | none => .error { vars, evs, out := .crash, stash }
    | some T =>
      match T.flags[off]? with
      | none =>
        -- F_CALL_FUNCTION_BY_ADDRESS checks the range; the function pointer path does not
        (match op with
         | .loc _ => .error { vars, evs := Ev.err "illegal function index" :: evs, out := .error, stash }
         | _ => .error { vars, evs, out := .crash, stash })
      | some fl =>
        if hasBit fl nameUndefined then
          let nm := functionName w obProg off
          (match op with
           | .loc _ => .error { vars, evs := Ev.err s!"undefined function: {nm}" :: evs, out := .error, stash }
           | _ => .error { vars, evs := Ev.err s!"*Undefined function: {nm}" :: evs, out := .error, stash })
        else
          match setupNewFrame w obProg off with
          | some f => .ok f
          | none => .error { vars, evs, out := .crash, stash }
  | .sup inh idx =>
    match setupInheritedFrame w fr inh idx with
    | some f => .ok f
    | none => .error { vars, evs, out := .crash, stash }
  | _ => .error { vars, evs, out := .crash, stash }

mutual
/-- run the body in frame `fr` of an object whose program is `obProg`, called with the arguments `actual` -/
def execBody (w : World) (obProg : Nat) : Nat → Frame → List Int → List Int → List Ev → Stash → Run
  | 0, _, _, vars, evs, stash => { vars, evs, out := .crash, stash }
  | fuel + 1, fr, actual, vars, evs, stash =>
    match w.progs[fr.prog]? with
    | none => { vars, evs, out := .crash, stash }
    | some P =>
      match P.ft[fr.fidx]? with
      | none => { vars, evs, out := .crash, stash }
      | some fe =>
        let vi := fr.vio + (P.nvt - P.nvd)
        match vars[vi]? with
        | none => { vars, evs, out := .crash, stash }
        | some old =>
          let evs := Ev.run P.name fe.nameStr old :: evs
          -- functions with parameters log them
          let na := numArgOf P fr.fidx
          let evs := if na > 0 then Ev.args (setupVariables actual na) :: evs else evs
          let vars := vars.set vi (codeOf P.name fe.nameStr)
          -- programs with a second own variable (`private int w;`, the same name at several levels) store there too
          let vars := if P.nvd ≥ 2 then vars.set (vi + 1) (codeOf P.name fe.nameStr + 5000) else vars
          execOps w obProg fuel fr fe.ops vars evs stash

def execOps (w : World) (obProg : Nat) : Nat → Frame → List CallOp → List Int → List Ev → Stash → Run
  | _, _, [], vars, evs, stash => { vars, evs, out := .ok, stash }
  | fuel, fr, op :: rest, vars, evs, stash =>
    -- which call is made, from which frame's offsets, with which arguments (none = no call: the functional is stored)
    let what : Option (Frame × CallOp) × Stash :=
      match op with
      | .stashSup inh idx => (none, some (obProg, fr, .sup inh idx))
      | .stashLoc idx => (none, some (obProg, fr, .loc idx))
      | .runStash =>
        -- /c07/caller hands the stored functional back to its owner only; call_function_pointer FP_FUNCTIONAL restores the
        -- CREATOR's offsets and program, whatever the offsets of the frame that evaluates it
        (match stash with
         | some (owner, cfr, cop) => if owner == obProg then (some (cfr, cop), none) else (none, stash)   -- fetched once
         | none => (none, stash))
      | op => (some (fr, op), stash)
    match what with
    | (none, stash) => execOps w obProg fuel fr rest vars evs stash
    | (some (cfr, cop), stash) =>
      match calleeOf w obProg cfr cop vars evs stash with
      | .error r => r
      | .ok f =>
        match fuel with
        | 0 => { vars, evs, out := .crash, stash }
        | fuel' + 1 =>
          let a := match cop with | .fp _ => fpArgs | _ => localArgs
          let r := execBody w obProg fuel' f a vars evs stash
          match r.out with
          | .ok => execOps w obProg fuel' fr rest r.vars r.evs r.stash
          | _ => r
end

/-- fuel for bodies: the generated call graphs are acyclic and small -/
def bodyFuel : Nat := 4000

/-! ### the global `call_origin` and the efun layer above apply_low

`call_origin` (src/apply.c) is a GLOBAL: `apply (fun, ob, n, where)` stores `where` into it and calls apply_low;
apply_low copies it (`0` means ORIGIN_DRIVER) and ZEROES it.  f_call_other / call_all_other store ORIGIN_CALL_OTHER
immediately before each of their apply_low calls — after the target has been resolved, because resolving a target may
load an object, and loading applies `valid_object` on the master and `create` on the new object. -/

/-- the origin apply_low works with: `local_call_origin = call_origin; if (!local_call_origin) ... = ORIGIN_DRIVER` -/
def localOrigin (callOrigin : Nat) : Nat := if callOrigin == 0 then originDriver else callOrigin

/-- apply_low as it is called: consumes and zeroes the global -/
def applyLowG (w : World) (c : Cache) (callOrigin obProg ptr : Nat) (name : NameKey) : ApplyRes × Cache × Nat :=
  let (r, c') := applyLow w c (localOrigin callOrigin) obProg ptr name
  (r, c', 0)

/-- the protocol seen from the global: an interleaved `apply (.., where)` (loading an object applies valid_object
    and create; bodies may apply more), or one target of f_call_other / call_all_other -/
inductive PStep where
  | apply (origin p ptr : Nat) (name : NameKey)
  | target (p ptr : Nat) (name : NameKey)
  deriving Repr

/-- one protocol step on (cache, call_origin): both kinds store their origin immediately before apply_low -/
def pstep (w : World) (g : Cache × Nat) : PStep → ApplyRes × (Cache × Nat)
  | .apply origin p ptr name => let (r, c, co) := applyLowG w g.1 origin p ptr name; (r, (c, co))
  | .target p ptr name => let (r, c, co) := applyLowG w g.1 originCallOther p ptr name; (r, (c, co))

def psteps (w : World) (g : Cache × Nat) : List PStep → Cache × Nat
  | [] => g
  | st :: rest => psteps w (pstep w g st).2 rest

/-- one loaded object per program file (named objects); the harness' labels (`o1`, `=p3`) name them -/
structure Obj where
  prog : Nat
  vars : List Int

structure St where
  cache : Cache := Cache.empty
  callOrigin : Nat := 0
  objs : List Obj := []
  labels : List (String × Nat) := []     -- label -> program of the object
  out : List Ev := []                    -- newest first
  stash : Stash := none                  -- the functional stored in /c07/caller

def St.obj? (s : St) (p : Nat) : Option Obj := s.objs.find? (·.prog == p)

def St.setVars (s : St) (p : Nat) (vs : List Int) : St :=
  { s with objs := s.objs.map (fun o => if o.prog == p then { o with vars := vs } else o) }

inductive Origin where
  | co | com | drv | cot | rco | hb
  deriving Repr, BEq, DecidableEq

def Origin.code : Origin → Nat
  | .co | .com => originCallOther
  | .drv => originDriver
  | .cot | .rco => originCallOut
  | .hb => originDriver

def Origin.str : Origin → String
  | .co => "co" | .com => "com" | .drv => "drv" | .cot => "cot" | .rco => "rco" | .hb => "hb"

/-- what one call by name did -/
inductive CallRes where
  | crash
  | fail                  -- apply_low returned 0
  | ok (tag : String)     -- the body ran and returned its tag
  | error                 -- the body raised an LPC error
  | noobj
  deriving Repr, BEq, DecidableEq

/-- apply_low (with the global as it stands) on the object of program p, then the body -/
def callFn (w : World) (s : St) (p ptr : Nat) (key : NameKey) (args : List Int := []) : CallRes × St :=
  match s.obj? p with
  | none => (.noobj, s)
  | some ob =>
    let (r, c, co) := applyLowG w s.cache s.callOrigin p ptr key
    let s := { s with cache := c, callOrigin := co }
    match r with
    | .crash => (.crash, s)
    | .fail => (.fail, s)
    | .call q k fio vio =>
      let run := execBody w p bodyFuel { prog := q, fidx := k, fio := fio, vio := vio } args ob.vars s.out s.stash
      let tag := ((w.progs[q]?.bind (fun Q => (Q.ft[k]?).map (fun e => s!"\"{Q.name}:{e.nameStr}\""))).getD "?")
      let s : St := { (s.setVars p run.vars) with out := run.evs, stash := run.stash }
      match run.out with
      | .crash => (.crash, s)
      | .error => (.error, s)
      | .ok => (.ok tag, s)

/-- `apply (fun, ob, n, where)` -/
def applyFn (w : World) (s : St) (origin p ptr : Nat) (key : NameKey) (args : List Int := []) : CallRes × St :=
  callFn w { s with callOrigin := origin } p ptr key args

/-- load_object of program p's file unless its object exists: the inherited files first (in the order of the inherit
    statements, each loaded when the compiler first misses it), then the object; for every new object the master's
    `valid_object` is applied (an apply_low that finds nothing here, but consumes the global) and then `create` -/
def loadObj (w : World) (createKey : NameKey) : Nat → St → Nat → St
  | 0, s, _ => s
  | fuel + 1, s, p =>
    match s.obj? p with
    | some _ => s
    | none =>
      match w.progs[p]? with
      | none => s
      | some P =>
        let s : St := P.inherit.foldl (fun s ih => loadObj w createKey fuel s ih.prog) s
        let s : St := { s with objs := s.objs ++ [{ prog := p, vars := List.replicate P.nvt 0 }] }
        -- apply_master_ob (valid_object): call_origin = ORIGIN_DRIVER; apply_low (zeroes it)
        let s : St := { s with callOrigin := 0 }
        -- call_create: apply (create, ob, 0, ORIGIN_DRIVER)
        (applyFn w s originDriver p createKey createKey).2

def St.vars (s : St) (label : String) (p : Nat) : St :=
  match s.obj? p with
  | some ob => { s with out := Ev.vars label ob.vars :: s.out }
  | none => s

/-- one `call <origin> <oid> <fn>` command -/
def doCall (w : World) (s : St) (o : Origin) (oid : String) (fn : String) (key : NameKey) (args : List Int := []) : St :=
  let s := { s with out := Ev.call o.str oid fn :: s.out }
  match (s.labels.find? (·.1 == oid)).map (·.2) with
  | none => { s with out := Ev.ret "!noobj" :: s.out }
  | some p =>
    -- `com` passes a malloc'ed copy of the name: another pointer, the same text
    let ptr := if o == .com then key + 1000003 else key
    -- co / com go through the LPC caller: apply (do_call, caller, .., ORIGIN_DRIVER) consumes the global, then
    -- f_call_other stores ORIGIN_CALL_OTHER right before its apply_low
    let (r, s) := applyFn w { s with callOrigin := 0 } o.code p ptr key args
    let swept := o == .rco
    match r with
    | .crash => { s with out := Ev.line "crash model-out-of-range" :: s.out }
    | .noobj => { s with out := Ev.ret "!noobj" :: s.out }
    | .fail => (({ s with out := Ev.ret (if swept then "swept" else "!no") :: s.out }).vars oid p)
    | .error => (({ s with out := Ev.ret (if swept then "swept" else "!err") :: s.out }).vars oid p)
    | .ok tag => (({ s with out := Ev.ret (if swept then "swept" else tag) :: s.out }).vars oid p)

/-- an element of an array target / a string target -/
inductive Target where
  | obj (label : String)          -- an object the harness holds
  | path (name : String)          -- a file name; `none` program = no such file
  | other                         -- neither object nor string: skipped
  deriving Repr, BEq

/-- call_all_other: for every element resolve it (a string is find_or_load_object'ed: may load), then
    `call_origin = ORIGIN_CALL_OTHER; apply_low`; destructed / unloadable / other elements leave 0 -/
def callAllOther (w : World) (createKey : NameKey) (progOf : String → Option Nat) (ptr : Nat) (key : NameKey) :
    List Target → St → List String → (List String × St × Bool)
  | [], s, acc => (acc.reverse, s, true)
  | t :: rest, s, acc =>
    let resolved : Option Nat × St :=
      match t with
      | .obj l => ((s.labels.find? (·.1 == l)).map (·.2), s)
      | .path n =>
        match progOf n with
        | none => (none, s)
        | some p => (some p, loadObj w createKey (w.progs.length + 1) s p)
      | .other => (none, s)
    match resolved with
    | (none, s) => callAllOther w createKey progOf ptr key rest s ("0" :: acc)
    | (some p, s) =>
      let (r, s) := applyFn w s originCallOther p ptr key
      match r with
      | .ok tag => callAllOther w createKey progOf ptr key rest s (tag :: acc)
      | .fail | .noobj => callAllOther w createKey progOf ptr key rest s ("0" :: acc)
      | .error => (acc.reverse, s, false)
      | .crash => (acc.reverse, { s with out := Ev.line "crash model-out-of-range" :: s.out }, false)

def Target.label : Target → String
  | .obj l => l
  | .path n => "=" ++ n
  | .other => "0"

def targetProg (s : St) (progOf : String → Option Nat) : Target → Option Nat
  | .obj l => (s.labels.find? (·.1 == l)).map (·.2)
  | .path n => progOf n
  | .other => none

/-- `call coa <elems> <fn>` / `call cos =<path> <fn>` -/
def doCallTargets (w : World) (createKey : NameKey) (progOf : String → Option Nat) (s : St) (isArray : Bool)
    (ts : List Target) (fn : String) (key : NameKey) : St :=
  let shown := ",".intercalate (ts.map Target.label)
  let s := { s with out := Ev.call (if isArray then "coa" else "cos") shown fn :: s.out, callOrigin := 0 }
  let showVars (s : St) : St :=
    ts.foldl (fun s t => match targetProg s progOf t with | some p => s.vars t.label p | none => s) s
  if isArray then
    let (res, s, ok) := callAllOther w createKey progOf key key ts s []
    if ok then showVars { s with out := Ev.ret ("({" ++ ",".intercalate res ++ "})") :: s.out }
    else showVars { s with out := Ev.ret "!err" :: s.out }
  else
    match ts with
    | [.path n] =>
      match progOf n with
      | none => { s with out := Ev.ret "!err" :: Ev.err "call_other() couldn't find object" :: s.out }
      | some p =>
        let s := loadObj w createKey (w.progs.length + 1) s p
        let (r, s) := applyFn w s originCallOther p key key
        match r with
        | .ok tag => showVars { s with out := Ev.ret tag :: s.out }
        | .fail | .noobj => showVars { s with out := Ev.ret "0" :: s.out }
        | .error => showVars { s with out := Ev.ret "!err" :: s.out }
        | .crash => { s with out := Ev.line "crash model-out-of-range" :: s.out }
    | _ => { s with out := Ev.line "bad-target" :: s.out }

/-- `call hb <oid> ..`: one backend tick for an object with its heart beat on — call_function (prog, prog->heart_beat):
    nothing when there is no `heart_beat`, or its slot is NAME_UNDEFINED; else setup_new_frame on that slot.  No apply,
    no cache, no visibility test. -/
def doHeartBeat (w : World) (s : St) (oid fn : String) : St :=
  let evs := Ev.call "hb" oid fn :: s.out
  match (s.labels.find? (·.1 == oid)).bind (fun l => s.obj? l.2) with
  | none => { s with out := Ev.ret "!noobj" :: evs }
  | some ob =>
    let quiet : St := { s with out := Ev.vars oid ob.vars :: Ev.ret "ticked" :: evs }
    match w.progs[ob.prog]? with
    | none => { s with out := Ev.line "crash model-out-of-range" :: evs }
    | some T =>
      match T.heartBeat with
      | none => quiet
      | some idx =>
        if idx > T.flags.length then quiet
        else match T.flags[idx]? with
          | none => { s with out := Ev.line "crash model-out-of-range" :: evs }
          | some fl =>
            if hasBit fl nameUndefined then quiet
            else match setupNewFrame w ob.prog idx with
              | none => { s with out := Ev.line "crash model-out-of-range" :: evs }
              | some fr =>
                let run := execBody w ob.prog bodyFuel fr [] ob.vars evs s.stash
                let s := { s.setVars ob.prog run.vars with stash := run.stash }
                match run.out with
                | .crash => { s with out := Ev.line "crash model-out-of-range" :: run.evs }
                | _ => { s with out := Ev.vars oid run.vars :: Ev.ret "ticked" :: run.evs }

/-- `evict <oid> <fn>`: a driver apply of a name that does not exist anywhere and whose pointer hashes to
    the slot of (<oid>'s program, <fn>): same `ptr`, fresh name -/
def doEvict (w : World) (s : St) (oid fn : String) (key : NameKey) (fresh : NameKey) : St :=
  match (s.labels.find? (·.1 == oid)).map (·.2) with
  | none => s
  | some p =>
    let (_, c) := applyLow w s.cache originDriver p key fresh
    { s with cache := c, callOrigin := 0, out := Ev.line s!"evict {oid} {fn} done" :: s.out }

end NV.C07
