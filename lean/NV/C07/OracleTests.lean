/-
C07 — NEGATIVE examples for the oracle clauses (audit round): traces / tables the judge must reject.
Every `example` is checked by the kernel (`decide`); none of them is about the implementation.
-/
import NV.C07.Drive

namespace NV.C07.OracleTests

open NV.C07 NV.Gen.C07 Spec

/-! ### event comparison (`compareEvs`): expected (specification) vs observed (driver) -/

/-- a refused call_other that ran a body -/
example : compareEvs [.call "co" "o1" "f0", .ret "!no", .vars "o1" [0]]
                     [.call "co" "o1" "f0", .run "p0" "f0" 0, .ret "\"p0:f0\"", .vars "o1" [100]] ≠ [] := by decide

/-- an allowed driver apply that did not run (the negative-cache defect) -/
example : compareEvs [.call "drv" "o1" "f0", .run "p0" "f0" 0, .ret "\"p0:f0\"", .vars "o1" [100]]
                     [.call "drv" "o1" "f0", .ret "!no", .vars "o1" [0]] ≠ [] := by decide

/-- the right function with the wrong copy of the variables -/
example : compareEvs [.call "drv" "o1" "f0", .run "p0" "f0" 0, .ret "\"p0:f0\"", .vars "o1" [0, 100]]
                     [.call "drv" "o1" "f0", .run "p0" "f0" 0, .ret "\"p0:f0\"", .vars "o1" [100, 0]] ≠ [] := by decide

/-- the most-derived definition was not the one that ran -/
example : compareEvs [.call "drv" "o1" "f0", .run "p2" "f0" 0] [.call "drv" "o1" "f0", .run "p1" "f0" 0] ≠ [] := by decide

/-- a trace that stops early, and one that goes on after the expected end -/
example : compareEvs [.call "drv" "o1" "f0", .ret "!no"] [.call "drv" "o1" "f0"] ≠ [] := by decide
example : compareEvs [.call "drv" "o1" "f0"] [.call "drv" "o1" "f0", .run "p0" "f0" 0] ≠ [] := by decide

/-- an expected runtime error that did not happen (undefined function executed code at address 0) -/
example : compareEvs [.call "cot" "o1" "f5", .err, .ret "!err"] [.call "cot" "o1" "f5", .run "p3" "f2" 0] ≠ [] := by decide

/-- second element of an array target ran the static function -/
example : compareEvs [.call "coa" "o0,o0" "f1", .ret "({0,0})"]
                     [.call "coa" "o0,o0" "f1", .run "p0" "f1" 0, .ret "({0,\"p0:f1\"})"] ≠ [] := by decide

/-! ### the specification itself: what it expects -/

def g1 : AGraph :=
  [{ name := "p0", inherits := [], fns := [{ name := "f0", mods := { static := true }, isDef := true, calls := [] }] },
   { name := "p1", inherits := [{ mods := {}, parent := "p0" }], fns := [] }]

def s1 : SSt := { objs := [{ prog := 1, vars := [0, 0] }], labels := [("o1", 1)] }

/-- call_other to the inherited static function: refused, nothing runs; the driver runs it -/
example : (specCall g1 s1 "co" "o1" "f0").evs.reverse = [.call "co" "o1" "f0", .ret "!no", .vars "o1" [0, 0]] := by decide
example : (specCall g1 s1 "drv" "o1" "f0").evs.reverse.take 2 = [.call "drv" "o1" "f0", .run "p0" "f0" 0] := by decide
/-- every element of an array target is refused, at every position -/
example : (specCallTargets g1 s1 true [.obj "o1", .obj "o1", .other] "f0").evs.reverse =
    [.call "coa" "o1,o1,0" "f0", .ret "({0,0,0})", .vars "o1" [0, 0], .vars "o1" [0, 0]] := by decide

/-! ### well-formedness of dumped tables (`WF`): tables that must be rejected -/

def okP0 : Program :=
  { name := "p0", id := 3, nvt := 1, nvd := 1, ft := [{ name := 1, rindex := 0 }, { name := 2, rindex := 1 }],
    flags := [nameStatic, 0], rt := [.defn 0 0, .defn 1 0], inherit := [] }

/-- function table not sorted by name pointer -/
example : WF { progs := [{ okP0 with ft := [{ name := 2, rindex := 1 }, { name := 1, rindex := 0 }] }] } = false := by decide
/-- runtime index out of range -/
example : WF { progs := [{ okP0 with ft := [{ name := 1, rindex := 0 }, { name := 2, rindex := 5 }] }] } = false := by decide
/-- an inherited slot that is not NAME_UNDEFINED although the slot it points to is (the third epilog defect) -/
example : WF { progs := [{ okP0 with flags := [nameUndefined ||| namePrototype, 0] },
                         { name := "p1", id := 4, nvt := 2, nvd := 1, ft := [],
                           flags := [nameInherited, nameInherited], rt := [.inh 0 0, .inh 0 1],
                           inherit := [{ prog := 0, fio := 0, vio := 0 }] }] } = false := by decide
/-- slot kind and NAME_INHERITED disagree -/
example : WF { progs := [{ okP0 with flags := [nameStatic ||| nameInherited, 0] }] } = false := by decide
/-- an inherit entry that names a later program -/
example : WF { progs := [{ okP0 with inherit := [{ prog := 1, fio := 0, vio := 0 }] }, okP0] } = false := by decide
/-- inherit offsets that overlap -/
example : WF { progs := [okP0, { name := "p1", id := 4, nvt := 3, nvd := 1, ft := [],
                                 flags := [nameStatic ||| nameInherited, nameInherited, nameStatic ||| nameInherited, nameInherited],
                                 rt := [.inh 0 0, .inh 0 1, .inh 1 0, .inh 1 1],
                                 inherit := [{ prog := 0, fio := 0, vio := 0 }, { prog := 0, fio := 1, vio := 1 }] }] } = false := by
  decide

end NV.C07.OracleTests
