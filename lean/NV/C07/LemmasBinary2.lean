/-
C07 — the table of a program loaded from its saved binary is SORTED by the new name pointers (the hypothesis of
`bsearch_correct` / `find_function_correct`), for every assignment of distinct pointers to its function names.
-/
import NV.C07.Binary
import NV.C07.LemmasBinary
import NV.C07.WF

namespace NV.C07

open NV.Gen.C07

theorem pairwise_insertIdx (key : Nat → Nat) (x : Nat) : ∀ (l : List Nat),
    List.Pairwise (fun a b => key a < key b) l → (∀ y ∈ l, key y ≠ key x) →
    List.Pairwise (fun a b => key a < key b) (insertIdx key x l) := by
  intro l
  induction l with
  | nil => intro _ _; simp [insertIdx]
  | cons y rest ih =>
    intro hp hne
    rw [List.pairwise_cons] at hp
    unfold insertIdx
    split
    · rename_i hlt
      rw [List.pairwise_cons]
      refine ⟨?_, List.pairwise_cons.mpr hp⟩
      intro z hz
      rcases List.mem_cons.mp hz with hz | hz
      · subst hz; exact hlt
      · exact Nat.lt_trans hlt (hp.1 z hz)
    · rename_i hnlt
      rw [List.pairwise_cons]
      refine ⟨?_, ih hp.2 (fun z hz => hne z (by simp [hz]))⟩
      intro z hz
      rw [mem_insertIdx] at hz
      rcases hz with hz | hz
      · subst hz
        have := hne y (by simp)
        omega
      · exact hp.1 z hz

theorem sortIdx_pairwise (key : Nat → Nat) (n : Nat) (hinj : ∀ i j, i < n → j < n → key i = key j → i = j) :
    List.Pairwise (fun a b => key a < key b) (sortIdx key n) := by
  unfold sortIdx
  have gen : ∀ m, m ≤ n →
      List.Pairwise (fun a b => key a < key b) ((List.range m).foldl (fun acc i => insertIdx key i acc) []) ∧
      ∀ y ∈ (List.range m).foldl (fun acc i => insertIdx key i acc) [], y < m := by
    intro m
    induction m with
    | zero => intro _; simp
    | succ k ih =>
      intro hk
      obtain ⟨p1, p2⟩ := ih (by omega)
      rw [List.range_succ, List.foldl_append]
      simp only [List.foldl_cons, List.foldl_nil]
      refine ⟨pairwise_insertIdx key k _ p1 ?_, ?_⟩
      · intro y hy heq
        have hyk := p2 y hy
        have := hinj y k (by omega) (by omega) heq
        omega
      · intro y hy
        rw [mem_insertIdx] at hy
        rcases hy with hy | hy
        · omega
        · have := p2 y hy; omega
  exact (gen n (Nat.le_refl _)).1

theorem sortedKeys_of_pairwise : ∀ (l : List Nat), List.Pairwise (fun a b => a < b) l → sortedKeys l = true := by
  intro l
  induction l with
  | nil => intro _; rfl
  | cons a rest ih =>
    intro h
    cases rest with
    | nil => rfl
    | cons b rest' =>
      rw [List.pairwise_cons] at h
      simp only [sortedKeys, Bool.and_eq_true, decide_eq_true_eq]
      exact ⟨h.1 b (by simp), ih h.2⟩

/-- **The reloaded table is sorted.**  If the re-interned function names of a program get pairwise different pointers
    (shared strings: different names, different addresses), the function table after load_binary +
    sort_function_table is strictly sorted by them — whatever the order of those pointers is. -/
theorem resort_sorted (P : Program) (rekey : String → NameKey)
    (hinj : ∀ i j (hi : i < P.ft.length) (hj : j < P.ft.length), rekey P.ft[i].nameStr = rekey P.ft[j].nameStr → i = j) :
    sortedKeys ((resortProgram P rekey).ft.map (·.name)) = true := by
  apply sortedKeys_of_pairwise
  unfold resortProgram
  simp only
  -- the table after the permutation is `order.map entry`
  let P1 : Program := { P with ft := P.ft.map (fun e => { e with name := rekey e.nameStr }) }
  let key : Nat → Nat := fun i => ((P1.ft[i]?).map (·.name)).getD 0
  have hlen : P1.ft.length = P.ft.length := by simp [P1]
  have hperm := sortIdx_isPerm key P1.ft.length
  have hkey : ∀ i (hi : i < P.ft.length), key i = rekey P.ft[i].nameStr := by
    intro i hi
    simp [key, P1, List.getElem?_map, List.getElem?_eq_getElem hi]
  have hpw := sortIdx_pairwise key P1.ft.length (by
    intro i j hi hj h
    rw [hlen] at hi hj
    rw [hkey i hi, hkey j hj] at h
    exact hinj i j hi hj h)
  -- names of the permuted table = keys along the order
  have hnames : ((permuteProgram P1 (sortIdx key P1.ft.length)).ft.map (·.name)) = (sortIdx key P1.ft.length).map key := by
    apply List.ext_getElem?
    intro k
    rw [List.getElem?_map, permuted_ft_get P1 _ hperm k, List.getElem?_map]
    cases ho : (sortIdx key P1.ft.length)[k]? with
    | none => rfl
    | some i =>
      have hi : i < P1.ft.length := hperm.1 i (List.mem_of_getElem? ho)
      simp [key, List.getElem?_eq_getElem hi]
  show List.Pairwise (fun a b => a < b) ((permuteProgram P1 (sortIdx key P1.ft.length)).ft.map (·.name))
  rw [hnames, List.pairwise_map]
  exact hpw

end NV.C07
