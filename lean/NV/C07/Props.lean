import NV.C07.Model
import NV.C07.Spec
import NV.C07.WF
namespace NV.C07
end NV.C07
