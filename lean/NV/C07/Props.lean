/-
C07 — property theorems.  Helper lemmas: NV/C07/Lemmas.lean, NV/C07/LemmasFind.lean.
All statements are about the executable model in NV/C07/Model.lean (which the correspondence run compares
with the real driver on the real, dumped program tables) and the specification resolver in NV/C07/Spec.lean.
-/
import NV.C07.Model
import NV.C07.Spec
import NV.C07.WF
import NV.C07.Lemmas
import NV.C07.LemmasFind
import NV.C07.LemmasBuild
import NV.C07.LemmasBuild2

namespace NV.C07

open NV.Gen.C07

/-! ### visibility -/

/-- every origin value the driver defines -/
def allOrigins : List Nat :=
  [originDriver, originLocal, originCallOther, originSimulEfun, originCallOut, originEfun, originFunctionPointer,
   originFunctional]

/-- a flags word with the given modifier / bookkeeping bits -/
def mkFlags (st pr pt hid pub nomask inh alias : Bool) : Nat :=
  (if st then nameStatic else 0) ||| (if pr then namePrivate else 0) ||| (if pt then nameProtected else 0) |||
  (if hid then nameHidden else 0) ||| (if pub then namePublic else 0) ||| (if nomask then nameNoMask else 0) |||
  (if inh then nameInherited else 0) ||| (if alias then nameAlias else 0)

/-- **visibility_table** — the complete table of `function_visible` over every origin the driver defines and
    every combination of the modifier bits (and of the bookkeeping bits that must NOT matter): a call_other runs
    the function iff it is neither static nor private nor protected; every other origin (driver applies,
    call_out, local calls, ...) always may. -/
theorem visibility_table :
    ∀ st pr pt hid pub nomask inh alias : Bool, ∀ o ∈ allOrigins,
      functionVisible o (mkFlags st pr pt hid pub nomask inh alias) =
        (if o = originCallOther then !(st || pr || pt) else true) := by
  decide

theorem hasBit_or (x a b : Nat) : hasBit x (a ||| b) = (hasBit x a || hasBit x b) := by
  simp only [hasBit, Nat.and_or_distrib_left]
  rw [Bool.eq_iff_iff]
  simp only [bne_iff_ne, ne_eq, Bool.or_eq_true, Nat.or_eq_zero_iff]
  exact Decidable.not_and_iff_not_or_not

/-- the same for an arbitrary flags word: call_other is allowed iff none of the three bits is set -/
theorem visibility_any_flags (fl : Nat) :
    functionVisible originCallOther fl = !(hasBit fl nameStatic || hasBit fl namePrivate || hasBit fl nameProtected) ∧
    functionVisible originDriver fl = true ∧ functionVisible originCallOut fl = true ∧
    functionVisible originLocal fl = true := by
  refine ⟨?_, ?_, ?_, ?_⟩
  · have h1 : functionVisible originCallOther fl = !(hasBit fl (nameStatic ||| namePrivate ||| nameProtected)) := by
      simp [functionVisible, functionVisibleGen, originCallOther, hasBit, nameStatic, namePrivate, nameProtected, bne]
      rw [Bool.eq_iff_iff]; simp
    rw [h1, hasBit_or, hasBit_or]
  · simp [functionVisible, functionVisibleGen, originDriver]
  · simp [functionVisible, functionVisibleGen, originCallOut]
  · simp [functionVisible, functionVisibleGen, originLocal]

/-- **visibility_lifted** — lifted to the model's apply_low, for every world, every cache (hit and miss paths)
    and every call: if apply_low runs a function, the flags word it tested (the slot of the object's program the
    function was reached by) passes `function_visible` for this origin; for call_other that word has none of
    static / private / protected. -/
theorem visibility_lifted (w : World) (c : Cache) (origin p ptr : Nat) (name : NameKey) (q k fio vio : Nat)
    (h : (applyLow w c origin p ptr name).1 = .call q k fio vio) :
    ∃ fl, applyFlags w p q k fio = some fl ∧ functionVisible origin fl = true ∧
      (origin = originCallOther →
        hasBit fl nameStatic = false ∧ hasBit fl namePrivate = false ∧ hasBit fl nameProtected = false) := by
  have key : ∀ q' k' f' v', enter w origin p q' k' f' v' = .call q k fio vio →
      ∃ fl, applyFlags w p q k fio = some fl ∧ functionVisible origin fl = true := by
    intro q' k' f' v' he
    unfold enter at he
    cases hfl : applyFlags w p q' k' f' with
    | none => simp [hfl] at he
    | some fl =>
      simp only [hfl] at he
      split at he
      · rename_i hv
        simp only [ApplyRes.call.injEq] at he
        obtain ⟨rfl, rfl, rfl, rfl⟩ := he
        exact ⟨fl, hfl, hv⟩
      · simp at he
  have main : ∃ fl, applyFlags w p q k fio = some fl ∧ functionVisible origin fl = true := by
    unfold applyLow at h
    cases hP : w.progs[p]? with
    | none => simp [hP] at h
    | some P =>
      simp only [hP] at h
      cases hl : cacheLookup c (slotOf P.id ptr) P.id p name with
      | some e =>
        simp only [hl] at h
        cases hpp : e.progp with
        | none => simp [hpp] at h
        | some t =>
          obtain ⟨q', k', f', v'⟩ := t
          simp only [hpp] at h
          exact key _ _ _ _ h
      | none =>
        simp only [hl] at h
        unfold applyMiss at h
        cases hf : find w p name with
        | crash => simp [hf] at h
        | none => simp [hf] at h
        | found q' k' f' v' =>
          simp only [hf] at h
          exact key _ _ _ _ h
  obtain ⟨fl, h1, h2⟩ := main
  refine ⟨fl, h1, h2, ?_⟩
  intro ho
  subst ho
  have hv := (visibility_any_flags fl).1
  rw [h2] at hv
  generalize hasBit fl nameStatic = a at hv ⊢
  generalize hasBit fl namePrivate = b at hv ⊢
  generalize hasBit fl nameProtected = c at hv ⊢
  cases a <;> cases b <;> cases c <;> simp at hv ⊢

/-- and conversely the driver-side origins are never refused: whenever the function exists (and the tables are
    in range) a driver apply / call_out runs it, static or not -/
theorem driver_origins_never_refused (w : World) (origin p ptr : Nat) (name : NameKey)
    (ho : origin = originDriver ∨ origin = originCallOut ∨ origin = originLocal) :
    (applyLow w Cache.empty origin p ptr name).1 = .fail → find w p name = .none := by
  intro h
  unfold applyLow at h
  cases hP : w.progs[p]? with
  | none => simp [hP] at h
  | some P =>
    simp only [hP, cacheLookup_empty] at h
    unfold applyMiss at h
    cases hf : find w p name with
    | crash => simp [hf] at h
    | none => rfl
    | found q k f v =>
      simp only [hf] at h
      unfold enter at h
      cases hfl : applyFlags w p q k f with
      | none => simp [hfl] at h
      | some fl =>
        simp only [hfl] at h
        have hv : functionVisible origin fl = true := by
          rcases ho with rfl | rfl | rfl
          · exact (visibility_any_flags fl).2.1
          · exact (visibility_any_flags fl).2.2.1
          · exact (visibility_any_flags fl).2.2.2
        simp [hv] at h

/-! ### the cache is transparent -/

/-- **cache_transparent_step** — the invariant: from a cache in which every entry is truthful, apply_low answers
    exactly as from the empty cache and leaves a truthful cache (hit path, miss path, positive and negative
    entries, eviction of whatever was in the slot). -/
theorem cache_transparent_step (w : World) (c : Cache) (hc : Inv w c) (origin p ptr : Nat) (name : NameKey) :
    (applyLow w c origin p ptr name).1 = (applyLow w Cache.empty origin p ptr name).1 ∧
    Inv w (applyLow w c origin p ptr name).2 :=
  applyLow_inv w c hc origin p ptr name

/-- **cache_transparent** — for every world of programs (well-formed or not), every history of apply calls from
    the empty cache — any origins (refused call_others included), any programs, any names (existing or not), any
    name-string pointers (so any pattern of slot collisions and evictions) — and every further call, the result
    with the reached cache equals the result with an empty cache: the outcome of a call depends on the programs
    and the kind of caller only, never on which calls were made before. -/
theorem cache_transparent (w : World) (hist : List ApplyCall) (a : ApplyCall) :
    (applyLow w (cacheAfter w Cache.empty hist) a.origin a.prog a.ptr a.name).1 =
    (applyLow w Cache.empty a.origin a.prog a.ptr a.name).1 :=
  (applyLow_inv w _ (inv_cacheAfter w _ (inv_empty w) hist) a.origin a.prog a.ptr a.name).1

/-! ### the global call_origin and the target kinds of call_other -/

theorem psteps_inv (w : World) : ∀ (hist : List PStep) (g : Cache × Nat), Inv w g.1 → Inv w (psteps w g hist).1 := by
  intro hist
  induction hist with
  | nil => intro g h; exact h
  | cons st rest ih =>
    intro g h
    apply ih
    cases st with
    | apply origin p ptr name => exact (applyLow_inv w g.1 h (localOrigin origin) p ptr name).2
    | target p ptr name => exact (applyLow_inv w g.1 h (localOrigin originCallOther) p ptr name).2

/-- **call_other_origin_is_call_other** — in the model of f_call_other / call_all_other (`doCall`, `callAllOther`,
    `doCallTargets` all enter a target through `applyFn _ _ originCallOther`, i.e. a `.target` protocol step: the origin
    is stored immediately before apply_low), every target is entered with origin CALL_OTHER and answers exactly as a
    single call_other on an empty cache would: for every target kind, every position in an array, whatever value the
    global `call_origin` was left with, and whatever applies (loading an object: valid_object, create; earlier targets;
    any other apply) ran before.  In particular a static / private / protected function is refused at every position
    (`visibility_lifted`). -/
theorem call_other_origin_is_call_other (w : World) (hist : List PStep) (leftover : Nat) (p ptr : Nat) (name : NameKey) :
    (pstep w (psteps w (Cache.empty, leftover) hist) (.target p ptr name)).1 =
      (applyLow w Cache.empty originCallOther p ptr name).1 := by
  have hinv := psteps_inv w hist (Cache.empty, leftover) (inv_empty w)
  have hlo : localOrigin originCallOther = originCallOther := by decide
  show (applyLow w _ (localOrigin originCallOther) p ptr name).1 = _
  rw [hlo]
  exact (applyLow_inv w _ hinv originCallOther p ptr name).1

/-- apply_low always leaves the global zero, and an origin of 0 is the driver's -/
theorem call_origin_consumed (w : World) (c : Cache) (co p ptr : Nat) (name : NameKey) :
    (applyLowG w c co p ptr name).2.2 = 0 ∧ localOrigin 0 = originDriver := ⟨rfl, by decide⟩

/-! ### frames -/

/-- **frame_offsets_correct** — the NAME_INHERITED chasing of setup_new_frame / setup_inherited_frame: the frame
    it ends in is reached through a chain of inherit entries starting at the program it started in, and
    (function_index_offset, variable_index_offset) are the start offsets plus the sums of the chain's offsets.
    `setup_new_frame` starts from (0, 0); `setup_inherited_frame` (F_CALL_INHERITED) from the caller's offsets
    plus those of the named inherit. -/
theorem frame_offsets_correct (w : World) :
    (∀ obProg index fr, setupNewFrame w obProg index = some fr →
      ∃ path, ValidChain w obProg path fr.prog ∧ fr.fio = sumFio path ∧ fr.vio = sumVio path) ∧
    (∀ cur inh index fr, setupInheritedFrame w cur inh index = some fr →
      ∃ P ih path, w.progs[cur.prog]? = some P ∧ P.inherit[inh]? = some ih ∧ ValidChain w ih.prog path fr.prog ∧
        fr.fio = cur.fio + ih.fio + sumFio path ∧ fr.vio = cur.vio + ih.vio + sumVio path) := by
  constructor
  · intro obProg index fr h
    obtain ⟨path, hv, hf, hvv⟩ := chase_sums w _ _ _ _ _ _ h
    exact ⟨path, hv, by omega, by omega⟩
  · intro cur inh index fr h
    unfold setupInheritedFrame at h
    cases hP : w.progs[cur.prog]? with
    | none => simp [hP] at h
    | some P =>
      cases hih : P.inherit[inh]? with
      | none => simp [hP, hih] at h
      | some ih =>
        simp only [hP, hih, Option.bind_eq_bind, Option.bind_some] at h
        obtain ⟨path, hv, hf, hvv⟩ := chase_sums w _ _ _ _ _ _ h
        exact ⟨P, ih, path, rfl, hih, hv, hf, hvv⟩

/-! ### find_function -/

/-- **find_offsets_are_path_sums** — whatever find_function returns, its (fio, vio) are the sums of the offsets of
    the inherit entries it descended through (no well-formedness needed). -/
theorem find_offsets_are_path_sums (w : World) (p : Nat) (name : NameKey) (q k f v : Nat)
    (h : find w p name = .found q k f v) :
    ∃ path, ValidChain w p path q ∧ f = sumFio path ∧ v = sumVio path :=
  findFunction_sums w name _ _ _ _ _ _ h

/-- **bsearch_correct** — on a table sorted by name pointer the binary search of find_function finds exactly
    the entry with that name (and nothing when there is none). -/
theorem bsearch_correct (ft : List FnEntry) (name : NameKey) (hs : sortedKeys (ft.map (·.name)) = true) :
    (∀ k, bsearch ft name 0 ft.length = some k → ∃ e, ft[k]? = some e ∧ e.name = name) ∧
    (bsearch ft name 0 ft.length = none → ∀ e ∈ ft, e.name ≠ name) :=
  bsearch_spec ft name hs

/-- **find_function_correct** — on well-formed tables (`wfFind`: tables sorted by name pointer, runtime indices in
    range, inherited programs earlier in the world, undefined/prototype entries hide nothing — a decidable
    predicate that the judge evaluates on every real table dumped by the harness) the model's find_function
    agrees with the specification's resolver on the abstraction of the tables: it finds nothing exactly when the
    resolver finds nothing, and otherwise it returns the program at the end of the resolver's path (own
    definition, else the inherits from the last to the first), the table index of the name in that program, and
    the sums of the offsets along that path. -/
theorem find_function_correct (w : World) (hw : wfFind w = true) (p : Nat) (hp : p < w.progs.length)
    (name : NameKey) :
    find w p name = specFind w p name (Spec.resolve (abstr w) p name) :=
  find_eq_spec w hw p hp name

/-! ### the construction of the tables (model of the compiler, NV/C07/Build.lean) -/

/-- **built_alias_flags_agree** — the loop of epilog() (as repaired): after it, every runtime slot that
    overload_function created as an alias carries exactly the flags of the slot it aliases, plus NAME_ALIAS.  So all
    runtime slots of one function name agree on static / private / protected / public, on NAME_UNDEFINED,
    NAME_PROTOTYPE and NAME_TRUE_VARARGS — whichever slot find_function, a local call or a function pointer reaches
    the function by.  (The three defects repaired in epilog() were violations of exactly this statement.)
    Hypothesis `aliasOrdered`: an alias names an earlier slot; decidable, and evaluated by the driver on the
    pre-epilog state of every program it builds (a violation is printed into the compared `tbl` line). -/
theorem built_alias_flags_agree (slots : List BSlot) (hord : aliasOrdered slots = true) (j : Nat) (a : BSlot)
    (ha : slots[j]? = some a) (hal : hasBit a.flags nameAlias = true) :
    ∃ b wh, (epilogSlots slots)[j]? = some b ∧ (epilogSlots slots)[a.aliasFor]? = some wh ∧
      b.flags = wh.flags ||| nameAlias :=
  epilogSlots_alias slots hord j a ha hal

/-- **built_aliasOrdered / built_flags_agree** — for EVERY source file (any items whose modifiers do not contain the
    internal NAME_ALIAS bit) and every world of inherited programs, the table produced by the construction model has
    this property: each runtime slot created as an alias carries exactly the flags of the slot it aliases (the
    identifier's slot), plus NAME_ALIAS.  No evaluated hypothesis is left: the invariant "identifiers point to existing
    non-alias slots; an alias names an earlier slot" is carried through copy_function, overload_function (alias entry /
    latest wins / count), define_new_function, copy_functions and the items of the file (`ainv_*` in LemmasBuild2),
    then the epilog theorem applies. -/
theorem built_flags_agree (w : World) (name : String) (id : Nat) (items : List Item)
    (hm : ∀ it ∈ items, it.modsOK) (j : Nat) (a : BSlot)
    (ha : (items.foldl (doItem w) {}).slots[j]? = some a) (hal : hasBit a.flags nameAlias = true) :
    ∃ fj fw, (buildProgram w name id items).flags[j]? = some fj ∧
      (buildProgram w name id items).flags[a.aliasFor]? = some fw ∧ fj = fw ||| nameAlias := by
  obtain ⟨b, wh, hb, hw, hf⟩ := epilogSlots_alias _ (built_aliasOrdered w items hm) j a ha hal
  refine ⟨b.flags, wh.flags, ?_, ?_, hf⟩
  · simp [buildProgram, finish, hb]
  · simp [buildProgram, finish, hw]

/-- **built_inherits_in_world** (stated in LemmasBuild2; clause `inherit.prog < p` of `wfFind` / `wfSlots`, for all
    inputs): every inherit entry of a built program names a program of the world it was compiled against. -/
example (w : World) (name : String) (id : Nat) (items : List Item) :
    ∀ ih ∈ (buildProgram w name id items).inherit, ih.prog < w.progs.length :=
  built_inherits_in_world w name id items

/-- the modifier bits of a flags word, as the specification's `Mods` -/
def modsOf (fl : Nat) : Spec.Mods :=
  { static := hasBit fl nameStatic, priv := hasBit fl namePrivate, prot := hasBit fl nameProtected,
    pub := hasBit fl namePublic }

/-- a flags word from modifier bits and bookkeeping bits -/
def mkSrc (st pr pt pub undef proto strict : Bool) : Nat :=
  (if st then nameStatic else 0) ||| (if pr then namePrivate else 0) ||| (if pt then nameProtected else 0) |||
  (if pub then namePublic else 0) ||| (if undef then nameUndefined else 0) ||| (if proto then namePrototype else 0) |||
  (if strict then nameStrictTypes else 0)

/-- **inherit_flags_rule_is_spec** — the flag inheritance of copy_function / overload_function (`inheritedFlags`)
    is the specification's rule `Mods.through`, for every combination of the function's modifier bits, the inherit
    statement's modifier bits and the bookkeeping bits (finite table, `decide`): modifiers are OR-ed, `public`
    cancels `private`; a private function becomes hidden one level up; NAME_PROTOTYPE is kept, so "has no code"
    survives inheritance. -/
theorem inherit_flags_rule_is_spec :
    ∀ st pr pt pub undef proto strict mst mpr mpt mpub : Bool,
      let src := mkSrc st pr pt pub undef proto strict
      let m := mkSrc mst mpr mpt mpub false false false
      modsOf (inheritedFlags src m) = (modsOf src).through (modsOf m) ∧
      hasBit (inheritedFlags src m) namePrototype = proto ∧
      (pr = true → hasBit (inheritedFlags src m) nameHidden = true) ∧
      hasBit (inheritedFlags src m) nameAlias = false := by
  decide

/-- non-vacuity: a program inheriting a static function through two parents — the pre-epilog state is
    alias-ordered, it has an alias slot, and after epilog() that slot carries NAME_STATIC -/
example :
    let p0 : Program := buildProgram { progs := [] } "p0" 3 [.defn nameStatic 1 "f0" [], .var 0]
    let w1 : World := { progs := [p0] }
    let p1 := buildProgram w1 "p1" 4 [.inh 0 0, .var 0]
    let p2 := buildProgram w1 "p2" 5 [.inh 0 0, .var 0]
    let w3 : World := { progs := [p0, p1, p2] }
    let s3 := [Item.inh 0 1, .inh 0 2, .var 0].foldl (doItem w3) {}
    let p3 := finish "p3" 6 s3
    let w4 : World := { progs := [p0, p1, p2, p3] }
    let p4 := buildProgram w4 "p4" 7 [.inh 0 3, .var 0]
    aliasOrdered s3.slots = true ∧ (s3.slots.map (fun sl => hasBit sl.flags nameAlias)) = [false, true] ∧
    (p4.flags.map (fun f => hasBit f nameStatic)) = [true, true] ∧ WF { progs := [p0, p1, p2, p3, p4] } = true := by
  decide

/-! ### non-vacuity -/

/-- a two-level world: p0 defines a static `1` (slot 0) and a public `2` (slot 1); p1 inherits p0 and
    overrides `2` -/
def exWorld : World :=
  { progs := [
      { name := "p0", id := 3, nvt := 1, nvd := 1,
        ft := [{ name := 1, rindex := 0 }, { name := 2, rindex := 1 }],
        flags := [nameStatic, 0], rt := [.defn 0 0, .defn 1 0], inherit := [] },
      { name := "p1", id := 4, nvt := 2, nvd := 1,
        ft := [{ name := 2, rindex := 1 }],
        flags := [nameStatic ||| nameInherited, 0], rt := [.inh 0 0, .defn 0 0],
        inherit := [{ prog := 0, fio := 0, vio := 0 }] } ] }

example : WF exWorld = true := by decide

/-- the hypotheses of find_function_correct hold on a non-trivial world, and both sides find the inherited
    static function through the inherit -/
example : find exWorld 1 1 = .found 0 0 0 0 ∧ Spec.resolve (abstr exWorld) 1 1 = some [0] := by decide

/-- the history "refused call_other, then driver apply" of the confirmed defect: the driver apply succeeds,
    exactly as on a cold cache, and the refused call had been a cache miss that stored an entry -/
example :
    let refused : ApplyCall := { origin := originCallOther, prog := 1, ptr := 1, name := 1 }
    (applyLow exWorld Cache.empty originCallOther 1 1 1).1 = .fail ∧
    (applyLow exWorld (cacheAfter exWorld Cache.empty [refused]) originDriver 1 1 1).1 = .call 0 0 0 0 ∧
    (cacheAfter exWorld Cache.empty [refused])[slotOf 4 1]? ≠ some none := by
  decide

/-- a frame reached by chasing: slot 0 of p1 is inherited from p0 -/
example : setupNewFrame exWorld 1 0 = some { prog := 0, fidx := 0, fio := 0, vio := 0 } := by decide

/-- non-vacuity: an array target whose SECOND element has the static function, after an interleaved driver apply
    (what loading an object does): refused, although the global was consumed in between -/
example :
    (pstep exWorld (psteps exWorld (Cache.empty, 0) [.target 0 2 2, .apply originDriver 1 7 7]) (.target 1 1 1)).1 = .fail ∧
    (pstep exWorld (psteps exWorld (Cache.empty, 0) [.target 0 2 2, .apply originDriver 1 7 7]) (.apply originDriver 1 1 1)).1
      = .call 0 0 0 0 := by
  decide

end NV.C07
