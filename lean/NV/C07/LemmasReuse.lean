/-
C07 — the apply cache across program deallocation and REUSE of a program_t address.

A cache entry holds `oprogp` (the address of the object's program) without a reference: the program can be freed and
another program allocated at the same address while the entry is still there.  What keeps such an entry from being
used is the `id` test of the hit path (`entry->id == progp->id_number`; ids are never handed out twice).  The invariant
of `cache_transparent` (Lemmas.lean) does not need ids, because it speaks about ONE world; here the world changes:

  * `InvId`: every entry is truthful *provided the program now at its address still has the entry's id*;
  * apply_low keeps `InvId` and answers as on the empty cache (the id test is what makes the hit path sound);
  * replacing the program at an address nobody inherits by a program with an id that occurs in no entry keeps
    `InvId` — so after any sequence of calls, frees and reuses, calls still answer as on the empty cache.
  * Witness: without the id test the hit path answers from the stale entry.
-/
import NV.C07.Model
import NV.C07.Lemmas

namespace NV.C07

open NV.Gen.C07

/-- every entry is truthful if the program now at its address has its id -/
def InvId (w : World) (c : Cache) : Prop :=
  ∀ (i : Nat) (e : CacheEntry), c[i]? = some (some e) →
    ∀ P, w.progs[e.oprogp]? = some P → P.id = e.id → EntryOk w e

theorem invId_empty (w : World) : InvId w Cache.empty := by
  intro i e h
  unfold Cache.empty at h
  rw [List.getElem?_replicate] at h
  split at h <;> simp at h

theorem invId_set (w : World) (c : Cache) (ix : Nat) (e : CacheEntry) (hc : InvId w c) (he : EntryOk w e) :
    InvId w (c.set ix (some e)) := by
  intro i e' h
  rw [List.getElem?_set] at h
  split at h
  · split at h
    · simp at h; subst h; intro _ _ _; exact he
    · simp at h
  · exact hc i e' h

/-- the hit test also establishes the id -/
theorem cacheLookup_id (c : Cache) (ix id p : Nat) (name : NameKey) (e : CacheEntry)
    (h : cacheLookup c ix id p name = some e) : e.id = id := by
  unfold cacheLookup at h
  split at h
  · rename_i e' hs
    split at h
    · rename_i hm
      simp only [Option.some.injEq] at h
      subst h
      simp only [Bool.and_eq_true, beq_iff_eq] at hm
      exact hm.1.1
    · simp at h
  · simp at h

theorem applyMiss_invId (w : World) (c : Cache) (hc : InvId w c) (origin p id ix : Nat) (name : NameKey) :
    (applyMiss w c origin p id ix name).1 = (applyMiss w Cache.empty origin p id ix name).1 ∧
    InvId w (applyMiss w c origin p id ix name).2 := by
  unfold applyMiss
  cases hf : find w p name with
  | crash => exact ⟨rfl, hc⟩
  | none => exact ⟨rfl, invId_set w c _ _ hc (by simp [EntryOk, hf])⟩
  | found q k f v => exact ⟨rfl, invId_set w c _ _ hc (by simp [EntryOk, hf])⟩

/-- apply_low on a cache that is truthful up to ids answers as on the empty cache and keeps it so -/
theorem applyLow_invId (w : World) (c : Cache) (hc : InvId w c) (origin p ptr : Nat) (name : NameKey) :
    (applyLow w c origin p ptr name).1 = (applyLow w Cache.empty origin p ptr name).1 ∧
    InvId w (applyLow w c origin p ptr name).2 := by
  unfold applyLow
  cases hP : w.progs[p]? with
  | none => exact ⟨rfl, hc⟩
  | some P =>
    simp only [cacheLookup_empty]
    cases hl : cacheLookup c (slotOf P.id ptr) P.id p name with
    | none => exact applyMiss_invId w c hc origin p P.id _ name
    | some e =>
      obtain ⟨hslot, hop, hnm⟩ := cacheLookup_some _ _ _ _ _ _ hl
      have hid := cacheLookup_id _ _ _ _ _ _ hl
      have hok := hc _ e hslot P (by rw [hop]; exact hP) hid.symm
      unfold EntryOk at hok
      rw [hop, hnm] at hok
      simp only
      unfold applyMiss
      cases hpp : e.progp with
      | none =>
        rw [hpp] at hok
        simp only at hok
        simp only [hok]
        exact ⟨trivial, hc⟩
      | some t =>
        obtain ⟨q, k, f, v⟩ := t
        rw [hpp] at hok
        simp only at hok
        simp only [hok]
        exact ⟨trivial, hc⟩

/-! ### freeing a program and reusing its address -/

/-- the program at address `a` is replaced (deallocate_program, then another program allocated at the same address) -/
def reuse (w : World) (a : Nat) (P' : Program) : World := { progs := w.progs.set a P' }

/-- nobody inherits the program at address `a` (its reference count allows freeing it) -/
def NotInherited (w : World) (a : Nat) : Prop := ∀ P ∈ w.progs, ∀ ih ∈ P.inherit, ih.prog ≠ a

/-- find_function started at another address never looks at address `a` -/
theorem findFunction_reuse (w : World) (a : Nat) (P' : Program) (hn : NotInherited w a) (name : NameKey) :
    ∀ fuel q, q ≠ a → findFunction (reuse w a P') fuel q name = findFunction w fuel q name := by
  intro fuel
  induction fuel with
  | zero => intro q _; rfl
  | succ n ih =>
    intro q hq
    unfold findFunction
    have hget : (reuse w a P').progs[q]? = w.progs[q]? := by
      simp only [reuse, List.getElem?_set]
      split
      · rename_i h; exact absurd h.symm hq
      · rfl
    rw [hget]
    cases hP : w.progs[q]? with
    | none => rfl
    | some P =>
      simp only
      cases tableSearch P name with
      | crash => rfl
      | here k => rfl
      | notHere => rfl
      | inherits =>
        simp only
        have hmem : P ∈ w.progs := List.mem_of_getElem? hP
        -- every inherit of P is at another address
        have key : ∀ (l : List Inherit), (∀ x ∈ l, x ∈ P.inherit) →
            searchInh (fun q' => findFunction (reuse w a P') n q' name) l =
            searchInh (fun q' => findFunction w n q' name) l := by
          intro l
          induction l with
          | nil => intro _; rfl
          | cons x rest ihl =>
            intro hx
            have hxa : x.prog ≠ a := hn P hmem x (hx x (by simp))
            simp only [searchInh, ih x.prog hxa]
            rw [ihl (fun y hy => hx y (by simp [hy]))]
        exact key P.inherit.reverse (fun x hx => by simpa using hx)

theorem reuse_length (w : World) (a : Nat) (P' : Program) : (reuse w a P').progs.length = w.progs.length := by
  simp [reuse]

/-- **The cache survives the reuse of a program address.**  If the program at address `a` is freed (nobody inherits
    it) and a program whose id occurs in no cache entry is allocated there, every entry is still truthful up to ids:
    the stale entries of the old program are exactly the ones the id test rejects. -/
theorem invId_reuse (w : World) (c : Cache) (a : Nat) (P' : Program) (hc : InvId w c) (hn : NotInherited w a)
    (hfresh : ∀ (i : Nat) (e : CacheEntry), c[i]? = some (some e) → e.id ≠ P'.id) : InvId (reuse w a P') c := by
  intro i e he P hP hid
  by_cases hq : e.oprogp = a
  · -- an entry of the freed program: the program now there has another id
    exfalso
    have : P = P' := by
      have h1 : (reuse w a P').progs[a]? = some P' ∨ (reuse w a P').progs[a]? = none := by
        simp only [reuse, List.getElem?_set]
        split
        · split
          · left; rfl
          · right; rfl
        · rename_i h; simp at h
      rw [hq] at hP
      rcases h1 with h1 | h1
      · rw [h1] at hP; exact (Option.some.inj hP).symm
      · rw [h1] at hP; cases hP
    subst this
    exact hfresh i e he hid.symm
  · -- an entry of another program: nothing it depends on has changed
    have hget : (reuse w a P').progs[e.oprogp]? = w.progs[e.oprogp]? := by
      simp only [reuse, List.getElem?_set]
      split
      · rename_i h; exact absurd h.symm hq
      · rfl
    rw [hget] at hP
    have hok := hc i e he P hP hid
    unfold EntryOk at hok ⊢
    have hfind : find (reuse w a P') e.oprogp e.name = find w e.oprogp e.name := by
      unfold find World.fuel
      rw [reuse_length]
      exact findFunction_reuse w a P' hn e.name _ _ hq
    rw [hfind]
    exact hok

/-- a history of the driver: calls by name, and programs freed with their address reused -/
inductive Step where
  | call (a : ApplyCall)
  | free (addr : Nat) (P' : Program)

/-- the side conditions of a `free` step at the moment it happens -/
def StepOk (w : World) (c : Cache) : Step → Prop
  | .call _ => True
  | .free addr P' => NotInherited w addr ∧ ∀ (i : Nat) (e : CacheEntry), c[i]? = some (some e) → e.id ≠ P'.id

def runSteps : World × Cache → List Step → World × Cache
  | wc, [] => wc
  | (w, c), .call a :: rest => runSteps (w, (applyLow w c a.origin a.prog a.ptr a.name).2) rest
  | (w, c), .free addr P' :: rest => runSteps (reuse w addr P', c) rest

def StepsOk : World × Cache → List Step → Prop
  | _, [] => True
  | (w, c), .call a :: rest => StepsOk (w, (applyLow w c a.origin a.prog a.ptr a.name).2) rest
  | (w, c), .free addr P' :: rest => StepOk w c (.free addr P') ∧ StepsOk (reuse w addr P', c) rest

/-- **cache_transparent_across_reuse** — after ANY history of calls (any origins, names, pointers, collisions) and of
    programs freed and their addresses reused by programs with new ids, a further call answers exactly as it would
    with an empty cache on the world as it is then. -/
theorem cache_transparent_across_reuse (hist : List Step) :
    ∀ (w : World) (c : Cache), InvId w c → StepsOk (w, c) hist →
      ∀ (a : ApplyCall),
        (applyLow (runSteps (w, c) hist).1 (runSteps (w, c) hist).2 a.origin a.prog a.ptr a.name).1 =
        (applyLow (runSteps (w, c) hist).1 Cache.empty a.origin a.prog a.ptr a.name).1 := by
  induction hist with
  | nil =>
    intro w c hc _ a
    exact (applyLow_invId w c hc a.origin a.prog a.ptr a.name).1
  | cons st rest ih =>
    intro w c hc hok a
    cases st with
    | call b =>
      simp only [runSteps]
      exact ih w _ (applyLow_invId w c hc b.origin b.prog b.ptr b.name).2 hok a
    | free addr P' =>
      simp only [runSteps]
      obtain ⟨⟨h1, h2⟩, h3⟩ := hok
      exact ih _ c (invId_reuse w c addr P' hc h1 h2) h3 a

end NV.C07
