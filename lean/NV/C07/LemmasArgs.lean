/-
C07 — setup_variables (src/frame.c), the normalisation of the argument count: theorems about the parameter cells the
callee sees, for all argument lists and all parameter counts, and agreement with the specification's `seenArgs`.
-/
import NV.C07.Model
import NV.C07.Spec

namespace NV.C07

/-- the callee always sees exactly `num_arg` parameter cells -/
theorem setupVariables_length (actual : List Int) (n : Nat) : (setupVariables actual n).length = n := by
  unfold setupVariables
  split
  · rename_i h; simp [List.length_take]; omega
  · rename_i h; simp; omega

/-- cell i holds argument i if the caller passed one, else 0 (undefined): surplus arguments are gone, missing ones are
    filled -/
theorem setupVariables_get (actual : List Int) (n i : Nat) (hi : i < n) :
    (setupVariables actual n)[i]? = some (actual.getD i 0) := by
  unfold setupVariables
  split
  · rename_i h
    rw [List.getElem?_take]
    simp only [hi, if_true]
    have : i < actual.length := by omega
    simp [List.getD_eq_getElem?_getD, List.getElem?_eq_getElem this]
  · rename_i h
    by_cases hlt : i < actual.length
    · rw [List.getElem?_append_left hlt]
      simp [List.getD_eq_getElem?_getD, List.getElem?_eq_getElem hlt]
    · rw [List.getElem?_append_right (by omega)]
      have h1 : actual[i]? = none := by rw [List.getElem?_eq_none_iff]; omega
      simp [List.getD_eq_getElem?_getD, h1, List.getElem?_replicate]
      omega

/-- **The frame the callee sees is the specification's.**  For every argument list and every parameter count the
    model of setup_variables (pop the surplus / push undefineds) yields exactly what the specification demands. -/
theorem setupVariables_is_spec (actual : List Int) (n : Nat) : setupVariables actual n = Spec.seenArgs actual n := by
  apply List.ext_getElem?
  intro i
  by_cases hi : i < n
  · rw [setupVariables_get actual n i hi]
    simp [Spec.seenArgs, List.getElem?_map, List.getElem?_range hi]
  · have h1 : (setupVariables actual n)[i]? = none := by
      rw [List.getElem?_eq_none_iff, setupVariables_length]; omega
    have h2 : (Spec.seenArgs actual n)[i]? = none := by
      rw [List.getElem?_eq_none_iff]; simp [Spec.seenArgs]; omega
    rw [h1, h2]

/-- non-vacuity: too few, exact, too many -/
example : setupVariables [7] 2 = [7, 0] ∧ setupVariables [7, 8] 2 = [7, 8] ∧ setupVariables [7, 8, 9] 2 = [7, 8] ∧
    setupVariables [] 0 = [] := by decide

end NV.C07
