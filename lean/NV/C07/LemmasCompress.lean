/-
C07 — lemmas about the compressed runtime function table (NV/C07/Compress.lean): the three scans, the index-byte loop
(including the 256-entry overflow branch), the binary search of find_func_entry, and the round trip
FIND_FUNC_ENTRY (compress t) i = t.rt[i] for ALL tables satisfying the decidable `cmpWF`.
-/
import NV.C07.Compress

namespace NV.C07

open NV.Gen.C07

/-! ### the scans -/

theorem scanFDef_le (t : RTab) : ∀ n, scanFDef t n ≤ n := by
  intro n
  induction n with
  | zero => simp [scanFDef]
  | succ k ih =>
    unfold scanFDef
    split <;> omega

theorem scanFOv_spec (t : RTab) (fDef : Nat) : ∀ fuel fOv, fOv ≤ fDef → (∀ i, i < fOv → expectedAt t i = true) →
    fOv ≤ scanFOv t fDef fuel fOv ∧ scanFOv t fDef fuel fOv ≤ fDef ∧
    (∀ i, i < scanFOv t fDef fuel fOv → expectedAt t i = true) := by
  intro fuel
  induction fuel with
  | zero => intro fOv h1 h2; simp [scanFOv]; exact ⟨h1, h2⟩
  | succ k ih =>
    intro fOv h1 h2
    unfold scanFOv
    split
    · rename_i hc
      simp only [Bool.and_eq_true, decide_eq_true_eq] at hc
      have h3 : ∀ i, i < fOv + 1 → expectedAt t i = true := by
        intro i hi
        by_cases h : i < fOv
        · exact h2 i h
        · have : i = fOv := by omega
          subst this; exact hc.2
      obtain ⟨a, b, c⟩ := ih (fOv + 1) (by omega) h3
      exact ⟨by omega, b, c⟩
    · exact ⟨Nat.le_refl _, h1, h2⟩

theorem scanLOv_spec (t : RTab) (fOv : Nat) : ∀ l,
    scanLOv t fOv l ≤ l ∧ (fOv ≤ l → fOv ≤ scanLOv t fOv l) ∧
    (∀ i, scanLOv t fOv l ≤ i → i < l → expectedAt t i = true) := by
  intro l
  induction l with
  | zero => simp [scanLOv]
  | succ k ih =>
    unfold scanLOv
    split
    · rename_i hc
      simp only [Bool.and_eq_true, decide_eq_true_eq] at hc
      obtain ⟨a, b, c⟩ := ih
      refine ⟨by omega, fun _ => b (by omega), ?_⟩
      intro i hi1 hi2
      by_cases h : i < k
      · exact c i hi1 h
      · have : i = k := by omega
        subst this; exact hc.2
    · refine ⟨Nat.le_refl _, fun h => h, ?_⟩
      intro i hi1 hi2; omega

/-! ### the index-byte loop -/

/-- what the loop guarantees, for every start slot, length and counter value ≤ 255 -/
theorem fillGo_spec (E : Nat → Bool) : ∀ cnt s j, j ≤ 255 →
    (fillGo E s cnt j).ix.length = cnt ∧
    (fillGo E s cnt j).kept.length + j = (fillGo E s cnt j).j ∧
    (fillGo E s cnt j).j ≤ 255 ∧
    (∀ s0, (fillGo E s cnt j).woops = some s0 → s + (fillGo E s cnt j).kept.length ≤ s0 ∧ s0 < s + cnt ∧
        (fillGo E s cnt j).j = 255) ∧
    ((fillGo E s cnt j).woops = none → (fillGo E s cnt j).kept.length ≤ cnt) ∧
    (∀ d, d < cnt → (∀ s0, (fillGo E s cnt j).woops = some s0 → s + d < s0) →
      (E (s + d) = true → (fillGo E s cnt j).ix[d]? = some cmpMarker) ∧
      (E (s + d) = false → ∃ v, (fillGo E s cnt j).ix[d]? = some v ∧ v ≠ cmpMarker ∧ j ≤ v ∧
          (fillGo E s cnt j).kept[v - j]? = some (s + d))) := by
  intro cnt
  induction cnt with
  | zero =>
    intro s j hj
    simp [fillGo]
    exact hj
  | succ k ih =>
    intro s j hj
    by_cases hE : E s = true
    · -- expected slot: marker, counter unchanged
      have hr : fillGo E s (k + 1) j = { fillGo E (s + 1) k j with ix := cmpMarker :: (fillGo E (s + 1) k j).ix } := by
        rw [fillGo]; simp [hE]
      obtain ⟨a, b, c, d, e, f⟩ := ih (s + 1) j hj
      rw [hr]
      dsimp only
      refine ⟨by simp [a], b, c, ?_, ?_, ?_⟩
      · intro s0 h0
        obtain ⟨x, y, z⟩ := d s0 h0
        exact ⟨by omega, by omega, z⟩
      · intro h0; have := e h0; omega
      · intro dd hdd hw
        cases dd with
        | zero => simp [hE]
        | succ d' =>
          have := f d' (by omega) (fun s0 h0 => by have := hw s0 h0; omega)
          have e1 : s + (d' + 1) = s + 1 + d' := by omega
          simpa [e1] using this
    · have hE' : E s = false := by simpa using hE
      by_cases hw : j + 1 = 256
      · -- the overflow branch
        have hr : fillGo E s (k + 1) j =
            { ix := List.replicate (k + 1) cmpMarker, kept := [], j := 255, woops := some s } := by
          rw [fillGo]; simp [hE', hw]
        rw [hr]
        refine ⟨by simp, by simp; omega, by simp, ?_, by simp, ?_⟩
        · intro s0 h0
          simp at h0; subst h0; simp
        · intro dd hdd hw0
          have := hw0 s rfl
          omega
      · have hr : fillGo E s (k + 1) j =
            { fillGo E (s + 1) k (j + 1) with ix := (j % 256) :: (fillGo E (s + 1) k (j + 1)).ix,
                                              kept := s :: (fillGo E (s + 1) k (j + 1)).kept } := by
          rw [fillGo]; simp [hE']; omega
        obtain ⟨a, b, c, d, e, f⟩ := ih (s + 1) (j + 1) (by omega)
        rw [hr]
        dsimp only
        refine ⟨by simp [a], by simp; omega, c, ?_, ?_, ?_⟩
        · intro s0 h0
          obtain ⟨x, y, z⟩ := d s0 h0
          exact ⟨by simp; omega, by omega, z⟩
        · intro h0; have := e h0; simp; omega
        · intro dd hdd hw0
          cases dd with
          | zero =>
            simp [hE']
            refine ⟨?_, ?_⟩
            · have : j % 256 = j := Nat.mod_eq_of_lt (by omega)
              rw [this]; simp [cmpMarker]; omega
            · have : j % 256 = j := Nat.mod_eq_of_lt (by omega)
              rw [this]; simp
          | succ d' =>
            have h := f d' (by omega) (fun s0 h0 => by have := hw0 s0 h0; omega)
            have e1 : s + (d' + 1) = s + 1 + d' := by omega
            rw [e1]
            refine ⟨by simpa using h.1, ?_⟩
            intro hEd
            obtain ⟨v, hv1, hv2, hv3, hv4⟩ := h.2 hEd
            refine ⟨v, by simpa using hv1, hv2, by omega, ?_⟩
            have : v - j = (v - (j + 1)) + 1 := by omega
            rw [this]; simpa using hv4

/-! ### the binary search of find_func_entry -/

/-- `off` is the last inherit whose function_index_offset is not beyond `index` -/
def IsLastLE (inh : List Inherit) (index off : Nat) : Prop :=
  off < inh.length ∧ (∀ k (h : k < inh.length), k ≤ off → inh[k].fio ≤ index) ∧
  (∀ k (h : k < inh.length), off < k → inh[k].fio > index)

theorem inhSearch_spec (inh : List Inherit) (index off : Nat) (h : IsLastLE inh index off) :
    ∀ fuel first last, first ≤ off → off ≤ last → last < inh.length → last - first ≤ fuel →
      inhSearch inh index fuel first last = some off := by
  intro fuel
  induction fuel with
  | zero =>
    intro first last h1 h2 _ h4
    simp [inhSearch]; omega
  | succ n ih =>
    intro first last h1 h2 h3 h4
    unfold inhSearch
    split
    · rename_i hlt
      have hmid : (last + first + 1) / 2 < inh.length := by omega
      simp only [List.getElem?_eq_getElem hmid]
      split
      · rename_i hgt
        -- fio[mid] > index: mid is beyond off
        have : off < (last + first + 1) / 2 := by
          apply Nat.lt_of_not_le
          intro hc
          have := h.2.1 _ hmid hc
          omega
        exact ih first ((last + first + 1) / 2 - 1) h1 (by omega) (by omega) (by omega)
      · rename_i hle
        have : (last + first + 1) / 2 ≤ off := by
          apply Nat.le_of_not_lt
          intro hc
          have := h.2.2 _ hmid hc
          omega
        exact ih ((last + first + 1) / 2) last this h2 h3 (by omega)
    · have : first = off := by omega
      simp [this]

theorem fioSorted_le : ∀ (inh : List Inherit), fioSorted inh = true →
    ∀ a b (ha : a < inh.length) (hb : b < inh.length), a ≤ b → inh[a].fio ≤ inh[b].fio := by
  intro inh
  induction inh with
  | nil => intro _ a b ha; simp at ha
  | cons x rest ih =>
    intro hs a b ha hb hab
    cases rest with
    | nil =>
      simp at ha hb
      subst ha; subst hb; exact Nat.le_refl _
    | cons y rest' =>
      simp only [fioSorted, Bool.and_eq_true, decide_eq_true_eq] at hs
      cases a with
      | zero =>
        cases b with
        | zero => exact Nat.le_refl _
        | succ b' =>
          have := ih hs.2 0 b' (by simp) (by simpa using hb) (by omega)
          simp only [List.getElem_cons_succ, List.getElem_cons_zero] at this ⊢
          omega
      | succ a' =>
        cases b with
        | zero => omega
        | succ b' =>
          simpa using ih hs.2 a' b' (by simpa using ha) (by simpa using hb) (by omega)

/-! ### remaking an omitted entry -/

theorem expectedAt_elim (t : RTab) (i : Nat) (h : expectedAt t i = true) :
    ∃ off idx ih, t.rt[i]? = some (.inh off idx) ∧ t.inherit[off]? = some ih ∧ ih.fio + idx = i := by
  unfold expectedAt at h
  split at h
  · rename_i fl off idx h1 h2
    simp only [Bool.and_eq_true] at h
    obtain ⟨_, hb⟩ := h
    split at hb
    · rename_i ih h3
      exact ⟨off, idx, ih, h2, h3, by simpa using hb⟩
    · simp at hb
  · simp at h

theorem remake_expected (t : RTab) (hwf : t.cmpWF = true) (i : Nat) (hi : i < t.rt.length)
    (hE : expectedAt t i = true) : remake t.inherit i = t.rt[i]? := by
  obtain ⟨off, idx, ih, h1, h2, h3⟩ := expectedAt_elim t i hE
  simp only [RTab.cmpWF, Bool.and_eq_true] at hwf
  obtain ⟨⟨_, hsorted⟩, hlast⟩ := hwf
  have hoff : off < t.inherit.length := by
    have := (List.getElem?_eq_some_iff.mp h2).1
    exact this
  have hih : t.inherit[off] = ih := (List.getElem?_eq_some_iff.mp h2).2
  -- the inherits after `off` start beyond i
  have hafter : ∀ k (hk : k < t.inherit.length), off < k → t.inherit[k].fio > i := by
    intro k hk hok
    unfold expectedNamesLast at hlast
    rw [List.all_eq_true] at hlast
    have := hlast i (by simp; exact hi)
    simp only [hE, Bool.not_true, Bool.false_or, h1] at this
    rw [List.all_eq_true] at this
    have hm : t.inherit[k] ∈ t.inherit.drop (off + 1) := by
      rw [List.mem_iff_getElem]
      refine ⟨k - (off + 1), by simp; omega, ?_⟩
      simp
      congr 1; omega
    simpa using this _ hm
  have hlastle : IsLastLE t.inherit i off := by
    refine ⟨hoff, ?_, hafter⟩
    intro k hk hko
    have := fioSorted_le t.inherit hsorted k off hk hoff hko
    rw [hih] at this
    omega
  have hs := inhSearch_spec t.inherit i off hlastle t.inherit.length 0 (t.inherit.length - 1) (by omega) (by omega)
    (by omega) (by omega)
  unfold remake
  have hne : t.inherit.isEmpty = false := by
    cases hl : t.inherit with
    | nil => simp [hl] at hoff
    | cons _ _ => rfl
  simp only [hne, hs, h2, h1]
  have : ih.fio ≤ i := by omega
  simp [this]
  omega

/-! ### the stored entries -/

theorem filterMap_all_some {α β : Type} (f : α → Option β) : ∀ (l : List α), (∀ x ∈ l, (f x).isSome = true) →
    (l.filterMap f).length = l.length ∧ ∀ v : Nat, (l.filterMap f)[v]? = (l[v]?).bind f := by
  intro l
  induction l with
  | nil => intro _; simp
  | cons a rest ih =>
    intro h
    have ha := h a (by simp)
    obtain ⟨b, hb⟩ := Option.isSome_iff_exists.mp ha
    obtain ⟨i1, i2⟩ := ih (fun x hx => h x (by simp [hx]))
    refine ⟨by simp [hb, i1], ?_⟩
    intro v
    cases v with
    | zero => simp [hb]
    | succ v' => simpa [hb] using i2 v'

/-- the three-way `if` that builds the new A_RUNTIME_FUNCTIONS block is, in all three branches, "kept entries, then
    the entries from first_defined on" -/
theorem offsets_canon (rt KE : List REntry) (kl fDef nDef : Nat) (h1 : KE.length = kl) (h2 : kl ≤ fDef)
    (h3 : nDef = rt.length - fDef) :
    (if kl + nDef == 0 then [] else if fDef != 0 then KE ++ (rt.drop fDef).take nDef else rt) =
      KE ++ (rt.drop fDef).take nDef := by
  by_cases ha : kl + nDef = 0
  · have : KE = [] := List.eq_nil_of_length_eq_zero (by omega)
    have hn : nDef = 0 := by omega
    have hc : (kl + nDef == 0) = true := by simp [ha]
    rw [if_pos hc, this, hn]; simp
  · have hc : (kl + nDef == 0) = false := by simp; omega
    rw [hc]
    by_cases hb : fDef = 0
    · have : KE = [] := List.eq_nil_of_length_eq_zero (by omega)
      have hc2 : (fDef != 0) = false := by simp [hb]
      rw [hc2, this, hb, h3, hb]
      simp
    · have hc2 : (fDef != 0) = true := by simp [hb]
      rw [hc2]; simp

/-- the kept slots lie inside the region the loop ran over -/
theorem fillGo_kept_range (E : Nat → Bool) : ∀ cnt s j x, x ∈ (fillGo E s cnt j).kept → s ≤ x ∧ x < s + cnt := by
  intro cnt
  induction cnt with
  | zero => intro s j x h; simp [fillGo] at h
  | succ k ih =>
    intro s j x h
    rw [fillGo] at h
    split at h
    · have := ih (s + 1) j x (by simpa using h); omega
    · split at h
      · simp at h
      · simp at h
        rcases h with h | h
        · omega
        · have := ih (s + 1) (j + 1) x h; omega

/-- lookups in a compressed table described by its parts -/
theorem lookup_core (t : RTab) (hwf : t.cmpWF = true) (c : CTable) (kept : List Nat) (nOvR : Nat)
    (hk : ∀ x ∈ kept, x < t.rt.length)
    (hfd : c.firstDefined ≤ t.rt.length) (hjle : kept.length ≤ c.firstDefined)
    (hnd : c.numDeleted = c.firstDefined - kept.length)
    (hnov : c.firstDefined - c.numCompressed = nOvR)
    (hoff : c.offsets = kept.filterMap (fun s => t.rt[s]?) ++
        (t.rt.drop c.firstDefined).take (t.rt.length - c.firstDefined))
    (hlow : ∀ i, i < c.firstDefined → (i < c.firstOverload ∨ i - c.firstOverload ≥ nOvR) → expectedAt t i = true)
    (hmid : ∀ i, i < c.firstDefined → ¬ (i < c.firstOverload ∨ i - c.firstOverload ≥ nOvR) →
      (expectedAt t i = true → c.index[i - c.firstOverload]? = some cmpMarker) ∧
      (expectedAt t i = false → ∃ v, c.index[i - c.firstOverload]? = some v ∧ v ≠ cmpMarker ∧ kept[v]? = some i))
    (i : Nat) (hi : i < t.rt.length) : findFuncEntry t.inherit c i = t.rt[i]? := by
  have hall : ∀ x ∈ kept, ((fun s => t.rt[s]?) x).isSome = true := by
    intro x hx
    have := hk x hx
    simp [this]
  obtain ⟨hlen, hget⟩ := filterMap_all_some (fun s => t.rt[s]?) kept hall
  unfold findFuncEntry
  by_cases hlt : i < c.firstDefined
  · simp only [hlt, if_true]
    unfold findFuncEntryLow
    simp only [hnov]
    by_cases hcond : i < c.firstOverload ∨ i - c.firstOverload ≥ nOvR
    · have hE := hlow i hlt hcond
      have : (decide (i < c.firstOverload) || decide (i - c.firstOverload ≥ nOvR)) = true := by
        simpa using hcond
      simp only [this, if_true]
      exact remake_expected t hwf i hi hE
    · have : (decide (i < c.firstOverload) || decide (i - c.firstOverload ≥ nOvR)) = false := by
        simpa using hcond
      simp only [this]
      obtain ⟨m1, m2⟩ := hmid i hlt hcond
      cases hE : expectedAt t i with
      | true =>
        simp [m1 hE]
        exact remake_expected t hwf i hi hE
      | false =>
        obtain ⟨v, hv1, hv2, hv3⟩ := m2 hE
        have hvlt : v < kept.length := (List.getElem?_eq_some_iff.mp hv3).1
        simp only [hv1]
        have : (v == cmpMarker) = false := by simpa using hv2
        simp only [this]
        rw [hoff, List.getElem?_append_left (by omega), hget v, hv3]
        simp
  · simp only [hlt, if_false]
    have h1 : c.numDeleted ≤ i := by omega
    simp only [h1, if_true]
    rw [hoff, hnd]
    rw [List.getElem?_append_right (by omega)]
    rw [hlen]
    have : i - (c.firstDefined - kept.length) - kept.length = i - c.firstDefined := by omega
    rw [this, List.getElem?_take]
    have : i - c.firstDefined < t.rt.length - c.firstDefined := by omega
    simp only [this, if_true]
    rw [List.getElem?_drop]
    congr 1; omega

/-- compress_function_tables after the scans, read back through FIND_FUNC_ENTRY -/
theorem compressWith_lookup (t : RTab) (hwf : t.cmpWF = true) (fDef0 fOv nOv : Nat)
    (h1 : fDef0 ≤ t.rt.length) (h2 : fOv + nOv ≤ fDef0)
    (h3 : ∀ i, i < fOv → expectedAt t i = true)
    (h4 : ∀ i, fOv + nOv ≤ i → i < fDef0 → expectedAt t i = true)
    (i : Nat) (hi : i < t.rt.length) :
    findFuncEntry t.inherit (compressWith true t fDef0 fOv nOv) i = t.rt[i]? := by
  obtain ⟨_, b, _, d, e, f⟩ := fillGo_spec (expectedAt t) nOv fOv 0 (by omega)
  have kr := fillGo_kept_range (expectedAt t) nOv fOv 0
  have hk : ∀ x ∈ (fillGo (expectedAt t) fOv nOv 0).kept, x < t.rt.length := by
    intro x hx; have := kr x hx; omega
  have hall : ∀ x ∈ (fillGo (expectedAt t) fOv nOv 0).kept, ((fun s => t.rt[s]?) x).isSome = true := by
    intro x hx
    have := hk x hx
    simp [this]
  have hlen := (filterMap_all_some (fun s => t.rt[s]?) _ hall).1
  cases hw : (fillGo (expectedAt t) fOv nOv 0).woops with
  | none =>
    have hkl := e hw
    apply lookup_core t hwf _ (fillGo (expectedAt t) fOv nOv 0).kept nOv hk
    · simp [compressWith, hw]; exact h1
    · simp [compressWith, hw]; omega
    · simp [compressWith, hw]; omega
    · simp [compressWith, hw]; omega
    · simp only [compressWith, hw]
      exact offsets_canon t.rt _ _ fDef0 _ (by rw [hlen]; omega) (by omega) rfl
    · simp only [compressWith, hw]
      intro k hk1 hk2
      rcases hk2 with hk2 | hk2
      · exact h3 k hk2
      · by_cases hk3 : k < fOv
        · exact h3 k hk3
        · exact h4 k (by omega) hk1
    · simp only [compressWith, hw]
      intro k hk1 hk2
      have hd : k - fOv < nOv := by omega
      have := f (k - fOv) hd (by intro s0 h0; rw [hw] at h0; cases h0)
      have e1 : fOv + (k - fOv) = k := by omega
      rw [e1] at this
      refine ⟨this.1, ?_⟩
      intro hE
      obtain ⟨v, v1, v2, _, v4⟩ := this.2 hE
      exact ⟨v, v1, v2, by simpa using v4⟩
    · exact hi
  | some s0 =>
    obtain ⟨d1, d2, d3⟩ := d s0 hw
    have hkl : (fillGo (expectedAt t) fOv nOv 0).kept.length = 255 := by omega
    apply lookup_core t hwf _ (fillGo (expectedAt t) fOv nOv 0).kept (s0 - fOv) hk
    · simp [compressWith, hw]; omega
    · simp [compressWith, hw]; omega
    · simp [compressWith, hw]; omega
    · simp [compressWith, hw]
    · simp only [compressWith, hw]
      exact offsets_canon t.rt _ _ s0 _ (by rw [hlen]; omega) (by omega) (by simp)
    · simp only [compressWith, hw]
      intro k hk1 hk2
      rcases hk2 with hk2 | hk2
      · exact h3 k hk2
      · by_cases hk3 : k < fOv
        · exact h3 k hk3
        · omega
    · simp only [compressWith, hw]
      intro k hk1 hk2
      have hd : k - fOv < nOv := by omega
      have := f (k - fOv) hd (by intro s1 h0; rw [hw] at h0; cases h0; omega)
      have e1 : fOv + (k - fOv) = k := by omega
      rw [e1] at this
      refine ⟨this.1, ?_⟩
      intro hE
      obtain ⟨v, v1, v2, _, v4⟩ := this.2 hE
      exact ⟨v, v1, v2, by simpa using v4⟩
    · exact hi

/-- **Round trip.**  For every table that satisfies the decidable `cmpWF` (accesses in range; inherit offsets never
    decrease; an expected slot names the last inherit not beyond it): compress_function_tables succeeds, and every
    slot read through FIND_FUNC_ENTRY from the compressed table is the slot's uncompressed entry — including tables
    that take the 256-entry overflow branch. -/
theorem find_func_entry_compress (t : RTab) (hwf : t.cmpWF = true) :
    ∃ c, compress t = some c ∧ ∀ i, i < t.rt.length → findFuncEntry t.inherit c i = t.rt[i]? := by
  have hr : t.readable = true := by
    simp only [RTab.cmpWF, Bool.and_eq_true] at hwf
    exact hwf.1.1
  refine ⟨compressWith true t (scanFDef t t.rt.length) (scanFOv t (scanFDef t t.rt.length) (scanFDef t t.rt.length) 0)
      (scanLOv t (scanFOv t (scanFDef t t.rt.length) (scanFDef t t.rt.length) 0) (scanFDef t t.rt.length) -
        scanFOv t (scanFDef t t.rt.length) (scanFDef t t.rt.length) 0), by simp [compress, compressG, hr], ?_⟩
  intro i hi
  have a := scanFDef_le t t.rt.length
  obtain ⟨_, b2, b3⟩ := scanFOv_spec t (scanFDef t t.rt.length) (scanFDef t t.rt.length) 0 (by omega)
    (by intro i hi; omega)
  obtain ⟨c1, c2, c3⟩ := scanLOv_spec t (scanFOv t (scanFDef t t.rt.length) (scanFDef t t.rt.length) 0)
    (scanFDef t t.rt.length)
  have c2' := c2 b2
  exact compressWith_lookup t hwf _ _ _ a (by omega) b3 (by intro k hk1 hk2; exact c3 k (by omega) hk2) i hi

/-- **Frames through the compressed tables.**  In a world whose programs all satisfy `cmpWF`, chasing a runtime slot
    with every entry read through FIND_FUNC_ENTRY on the compressed table gives exactly the frame the uncompressed
    model (`chase`, the subject of `frame_offsets_correct`) gives — for every start slot, offsets and fuel. -/
theorem chaseC_eq_chase (w : World) (hw : ∀ P ∈ w.progs, (RTab.ofProgram P).cmpWF = true) :
    ∀ fuel p index fio vio, chaseC w fuel p index fio vio = chase w fuel p index fio vio := by
  intro fuel
  induction fuel with
  | zero => intro p index fio vio; rfl
  | succ n ih =>
    intro p index fio vio
    unfold chaseC chase
    cases hP : w.progs[p]? with
    | none => rfl
    | some P =>
      have hmem : P ∈ w.progs := List.mem_of_getElem? hP
      have hwf := hw P hmem
      simp only [Option.bind_eq_bind, Option.bind_some]
      cases hfl : P.flags[index]? with
      | none => simp
      | some fl =>
        obtain ⟨c, hc, hall⟩ := find_func_entry_compress (RTab.ofProgram P) hwf
        have hr : (RTab.ofProgram P).readable = true := by
          simp only [RTab.cmpWF, Bool.and_eq_true] at hwf
          exact hwf.1.1
        have hlen : P.flags.length = P.rt.length := by
          simp only [RTab.readable, RTab.ofProgram, Bool.and_eq_true, beq_iff_eq] at hr
          exact hr.1
        have hi : index < P.rt.length := by
          have := (List.getElem?_eq_some_iff.mp hfl).1
          omega
        have he := hall index hi
        simp only [RTab.ofProgram] at he hc
        simp only [Option.bind_eq_bind, Option.bind_some, RTab.ofProgram, hc, he]
        cases hrt : P.rt[index]? with
        | none => rfl
        | some e =>
          simp only [Option.bind_some]
          split
          · cases e with
            | inh off idx =>
              simp only
              cases P.inherit[off]? with
              | none => rfl
              | some ihh => simp only [Option.bind_some]; exact ih _ _ _ _
            | defn a b => rfl
          · rfl

/-! ### non-vacuity -/

/-- a program that inherits two programs (3 + 2 slots), overrides slot 1 (`defn`), has a taken-over slot 0 (`inh 1 0`,
    not at its expected place) and two own functions: `cmpWF` holds, the table really is compressed (3 entries
    omitted), and the chase through the compressed table reaches the same frame -/
def exTab : RTab :=
  { flags := [nameInherited, 0, nameInherited, nameInherited, nameInherited, 0, 0],
    rt := [.inh 1 0, .defn 0 0, .inh 0 2, .inh 1 0, .inh 1 1, .defn 1 0, .defn 2 0],
    inherit := [{ prog := 0, fio := 0, vio := 0 }, { prog := 1, fio := 3, vio := 1 }] }

example : exTab.cmpWF = true ∧
    (compress exTab).map (fun c => (c.firstDefined, c.firstOverload, c.index, c.offsets.length)) = some (5, 0, [0, 1], 4) ∧
    (compress exTab).map (fun c => decompress exTab.inherit c 7) = some (exTab.rt.map some) := by
  decide

end NV.C07
