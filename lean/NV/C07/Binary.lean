/-
C07 — a program loaded from its saved binary (lib/lpc/program/binaries.c): load_binary re-interns the function names
(their shared strings live at other addresses than when the program was compiled) and sort_function_table () re-sorts
`function_table` by the new name pointers:

  temp[i]     = old index of the entry that belongs at position i          (quickSort by name pointer)
  inverse[o]  = new position of old entry o
  function_table is permuted in place (temp applied), and every runtime entry of a function DEFINED here
  (`!(function_flags[ri] & NAME_INHERITED)`) gets `def.f_index = inverse[oldix]`; inherited entries, flags, the
  inherit list and the compressed layout are untouched.
-/
import NV.C07.Model

namespace NV.C07

open NV.Gen.C07

/-- insertion of index x into a list of indices sorted by `key` -/
def insertIdx (key : Nat → Nat) (x : Nat) : List Nat → List Nat
  | [] => [x]
  | y :: rest => if key x < key y then x :: y :: rest else y :: insertIdx key x rest

/-- `temp[]`: the indices 0 .. n-1 sorted by key -/
def sortIdx (key : Nat → Nat) (n : Nat) : List Nat := (List.range n).foldl (fun acc i => insertIdx key i acc) []

/-- `inverse[old]` -/
def inversePerm (order : List Nat) (old : Nat) : Nat := (order.findIdx? (· == old)).getD order.length

/-- `if (!(function_flags[ri] & NAME_INHERITED)) function_offsets[..].def.f_index = inverse[oldix]` -/
def fixEntry (order : List Nat) (fl : Nat) (e : REntry) : REntry :=
  if hasBit fl nameInherited then e
  else match e with
    | .defn fi na => .defn (inversePerm order fi) na
    | .inh a b => .inh a b

/-- the table permutation and the f_index fix-up of sort_function_table for an arbitrary `temp[]` -/
def permuteProgram (P : Program) (order : List Nat) : Program :=
  { P with
    ft := order.filterMap (fun i => P.ft[i]?),
    rt := (P.flags.zip P.rt).map fun x => fixEntry order x.1 x.2 }

/-- load_binary + sort_function_table: the names get the pointers `rekey` gives them, the table is sorted by them -/
def resortProgram (P : Program) (rekey : String → NameKey) : Program :=
  let P1 : Program := { P with ft := P.ft.map (fun e => { e with name := rekey e.nameStr }) }
  permuteProgram P1 (sortIdx (fun i => ((P1.ft[i]?).map (·.name)).getD 0) P1.ft.length)

/-- `order` is a permutation of 0 .. n-1 -/
def IsPerm (order : List Nat) (n : Nat) : Prop :=
  (∀ x, x ∈ order → x < n) ∧ (∀ i, i < n → i ∈ order)

/-- the function a runtime slot of a program denotes when it is defined here: its table entry -/
def slotEntry (P : Program) (i : Nat) : Option FnEntry :=
  match P.flags[i]?, P.rt[i]? with
  | some fl, some (.defn fi _) => if hasBit fl nameInherited then none else P.ft[fi]?
  | _, _ => none

end NV.C07
