/-
C07 — find_function against the specification resolver: binary search on a sorted table, then the recursion
over the inherits.
-/
import NV.C07.Model
import NV.C07.Spec
import NV.C07.WF

namespace NV.C07

open NV.Gen.C07

/-! ### sorted tables and the binary search -/

theorem sortedKeys_lt : ∀ (l : List Nat), sortedKeys l = true →
    ∀ (i j a b : Nat), i < j → l[i]? = some a → l[j]? = some b → a < b := by
  intro l
  induction l with
  | nil => intro _ i j a b _ h; simp at h
  | cons x rest ih =>
    intro hs i j a b hij hi hj
    cases rest with
    | nil =>
      cases j with
      | zero => omega
      | succ j => simp at hj
    | cons y rest' =>
      simp only [sortedKeys, Bool.and_eq_true, decide_eq_true_eq] at hs
      obtain ⟨hxy, hrest⟩ := hs
      cases j with
      | zero => omega
      | succ j =>
        simp only [List.getElem?_cons_succ] at hj
        cases i with
        | zero =>
          simp only [List.getElem?_cons_zero, Option.some.injEq] at hi
          subst hi
          -- x < y ≤ everything later
          cases j with
          | zero =>
            simp only [List.getElem?_cons_zero, Option.some.injEq] at hj
            omega
          | succ j' =>
            have := ih hrest 0 (j' + 1) y b (by omega) (by simp) hj
            omega
        | succ i =>
          simp only [List.getElem?_cons_succ] at hi
          exact ih hrest i j a b (by omega) hi hj

theorem bsearch_aux (ft : List FnEntry) (name : NameKey) (hs : sortedKeys (ft.map (·.name)) = true) :
    ∀ (fuel lo hi : Nat), hi - lo ≤ fuel → hi ≤ ft.length →
      (∀ k, bsearchF ft name fuel lo hi = some k → lo ≤ k ∧ k < hi ∧ ∃ e, ft[k]? = some e ∧ e.name = name) ∧
      (bsearchF ft name fuel lo hi = none → ∀ k e, lo ≤ k → k < hi → ft[k]? = some e → e.name ≠ name) := by
  have key : ∀ (i j : Nat) (a b : FnEntry), i < j → ft[i]? = some a → ft[j]? = some b → a.name < b.name := by
    intro i j a b hij hi hj
    exact sortedKeys_lt _ hs i j a.name b.name hij (by simp [hi]) (by simp [hj])
  intro fuel
  induction fuel with
  | zero =>
    intro lo hi hf _
    unfold bsearchF
    exact ⟨by intro k hk; simp at hk, by intro _ k e h1 h2; omega⟩
  | succ n ih =>
    intro lo hi hf hle
    unfold bsearchF
    by_cases hlt : lo < hi
    · simp only [hlt, if_true]
      have hmid : (lo + hi - 1) / 2 < hi := by omega
      have hmid' : lo ≤ (lo + hi - 1) / 2 := by omega
      cases he : ft[(lo + hi - 1) / 2]? with
      | none =>
        have := List.getElem?_eq_none_iff.mp he
        omega
      | some e =>
        simp only
        by_cases h1 : name < e.name
        · simp only [h1, if_true]
          obtain ⟨r1, r2⟩ := ih lo ((lo + hi - 1) / 2) (by omega) (by omega)
          constructor
          · intro k hk
            obtain ⟨a, b, c⟩ := r1 k hk
            exact ⟨a, by omega, c⟩
          · intro hnone k e' hk1 hk2 hke
            by_cases hkm : k < (lo + hi - 1) / 2
            · exact r2 hnone k e' hk1 hkm hke
            · by_cases hkeq : k = (lo + hi - 1) / 2
              · subst hkeq
                rw [he] at hke
                simp only [Option.some.injEq] at hke
                subst hke
                exact Nat.ne_of_gt h1
              · have := key ((lo + hi - 1) / 2) k e e' (by omega) he hke
                exact Nat.ne_of_gt (Nat.lt_trans h1 this)
        · by_cases h2 : name > e.name
          · simp only [h1, h2, if_true, if_false]
            obtain ⟨r1, r2⟩ := ih ((lo + hi - 1) / 2 + 1) hi (by omega) hle
            constructor
            · intro k hk
              obtain ⟨a, b, c⟩ := r1 k hk
              exact ⟨by omega, b, c⟩
            · intro hnone k e' hk1 hk2 hke
              by_cases hkm : (lo + hi - 1) / 2 + 1 ≤ k
              · exact r2 hnone k e' hkm hk2 hke
              · by_cases hkeq : k = (lo + hi - 1) / 2
                · subst hkeq
                  rw [he] at hke
                  simp only [Option.some.injEq] at hke
                  subst hke
                  exact Nat.ne_of_lt h2
                · have := key k ((lo + hi - 1) / 2) e' e (by omega) hke he
                  exact Nat.ne_of_lt (Nat.lt_trans this h2)
          · simp only [h1, h2, if_false]
            constructor
            · intro k hk
              simp only [Option.some.injEq] at hk
              subst hk
              exact ⟨hmid', hmid, e, he, Nat.le_antisymm (Nat.le_of_not_lt h1) (Nat.le_of_not_lt h2)⟩
            · intro hnone; simp at hnone
    · simp only [hlt, if_false]
      constructor
      · intro k hk; simp at hk
      · intro _ k e hk1 hk2; omega

theorem bsearch_spec (ft : List FnEntry) (name : NameKey) (hs : sortedKeys (ft.map (·.name)) = true) :
    (∀ k, bsearch ft name 0 ft.length = some k → ∃ e, ft[k]? = some e ∧ e.name = name) ∧
    (bsearch ft name 0 ft.length = none → ∀ e ∈ ft, e.name ≠ name) := by
  obtain ⟨r1, r2⟩ := bsearch_aux ft name hs (ft.length - 0) 0 ft.length (Nat.le_refl _) (Nat.le_refl _)
  unfold bsearch
  constructor
  · intro k hk; exact (r1 k hk).2.2
  · intro hn e hmem
    obtain ⟨k, hk⟩ := List.getElem?_of_mem hmem
    have hlt : k < ft.length := by
      rcases Nat.lt_or_ge k ft.length with h | h
      · exact h
      · rw [List.getElem?_eq_none_iff.mpr h] at hk; simp at hk
    exact r2 hn k e (Nat.zero_le _) hlt hk

/-- entries with the same name in a sorted table are the same entry -/
theorem sorted_unique (ft : List FnEntry) (hs : sortedKeys (ft.map (·.name)) = true) (i j : Nat) (a b : FnEntry)
    (hi : ft[i]? = some a) (hj : ft[j]? = some b) (hab : a.name = b.name) : i = j := by
  have key : ∀ (i j : Nat) (a b : FnEntry), i < j → ft[i]? = some a → ft[j]? = some b → a.name < b.name := by
    intro i j a b hij hi hj
    exact sortedKeys_lt _ hs i j a.name b.name hij (by simp [hi]) (by simp [hj])
  rcases Nat.lt_trichotomy i j with h | h | h
  · have := key i j a b h hi hj; rw [hab] at this; exact absurd this (Nat.lt_irrefl _)
  · exact h
  · have := key j i b a h hj hi; rw [hab] at this; exact absurd this (Nat.lt_irrefl _)

/-! ### the specification's answer, expressed as a find_function result -/

/-- index of the entry called `name` in a table -/
def indexOfName : List FnEntry → NameKey → Option Nat
  | [], _ => none
  | e :: rest, name => if e.name = name then some 0 else (indexOfName rest name).map (· + 1)

theorem indexOfName_some : ∀ (ft : List FnEntry) (name : NameKey) (j : Nat),
    indexOfName ft name = some j → ∃ e, ft[j]? = some e ∧ e.name = name := by
  intro ft
  induction ft with
  | nil => intro name j h; simp [indexOfName] at h
  | cons a rest ih =>
    intro name j h
    unfold indexOfName at h
    by_cases ha : a.name = name
    · simp only [ha, if_true, Option.some.injEq] at h
      subst h
      exact ⟨a, by simp, ha⟩
    · simp only [ha, if_false, Option.map_eq_some_iff] at h
      obtain ⟨j', hj', rfl⟩ := h
      obtain ⟨e, he, hn⟩ := ih name j' hj'
      exact ⟨e, by simpa using he, hn⟩

theorem indexOfName_none : ∀ (ft : List FnEntry) (name : NameKey),
    indexOfName ft name = none → ∀ e ∈ ft, e.name ≠ name := by
  intro ft
  induction ft with
  | nil => intro name _ e he; simp at he
  | cons a rest ih =>
    intro name h e he
    unfold indexOfName at h
    by_cases ha : a.name = name
    · simp [ha] at h
    · simp only [ha, if_false, Option.map_eq_none_iff] at h
      rcases List.mem_cons.mp he with rfl | hm
      · exact ha
      · exact ih name h e hm

/-- walk a resolver path (inherit indices, outermost first) from program p: the program it ends in, the table
    index of the name there, and the sums of the offsets of the inherit entries passed -/
def follow (w : World) (name : NameKey) : Nat → List Nat → FindRes
  | p, [] =>
    match w.progs[p]? with
    | none => .crash
    | some P =>
      match indexOfName P.ft name with
      | some k => .found p k 0 0
      | none => .crash
  | p, k :: rest =>
    match w.progs[p]? with
    | none => .crash
    | some P =>
      match P.inherit[k]? with
      | none => .crash
      | some ih =>
        match follow w name ih.prog rest with
        | .found q i f v => .found q i (f + ih.fio) (v + ih.vio)
        | r => r

def specFind (w : World) (p : Nat) (name : NameKey) : Option (List Nat) → FindRes
  | none => .none
  | some path => follow w name p path

/-! ### what the search of a program's own table means -/

theorem tableSearch_spec (P : Program) (name : NameKey) (hs : sortedKeys (P.ft.map (·.name)) = true)
    (hr : P.ft.all (fun e => decide (e.rindex < P.flags.length)) = true) :
    (∀ k, tableSearch P name = .here k → ∃ e, P.ft[k]? = some e ∧ e.name = name ∧ isReal P e = true) ∧
    (tableSearch P name = .notHere → ∃ e, e ∈ P.ft ∧ e.name = name ∧ isBlocker P e = true) ∧
    (tableSearch P name = .inherits → ∀ e ∈ P.ft, e.name = name → isReal P e = false) ∧
    tableSearch P name ≠ .crash := by
  obtain ⟨b1, b2⟩ := bsearch_spec P.ft name hs
  unfold tableSearch
  cases hb : bsearch P.ft name 0 P.ft.length with
  | none =>
    simp only
    refine ⟨by intro k h; simp at h, by intro h; simp at h, ?_, by simp⟩
    intro _ e he hn
    exact absurd hn (b2 hb e he)
  | some mid =>
    obtain ⟨e, he, hn⟩ := b1 mid hb
    have hmem : e ∈ P.ft := List.mem_of_getElem? he
    have hri : e.rindex < P.flags.length := by
      have := List.all_eq_true.mp hr e hmem
      simpa using this
    obtain ⟨fl, hfl⟩ : ∃ fl, P.flags[e.rindex]? = some fl := ⟨P.flags[e.rindex], List.getElem?_eq_getElem hri⟩
    simp only [he, hfl]
    have huniq : ∀ e' ∈ P.ft, e'.name = name → e' = e := by
      intro e' he' hn'
      obtain ⟨j, hj⟩ := List.getElem?_of_mem he'
      have := sorted_unique P.ft hs j mid e' e hj he (by rw [hn', hn])
      subst this
      rw [he] at hj
      simpa using hj.symm
    by_cases hany : hasBit fl (nameUndefined ||| namePrototype ||| nameInherited) = true
    · by_cases hinh : hasBit fl nameInherited = true
      · simp only [hany, hinh, if_true]
        refine ⟨by intro k h; simp at h, by intro h; simp at h, ?_, by simp⟩
        intro _ e' he' hn'
        rw [huniq e' he' hn']
        simp [isReal, hfl, hany]
      · simp only [hany, hinh, if_true]
        refine ⟨by intro k h; simp at h, ?_, by intro h; simp at h, by simp⟩
        intro _
        exact ⟨e, hmem, hn, by simp [isBlocker, hfl, hany, hinh]⟩
    · simp only [hany]
      refine ⟨?_, by intro h; simp at h, by intro h; simp at h, by simp⟩
      intro k hk
      simp only [Bool.false_eq_true, if_false, TableRes.here.injEq] at hk
      subst hk
      exact ⟨e, he, hn, by simp [isReal, hfl, hany]⟩

theorem real_not_blocker (P : Program) (e : FnEntry) (h1 : isReal P e = true) (h2 : isBlocker P e = true) : False := by
  unfold isReal at h1
  unfold isBlocker at h2
  cases hfl : P.flags[e.rindex]? with
  | none => simp [hfl] at h1
  | some fl =>
    simp only [hfl] at h1 h2
    cases hb : hasBit fl (nameUndefined ||| namePrototype ||| nameInherited) <;> simp_all

/-! ### the recursion over the inherits -/

theorem searchInh_append (rec : Nat → FindRes) (xs ys : List Inherit) :
    searchInh rec (xs ++ ys) = (match searchInh rec xs with | .none => searchInh rec ys | r => r) := by
  induction xs with
  | nil => simp [searchInh]
  | cons a rest ih =>
    simp only [List.cons_append, searchInh]
    cases rec a.prog with
    | crash => rfl
    | found q k f v => rfl
    | none => simpa using ih

theorem follow_ne_none (w : World) (name : NameKey) : ∀ (path : List Nat) (p : Nat), follow w name p path ≠ .none := by
  intro path
  induction path with
  | nil =>
    intro p
    unfold follow
    cases w.progs[p]? with
    | none => simp
    | some P => simp only; cases indexOfName P.ft name <;> simp
  | cons k rest ih =>
    intro p
    unfold follow
    cases w.progs[p]? with
    | none => simp
    | some P =>
      simp only
      cases P.inherit[k]? with
      | none => simp
      | some ihd =>
        simp only
        have := ih ihd.prog
        cases hf : follow w name ihd.prog rest with
        | none => exact absurd hf this
        | crash => simp
        | found a b c d => simp

theorem searchLF_congr (r1 r2 : Nat → Option (List Nat)) : ∀ (l : List Nat) (k : Nat),
    (∀ q ∈ l, r1 q = r2 q) → Spec.searchLF r1 k l = Spec.searchLF r2 k l := by
  intro l
  induction l with
  | nil => intro k _; rfl
  | cons a rest ih =>
    intro k h
    unfold Spec.searchLF
    rw [ih (k + 1) (fun q hq => h q (List.mem_cons_of_mem _ hq)), h a List.mem_cons_self]

theorem searchLF_none (r : Nat → Option (List Nat)) : ∀ (l : List Nat) (k : Nat),
    (∀ q ∈ l, r q = none) → Spec.searchLF r k l = none := by
  intro l
  induction l with
  | nil => intro k _; rfl
  | cons a rest ih =>
    intro k h
    unfold Spec.searchLF
    rw [ih (k + 1) (fun q hq => h q (List.mem_cons_of_mem _ hq)), h a List.mem_cons_self]
    rfl

/-- with inherited programs at smaller indices the resolver does not depend on the fuel -/
theorem resolveFrom_fuel {ν : Type} [DecidableEq ν] (g : List (Spec.SProg ν))
    (hord : ∀ (p : Nat) (P : Spec.SProg ν), g[p]? = some P → ∀ q ∈ P.inherits, q < p) (name : ν) :
    ∀ (f1 f2 p : Nat), p < f1 → p < f2 → Spec.resolveFrom g f1 p name = Spec.resolveFrom g f2 p name := by
  intro f1
  induction f1 with
  | zero => intro f2 p h; omega
  | succ n ih =>
    intro f2 p h1 h2
    cases f2 with
    | zero => omega
    | succ m =>
      unfold Spec.resolveFrom
      cases hP : g[p]? with
      | none => rfl
      | some P =>
        simp only
        split
        · rfl
        · apply searchLF_congr
          intro q hq
          have := hord p P hP q hq
          exact ih m q (by omega) (by omega)

/-- the model's loop over the inherits (last to first) against the specification's, given that the recursive
    calls already agree -/
theorem searchInh_eq (w : World) (name : NameKey) (p : Nat) (P : Program) (hP : w.progs[p]? = some P)
    (rec : Nat → FindRes) (rec' : Nat → Option (List Nat)) :
    ∀ (l : List Inherit) (k : Nat),
      (∀ j ih, l[j]? = some ih → P.inherit[k + j]? = some ih ∧ rec ih.prog = specFind w ih.prog name (rec' ih.prog)) →
      searchInh rec l.reverse =
        (match Spec.searchLF rec' k (l.map (·.prog)) with
         | none => .none
         | some path => follow w name p path) := by
  intro l
  induction l with
  | nil => intro k _; simp [searchInh, Spec.searchLF]
  | cons a rest ih =>
    intro k h
    have hrest := ih (k + 1) (by
      intro j ihd hj
      have := h (j + 1) ihd (by simpa using hj)
      rw [show k + 1 + j = k + (j + 1) by omega]
      exact this)
    rw [List.reverse_cons, searchInh_append, hrest]
    simp only [List.map_cons, Spec.searchLF]
    cases hs : Spec.searchLF rec' (k + 1) (rest.map (·.prog)) with
    | some path =>
      simp only
      have := follow_ne_none w name path p
      cases hf : follow w name p path with
      | none => exact absurd hf this
      | crash => rfl
      | found a b c d => rfl
    | none =>
      simp only
      obtain ⟨ha, hrec⟩ := h 0 a (by simp)
      simp only [Nat.add_zero] at ha
      simp only [searchInh, hrec]
      cases hr : rec' a.prog with
      | none => simp [specFind]
      | some path =>
        simp only [specFind, Option.map_some]
        have hne := follow_ne_none w name path a.prog
        conv => rhs; unfold follow
        simp only [hP, ha]
        cases hf : follow w name a.prog path with
        | none => exact absurd hf hne
        | crash => rfl
        | found q i f v => rfl

/-! ### find_function = the specification's resolver -/

theorem wfFind_prog (w : World) (hw : wfFind w = true) (p : Nat) (P : Program) (hP : w.progs[p]? = some P) :
    wfFindProg w p P = true := by
  unfold wfFind at hw
  have := List.all_eq_true.mp hw (P, p) (List.mem_zipIdx_iff_getElem?.mpr hP)
  simpa using this

theorem abstr_get (w : World) (p : Nat) (P : Program) (hP : w.progs[p]? = some P) :
    (abstr w)[p]? = some { defs := (P.ft.filter (isReal P)).map (·.name), inherits := P.inherit.map (·.prog) } := by
  simp [abstr, hP]

theorem abstr_ord (w : World) (hw : wfFind w = true) :
    ∀ (p : Nat) (SP : Spec.SProg NameKey), (abstr w)[p]? = some SP → ∀ q ∈ SP.inherits, q < p := by
  intro p SP h q hq
  simp only [abstr, List.getElem?_map, Option.map_eq_some_iff] at h
  obtain ⟨P, hP, rfl⟩ := h
  have hwf := wfFind_prog w hw p P hP
  simp only [wfFindProg, Bool.and_eq_true] at hwf
  obtain ⟨⟨⟨_, _⟩, hi⟩, _⟩ := hwf
  simp only [List.mem_map] at hq
  obtain ⟨ih, hm, rfl⟩ := hq
  have := List.all_eq_true.mp hi ih hm
  simpa using this

theorem findFunction_eq (w : World) (hw : wfFind w = true) (name : NameKey) :
    ∀ (n p : Nat), p < n → p < w.progs.length →
      findFunction w n p name = specFind w p name (Spec.resolveFrom (abstr w) n p name) := by
  intro n
  induction n with
  | zero => intro p h; omega
  | succ n ih =>
    intro p hpn hpl
    obtain ⟨P, hP⟩ : ∃ P, w.progs[p]? = some P := ⟨w.progs[p], List.getElem?_eq_getElem hpl⟩
    have hwf := wfFind_prog w hw p P hP
    simp only [wfFindProg, Bool.and_eq_true] at hwf
    obtain ⟨⟨⟨hs, hr⟩, hi⟩, hb⟩ := hwf
    have hinh : ∀ ihd ∈ P.inherit, ihd.prog < p := by
      intro ihd hm
      have := List.all_eq_true.mp hi ihd hm
      simpa using this
    unfold findFunction Spec.resolveFrom
    simp only [hP, abstr_get w p P hP]
    obtain ⟨t1, t2, t3, t4⟩ := tableSearch_spec P name hs hr
    cases hts : tableSearch P name with
    | crash => exact absurd hts t4
    | here k =>
      obtain ⟨e, he, hn, hreal⟩ := t1 k hts
      have hmem : e ∈ P.ft := List.mem_of_getElem? he
      have hd : name ∈ (P.ft.filter (isReal P)).map (·.name) :=
        List.mem_map.mpr ⟨e, List.mem_filter.mpr ⟨hmem, hreal⟩, hn⟩
      simp only [hd, if_true, specFind, follow, hP]
      cases hidx : indexOfName P.ft name with
      | none => exact absurd hn (indexOfName_none P.ft name hidx e hmem)
      | some j =>
        obtain ⟨e', he', hn'⟩ := indexOfName_some P.ft name j hidx
        have := sorted_unique P.ft hs j k e' e he' he (by rw [hn', hn])
        subst this
        rfl
    | notHere =>
      obtain ⟨e, hmem, hn, hblk⟩ := t2 hts
      have hd : ¬ name ∈ (P.ft.filter (isReal P)).map (·.name) := by
        intro hm
        obtain ⟨e', hf, hn'⟩ := List.mem_map.mp hm
        obtain ⟨hm', hreal'⟩ := List.mem_filter.mp hf
        obtain ⟨i, hi'⟩ := List.getElem?_of_mem hm'
        obtain ⟨j, hj'⟩ := List.getElem?_of_mem hmem
        have := sorted_unique P.ft hs i j e' e hi' hj' (by rw [hn', hn])
        subst this
        rw [hi'] at hj'
        simp only [Option.some.injEq] at hj'
        subst hj'
        exact real_not_blocker P e' hreal' hblk
      simp only [hd, if_false]
      rw [searchLF_none]
      · rfl
      · intro q hq
        obtain ⟨ihd, hm, rfl⟩ := List.mem_map.mp hq
        have hcl := List.all_eq_true.mp hb e hmem
        simp only [hblk, Bool.not_true, Bool.false_or] at hcl
        have hcl2 := List.all_eq_true.mp hcl ihd hm
        rw [hn] at hcl2
        have hlt := hinh ihd hm
        rw [resolveFrom_fuel (abstr w) (abstr_ord w hw) name n (w.progs.length + 1) ihd.prog (by omega) (by omega)]
        simpa using hcl2
    | inherits =>
      have hd : ¬ name ∈ (P.ft.filter (isReal P)).map (·.name) := by
        intro hm
        obtain ⟨e', hf, hn'⟩ := List.mem_map.mp hm
        obtain ⟨hm', hreal'⟩ := List.mem_filter.mp hf
        have := t3 hts e' hm' hn'
        rw [this] at hreal'
        exact absurd hreal' (by simp)
      simp only [hd, if_false]
      have key := searchInh_eq w name p P hP (fun q => findFunction w n q name)
        (fun q => Spec.resolveFrom (abstr w) n q name) P.inherit 0 (by
          intro j ihd hj
          have hm : ihd ∈ P.inherit := List.mem_of_getElem? hj
          have hlt := hinh ihd hm
          exact ⟨by simpa using hj, ih ihd.prog (by omega) (by omega)⟩)
      rw [key]
      cases Spec.searchLF (fun q => Spec.resolveFrom (abstr w) n q name) 0 (P.inherit.map (·.prog)) <;> rfl

theorem find_eq_spec (w : World) (hw : wfFind w = true) (p : Nat) (hp : p < w.progs.length) (name : NameKey) :
    find w p name = specFind w p name (Spec.resolve (abstr w) p name) := by
  unfold find World.fuel Spec.resolve
  have hl : (abstr w).length = w.progs.length := by simp [abstr]
  rw [hl]
  exact findFunction_eq w hw name _ p (by omega) hp

end NV.C07
