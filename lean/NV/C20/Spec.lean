/-
C20 — specification oracle.  `judgeEv` sees only the event trace (one `StepRec` per SEGMENT = the events between two
uid snapshots, in the context of the innermost running op; ops nest when a create() runs a script: who did what, the
master's valid_seteuid verdict, creator_file answers and the uids each new object's create() saw, the result,
getuid/geteuid of every registered object after the step) and decides whether property C20 held:

  euid     an object's euid differs from the previous snapshot only after ITS OWN seteuid - to 0, or to the string the
           master's valid_seteuid approved in this very step - (or it was (re)created in this step, see creation)
  uid      an object's uid differs only after an export_uid that returned 1, made by an actor whose euid was not 0,
           onto this object whose euid was 0, and the new uid is that actor's euid
  creation an object is created only by a load/clone of an actor that has an euid or is the master; creator_file was
           asked; the new uid is the answer ("NONAME" for a non-string) with euid 0, or - answer = backbone uid and
           the creator has an euid - uid = euid = the creator's euid.  Without a creator_file call only
           reload_object (uid kept, euid 0) and the late initialisation of an object whose creation the master
           aborted (uid "NONAME", euid 0) may announce an object - and a destruct of the master by an actor that has an
           euid (or is the master) announces the reloaded master with uid = euid (set_master).
  noeuid   an actor other than the master whose euid is 0 at that moment causes no creator_file call (nothing is
           created on its behalf) and no compile_object call (no virtual object is made or handed out for it) -
           also when the actor is itself an object under construction running its create()
  export   export_uid returns 1 only from a caller with euid != 0 onto a target with euid 0; a caller with euid 0
           gets the error
  asked    a seteuid(string) of an existing object reaches the master with exactly that object and string
  bind     a function re-bound (bind()) to another object runs only after master::valid_bind approved that doer and
           new owner; what it creates is judged as an op of the new owner
  vo       a blueprint that master::valid_object refused is not created
  fp       geteuid(function) after a via / bind op is the euid of the function's (new) owner
  known    every object in a snapshot was there before or was announced in this step; no id occurs twice in a snapshot; announced objects appear in
           the snapshot as announced; every object has a uid; the driver did not crash

It knows nothing about the model's world (object table, half-made objects, clone counter).
-/
import NV.C20.Model

namespace NV.C20

def isMade (r : StepRec) (k : Oid) : Bool :=
  r.creations.any (fun c => match c.made with
    | some m => decide (m.oid = k)
    | none => false)

def euidChangeOk (r : StepRec) (e : Obj) : Bool :=
  decide (r.actor = e.oid) &&
    (match r.op with
     | .seteuidInt n => decide (n = 0) && decide (e.euid = none)
     | .seteuidStr s =>
       (match r.vs with
        | some (o, u, a) => decide (o = e.oid) && decide (u = s) && a.approved && decide (e.euid = some s)
        | none => false)
     | _ => false)

def euidClause (P : List Obj) (r : StepRec) : Bool :=
  match r.snap with
  | none => true
  | some S => S.all fun e =>
      match getO P e.oid with
      | none => true
      | some p => isMade r e.oid || decide (e.euid = p.euid) || euidChangeOk r e

def uidChangeOk (P : List Obj) (r : StepRec) (p e : Obj) : Bool :=
  match r.op, getO P r.actor with
  | .exportUid t, some A =>
    decide (t = e.oid) && decide (r.res = some (.int 1)) && A.euid.isSome && decide (p.euid = none) &&
      decide (e.uid = A.euid)
  | _, _ => false

def uidClause (P : List Obj) (r : StepRec) : Bool :=
  match r.snap with
  | none => true
  | some S => S.all fun e =>
      match getO P e.oid with
      | none => true
      | some p => isMade r e.oid || decide (e.uid = p.uid) || uidChangeOk P r p e

def isCreatingOp : Op → Bool
  | .load _ => true
  | .clone _ _ => true
  | _ => false

def madeOk (bb : Option Name) (P : List Obj) (r : StepRec) (c : Creation) : Bool :=
  match c.made with
  | none => true
  | some m =>
    match c.ans with
    | some a =>
      isCreatingOp r.op && decide (a ≠ .err) &&
      (match getO P r.actor with
       | none => false
       | some A =>
         (decide (r.actor = masterOid) || A.euid.isSome) &&
         ((decide (m.uid = some (creatorName a)) && decide (m.euid = none)) ||
          (decide (bb = some (creatorName a)) && A.euid.isSome && decide (m.uid = A.euid) && decide (m.euid = A.euid))))
    | none =>
      (match getO P m.oid with
       | some p => decide (r.op = .reload m.oid) && decide (m.uid = p.uid) && decide (m.euid = none)
       | none => false) ||
      ((match r.op with
        | .load _ => true
        | _ => false) && decide (m.uid = some "NONAME") && decide (m.euid = none)) ||
      -- destruct of the master: the driver loads a new one for the caller (who needs an euid) and makes it root
      (decide (r.op = .dest masterOid) && decide (m.oid = masterOid) && m.uid.isSome && decide (m.euid = m.uid) &&
        (match getO P r.actor with
         | some A => decide (r.actor = masterOid) || A.euid.isSome
         | none => false))

def creationClause (bb : Option Name) (P : List Obj) (r : StepRec) : Bool :=
  r.creations.all (madeOk bb P r)

def noEuidClause (P : List Obj) (r : StepRec) : Bool :=
  match getO P r.actor with
  | none => true
  | some A =>
    if r.actor ≠ masterOid ∧ A.euid = none then r.creations.all (fun c => c.ans.isNone) && r.co.isNone else true

def exportClause (P : List Obj) (r : StepRec) : Bool :=
  match r.op with
  | .exportUid t =>
    (match getO P r.actor, getO P t with
     | some A, some T =>
       (if r.res = some (.int 1) then A.euid.isSome && T.euid.isNone else true) &&
       (if A.euid = none then decide (r.res = some (.err .exportZero)) else true)
     | _, _ => true)
  | _ => true

def askedClause (P : List Obj) (r : StepRec) : Bool :=
  match r.op, getO P r.actor with
  | .seteuidStr s, some _ =>
    (match r.vs with
     | some (o, u, _) => decide (o = r.actor) && decide (u = s)
     | none => false)
  | _, _ => true

def knownClause (P : List Obj) (r : StepRec) : Bool :=
  !r.crash &&
  (match r.snap with
   | none => false
   | some S =>
     S.all (fun e => e.uid.isSome && ((getO P e.oid).isSome || isMade r e.oid) && decide (getO S e.oid = some e)) &&
     r.creations.all (fun c => match c.made with
       | some m =>
         (match getO S m.oid with
          | some e => decide (e.uid = m.uid) && decide (e.euid = m.euid)
          | none => false)
       | none => true))

/-- bind     a function re-bound to another object runs (as that object: its euid counts for what it creates) only after
             the master's valid_bind approved exactly this doer and new owner; binding to oneself needs nobody -/
def bindClause (r : StepRec) : Bool :=
  match r.bindTo with
  | none => true
  | some t =>
    r.res.isSome || decide (r.actor = t) ||
      (match r.vb with
       | some (d, n, a) => decide (d = r.actor) && decide (n = t) && a.approved
       | none => false)

/-- fp       geteuid(function) reports the euid the function's owner (a bound function's NEW owner) has at that moment -/
def fpClause (r : StepRec) : Bool :=
  match r.fpOwner, r.snap with
  | some t, some S => decide (r.res = some (fpEuid S t))
  | _, _ => true

/-- vo       a blueprint master::valid_object refused (or in which it raised an error) is not created: the segment ends the op
             with an error and announces nothing -/
def voClause (r : StepRec) : Bool :=
  match r.vo with
  | none => true
  | some (_, a) =>
    a.approved || (r.creations.isEmpty && (match r.res with
      | some (.err _) => true
      | _ => false))

def clauses (bb : Option Name) (P : List Obj) (r : StepRec) : List (Bool × String) :=
  [(knownClause P r, "known"), (euidClause P r, "euid"), (uidClause P r, "uid"),
   (creationClause bb P r, "creation"), (noEuidClause P r, "noeuid"), (exportClause P r, "export"),
   (askedClause P r, "asked"), (bindClause r, "bind"), (fpClause r, "fp"), (voClause r, "vo")]

/-- violated clauses of one step, given the previous snapshot -/
def judgeStep (bb : Option Name) (P : List Obj) (r : StepRec) : List String :=
  if r.crash then ["crash"]
  else (clauses bb P r).filterMap (fun c => if c.1 then none else some c.2)

def judgeFrom (bb : Option Name) : List Obj → Nat → List StepRec → List String
  | _, _, [] => []
  | P, i, r :: rs =>
    (judgeStep bb P r).map (fun v => s!"{v} step={i}") ++ judgeFrom bb (r.snap.getD P) (i + 1) rs

/-- the oracle: before the first step only the master exists, with uid = euid = get_root_uid() - or "NONAME" / 0 when
    it defines no get_root_uid() -, and (configuration `simul`) the simul_efun object with "NONAME" / 0: `initObjs` -/
def judgeEv (cfg : Cfg) (trace : List StepRec) : List String :=
  judgeFrom cfg.bb (initObjs cfg) 0 trace

end NV.C20
