/-
C20 — nested creation: segments chain (`Chain`), objects other than the acting one keep their euid across a
create() script (`Frame`), and `exec` (ops with nested create() scripts, any fuel) is good.
-/
import NV.C20.LemmasOps

namespace NV.C20

/-- the oracle clauses do not look at `first`, and look at `res` only for export_uid -/
theorem StepOK_congr {bb : Option Name} {P : List Obj} {w1 : World} {r r' : StepRec} (h : StepOK bb P w1 r)
    (ha : r'.actor = r.actor) (hop : r'.op = r.op) (hvs : r'.vs = r.vs) (hcs : r'.creations = r.creations)
    (hsnap : r'.snap = r.snap) (hcrash : r'.crash = r.crash)
    (hres : r'.res = r.res ∨ ∀ t, r.op ≠ .exportUid t) : StepOK bb P w1 r' := by
  obtain ⟨a, op, vs, cs, res, snap, crash, first⟩ := r
  obtain ⟨a', op', vs', cs', res', snap', crash', first'⟩ := r'
  simp only at ha hop hvs hcs hsnap hcrash hres
  subst ha hop hvs hcs hsnap hcrash
  rcases hres with hres | hres
  · subst hres
    exact ⟨h.inv, h.snap, h.nocrash, h.known, h.euid, h.uid, h.creation, h.noeuid, h.exportc, h.asked⟩
  · refine ⟨h.inv, h.snap, h.nocrash, h.known, h.euid, ?_, h.creation, h.noeuid, ?_, h.asked⟩
    · have := h.uid
      cases op' with
      | exportUid t => exact absurd rfl (hres t)
      | _ => exact this
    · cases op' with
      | exportUid t => exact absurd rfl (hres t)
      | _ => rfl

/-! ### chains of segments -/

def Chain (bb : Option Name) : List Obj → List StepRec → List Obj → Prop
  | P, [], Q => P = Q
  | P, r :: rs, Q => ∃ w1, StepOK bb P w1 r ∧ Chain bb w1.objs rs Q

theorem Chain.append {bb : Option Name} : ∀ {s1 : List StepRec} {P Q R : List Obj} {s2 : List StepRec},
    Chain bb P s1 Q → Chain bb Q s2 R → Chain bb P (s1 ++ s2) R := by
  intro s1
  induction s1 with
  | nil => intro P Q R s2 h1 h2; simp only [Chain] at h1; subst h1; simpa using h2
  | cons r rs ih =>
    intro P Q R s2 h1 h2
    obtain ⟨w1, hr, hc⟩ := h1
    exact ⟨w1, hr, ih hc h2⟩

theorem Chain.single {bb : Option Name} {P : List Obj} {w1 : World} {r : StepRec} (h : StepOK bb P w1 r) :
    Chain bb P [r] w1.objs := ⟨w1, h, rfl⟩

theorem Chain.cons {bb : Option Name} {P Q : List Obj} {w1 : World} {r : StepRec} {rs : List StepRec}
    (h : StepOK bb P w1 r) (hc : Chain bb w1.objs rs Q) : Chain bb P (r :: rs) Q := ⟨w1, h, hc⟩

/-! ### frame: who keeps its euid -/

/-- every object registered in `P` other than `o` is still registered in `Q`, with the same euid -/
def Frame (o : Oid) (P Q : List Obj) : Prop :=
  ∀ x X, x ≠ o → getO P x = some X → ∃ X', getO Q x = some X' ∧ X'.euid = X.euid

theorem Frame.refl (o : Oid) (P : List Obj) : Frame o P P := fun _ X _ h => ⟨X, h, rfl⟩

theorem Frame.of_eq {o : Oid} {P Q : List Obj} (h : Q = P) : Frame o P Q := h ▸ Frame.refl o P

theorem Frame.trans {o : Oid} {P Q R : List Obj} (h1 : Frame o P Q) (h2 : Frame o Q R) : Frame o P R := by
  intro x X hx hX
  obtain ⟨X1, h3, h4⟩ := h1 x X hx hX
  obtain ⟨X2, h5, h6⟩ := h2 x X1 hx h3
  exact ⟨X2, h5, h6.trans h4⟩

theorem Frame.setO_fresh {z : Oid} {P : List Obj} {o : Obj} (h : getO P o.oid = none) : Frame z P (setO P o) := by
  intro x X _ hX
  have hne : ¬ o.oid = x := by
    intro e; rw [e] at h; rw [h] at hX; cases hX
  exact ⟨X, by simp [getO_setO, hne, hX], rfl⟩

theorem Frame.setO_self {P : List Obj} {o : Obj} : Frame o.oid P (setO P o) := by
  intro x X hx hX
  have hne : ¬ o.oid = x := fun e => hx e.symm
  exact ⟨X, by simp [getO_setO, hne, hX], rfl⟩

theorem Frame.setO_euid {z : Oid} {P : List Obj} {o T : Obj} (hT : getO P o.oid = some T) (he : o.euid = T.euid) :
    Frame z P (setO P o) := by
  intro x X _ hX
  by_cases hne : o.oid = x
  · refine ⟨o, by simp [getO_setO, hne], ?_⟩
    rw [hne] at hT; rw [hT] at hX; cases hX; exact he
  · exact ⟨X, by simp [getO_setO, hne, hX], rfl⟩

/-- a create() script of a freshly registered object `o` leaves everything registered before untouched -/
theorem Frame.through_fresh {z o : Oid} {P P1 Q : List Obj} (hfresh : getO P o = none) (h1 : Frame z P P1)
    (h2 : Frame o P1 Q) : Frame z P Q := by
  intro x X hx hX
  have hxo : x ≠ o := by
    intro e; rw [e] at hX; rw [hfresh] at hX; cases hX
  obtain ⟨X1, h3, h4⟩ := h1 x X hx hX
  obtain ⟨X2, h5, h6⟩ := h2 x X1 hxo h3
  exact ⟨X2, h5, h6.trans h4⟩

/-! ### good runners -/

def GoodSub (bb : Option Name) (sub : Sub) : Prop :=
  ∀ w o key, Inv w →
    Inv (sub w o key).1 ∧ Chain bb w.objs (sub w o key).2 (sub w o key).1.objs ∧ Frame o w.objs (sub w o key).1.objs

def GoodExec (bb : Option Name) (f : Bool → World → Oid → Op → World × List StepRec) : Prop :=
  ∀ nested w a op, Inv w →
    Inv (f nested w a op).1 ∧ Chain bb w.objs (f nested w a op).2 (f nested w a op).1.objs ∧
      (nested = true → Frame a w.objs (f nested w a op).1.objs)

theorem goodSub_skip (bb : Option Name) : GoodSub bb (fun w _ _ => (w, [])) := by
  intro w o _ hw
  exact ⟨hw, rfl, Frame.refl o w.objs⟩

theorem runScript_good {bb : Option Name} {f : Bool → World → Oid → Op → World × List StepRec} (hf : GoodExec bb f)
    (o : Oid) : ∀ (ops : List Op) (w : World), Inv w →
      Inv (runScript (f true) w o ops).1 ∧ Chain bb w.objs (runScript (f true) w o ops).2 (runScript (f true) w o ops).1.objs ∧
        Frame o w.objs (runScript (f true) w o ops).1.objs := by
  intro ops
  induction ops with
  | nil => intro w hw; exact ⟨hw, rfl, Frame.refl o w.objs⟩
  | cons op ops ih =>
    intro w hw
    simp only [runScript]
    obtain ⟨h1, h2, h3⟩ := hf true w o op hw
    obtain ⟨h4, h5, h6⟩ := ih (f true w o op).1 h1
    exact ⟨h4, Chain.append h2 h5, Frame.trans (h3 rfl) h6⟩

theorem goodSub_script {bb : Option Name} {f : Bool → World → Oid → Op → World × List StepRec} (hf : GoodExec bb f)
    (script : String → List Op) : GoodSub bb (fun w o key => runScript (f true) w o (script key)) :=
  fun w o key hw => runScript_good hf o (script key) w hw

end NV.C20
