/-
C20 — nested creation: segments chain (`Chain`), objects other than the acting one keep their euid across a
create() script (`Keeps`), and `exec` (ops with nested create() scripts, any fuel) is good.
-/
import NV.C20.LemmasOps

namespace NV.C20

/-- the oracle clauses do not look at `first`, and look at `res` only for export_uid -/
theorem StepOK_congr {bb : Option Name} {P : List Obj} {w1 : World} {r r' : StepRec} (h : StepOK bb P w1 r)
    (ha : r'.actor = r.actor) (hop : r'.op = r.op) (hvs : r'.vs = r.vs) (hcs : r'.creations = r.creations)
    (hsnap : r'.snap = r.snap) (hcrash : r'.crash = r.crash) (hco : r'.co = r.co) (hbt : r'.bindTo = none) (hfo : r'.fpOwner = none) (hvo : r'.vo = none)
    (hres : r'.res = r.res ∨ ∀ t, r.op ≠ .exportUid t) : StepOK bb P w1 r' := by
  have hb : bindClause r' = true := by unfold bindClause; rw [hbt]
  have hf : fpClause r' = true := by unfold fpClause; rw [hfo]
  have hv : voClause r' = true := by unfold voClause; rw [hvo]
  obtain ⟨a, op, vs, cs, res, snap, crash, first, co, vsnap, vb, bindTo, vo, fpOwner⟩ := r
  obtain ⟨a', op', vs', cs', res', snap', crash', first', co', vsnap', vb', bindTo', vo', fpOwner'⟩ := r'
  simp only at ha hop hvs hcs hsnap hcrash hres hco
  subst ha hop hvs hcs hsnap hcrash hco
  rcases hres with hres | hres
  · subst hres
    exact ⟨h.inv, h.snap, h.nocrash, h.known, h.euid, h.uid, h.creation, h.noeuid, h.exportc, h.asked, hb, hf, hv⟩
  · refine ⟨h.inv, h.snap, h.nocrash, h.known, h.euid, ?_, h.creation, h.noeuid, ?_, h.asked, hb, hf, hv⟩
    · have := h.uid
      cases op' with
      | exportUid t => exact absurd rfl (hres t)
      | _ => exact this
    · cases op' with
      | exportUid t => exact absurd rfl (hres t)
      | _ => rfl

/-- a segment in which the master's compile_object was asked on behalf of an actor that passed the euid test -/
theorem StepOK_co {bb : Option Name} {P : List Obj} {w1 : World} {r : StepRec} (h : StepOK bb P w1 r)
    {A : Obj} (hA : getO P r.actor = some A) (hguard : ¬ (r.actor ≠ masterOid ∧ A.euid = none))
    (x : String × CoAns) : StepOK bb P w1 { r with co := some x } := by
  obtain ⟨a, op, vs, cs, res, snap, crash, first, co, vsnap, vb, bindTo, vo, fpOwner⟩ := r
  refine ⟨h.inv, h.snap, h.nocrash, h.known, h.euid, h.uid, h.creation, ?_, h.exportc, h.asked, h.bind, h.fp, h.voc⟩
  simp only at hA hguard
  simp only [noEuidClause, hA]
  rw [if_neg hguard]

/-- the segment of a bind(): the master's valid_bind verdict is logged, and (when the function will run) the new owner -/
theorem StepOK_bind {bb : Option Name} {P : List Obj} {w1 : World} {r : StepRec} (h : StepOK bb P w1 r)
    (x : Option (Oid × Oid × Ans)) (t : Option Oid) (hb : bindClause { r with vb := x, bindTo := t } = true) :
    StepOK bb P w1 { r with vb := x, bindTo := t } := by
  obtain ⟨a, op, vs, cs, res, snap, crash, first, co, vsnap, vb, bindTo, vo, fpOwner⟩ := r
  exact ⟨h.inv, h.snap, h.nocrash, h.known, h.euid, h.uid, h.creation, h.noeuid, h.exportc, h.asked, hb, h.fp, h.voc⟩

/-- the last segment of a via / bind op: its result is geteuid(function) -/
theorem StepOK_fp {bb : Option Name} {P : List Obj} {w1 : World} {r : StepRec} (h : StepOK bb P w1 r)
    (t : Oid) (hf : fpClause { r with fpOwner := some t } = true) : StepOK bb P w1 { r with fpOwner := some t } := by
  obtain ⟨a, op, vs, cs, res, snap, crash, first, co, vsnap, vb, bindTo, vo, fpOwner⟩ := r
  exact ⟨h.inv, h.snap, h.nocrash, h.known, h.euid, h.uid, h.creation, h.noeuid, h.exportc, h.asked, h.bind, hf, h.voc⟩

/-- a segment in which master::valid_object was asked -/
theorem StepOK_vo {bb : Option Name} {P : List Obj} {w1 : World} {r : StepRec} (h : StepOK bb P w1 r)
    (x : String × Ans) (hv : voClause { r with vo := some x } = true) : StepOK bb P w1 { r with vo := some x } := by
  obtain ⟨a, op, vs, cs, res, snap, crash, first, co, vsnap, vb, bindTo, vo, fpOwner⟩ := r
  exact ⟨h.inv, h.snap, h.nocrash, h.known, h.euid, h.uid, h.creation, h.noeuid, h.exportc, h.asked, h.bind, h.fp, hv⟩

/-! ### chains of segments -/

def Chain (bb : Option Name) : List Obj → List StepRec → List Obj → Prop
  | P, [], Q => P = Q
  | P, r :: rs, Q => ∃ w1, StepOK bb P w1 r ∧ Chain bb w1.objs rs Q

theorem Chain.append {bb : Option Name} : ∀ {s1 : List StepRec} {P Q R : List Obj} {s2 : List StepRec},
    Chain bb P s1 Q → Chain bb Q s2 R → Chain bb P (s1 ++ s2) R := by
  intro s1
  induction s1 with
  | nil => intro P Q R s2 h1 h2; simp only [Chain] at h1; subst h1; simpa using h2
  | cons r rs ih =>
    intro P Q R s2 h1 h2
    obtain ⟨w1, hr, hc⟩ := h1
    exact ⟨w1, hr, ih hc h2⟩

theorem Chain.single {bb : Option Name} {P : List Obj} {w1 : World} {r : StepRec} (h : StepOK bb P w1 r) :
    Chain bb P [r] w1.objs := ⟨w1, h, rfl⟩

theorem Chain.cons {bb : Option Name} {P Q : List Obj} {w1 : World} {r : StepRec} {rs : List StepRec}
    (h : StepOK bb P w1 r) (hc : Chain bb w1.objs rs Q) : Chain bb P (r :: rs) Q := ⟨w1, h, hc⟩

/-! ### nothing registered disappears inside a create() script -/

/-- every object registered in `P` is still registered in `Q` -/
def Keeps (P Q : List Obj) : Prop := ∀ x, getO P x ≠ none → getO Q x ≠ none

theorem Keeps.refl (P : List Obj) : Keeps P P := fun _ h => h

theorem Keeps.of_eq {P Q : List Obj} (h : Q = P) : Keeps P Q := h ▸ Keeps.refl P

theorem Keeps.trans {P Q R : List Obj} (h1 : Keeps P Q) (h2 : Keeps Q R) : Keeps P R := fun x h => h2 x (h1 x h)

theorem Keeps.setO (P : List Obj) (o : Obj) : Keeps P (setO P o) := by
  intro x hx
  rw [getO_setO]
  by_cases h : o.oid = x
  · simp [h]
  · simpa [h] using hx

/-! ### good runners -/

def GoodSub (bb : Option Name) (sub : Sub) : Prop :=
  ∀ w o key, Inv w →
    Inv (sub w o key).1 ∧ Chain bb w.objs (sub w o key).2 (sub w o key).1.objs ∧ Keeps w.objs (sub w o key).1.objs

def GoodExec (bb : Option Name) (f : Bool → World → Oid → Op → World × List StepRec) : Prop :=
  ∀ nested w a op, Inv w →
    Inv (f nested w a op).1 ∧ Chain bb w.objs (f nested w a op).2 (f nested w a op).1.objs ∧
      (nested = true → Keeps w.objs (f nested w a op).1.objs)

theorem goodSub_skip (bb : Option Name) : GoodSub bb (fun w _ _ => (w, [])) := by
  intro w o _ hw
  exact ⟨hw, rfl, Keeps.refl w.objs⟩

theorem runScript_good {bb : Option Name} {f : Bool → World → Oid → Op → World × List StepRec} (hf : GoodExec bb f)
    (o : Oid) : ∀ (ops : List Op) (w : World), Inv w →
      Inv (runScript (f true) w o ops).1 ∧ Chain bb w.objs (runScript (f true) w o ops).2 (runScript (f true) w o ops).1.objs ∧
        Keeps w.objs (runScript (f true) w o ops).1.objs := by
  intro ops
  induction ops with
  | nil => intro w hw; exact ⟨hw, rfl, Keeps.refl w.objs⟩
  | cons op ops ih =>
    intro w hw
    simp only [runScript]
    obtain ⟨h1, h2, h3⟩ := hf true w o op hw
    obtain ⟨h4, h5, h6⟩ := ih (f true w o op).1 h1
    exact ⟨h4, Chain.append h2 h5, Keeps.trans (h3 rfl) h6⟩

theorem goodSub_script {bb : Option Name} {f : Bool → World → Oid → Op → World × List StepRec} (hf : GoodExec bb f)
    (script : String → List Op) : GoodSub bb (fun w o key => runScript (f true) w o (script key)) :=
  fun w o key hw => runScript_good hf o (script key) w hw

end NV.C20
