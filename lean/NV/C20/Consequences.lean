/-
C20 — consequences of the specification, for EVERY trace the oracle accepts (the model's traces by `model_satisfies_spec`, and
every trace of the real driver that the check judged `ok`): statements in the terms of the property itself, independent of the
model.

`euid_names_granted`: no effective uid ever appears out of nothing.  Every euid name found in any snapshot of an accepted trace
was either present before the trace started or GRANTED BY THE MASTER during it: approved in a valid_seteuid call, or given to a
reloaded master by set_master.  (The backbone rule only hands an already granted name on to a new object.)
-/
import NV.C20.Lemmas

namespace NV.C20

/-- the euid names the master lets into the world in one segment: a name it approved in valid_seteuid, the uid = euid a reloaded
    master is given -/
def grantedBy (r : StepRec) : List Name :=
  (match r.vs with
   | some (_, s, a) => if a.approved then [s] else []
   | none => []) ++
  r.creations.filterMap fun c =>
    match c.made with
    | some m => if c.ans.isNone ∧ r.op = .dest masterOid ∧ m.oid = masterOid then m.euid else none
    | none => none

/-- every euid name in `S` is one of `J` -/
def euidsIn (J : List Name) (S : List Obj) : Prop := ∀ e ∈ S, ∀ s, e.euid = some s → s ∈ J

theorem judgeStep_clauses {bb : Option Name} {P : List Obj} {r : StepRec} (h : judgeStep bb P r = []) :
    knownClause P r = true ∧ euidClause P r = true ∧ creationClause bb P r = true := by
  unfold judgeStep at h
  by_cases hc : r.crash = true
  · simp [hc] at h
  · simp only [hc, Bool.false_eq_true, if_false] at h
    have hall : ∀ c ∈ clauses bb P r, c.1 = true := by
      intro c hcm
      by_cases hx : c.1 = true
      · exact hx
      · exfalso
        have : c.2 ∈ (clauses bb P r).filterMap (fun c => if c.1 then none else some c.2) := by
          rw [List.mem_filterMap]
          exact ⟨c, hcm, by simp [hx]⟩
        rw [h] at this
        simp at this
    exact ⟨hall (knownClause P r, "known") (by simp [clauses]), hall (euidClause P r, "euid") (by simp [clauses]),
      hall (creationClause bb P r, "creation") (by simp [clauses])⟩

theorem step_euids {bb : Option Name} {P S : List Obj} {r : StepRec} {J : List Name} (hk : knownClause P r = true)
    (he : euidClause P r = true) (hcr : creationClause bb P r = true) (hs : r.snap = some S) (hJ : euidsIn J P) :
    euidsIn (J ++ grantedBy r) S := by
  intro e heS s hes
  rw [List.mem_append]
  unfold knownClause at hk
  simp only [hs, Bool.and_eq_true, List.all_eq_true, Bool.not_eq_true', Bool.or_eq_true, decide_eq_true_eq] at hk
  obtain ⟨_, hkS, hkC⟩ := hk
  obtain ⟨⟨_, hprev⟩, hwf⟩ := hkS e heS
  -- the object was announced in this segment: its euid is the creator's (backbone rule) or a reloaded master's
  have made : isMade r e.oid = true → s ∈ J ∨ s ∈ grantedBy r := by
    intro hm
    unfold isMade at hm
    rw [List.any_eq_true] at hm
    obtain ⟨c, hc, hcm⟩ := hm
    cases hmade : c.made with
    | none => simp [hmade] at hcm
    | some m =>
      simp only [hmade, decide_eq_true_eq] at hcm
      have hkc := hkC c hc
      simp only [hmade] at hkc
      rw [hcm, hwf] at hkc
      simp only [Bool.and_eq_true, decide_eq_true_eq] at hkc
      have hme : m.euid = some s := by rw [← hkc.2]; exact hes
      unfold creationClause at hcr
      rw [List.all_eq_true] at hcr
      have hmo := hcr c hc
      unfold madeOk at hmo
      simp only [hmade] at hmo
      cases hans : c.ans with
      | some a =>
        simp only [hans] at hmo
        cases hA : getO P r.actor with
        | none => simp [hA] at hmo
        | some A =>
          simp only [hA, Bool.and_eq_true, Bool.or_eq_true, decide_eq_true_eq] at hmo
          rcases hmo.2.2 with h1 | h1
          · rw [h1.2] at hme; cases hme
          · left
            have : A.euid = some s := by rw [← h1.2]; exact hme
            exact hJ A (getO_some hA).1 s this
      | none =>
        simp only [hans, Bool.or_eq_true, Bool.and_eq_true, decide_eq_true_eq] at hmo
        rcases hmo with (h1 | h1) | h1
        · cases hp : getO P m.oid with
          | none => simp [hp] at h1
          | some p =>
            simp only [hp, Bool.and_eq_true, decide_eq_true_eq] at h1
            rw [h1.2] at hme; cases hme
        · rw [h1.2] at hme; cases hme
        · right
          unfold grantedBy
          rw [List.mem_append]
          right
          rw [List.mem_filterMap]
          refine ⟨c, hc, ?_⟩
          simp [hmade, hans, h1.1.1.1.1, h1.1.1.1.2, hme]
  unfold euidClause at he
  simp only [hs, List.all_eq_true] at he
  have hee := he e heS
  cases hp : getO P e.oid with
  | none =>
    rcases hprev with h | h
    · simp [hp] at h
    · exact made h
  | some p =>
    simp only [hp, Bool.or_eq_true, decide_eq_true_eq] at hee
    rcases hee with (h | h) | h
    · exact made h
    · left
      exact hJ p (getO_some hp).1 s (by rw [← h]; exact hes)
    · right
      unfold euidChangeOk at h
      simp only [Bool.and_eq_true, decide_eq_true_eq] at h
      obtain ⟨_, h2⟩ := h
      cases hop : r.op with
      | seteuidStr s' =>
        simp only [hop] at h2
        cases hv : r.vs with
        | none => simp [hv] at h2
        | some v =>
          obtain ⟨o, u, a⟩ := v
          simp only [hv, Bool.and_eq_true, decide_eq_true_eq] at h2
          obtain ⟨⟨⟨_, hu⟩, hap⟩, heq⟩ := h2
          have : s = u := by rw [heq] at hes; cases hes; exact hu.symm
          unfold grantedBy
          rw [List.mem_append]
          left
          simp [hv, hap, this]
      | seteuidInt n =>
        simp only [hop, Bool.and_eq_true, decide_eq_true_eq] at h2
        rw [h2.2] at hes; cases hes
      | exportUid _ => simp [hop] at h2
      | load _ => simp [hop] at h2
      | clone _ _ => simp [hop] at h2
      | dest _ => simp [hop] at h2
      | reload _ => simp [hop] at h2
      | via _ _ => simp [hop] at h2
      | bind _ _ => simp [hop] at h2

/-- **No effective uid appears out of nothing.**  In a trace the oracle accepts (from the snapshot `P`), every euid name of every
    snapshot is one that was present in `P` or that the master granted in the trace so far or later up to that point - approved in
    a valid_seteuid call, or given to a reloaded master. -/
theorem euid_names_granted {bb : Option Name} : ∀ (trace : List StepRec) (P : List Obj) (i : Nat) (J : List Name),
    judgeFrom bb P i trace = [] → euidsIn J P →
    ∀ r ∈ trace, ∀ S, r.snap = some S → euidsIn (J ++ trace.flatMap grantedBy) S := by
  intro trace
  induction trace with
  | nil => intro P i J _ _ r hr; simp at hr
  | cons x rest ih =>
    intro P i J hj hJ r hr S hS
    simp only [judgeFrom, List.append_eq_nil_iff, List.map_eq_nil_iff] at hj
    obtain ⟨hx, hrest⟩ := hj
    obtain ⟨hk, he, hc⟩ := judgeStep_clauses hx
    -- the oracle demands a snapshot in every segment
    have hsx : ∃ Sx, x.snap = some Sx := by
      unfold knownClause at hk
      cases h : x.snap with
      | none => simp [h] at hk
      | some Sx => exact ⟨Sx, rfl⟩
    obtain ⟨Sx, hSx⟩ := hsx
    have hstep := step_euids hk he hc hSx hJ
    rcases List.mem_cons.mp hr with hr | hr
    · subst hr
      rw [hSx] at hS
      cases hS
      intro e heS s hes
      have := hstep e heS s hes
      simp only [List.flatMap_cons, List.mem_append] at this ⊢
      rcases this with h | h
      · exact Or.inl h
      · exact Or.inr (Or.inl h)
    · have hrest' : judgeFrom bb Sx (i + 1) rest = [] := by simpa [hSx] using hrest
      have := ih Sx (i + 1) (J ++ grantedBy x) hrest' hstep r hr S hS
      intro e heS s hes
      have h2 := this e heS s hes
      simp only [List.flatMap_cons, List.mem_append] at h2 ⊢
      rcases h2 with (h | h) | h
      · exact Or.inl h
      · exact Or.inr (Or.inl h)
      · exact Or.inr (Or.inr h)

/-! ### uid names -/

/-- the names the master gives to new objects in one segment: its creator_file answers ("NONAME" for anything but a string) -/
def namedBy (r : StepRec) : List Name :=
  r.creations.filterMap fun c =>
    match c.ans with
    | some a => some (creatorName a)
    | none => none

/-- every uid name in `S` is one of `U` -/
def uidsIn (U : List Name) (S : List Obj) : Prop := ∀ e ∈ S, ∀ s, e.uid = some s → s ∈ U

theorem judgeStep_uidClause {bb : Option Name} {P : List Obj} {r : StepRec} (h : judgeStep bb P r = []) :
    uidClause P r = true := by
  unfold judgeStep at h
  by_cases hc : r.crash = true
  · simp [hc] at h
  · simp only [hc, Bool.false_eq_true, if_false] at h
    by_cases hx : uidClause P r = true
    · exact hx
    · exfalso
      have : "uid" ∈ (clauses bb P r).filterMap (fun c => if c.1 then none else some c.2) := by
        rw [List.mem_filterMap]
        exact ⟨(uidClause P r, "uid"), by simp [clauses], by simp [hx]⟩
      rw [h] at this
      simp at this

theorem step_uids {bb : Option Name} {P S : List Obj} {r : StepRec} {U J : List Name} (hk : knownClause P r = true)
    (hu : uidClause P r = true) (hcr : creationClause bb P r = true) (hs : r.snap = some S) (hU : uidsIn U P) (hJ : euidsIn J P) :
    uidsIn (U ++ J ++ "NONAME" :: (namedBy r ++ grantedBy r)) S := by
  intro e heS s hes
  simp only [List.mem_append, List.mem_cons]
  unfold knownClause at hk
  simp only [hs, Bool.and_eq_true, List.all_eq_true, Bool.not_eq_true', Bool.or_eq_true, decide_eq_true_eq] at hk
  obtain ⟨_, hkS, hkC⟩ := hk
  obtain ⟨⟨_, hprev⟩, hwf⟩ := hkS e heS
  have made : isMade r e.oid = true → (s ∈ U ∨ s ∈ J) ∨ s = "NONAME" ∨ s ∈ namedBy r ∨ s ∈ grantedBy r := by
    intro hm
    unfold isMade at hm
    rw [List.any_eq_true] at hm
    obtain ⟨c, hc, hcm⟩ := hm
    cases hmade : c.made with
    | none => simp [hmade] at hcm
    | some m =>
      simp only [hmade, decide_eq_true_eq] at hcm
      have hkc := hkC c hc
      simp only [hmade] at hkc
      rw [hcm, hwf] at hkc
      simp only [Bool.and_eq_true, decide_eq_true_eq] at hkc
      have hmu : m.uid = some s := by rw [← hkc.1]; exact hes
      unfold creationClause at hcr
      rw [List.all_eq_true] at hcr
      have hmo := hcr c hc
      unfold madeOk at hmo
      simp only [hmade] at hmo
      cases hans : c.ans with
      | some a =>
        simp only [hans] at hmo
        cases hA : getO P r.actor with
        | none => simp [hA] at hmo
        | some A =>
          simp only [hA, Bool.and_eq_true, Bool.or_eq_true, decide_eq_true_eq] at hmo
          rcases hmo.2.2 with h1 | h1
          · right; right; left
            unfold namedBy
            rw [List.mem_filterMap]
            refine ⟨c, hc, ?_⟩
            have : creatorName a = s := by
              have := h1.1; rw [hmu] at this; exact (Option.some.inj this).symm
            simp [hans, this]
          · left; right
            have : A.euid = some s := by rw [← h1.1.2]; exact hmu
            exact hJ A (getO_some hA).1 s this
      | none =>
        simp only [hans, Bool.or_eq_true, Bool.and_eq_true, decide_eq_true_eq] at hmo
        rcases hmo with (h1 | h1) | h1
        · cases hp : getO P m.oid with
          | none => simp [hp] at h1
          | some p =>
            simp only [hp, Bool.and_eq_true, decide_eq_true_eq] at h1
            left; left
            exact hU p (getO_some hp).1 s (by rw [← h1.1.2]; exact hmu)
        · right; left
          have := h1.1.2; rw [hmu] at this; exact Option.some.inj this
        · right; right; right
          unfold grantedBy
          rw [List.mem_append]
          right
          rw [List.mem_filterMap]
          refine ⟨c, hc, ?_⟩
          have hme : m.euid = some s := by rw [h1.1.2]; exact hmu
          simp [hmade, hans, h1.1.1.1.1, h1.1.1.1.2, hme]
  unfold uidClause at hu
  simp only [hs, List.all_eq_true] at hu
  have hee := hu e heS
  cases hp : getO P e.oid with
  | none =>
    rcases hprev with h | h
    · simp [hp] at h
    · exact made h
  | some p =>
    simp only [hp, Bool.or_eq_true, decide_eq_true_eq] at hee
    rcases hee with (h | h) | h
    · exact made h
    · left; left
      exact hU p (getO_some hp).1 s (by rw [← h]; exact hes)
    · -- export_uid: the new uid is the exporting actor's euid
      left; right
      unfold uidChangeOk at h
      cases hop : r.op with
      | exportUid t =>
        cases hA : getO P r.actor with
        | none => simp [hop, hA] at h
        | some A =>
          simp only [hop, hA, Bool.and_eq_true, decide_eq_true_eq] at h
          exact hJ A (getO_some hA).1 s (by rw [← h.2]; exact hes)
      | seteuidInt _ => simp [hop] at h
      | seteuidStr _ => simp [hop] at h
      | load _ => simp [hop] at h
      | clone _ _ => simp [hop] at h
      | dest _ => simp [hop] at h
      | reload _ => simp [hop] at h
      | via _ _ => simp [hop] at h
      | bind _ _ => simp [hop] at h

/-- **Every uid is a name the master decided on.**  In a trace the oracle accepts, every uid name of every snapshot was present
    at the start (as a uid, or as an euid: export_uid and the backbone rule turn euids into uids), is "NONAME", is a creator_file
    answer given in the trace, or is a name the master granted as an euid (`grantedBy`). -/
theorem uid_names_decided {bb : Option Name} : ∀ (trace : List StepRec) (P : List Obj) (i : Nat) (U J : List Name),
    judgeFrom bb P i trace = [] → uidsIn U P → euidsIn J P →
    ∀ r ∈ trace, ∀ S, r.snap = some S →
      uidsIn (U ++ J ++ "NONAME" :: trace.flatMap (fun r => namedBy r ++ grantedBy r)) S := by
  intro trace
  induction trace with
  | nil => intro P i U J _ _ _ r hr; simp at hr
  | cons x rest ih =>
    intro P i U J hj hU hJ r hr S hS
    simp only [judgeFrom, List.append_eq_nil_iff, List.map_eq_nil_iff] at hj
    obtain ⟨hx, hrest⟩ := hj
    obtain ⟨hk, he, hc⟩ := judgeStep_clauses hx
    have hu := judgeStep_uidClause hx
    have hsx : ∃ Sx, x.snap = some Sx := by
      unfold knownClause at hk
      cases h : x.snap with
      | none => simp [h] at hk
      | some Sx => exact ⟨Sx, rfl⟩
    obtain ⟨Sx, hSx⟩ := hsx
    have hstepU := step_uids hk hu hc hSx hU hJ
    have hstepJ := step_euids hk he hc hSx hJ
    rcases List.mem_cons.mp hr with hr | hr
    · subst hr
      rw [hSx] at hS
      cases hS
      intro e heS s hes
      have := hstepU e heS s hes
      simp only [List.flatMap_cons, List.mem_append, List.mem_cons] at this ⊢
      grind
    · have hrest' : judgeFrom bb Sx (i + 1) rest = [] := by simpa [hSx] using hrest
      have := ih Sx (i + 1) _ _ hrest' hstepU hstepJ r hr S hS
      intro e heS s hes
      have h2 := this e heS s hes
      simp only [List.flatMap_cons, List.mem_append, List.mem_cons] at h2 ⊢
      grind

/-- the same, for a whole configuration: before the first step the only euid is the root uid of the first master (none without
    get_root_uid()) -/
theorem euid_names_granted_from_start (cfg : Cfg) (trace : List StepRec) (h : judgeEv cfg trace = []) :
    ∀ r ∈ trace, ∀ S, r.snap = some S → euidsIn ((if cfg.noRoot then [] else [cfg.root]) ++ trace.flatMap grantedBy) S := by
  apply euid_names_granted trace (initObjs cfg) 0 _ h
  intro e he s hes
  have hmem : e = { oid := masterOid, name := "/c20/master", uid := some (if cfg.noRoot then "NONAME" else cfg.root),
                    euid := if cfg.noRoot then none else some cfg.root } ∨
              e = { oid := simulOid, name := "/c20/simul", uid := some "NONAME", euid := none } := by
    unfold initObjs at he
    cases hsim : cfg.simul <;> simp [hsim] at he
    · exact Or.inl he
    · exact he
  rcases hmem with h | h
  · subst h
    cases hn : cfg.noRoot <;> simp [hn] at hes ⊢
    exact hes.symm
  · subst h
    simp at hes

end NV.C20
