/-
C20 — property theorems.  All statements quantify over EVERY mudlib configuration `cfg` (root uid or a master without
get_root_uid(), backbone uid or none, master with / without valid_bind(), simul_efun object as actor or not), EVERY master policy `pol` (arbitrary functions of the step number and the apply's arguments: approve, refuse,
odd values, runtime errors, switching at any time) and EVERY history `hist` of (actor, operation) pairs
(load / clone / seteuid(string|int) / export_uid / destruct / reload_object / function-pointer evaluation / bind() by the
master, the simul_efun object or any other object, existing or not), EVERY assignment of create() scripts to file names (`pol.script`: ops an object under construction
performs from inside its create(), nested to any depth), EVERY compile_object policy `pol.co` (virtual objects), EVERY
valid_bind policy `pol.vb`, EVERY choice of creator_file calls in which the master drops its own euid (`pol.cfDrop`), EVERY sequence
of get_root_uid() answers (`pol.root`) and EVERY fuel (nesting bound of the model).
`events cfg pol fuel hist` is the model's event trace (one record per segment between two uid snapshots); the clauses are those of the oracle
`judgeEv` (NV/C20/Spec.lean), which is also run on every trace of the real driver.
-/
import NV.C20.LemmasExec
import NV.C20.Consequences

namespace NV.C20

/-- a trace in which every segment is fine relative to the snapshot before it -/
def TraceOK (bb : Option Name) : List Obj → List StepRec → Prop
  | _, [] => True
  | P, r :: rs => (∃ w1, StepOK bb P w1 r) ∧ TraceOK bb (r.snap.getD P) rs

theorem traceOK_of_chain {bb : Option Name} : ∀ {s : List StepRec} {P Q : List Obj} {rest : List StepRec},
    Chain bb P s Q → TraceOK bb Q rest → TraceOK bb P (s ++ rest) := by
  intro s
  induction s with
  | nil => intro P Q rest h1 h2; simp only [Chain] at h1; subst h1; simpa using h2
  | cons r rs ih =>
    intro P Q rest h1 h2
    obtain ⟨w1, hr, hc⟩ := h1
    refine ⟨⟨w1, hr⟩, ?_⟩
    rw [hr.snap]
    exact ih hc h2

theorem chain_nocrash {bb : Option Name} : ∀ {s : List StepRec} {P Q : List Obj},
    Chain bb P s Q → s.any (·.crash) = false := by
  intro s
  induction s with
  | nil => intro P Q _; rfl
  | cons r rs ih =>
    intro P Q h
    obtain ⟨w1, hr, hc⟩ := h
    simp [hr.nocrash, ih hc]

/-- every step of the model (an op with all the create() scripts nested in it, any fuel) keeps the invariant and
    emits segments that satisfy every oracle clause -/
theorem step_ok {w : World} (hw : Inv w) (cfg : Cfg) (pol : Policy) (fuel i : Nat) (a : Oid) (op : Op) :
    Inv (step cfg pol fuel i w a op).1 ∧
    Chain cfg.bb w.objs (step cfg pol fuel i w a op).2 (step cfg pol fuel i w a op).1.objs := by
  have := exec_good cfg pol i fuel false w a op hw
  exact ⟨this.1, this.2.1⟩

theorem runFrom_ok (cfg : Cfg) (pol : Policy) (fuel : Nat) :
    ∀ (hist : List (Oid × Op)) (i : Nat) (w : World), Inv w →
      TraceOK cfg.bb w.objs (runFrom cfg pol fuel i w hist) := by
  intro hist
  induction hist with
  | nil => intro i w _; simp [runFrom, TraceOK]
  | cons x rest ih =>
    intro i w hw
    obtain ⟨a, op⟩ := x
    obtain ⟨h1, h2⟩ := step_ok hw cfg pol fuel i a op
    simp only [runFrom, chain_nocrash h2, Bool.false_eq_true, if_false]
    exact traceOK_of_chain h2 (ih (i + 1) _ h1)

theorem events_ok (cfg : Cfg) (pol : Policy) (fuel : Nat) (hist : List (Oid × Op)) :
    TraceOK cfg.bb (World.init cfg).objs (events cfg pol fuel hist) :=
  runFrom_ok cfg pol fuel hist 0 (World.init cfg) (Inv_init cfg)

theorem judgeStep_nil {bb : Option Name} {P : List Obj} {w1 : World} {r : StepRec} (h : StepOK bb P w1 r) :
    judgeStep bb P r = [] := by
  simp [judgeStep, clauses, h.nocrash, h.known, h.euid, h.uid, h.creation, h.noeuid, h.exportc, h.asked, h.bind, h.fp, h.voc]

theorem judgeFrom_nil {bb : Option Name} :
    ∀ (trace : List StepRec) (P : List Obj) (i : Nat), TraceOK bb P trace → judgeFrom bb P i trace = [] := by
  intro trace
  induction trace with
  | nil => intro P i _; simp [judgeFrom]
  | cons r rs ih =>
    intro P i h
    obtain ⟨⟨w1, h1⟩, h2⟩ := h
    simp [judgeFrom, judgeStep_nil h1, ih _ _ h2]

/-- **Top theorem.**  The specification oracle accepts the event trace of every history under every master policy:
    no clause of property C20 (euid, uid, creation, no-euid-no-creation, export preconditions, master asked, bind only
    with the master's valid_bind approval, geteuid(function) = the owner's euid, every object known and with a uid, no crash) is ever violated by the model. -/
theorem model_satisfies_spec (cfg : Cfg) (pol : Policy) (fuel : Nat) (hist : List (Oid × Op)) :
    judgeEv cfg (events cfg pol fuel hist) = [] :=
  judgeFrom_nil _ _ 0 (events_ok cfg pol fuel hist)

/-- non-vacuity: a history on which objects are created, seteuid is approved and refused, export succeeds -/
example :
    let pol : Policy := { cf := fun _ n => if n = "/c20/bb/a" then .str "Backbone" else .str "u1",
                          vs := fun _ _ u => if u = "zed" then .int 0 else .int 1, script := fun _ _ => [], co := fun _ _ => .silent }
    let tr := events { root := "Root", bb := some "Backbone" } pol 3
      [("m", .load ⟨"u1", "a"⟩), ("u1a", .seteuidStr "zed"), ("u1a", .seteuidStr "u1"), ("u1a", .load ⟨"bb", "a"⟩),
       ("m", .load ⟨"u1", "b"⟩), ("u1a", .exportUid "u1b"), ("u1b", .clone "c1" ⟨"u1", "a"⟩)]
    (tr.filterMap (·.res)) =
      [.oid "u1a", .int 0, .int 1, .oid "bba", .oid "u1b", .int 1, .err .noEuidClone] := by decide

/-- non-vacuity with nested creation: `u1a` (euid u1) loads `/c20/u2/a`, which gets uid u2 / euid 0 and whose
    create() tries to load `/c20/u2/b` and to clone: both are refused inside the still running outer load; after
    its own approved seteuid the nested load succeeds -/
example :
    let pol : Policy := { cf := fun _ n => if n = "/c20/u1/a" then .str "u1" else .str "u2", vs := fun _ _ _ => .int 1,
                          script := fun _ k => if k = "/c20/u2/a" then
                            [.load ⟨"u2", "b"⟩, .clone "c1" ⟨"u2", "b"⟩, .seteuidStr "u2", .load ⟨"u2", "b"⟩] else [],
                          co := fun _ _ => .silent }
    let tr := events { root := "Root", bb := some "Backbone" } pol 3
      [("m", .load ⟨"u1", "a"⟩), ("u1a", .seteuidStr "u1"), ("u1a", .load ⟨"u2", "a"⟩)]
    (tr.map (fun r => (r.actor, r.res))) =
      [("m", none), ("m", some (.oid "u1a")), ("u1a", some (.int 1)), ("u1a", none),
       ("u2a", some (.err .noEuidLoad)), ("u2a", some (.err .noEuidClone)), ("u2a", some (.int 1)),
       ("u2a", none), ("u2a", some (.oid "u2b")), ("u1a", some (.oid "u2a"))] := by decide

/-- non-vacuity with a virtual object: the master's compile_object clones a template for `/c20/u1/v1`; an object
    with euid 0 may find the loaded virtual object but its clone_object of it is refused before compile_object is
    asked again; with an euid the clone is handed out as `v2` -/
example :
    let pol : Policy := { cf := fun _ _ => .str "u1", vs := fun _ _ _ => .int 1, script := fun _ _ => [],
                          co := fun _ n => if n = "/c20/u1/v1" then .tmpl ⟨"u2", "a"⟩ else .silent }
    let tr := events { root := "Root", bb := some "Backbone" } pol 3
      [("m", .load ⟨"u1", "v1"⟩), ("m", .load ⟨"u1", "a"⟩), ("u1a", .load ⟨"u1", "v1"⟩),
       ("u1a", .clone "c1" ⟨"u1", "v1"⟩), ("u1a", .seteuidStr "u1"), ("u1a", .clone "c1" ⟨"u1", "v1"⟩)]
    (tr.filterMap (fun r => r.res.map (fun x => (r.actor, x)))) =
      [("m", .oid "v1"), ("m", .oid "v1"), ("m", .oid "u1a"), ("u1a", .oid "v1"), ("u1a", .err .noEuidClone),
       ("u1a", .int 1), ("m", .oid "v2"), ("u1a", .oid "v2")] ∧
    (tr.filter (fun r => r.co.isSome)).map (·.actor) = ["m", "u1a"] := by decide

/-- clause `c` holds at every step of a trace, each step judged against the snapshot before it -/
def holdsAlong (c : List Obj → StepRec → Bool) : List Obj → List StepRec → Prop
  | _, [] => True
  | P, r :: rs => c P r = true ∧ holdsAlong c (r.snap.getD P) rs

theorem holdsAlong_of_traceOK {bb : Option Name} (c : List Obj → StepRec → Bool)
    (hc : ∀ P w1 r, StepOK bb P w1 r → c P r = true) :
    ∀ (trace : List StepRec) (P : List Obj), TraceOK bb P trace → holdsAlong c P trace := by
  intro trace
  induction trace with
  | nil => intro P _; trivial
  | cons r rs ih =>
    intro P h
    obtain ⟨⟨w1, h1⟩, h2⟩ := h
    exact ⟨hc P w1 r h1, ih _ h2⟩

/-- the snapshot the first step is judged against (`initObjs`): the master with uid = euid = get_root_uid() (set_master;
    "NONAME" / 0 for a master without get_root_uid()) and, in configuration `simul`, the simul_efun object "NONAME" / 0 -/
abbrev snap0 (cfg : Cfg) : List Obj := (World.init cfg).objs

/-- An object's euid differs from the snapshot before the step only if the object was (re)created in this step
    (creation clause) or the step is ITS OWN seteuid: `seteuid(0)` giving 0, or `seteuid(s)` for which the master's
    valid_seteuid was asked about exactly this object and `s`, approved, giving `s`. -/
theorem euid_changes_only_by_own_approved_seteuid (cfg : Cfg) (pol : Policy) (fuel : Nat) (hist : List (Oid × Op)) :
    holdsAlong euidClause (snap0 cfg) (events cfg pol fuel hist) :=
  holdsAlong_of_traceOK _ (fun _ _ _ h => h.euid) _ _ (events_ok cfg pol fuel hist)

/-- readable form of the euid clause for one step -/
theorem euidClause_explained {P S : List Obj} {r : StepRec} (h : euidClause P r = true) (hs : r.snap = some S)
    {e p : Obj} (he : e ∈ S) (hp : getO P e.oid = some p) (hm : isMade r e.oid = false) (hne : e.euid ≠ p.euid) :
    r.actor = e.oid ∧
      ((r.op = .seteuidInt 0 ∧ e.euid = none) ∨
       (∃ s a, r.op = .seteuidStr s ∧ r.vs = some (e.oid, s, a) ∧ a.approved = true ∧ e.euid = some s)) := by
  unfold euidClause at h
  simp only [hs, List.all_eq_true] at h
  have := h e he
  simp only [hp, hm, Bool.false_or, Bool.or_eq_true, decide_eq_true_eq, hne, false_or] at this
  unfold euidChangeOk at this
  simp only [Bool.and_eq_true, decide_eq_true_eq] at this
  refine ⟨this.1, ?_⟩
  have h2 := this.2
  cases hop : r.op with
  | seteuidInt n =>
    simp only [hop, Bool.and_eq_true, decide_eq_true_eq] at h2
    exact Or.inl ⟨by rw [h2.1], h2.2⟩
  | seteuidStr s =>
    simp only [hop] at h2
    cases hv : r.vs with
    | none => simp [hv] at h2
    | some v =>
      obtain ⟨o, u, a⟩ := v
      simp only [hv, Bool.and_eq_true, decide_eq_true_eq] at h2
      obtain ⟨⟨⟨h3, h4⟩, h5⟩, h6⟩ := h2
      exact Or.inr ⟨s, a, rfl, by rw [h3, h4], h5, h6⟩
  | exportUid _ => simp [hop] at h2
  | load _ => simp [hop] at h2
  | clone _ _ => simp [hop] at h2
  | dest _ => simp [hop] at h2
  | reload _ => simp [hop] at h2
  | via _ _ => simp [hop] at h2
  | bind _ _ => simp [hop] at h2

/-- An object's uid differs from the snapshot before the step only if it was (re)created in this step or the step is
    an export_uid onto it that returned 1, by an actor whose euid was not 0, while the object's own euid was 0; the
    new uid is that actor's euid. -/
theorem uid_changes_only_at_creation_or_export (cfg : Cfg) (pol : Policy) (fuel : Nat) (hist : List (Oid × Op)) :
    holdsAlong uidClause (snap0 cfg) (events cfg pol fuel hist) :=
  holdsAlong_of_traceOK _ (fun _ _ _ h => h.uid) _ _ (events_ok cfg pol fuel hist)

/-- readable form of the uid clause for one step -/
theorem uidClause_explained {P S : List Obj} {r : StepRec} (h : uidClause P r = true) (hs : r.snap = some S)
    {e p : Obj} (he : e ∈ S) (hp : getO P e.oid = some p) (hm : isMade r e.oid = false) (hne : e.uid ≠ p.uid) :
    ∃ A, getO P r.actor = some A ∧ r.op = .exportUid e.oid ∧ r.res = some (.int 1) ∧ A.euid ≠ none ∧
      p.euid = none ∧ e.uid = A.euid := by
  unfold uidClause at h
  simp only [hs, List.all_eq_true] at h
  have := h e he
  simp only [hp, hm, Bool.false_or, Bool.or_eq_true, decide_eq_true_eq, hne, false_or] at this
  unfold uidChangeOk at this
  cases hop : r.op with
  | exportUid t =>
    cases hA : getO P r.actor with
    | none => simp [hop, hA] at this
    | some A =>
      simp only [hop, hA, Bool.and_eq_true, decide_eq_true_eq] at this
      obtain ⟨⟨⟨⟨h1, h2⟩, h3⟩, h4⟩, h5⟩ := this
      refine ⟨A, rfl, by rw [h1], h2, ?_, h4, h5⟩
      intro hn; simp [hn] at h3
  | seteuidInt _ => simp [hop] at this
  | seteuidStr _ => simp [hop] at this
  | load _ => simp [hop] at this
  | clone _ _ => simp [hop] at this
  | dest _ => simp [hop] at this
  | reload _ => simp [hop] at this
  | via _ _ => simp [hop] at this
  | bind _ _ => simp [hop] at this

/-- Every object announced by a create() was made by a load/clone of an actor that is the master or has an euid,
    after creator_file answered without error, with uid = the answer ("NONAME" for a non-string) and euid 0 - or,
    answer = backbone uid and creator with an euid, uid = euid = the creator's euid.  Without a creator_file call
    only reload_object (uid kept, euid 0) and the late initialisation of an object whose creation the master's
    error aborted (uid "NONAME", euid 0) announce an object. -/
theorem creation_only_as_master_decides (cfg : Cfg) (pol : Policy) (fuel : Nat) (hist : List (Oid × Op)) :
    holdsAlong (creationClause cfg.bb) (snap0 cfg) (events cfg pol fuel hist) :=
  holdsAlong_of_traceOK _ (fun _ _ _ h => h.creation) _ _ (events_ok cfg pol fuel hist)

/-- An actor other than the master whose euid is 0 causes no creator_file call (no object is created on its
    behalf) and its clone_object never returns an object. -/
theorem no_euid_no_creation (cfg : Cfg) (pol : Policy) (fuel : Nat) (hist : List (Oid × Op)) :
    holdsAlong noEuidClause (snap0 cfg) (events cfg pol fuel hist) :=
  holdsAlong_of_traceOK _ (fun _ _ _ h => h.noeuid) _ _ (events_ok cfg pol fuel hist)

/-- export_uid returns 1 only from a caller with euid ≠ 0 onto a target with euid 0; a caller with euid 0 gets the
    error "Illegal to export uid 0". -/
theorem export_preconditions (cfg : Cfg) (pol : Policy) (fuel : Nat) (hist : List (Oid × Op)) :
    holdsAlong exportClause (snap0 cfg) (events cfg pol fuel hist) :=
  holdsAlong_of_traceOK _ (fun _ _ _ h => h.exportc) _ _ (events_ok cfg pol fuel hist)

/-- every seteuid(string) of an existing object asks the master, about exactly that object and string -/
theorem seteuid_always_asks_master (cfg : Cfg) (pol : Policy) (fuel : Nat) (hist : List (Oid × Op)) :
    holdsAlong askedClause (snap0 cfg) (events cfg pol fuel hist) :=
  holdsAlong_of_traceOK _ (fun _ _ _ h => h.asked) _ _ (events_ok cfg pol fuel hist)

theorem traceOK_mem {bb : Option Name} :
    ∀ (trace : List StepRec) (P : List Obj), TraceOK bb P trace → ∀ r ∈ trace, ∃ P' w1, StepOK bb P' w1 r := by
  intro trace
  induction trace with
  | nil => intro P _ r hr; simp at hr
  | cons x rs ih =>
    intro P h r hr
    obtain ⟨⟨w1, h1⟩, h2⟩ := h
    rcases List.mem_cons.mp hr with hr | hr
    · subst hr; exact ⟨P, w1, h1⟩
    · exact ih _ h2 r hr

/-- The model never reaches the crash outcome (NULL uid dereferenced by getuid) - with the two `fix:` commits;
    before them both witnesses of notes/C20.md crashed the real driver. -/
theorem no_crash (cfg : Cfg) (pol : Policy) (fuel : Nat) (hist : List (Oid × Op)) :
    ∀ r ∈ events cfg pol fuel hist, r.crash = false := by
  intro r hr
  obtain ⟨_, _, h⟩ := traceOK_mem _ _ (events_ok cfg pol fuel hist) r hr
  exact h.nocrash

/-- "An object must have a uid": every object in every snapshot has a non-NULL uid -/
theorem every_object_has_uid (cfg : Cfg) (pol : Policy) (fuel : Nat) (hist : List (Oid × Op)) :
    ∀ r ∈ events cfg pol fuel hist, ∀ S, r.snap = some S → ∀ e ∈ S, e.uid ≠ none := by
  intro r hr S hs e he
  obtain ⟨_, w1, h⟩ := traceOK_mem _ _ (events_ok cfg pol fuel hist) r hr
  have : S = w1.objs := by
    have := h.snap
    rw [hs] at this
    exact Option.some.inj this
  rw [this] at he
  exact h.inv.uid e he

/-- non-vacuity of `no_crash` / `every_object_has_uid`: the history that crashed the unrepaired driver (master
    drops its euid, then loads an object whose creator_file answer is the backbone uid) now yields uid "Backbone" -/
example :
    let pol : Policy := { cf := fun _ _ => .str "Backbone", vs := fun _ _ _ => .int 1, script := fun _ _ => [], co := fun _ _ => .silent }
    ((events { root := "Root", bb := some "Backbone" } pol 1 [("m", .seteuidInt 0), ("m", .load ⟨"bb", "a"⟩)]).map
        (fun r => r.snap.map (fun S => S.map (fun o => (o.oid, o.uid, o.euid))))).getLast? =
      some (some [("bba", some "Backbone", none), ("m", some "Root", none)]) := by decide

/-- non-vacuity (round 5), bind(): `u2a` (euid 0) binds a load to `u1a` (euid u1): refused while valid_bind says 0, the
    load then runs as `u1a` and creates; bound to itself nobody is asked and the euid test refuses -/
example :
    let pol : Policy := { cf := fun _ _ => .str "u1", vs := fun _ _ _ => .int 1, script := fun _ _ => [], co := fun _ _ => .silent,
                          vb := fun i _ _ => if i = 3 then .int 0 else .int 1 }
    let tr := events { root := "Root", bb := some "Backbone" } pol 3
      [("m", .load ⟨"u1", "a"⟩), ("m", .load ⟨"u2", "a"⟩), ("u1a", .seteuidStr "u1"),
       ("u2a", .bind "u1a" (.load ⟨"u1", "b"⟩)), ("u2a", .bind "u1a" (.load ⟨"u1", "b"⟩)), ("u2a", .bind "u2a" (.load ⟨"u1", "c"⟩))]
    (tr.filterMap (fun r => r.res.map (fun x => (r.actor, x)))) =
      [("m", .oid "u1a"), ("m", .oid "u2a"), ("u1a", .int 1), ("u2a", .err .bindDenied),
       ("u1a", .oid "u1b"), ("u2a", .oid "s:u1"), ("u2a", .err .noEuidLoad), ("u2a", .int 0)] ∧
    (tr.filterMap (·.vb)).map (·.2.2) = [.int 0, .int 1] := by decide

/-- policy of the next example -/
def polDropRoot : Policy :=
  { cf := fun _ _ => .str "Backbone", vs := fun _ _ _ => .int 1, script := fun _ _ => [], co := fun _ _ => .silent,
    cfDrop := fun i _ => decide (i = 0), root := fun i => if i = 1 then some "zed" else none }

/-- uid / euid of everybody after each segment -/
def uidsAlong (tr : List StepRec) : List (Oid × List (Oid × Option Name × Option Name)) :=
  tr.map (fun r => (r.actor, (r.snap.getD []).map (fun o => (o.oid, o.uid, o.euid))))

/-- non-vacuity (round 5), re-entrancy and master reload: creator_file makes the master drop its euid before it answers
    "Backbone" - the new object gets uid "Backbone" and NO euid (not the dropped "Root"); a master reloaded after
    get_root_uid() changed to "zed" is zed / zed while the object created before keeps its names -/
example :
    uidsAlong (events { root := "Root", bb := some "Backbone" } polDropRoot 2 [("m", .load ⟨"bb", "a"⟩), ("m", .dest "m")]) =
      [("m", [("m", some "Root", some "Root")]),
       ("m", [("m", some "Root", none)]),
       ("m", [("bba", some "Backbone", none), ("m", some "Root", none)]),
       ("m", [("bba", some "Backbone", none), ("m", some "Root", none)]),
       ("m", [("m", some "zed", some "zed"), ("bba", some "Backbone", none)])] := by decide

/-- **No effective uid out of nothing (model).**  Every euid name in every snapshot of every history is the root uid of the
    first master or a name the master granted on the way: approved in a valid_seteuid call, or given to a reloaded master
    (`euid_names_granted_from_start` holds for EVERY trace the oracle accepts, hence also for the real driver's traces that the
    check judged `ok`; here it is instantiated with the model's) -/
theorem model_euid_names_granted (cfg : Cfg) (pol : Policy) (fuel : Nat) (hist : List (Oid × Op)) :
    ∀ r ∈ events cfg pol fuel hist, ∀ S, r.snap = some S →
      euidsIn ((if cfg.noRoot then [] else [cfg.root]) ++ (events cfg pol fuel hist).flatMap grantedBy) S :=
  euid_names_granted_from_start cfg _ (model_satisfies_spec cfg pol fuel hist)

/-- **Every uid is a name the master decided on (model).**  Every uid name in every snapshot of every history is the first
    master's uid, "NONAME", a creator_file answer given in the history, or a name the master granted as an euid -/
theorem model_uid_names_decided (cfg : Cfg) (pol : Policy) (fuel : Nat) (hist : List (Oid × Op)) :
    ∀ r ∈ events cfg pol fuel hist, ∀ S, r.snap = some S →
      uidsIn ((initObjs cfg).filterMap (·.uid) ++ (initObjs cfg).filterMap (·.euid) ++
        "NONAME" :: (events cfg pol fuel hist).flatMap (fun r => namedBy r ++ grantedBy r)) S := by
  have h := model_satisfies_spec cfg pol fuel hist
  unfold judgeEv at h
  apply uid_names_decided _ (initObjs cfg) 0 _ _ h
  · intro e he s hes
    rw [List.mem_filterMap]
    exact ⟨e, he, hes⟩
  · intro e he s hes
    rw [List.mem_filterMap]
    exact ⟨e, he, hes⟩

end NV.C20
