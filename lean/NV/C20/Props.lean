/-
C20 — property theorems.  All statements quantify over EVERY mudlib configuration `cfg` (root uid, backbone uid or
none), EVERY master policy `pol` (arbitrary functions of the step number and the apply's arguments: approve, refuse,
odd values, runtime errors, switching at any time) and EVERY history `hist` of (actor, operation) pairs
(load / clone / seteuid(string|int) / export_uid / destruct / reload_object by the master or any other object,
existing or not).  `events cfg pol hist` is the model's event trace; the clauses are those of the oracle
`judgeEv` (NV/C20/Spec.lean), which is also run on every trace of the real driver.
-/
import NV.C20.LemmasOps

namespace NV.C20

theorem doOp_ok {w : World} (hw : Inv w) {a : Oid} {A : Obj} (hA : getO w.objs a = some A)
    (cfg : Cfg) (pol : Policy) (i : Nat) (op : Op) :
    StepOK cfg.bb w.objs (doOp cfg pol i w A op).1 (recOfR a op (doOp cfg pol i w A op)) := by
  cases op with
  | seteuidStr s => exact seteuidStr_ok hw hA pol i s
  | seteuidInt n => exact seteuidInt_ok hw hA n
  | exportUid t => exact export_ok hw hA t
  | load p => exact load_ok hw hA cfg pol i p
  | clone o p => exact clone_ok hw hA cfg pol i o p
  | dest t => exact dest_ok hw hA t
  | reload t => exact reload_ok hw hA t

/-- every step of the model keeps the invariant, does not crash and satisfies every oracle clause -/
theorem step_ok {w : World} (hw : Inv w) (cfg : Cfg) (pol : Policy) (i : Nat) (a : Oid) (op : Op) :
    StepOK cfg.bb w.objs (step cfg pol i w a op).1 (step cfg pol i w a op).2 := by
  unfold step
  cases hA : getO w.objs a with
  | none => exact actor_missing_ok hw a op hA
  | some A => exact doOp_ok hw hA cfg pol i op

/-- a trace in which every step is fine relative to the snapshot before it -/
def TraceOK (bb : Option Name) : List Obj → List StepRec → Prop
  | _, [] => True
  | P, r :: rs => (∃ w1, StepOK bb P w1 r) ∧ TraceOK bb (r.snap.getD P) rs

theorem runFrom_ok (cfg : Cfg) (pol : Policy) :
    ∀ (hist : List (Oid × Op)) (i : Nat) (w : World), Inv w → TraceOK cfg.bb w.objs (runFrom cfg pol i w hist) := by
  intro hist
  induction hist with
  | nil => intro i w _; simp [runFrom, TraceOK]
  | cons x rest ih =>
    intro i w hw
    obtain ⟨a, op⟩ := x
    have h := step_ok hw cfg pol i a op
    simp only [runFrom, h.nocrash, Bool.false_eq_true, if_false, TraceOK]
    refine ⟨⟨_, h⟩, ?_⟩
    rw [h.snap]
    exact ih (i + 1) _ h.inv

theorem events_ok (cfg : Cfg) (pol : Policy) (hist : List (Oid × Op)) :
    TraceOK cfg.bb (World.init cfg).objs (events cfg pol hist) :=
  runFrom_ok cfg pol hist 0 (World.init cfg) (Inv_init cfg)

theorem judgeStep_nil {bb : Option Name} {P : List Obj} {w1 : World} {r : StepRec} (h : StepOK bb P w1 r) :
    judgeStep bb P r = [] := by
  simp [judgeStep, clauses, h.nocrash, h.known, h.euid, h.uid, h.creation, h.noeuid, h.exportc, h.asked]

theorem judgeFrom_nil {bb : Option Name} :
    ∀ (trace : List StepRec) (P : List Obj) (i : Nat), TraceOK bb P trace → judgeFrom bb P i trace = [] := by
  intro trace
  induction trace with
  | nil => intro P i _; simp [judgeFrom]
  | cons r rs ih =>
    intro P i h
    obtain ⟨⟨w1, h1⟩, h2⟩ := h
    simp [judgeFrom, judgeStep_nil h1, ih _ _ h2]

/-- **Top theorem.**  The specification oracle accepts the event trace of every history under every master policy:
    no clause of property C20 (euid, uid, creation, no-euid-no-creation, export preconditions, master asked, every
    object known and with a uid, no crash) is ever violated by the model. -/
theorem model_satisfies_spec (cfg : Cfg) (pol : Policy) (hist : List (Oid × Op)) :
    judgeEv cfg.root cfg.bb (events cfg pol hist) = [] :=
  judgeFrom_nil _ _ 0 (events_ok cfg pol hist)

/-- non-vacuity: a history on which objects are created, seteuid is approved and refused, export succeeds -/
example :
    let pol : Policy := { cf := fun _ n => if n = "/c20/bb/a" then .str "Backbone" else .str "u1",
                          vs := fun _ _ u => if u = "zed" then .int 0 else .int 1 }
    let tr := events { root := "Root", bb := some "Backbone" } pol
      [("m", .load ⟨"u1", "a"⟩), ("u1a", .seteuidStr "zed"), ("u1a", .seteuidStr "u1"), ("u1a", .load ⟨"bb", "a"⟩),
       ("m", .load ⟨"u1", "b"⟩), ("u1a", .exportUid "u1b"), ("u1b", .clone "c1" ⟨"u1", "a"⟩)]
    tr.length = 7 ∧ (tr.map (·.res)) =
      [some (.oid "u1a"), some (.int 0), some (.int 1), some (.oid "bba"), some (.oid "u1b"), some (.int 1),
       some (.err .noEuidClone)] := by decide

/-- clause `c` holds at every step of a trace, each step judged against the snapshot before it -/
def holdsAlong (c : List Obj → StepRec → Bool) : List Obj → List StepRec → Prop
  | _, [] => True
  | P, r :: rs => c P r = true ∧ holdsAlong c (r.snap.getD P) rs

theorem holdsAlong_of_traceOK {bb : Option Name} (c : List Obj → StepRec → Bool)
    (hc : ∀ P w1 r, StepOK bb P w1 r → c P r = true) :
    ∀ (trace : List StepRec) (P : List Obj), TraceOK bb P trace → holdsAlong c P trace := by
  intro trace
  induction trace with
  | nil => intro P _; trivial
  | cons r rs ih =>
    intro P h
    obtain ⟨⟨w1, h1⟩, h2⟩ := h
    exact ⟨hc P w1 r h1, ih _ h2⟩

/-- the snapshot the first step is judged against: only the master, uid = euid = get_root_uid() (set_master) -/
abbrev snap0 (cfg : Cfg) : List Obj := (World.init cfg).objs

/-- An object's euid differs from the snapshot before the step only if the object was (re)created in this step
    (creation clause) or the step is ITS OWN seteuid: `seteuid(0)` giving 0, or `seteuid(s)` for which the master's
    valid_seteuid was asked about exactly this object and `s`, approved, giving `s`. -/
theorem euid_changes_only_by_own_approved_seteuid (cfg : Cfg) (pol : Policy) (hist : List (Oid × Op)) :
    holdsAlong euidClause (snap0 cfg) (events cfg pol hist) :=
  holdsAlong_of_traceOK _ (fun _ _ _ h => h.euid) _ _ (events_ok cfg pol hist)

/-- readable form of the euid clause for one step -/
theorem euidClause_explained {P S : List Obj} {r : StepRec} (h : euidClause P r = true) (hs : r.snap = some S)
    {e p : Obj} (he : e ∈ S) (hp : getO P e.oid = some p) (hm : isMade r e.oid = false) (hne : e.euid ≠ p.euid) :
    r.actor = e.oid ∧
      ((r.op = .seteuidInt 0 ∧ e.euid = none) ∨
       (∃ s a, r.op = .seteuidStr s ∧ r.vs = some (e.oid, s, a) ∧ a.approved = true ∧ e.euid = some s)) := by
  unfold euidClause at h
  simp only [hs, List.all_eq_true] at h
  have := h e he
  simp only [hp, hm, Bool.false_or, Bool.or_eq_true, decide_eq_true_eq, hne, false_or] at this
  unfold euidChangeOk at this
  simp only [Bool.and_eq_true, decide_eq_true_eq] at this
  refine ⟨this.1, ?_⟩
  have h2 := this.2
  cases hop : r.op with
  | seteuidInt n =>
    simp only [hop, Bool.and_eq_true, decide_eq_true_eq] at h2
    exact Or.inl ⟨by rw [h2.1], h2.2⟩
  | seteuidStr s =>
    simp only [hop] at h2
    cases hv : r.vs with
    | none => simp [hv] at h2
    | some v =>
      obtain ⟨o, u, a⟩ := v
      simp only [hv, Bool.and_eq_true, decide_eq_true_eq] at h2
      obtain ⟨⟨⟨h3, h4⟩, h5⟩, h6⟩ := h2
      exact Or.inr ⟨s, a, rfl, by rw [h3, h4], h5, h6⟩
  | exportUid _ => simp [hop] at h2
  | load _ => simp [hop] at h2
  | clone _ _ => simp [hop] at h2
  | dest _ => simp [hop] at h2
  | reload _ => simp [hop] at h2

/-- An object's uid differs from the snapshot before the step only if it was (re)created in this step or the step is
    an export_uid onto it that returned 1, by an actor whose euid was not 0, while the object's own euid was 0; the
    new uid is that actor's euid. -/
theorem uid_changes_only_at_creation_or_export (cfg : Cfg) (pol : Policy) (hist : List (Oid × Op)) :
    holdsAlong uidClause (snap0 cfg) (events cfg pol hist) :=
  holdsAlong_of_traceOK _ (fun _ _ _ h => h.uid) _ _ (events_ok cfg pol hist)

/-- readable form of the uid clause for one step -/
theorem uidClause_explained {P S : List Obj} {r : StepRec} (h : uidClause P r = true) (hs : r.snap = some S)
    {e p : Obj} (he : e ∈ S) (hp : getO P e.oid = some p) (hm : isMade r e.oid = false) (hne : e.uid ≠ p.uid) :
    ∃ A, getO P r.actor = some A ∧ r.op = .exportUid e.oid ∧ r.res = some (.int 1) ∧ A.euid ≠ none ∧
      p.euid = none ∧ e.uid = A.euid := by
  unfold uidClause at h
  simp only [hs, List.all_eq_true] at h
  have := h e he
  simp only [hp, hm, Bool.false_or, Bool.or_eq_true, decide_eq_true_eq, hne, false_or] at this
  unfold uidChangeOk at this
  cases hop : r.op with
  | exportUid t =>
    cases hA : getO P r.actor with
    | none => simp [hop, hA] at this
    | some A =>
      simp only [hop, hA, Bool.and_eq_true, decide_eq_true_eq] at this
      obtain ⟨⟨⟨⟨h1, h2⟩, h3⟩, h4⟩, h5⟩ := this
      refine ⟨A, rfl, by rw [h1], h2, ?_, h4, h5⟩
      intro hn; simp [hn] at h3
  | seteuidInt _ => simp [hop] at this
  | seteuidStr _ => simp [hop] at this
  | load _ => simp [hop] at this
  | clone _ _ => simp [hop] at this
  | dest _ => simp [hop] at this
  | reload _ => simp [hop] at this

/-- Every object announced by a create() was made by a load/clone of an actor that is the master or has an euid,
    after creator_file answered without error, with uid = the answer ("NONAME" for a non-string) and euid 0 - or,
    answer = backbone uid and creator with an euid, uid = euid = the creator's euid.  Without a creator_file call
    only reload_object (uid kept, euid 0) and the late initialisation of an object whose creation the master's
    error aborted (uid "NONAME", euid 0) announce an object. -/
theorem creation_only_as_master_decides (cfg : Cfg) (pol : Policy) (hist : List (Oid × Op)) :
    holdsAlong (creationClause cfg.bb) (snap0 cfg) (events cfg pol hist) :=
  holdsAlong_of_traceOK _ (fun _ _ _ h => h.creation) _ _ (events_ok cfg pol hist)

/-- An actor other than the master whose euid is 0 causes no creator_file call (no object is created on its
    behalf) and its clone_object never returns an object. -/
theorem no_euid_no_creation (cfg : Cfg) (pol : Policy) (hist : List (Oid × Op)) :
    holdsAlong noEuidClause (snap0 cfg) (events cfg pol hist) :=
  holdsAlong_of_traceOK _ (fun _ _ _ h => h.noeuid) _ _ (events_ok cfg pol hist)

/-- export_uid returns 1 only from a caller with euid ≠ 0 onto a target with euid 0; a caller with euid 0 gets the
    error "Illegal to export uid 0". -/
theorem export_preconditions (cfg : Cfg) (pol : Policy) (hist : List (Oid × Op)) :
    holdsAlong exportClause (snap0 cfg) (events cfg pol hist) :=
  holdsAlong_of_traceOK _ (fun _ _ _ h => h.exportc) _ _ (events_ok cfg pol hist)

/-- every seteuid(string) of an existing object asks the master, about exactly that object and string -/
theorem seteuid_always_asks_master (cfg : Cfg) (pol : Policy) (hist : List (Oid × Op)) :
    holdsAlong askedClause (snap0 cfg) (events cfg pol hist) :=
  holdsAlong_of_traceOK _ (fun _ _ _ h => h.asked) _ _ (events_ok cfg pol hist)

theorem traceOK_mem {bb : Option Name} :
    ∀ (trace : List StepRec) (P : List Obj), TraceOK bb P trace → ∀ r ∈ trace, ∃ P' w1, StepOK bb P' w1 r := by
  intro trace
  induction trace with
  | nil => intro P _ r hr; simp at hr
  | cons x rs ih =>
    intro P h r hr
    obtain ⟨⟨w1, h1⟩, h2⟩ := h
    rcases List.mem_cons.mp hr with hr | hr
    · subst hr; exact ⟨P, w1, h1⟩
    · exact ih _ h2 r hr

/-- The model never reaches the crash outcome (NULL uid dereferenced by getuid) - with the two `fix:` commits;
    before them both witnesses of notes/C20.md crashed the real driver. -/
theorem no_crash (cfg : Cfg) (pol : Policy) (hist : List (Oid × Op)) :
    ∀ r ∈ events cfg pol hist, r.crash = false := by
  intro r hr
  obtain ⟨_, _, h⟩ := traceOK_mem _ _ (events_ok cfg pol hist) r hr
  exact h.nocrash

/-- "An object must have a uid": every object in every snapshot has a non-NULL uid -/
theorem every_object_has_uid (cfg : Cfg) (pol : Policy) (hist : List (Oid × Op)) :
    ∀ r ∈ events cfg pol hist, ∀ S, r.snap = some S → ∀ e ∈ S, e.uid ≠ none := by
  intro r hr S hs e he
  obtain ⟨_, w1, h⟩ := traceOK_mem _ _ (events_ok cfg pol hist) r hr
  have : S = w1.objs := by
    have := h.snap
    rw [hs] at this
    exact Option.some.inj this
  rw [this] at he
  exact h.inv.uid e he

/-- non-vacuity of `no_crash` / `every_object_has_uid`: the history that crashed the unrepaired driver (master
    drops its euid, then loads an object whose creator_file answer is the backbone uid) now yields uid "Backbone" -/
example :
    let pol : Policy := { cf := fun _ _ => .str "Backbone", vs := fun _ _ _ => .int 1 }
    (events { root := "Root", bb := some "Backbone" } pol [("m", .seteuidInt 0), ("m", .load ⟨"bb", "a"⟩)]).map (·.snap) =
      [some [{ oid := "m", name := "/c20/master", uid := some "Root", euid := none }],
       some [{ oid := "bba", name := "/c20/bb/a", uid := some "Backbone", euid := none },
             { oid := "m", name := "/c20/master", uid := some "Root", euid := none }]] := by decide

end NV.C20
