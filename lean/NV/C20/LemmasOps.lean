/-
C20 — every operation of the model establishes `StepOK` (invariant kept, no crash, all oracle clauses hold).
-/
import NV.C20.Lemmas

namespace NV.C20

/-- the record `step` produces (after `fin`) -/
def recOf (w1 : World) (a : Oid) (op : Op) (vs : Option (Oid × Name × Ans)) (cs : List Creation) (res : Res) : StepRec :=
  { actor := a, op := op, vs := vs, creations := cs, res := some res, snap := some w1.objs,
    crash := crashes cs w1.objs }

def recOfR (a : Oid) (op : Op) (x : World × List Creation × Option (Oid × Name × Ans) × Res) : StepRec :=
  recOf x.1 a op x.2.2.1 x.2.1 x.2.2.2

theorem noEuid_of_all {P : List Obj} {r : StepRec} (h : r.creations.all (fun c => c.ans.isNone) = true)
    (hco : r.co = none) : noEuidClause P r = true := by
  unfold noEuidClause
  cases getO P r.actor with
  | none => rfl
  | some A => simp only; split <;> simp_all

theorem stepOK_of {bb : Option Name} {P : List Obj} {w1 : World} {a : Oid} {op : Op}
    {vs : Option (Oid × Name × Ans)} {cs : List Creation} {res : Res} (hinv : Inv w1)
    (H : ∀ e ∈ w1.objs, getO P e.oid = some e ∨ isMade (recOf w1 a op vs cs res) e.oid = true ∨
      ∃ p, getO P e.oid = some p ∧ (e.euid = p.euid ∨ euidChangeOk (recOf w1 a op vs cs res) e = true) ∧
        (e.uid = p.uid ∨ uidChangeOk P (recOf w1 a op vs cs res) p e = true))
    (M : ∀ c ∈ cs, ∀ m, c.made = some m → getO w1.objs m.oid = some m)
    (hcre : creationClause bb P (recOf w1 a op vs cs res) = true)
    (hno : noEuidClause P (recOf w1 a op vs cs res) = true)
    (hex : exportClause P (recOf w1 a op vs cs res) = true)
    (hask : askedClause P (recOf w1 a op vs cs res) = true) :
    StepOK bb P w1 (recOf w1 a op vs cs res) := by
  have hc : (recOf w1 a op vs cs res).crash = false := crashes_false hinv.uid M
  have := snapshot_clauses (P := P) (S := w1.objs) (r := recOf w1 a op vs cs res) rfl hc hinv.uid hinv.wf H M
  exact ⟨hinv, rfl, hc, this.1, this.2.1, this.2.2, hcre, hno, hex, hask, rfl, rfl, rfl⟩

/-- a step that changes no registered object and creates nothing -/
theorem stepOK_same {bb : Option Name} {w : World} (hw : Inv w) (w1 : World) (hobjs : w1.objs = w.objs)
    (a : Oid) (op : Op) (vs : Option (Oid × Name × Ans)) (res : Res)
    (hno : noEuidClause w.objs (recOf w1 a op vs [] res) = true)
    (hex : exportClause w.objs (recOf w1 a op vs [] res) = true)
    (hask : askedClause w.objs (recOf w1 a op vs [] res) = true) :
    StepOK bb w.objs w1 (recOf w1 a op vs [] res) := by
  apply stepOK_of (Inv_same hw w1 hobjs)
  · intro e he
    rw [hobjs] at he
    exact Or.inl (hw.wf e he)
  · intro c hc; simp at hc
  · simp [creationClause, recOf]
  · exact hno
  · exact hex
  · exact hask

theorem actor_missing_ok {bb : Option Name} {w : World} (hw : Inv w) (a : Oid) (op : Op)
    (hA : getO w.objs a = none) : StepOK bb w.objs w (recOf w a op none [] .nobj) := by
  apply stepOK_same hw w rfl
  · exact noEuid_of_all (by simp [recOf]) rfl
  · unfold exportClause; simp only [recOf]; cases op <;> simp [hA]
  · unfold askedClause; simp only [recOf]; cases op <;> simp [hA]

theorem seteuidInt_ok {bb : Option Name} {w : World} (hw : Inv w) {a : Oid} {A : Obj} (hA : getO w.objs a = some A)
    (n : Int) : StepOK bb w.objs (doSeteuidInt w A n).1 (recOfR a (.seteuidInt n) (doSeteuidInt w A n)) := by
  have hAo := (getO_some hA).2
  have hAm := (getO_some hA).1
  unfold doSeteuidInt recOfR
  by_cases hn : n = 0
  · simp only [hn, if_true]
    apply stepOK_of
    · exact Inv_setO hw { A with euid := none } (hw.uid A hAm) _ rfl
    · intro e he
      rcases frame_setO hw.wf he with h | h
      · refine Or.inr (Or.inr ⟨A, ?_, Or.inr ?_, Or.inl ?_⟩)
        · rw [h]; simpa [hAo] using hA
        · simp [euidChangeOk, recOf, h, hAo]
        · simp [h]
      · exact Or.inl h
    · intro c hc; simp at hc
    · simp [creationClause, recOf]
    · exact noEuid_of_all (by simp [recOf]) rfl
    · simp [exportClause, recOf]
    · simp [askedClause, recOf]
  · simp only [hn, if_false]
    apply stepOK_same hw w rfl
    · exact noEuid_of_all (by simp [recOf]) rfl
    · simp [exportClause, recOf]
    · simp [askedClause, recOf]

theorem seteuidStr_ok {bb : Option Name} {w : World} (hw : Inv w) {a : Oid} {A : Obj} (hA : getO w.objs a = some A)
    (pol : Policy) (i : Nat) (s : Name) :
    StepOK bb w.objs (doSeteuidStr pol i w A s).1 (recOfR a (.seteuidStr s) (doSeteuidStr pol i w A s)) := by
  have hAo := (getO_some hA).2
  have hAm := (getO_some hA).1
  subst hAo
  unfold doSeteuidStr recOfR
  by_cases he : pol.vs i A.oid s = .err
  · simp only [he, if_true]
    apply stepOK_same hw w rfl
    · exact noEuid_of_all (by simp [recOf]) rfl
    · simp [exportClause, recOf]
    · simp [askedClause, recOf, hA]
  · simp only [he, if_false]
    by_cases hap : (pol.vs i A.oid s).approved = true
    · simp only [hap, if_true]
      apply stepOK_of
      · exact Inv_setO hw { A with euid := some s } (hw.uid A hAm) _ rfl
      · intro e hmem
        rcases frame_setO hw.wf hmem with h | h
        · refine Or.inr (Or.inr ⟨A, ?_, Or.inr ?_, Or.inl ?_⟩)
          · rw [h]; simpa using hA
          · simp [euidChangeOk, recOf, h, hap]
          · simp [h]
        · exact Or.inl h
      · intro c hc; simp at hc
      · simp [creationClause, recOf]
      · exact noEuid_of_all (by simp [recOf]) rfl
      · simp [exportClause, recOf]
      · simp [askedClause, recOf, hA]
    · simp only [hap]
      apply stepOK_same hw w rfl
      · exact noEuid_of_all (by simp [recOf]) rfl
      · simp [exportClause, recOf]
      · simp [askedClause, recOf, hA]

theorem export_ok {bb : Option Name} {w : World} (hw : Inv w) {a : Oid} {A : Obj} (hA : getO w.objs a = some A)
    (t : Oid) : StepOK bb w.objs (doExport w A t).1 (recOfR a (.exportUid t) (doExport w A t)) := by
  have hAo := (getO_some hA).2
  unfold doExport recOfR
  cases hT : getO w.objs t with
  | none =>
    apply stepOK_same hw w rfl
    · exact noEuid_of_all (by simp [recOf]) rfl
    · simp [exportClause, recOf, hA, hT]
    · simp [askedClause, recOf]
  | some T =>
    have hTo := (getO_some hT).2
    have hTm := (getO_some hT).1
    by_cases h1 : A.euid = none
    · simp only [h1, if_true]
      apply stepOK_same hw w rfl
      · exact noEuid_of_all (by simp [recOf]) rfl
      · simp [exportClause, recOf, hA, hT, h1]
      · simp [askedClause, recOf]
    · simp only [h1, if_false]
      by_cases h2 : T.euid ≠ none
      · rw [if_pos h2]
        apply stepOK_same hw w rfl
        · exact noEuid_of_all (by simp [recOf]) rfl
        · simp [exportClause, recOf, hA, hT, h1]
        · simp [askedClause, recOf]
      · have h2' : T.euid = none := by simpa using h2
        rw [if_neg h2]
        have hsome : A.euid.isSome = true := by
          cases h : A.euid with
          | none => exact absurd h h1
          | some _ => rfl
        apply stepOK_of
        · exact Inv_setO hw { T with uid := A.euid } h1 _ rfl
        · intro e hmem
          rcases frame_setO hw.wf hmem with h | h
          · refine Or.inr (Or.inr ⟨T, ?_, Or.inl ?_, Or.inr ?_⟩)
            · rw [h]; simpa [hTo] using hT
            · simp [h]
            · simp [uidChangeOk, recOf, h, hA, hTo, hsome, h2']
          · exact Or.inl h
        · intro c hc; simp at hc
        · simp [creationClause, recOf]
        · exact noEuid_of_all (by simp [recOf]) rfl
        · simp [exportClause, recOf, hA, hT, hsome, h2', h1]
        · simp [askedClause, recOf]

theorem guard_or {A : Obj} (h : ¬ (A.oid ≠ masterOid ∧ A.euid = none)) : A.oid = masterOid ∨ A.euid ≠ none := by
  by_cases hx : A.oid = masterOid
  · exact Or.inl hx
  · exact Or.inr (fun hy => h ⟨hx, hy⟩)

theorem dest_ok {cfg : Cfg} {w : World} (hw : Inv w) {a : Oid} {A : Obj} (hA : getO w.objs a = some A)
    (rootNow : Name) (t : Oid) :
    StepOK cfg.bb w.objs (doDest cfg rootNow w A t).1 (recOfR a (.dest t) (doDest cfg rootNow w A t)) := by
  have hAo := (getO_some hA).2
  subst hAo
  unfold doDest recOfR
  cases hT : getO w.objs t with
  | none =>
    apply stepOK_same hw w rfl
    · exact noEuid_of_all (by simp [recOf]) rfl
    · simp [exportClause, recOf]
    · simp [askedClause, recOf]
  | some T =>
    have hTo := (getO_some hT).2
    by_cases hm : t = masterOid
    · simp only [hm, if_true]
      by_cases hnr : cfg.noRoot = true
      · rw [if_pos hnr]
        apply stepOK_same hw w rfl
        · exact noEuid_of_all (by simp [recOf]) rfl
        · simp [exportClause, recOf]
        · simp [askedClause, recOf]
      rw [if_neg hnr]
      by_cases hguard : A.oid ≠ masterOid ∧ A.euid = none
      · rw [if_pos hguard]
        apply stepOK_same hw w rfl
        · exact noEuid_of_all (by simp [recOf]) rfl
        · simp [exportClause, recOf]
        · simp [askedClause, recOf]
      · rw [if_neg hguard]
        have hg' : (decide (A.oid = masterOid) || A.euid.isSome) = true := by
          rcases guard_or hguard with hg | hg
          · simp [hg]
          · cases h : A.euid with
            | none => exact absurd h hg
            | some _ => simp
        apply stepOK_of
        · exact Inv_setO hw { T with uid := some rootNow, euid := some rootNow } (by simp) _ rfl
        · intro e hmem
          rcases frame_setO hw.wf hmem with h | h
          · refine Or.inr (Or.inl ?_)
            simp [isMade, recOf, h]
          · exact Or.inl h
        · intro c hc m hmade
          simp at hc
          subst hc
          simp at hmade
          subst hmade
          simp [getO_setO]
        · simp [creationClause, recOf, madeOk, hTo, hm, hA, hg']
        · exact noEuid_of_all (by simp [recOf]) rfl
        · simp [exportClause, recOf]
        · simp [askedClause, recOf]
    · simp only [hm, if_false]
      by_cases hse : t = simulOid
      · rw [if_pos hse]
        apply stepOK_same hw w rfl
        · exact noEuid_of_all (by simp [recOf]) rfl
        · simp [exportClause, recOf]
        · simp [askedClause, recOf]
      rw [if_neg hse]
      apply stepOK_of
      · constructor
        · exact WF_delO hw.wf t
        · intro e he
          exact hw.uid e (mem_delO.mp he).1
      · intro e hmem
        exact Or.inl (frame_delO hw.wf hmem)
      · intro c hc; simp at hc
      · simp [creationClause, recOf]
      · exact noEuid_of_all (by simp [recOf]) rfl
      · simp [exportClause, recOf]
      · simp [askedClause, recOf]

theorem reload_ok {bb : Option Name} {w : World} (hw : Inv w) {a : Oid} {A : Obj} (hA : getO w.objs a = some A)
    (t : Oid) : StepOK bb w.objs (doReload w t).1 (recOfR a (.reload t) (doReload w t)) := by
  unfold doReload recOfR
  cases hT : getO w.objs t with
  | none =>
    apply stepOK_same hw w rfl
    · exact noEuid_of_all (by simp [recOf]) rfl
    · simp [exportClause, recOf]
    · simp [askedClause, recOf]
  | some T =>
    have hTo := (getO_some hT).2
    have hTm := (getO_some hT).1
    apply stepOK_of
    · exact Inv_setO hw { T with euid := none } (hw.uid T hTm) _ rfl
    · intro e hmem
      rcases frame_setO hw.wf hmem with h | h
      · refine Or.inr (Or.inl ?_)
        simp [isMade, recOf, h]
      · exact Or.inl h
    · intro c hc m hmade
      simp at hc
      subst hc
      simp at hmade
      subst hmade
      simp [getO_setO]
    · simp [creationClause, recOf, madeOk, hTo, hT]
    · exact noEuid_of_all (by simp [recOf]) rfl
    · simp [exportClause, recOf]
    · simp [askedClause, recOf]

/-! ### creation -/

theorem giveUid_spec (cfg : Cfg) (A : Obj) (a : Ans) :
    (giveUid cfg A a).1 ≠ none ∧
    (((giveUid cfg A a).1 = some (creatorName a) ∧ (giveUid cfg A a).2 = none) ∨
     (cfg.bb = some (creatorName a) ∧ A.euid.isSome = true ∧ (giveUid cfg A a).1 = A.euid ∧
       (giveUid cfg A a).2 = A.euid)) := by
  unfold giveUid
  by_cases h1 : A.uid = some (creatorName a)
  · simp [h1]
  · simp only [h1, if_false]
    by_cases h2 : autoTrustBackbone = true ∧ cfg.bb = some (creatorName a) ∧ A.euid ≠ none
    · rw [if_pos h2]
      have hs : A.euid.isSome = true := by
        cases h : A.euid with
        | none => exact absurd h h2.2.2
        | some _ => rfl
      exact ⟨h2.2.2, Or.inr ⟨h2.2.1, hs, rfl, rfl⟩⟩
    · rw [if_neg h2]
      simp

theorem madeOk_created {bb : Option Name} {P : List Obj} {r : StepRec} {A : Obj} {a : Ans} {o : Obj} {name : String}
    (hop : isCreatingOp r.op = true) (hact : getO P r.actor = some A)
    (hg : r.actor = masterOid ∨ A.euid ≠ none) (ha : a ≠ .err)
    (hrule : (o.uid = some (creatorName a) ∧ o.euid = none) ∨
      (bb = some (creatorName a) ∧ A.euid.isSome = true ∧ o.uid = A.euid ∧ o.euid = A.euid)) :
    madeOk bb P r { name := name, ans := some a, made := some o } = true := by
  have hg' : (decide (r.actor = masterOid) || A.euid.isSome) = true := by
    rcases hg with hg | hg
    · simp [hg]
    · cases h : A.euid with
      | none => exact absurd h hg
      | some _ => simp
  unfold madeOk
  simp only [hop, hact, hg', ha, ne_eq, not_false_eq_true, decide_true, Bool.true_and, Bool.and_true]
  rcases hrule with ⟨h1, h2⟩ | ⟨h1, h2, h3, h4⟩
  · simp [h1, h2]
  · simp [h1, h2, h3, h4]

theorem create_err {cfg : Cfg} {pol : Policy} {i : Nat} {w : World} {A : Obj} {oid : Oid} {name : String} {bp : Bool}
    (h : pol.cf i name = .err) :
    (create cfg pol i w A oid name bp).1.objs = w.objs ∧
    (create cfg pol i w A oid name bp).2.1 = { name := name, ans := some .err, made := none } ∧
    (create cfg pol i w A oid name bp).2.2 = false ∧
    (create cfg pol i w A oid name bp).1.cloneSeq = w.cloneSeq := by
  unfold create
  cases bp <;> simp [h]

theorem create_ok {cfg : Cfg} {pol : Policy} {i : Nat} {w : World} {A : Obj} {oid : Oid} {name : String} {bp : Bool}
    (h : pol.cf i name ≠ .err) :
    (create cfg pol i w A oid name bp).1.objs =
      setO w.objs { oid := oid, name := name, uid := (giveUid cfg A (pol.cf i name)).1,
                    euid := (giveUid cfg A (pol.cf i name)).2 } ∧
    (create cfg pol i w A oid name bp).2.1 =
      { name := name, ans := some (pol.cf i name),
        made := some { oid := oid, name := name, uid := (giveUid cfg A (pol.cf i name)).1,
                       euid := (giveUid cfg A (pol.cf i name)).2 } } ∧
    (create cfg pol i w A oid name bp).2.2 = true := by
  unfold create
  cases bp <;> simp [h]

theorem load_ok {w : World} (hw : Inv w) {a : Oid} {A : Obj} (hA : getO w.objs a = some A)
    (cfg : Cfg) (pol : Policy) (i : Nat) (p : Path) (p' : Path) :
    StepOK cfg.bb w.objs (doLoad cfg pol i w A p).1 (recOfR a (.load p') (doLoad cfg pol i w A p)) := by
  have hAo := (getO_some hA).2
  subst hAo
  unfold doLoad recOfR
  by_cases hgd : (p.name ∉ w.loaded ∨ p.name ∈ w.half) ∧ getO w.objs p.oid ≠ none
  · rw [if_pos hgd]
    apply stepOK_same hw w rfl
    · exact noEuid_of_all (by simp [recOf]) rfl
    · simp [exportClause, recOf]
    · simp [askedClause, recOf]
  rw [if_neg hgd]
  by_cases hl : p.name ∈ w.loaded
  · rw [if_pos hl]
    by_cases hh : p.name ∈ w.half
    · rw [if_pos hh]
      apply stepOK_of
      · exact Inv_setO hw { oid := p.oid, name := p.name, uid := some "NONAME", euid := none } (by simp) _ rfl
      · intro e hmem
        rcases frame_setO hw.wf hmem with h | h
        · refine Or.inr (Or.inl ?_)
          simp [isMade, recOf, h]
        · exact Or.inl h
      · intro c hc m hmade
        simp at hc
        subst hc
        simp at hmade
        subst hmade
        simp [getO_setO]
      · simp [creationClause, recOf, madeOk]
      · exact noEuid_of_all (by simp [recOf]) rfl
      · simp [exportClause, recOf]
      · simp [askedClause, recOf]
    · rw [if_neg hh]
      apply stepOK_same hw w rfl
      · exact noEuid_of_all (by simp [recOf]) rfl
      · simp [exportClause, recOf]
      · simp [askedClause, recOf]
  · rw [if_neg hl]
    by_cases hguard : A.oid ≠ masterOid ∧ A.euid = none
    · rw [if_pos hguard]
      apply stepOK_same hw w rfl
      · exact noEuid_of_all (by simp [recOf]) rfl
      · simp [exportClause, recOf]
      · simp [askedClause, recOf]
    · rw [if_neg hguard]
      by_cases hex : p.exists = false
      · rw [if_pos hex]
        apply stepOK_same hw w rfl
        · exact noEuid_of_all (by simp [recOf]) rfl
        · simp [exportClause, recOf]
        · simp [askedClause, recOf]
      · rw [if_neg hex]
        by_cases hcf : pol.cf i p.name = .err
        · obtain ⟨e1, e2, e3, _⟩ := create_err (cfg := cfg) (w := w) (A := A) (oid := p.oid) (bp := true) hcf
          simp only [e2, e3]
          apply stepOK_of
          · exact Inv_same hw _ e1
          · intro e hmem
            rw [e1] at hmem
            exact Or.inl (hw.wf e hmem)
          · intro c hc m hmade
            simp at hc
            subst hc
            simp at hmade
          · simp [creationClause, recOf, madeOk]
          · simp [noEuidClause, recOf, hA, hguard]
          · simp [exportClause, recOf]
          · simp [askedClause, recOf]
        · obtain ⟨e1, e2, e3⟩ := create_ok (cfg := cfg) (w := w) (A := A) (oid := p.oid) (bp := true) hcf
          have hg := giveUid_spec cfg A (pol.cf i p.name)
          simp only [e2, e3]
          apply stepOK_of
          · exact Inv_setO hw _ hg.1 _ e1
          · intro e hmem
            rw [e1] at hmem
            rcases frame_setO hw.wf hmem with h | h
            · refine Or.inr (Or.inl ?_)
              simp [isMade, recOf, h]
            · exact Or.inl h
          · intro c hc m hmade
            simp at hc
            subst hc
            simp at hmade
            subst hmade
            simp [e1, getO_setO]
          · simp only [creationClause, recOf, List.all_cons, List.all_nil, Bool.and_true]
            exact madeOk_created (by simp [isCreatingOp]) hA (guard_or hguard) hcf hg.2
          · simp [noEuidClause, recOf, hA, hguard]
          · simp [exportClause, recOf]
          · simp [askedClause, recOf]

theorem exists_reserved {p : Path} (h : p.exists = true) : p.oid ∈ reservedOids := by
  obtain ⟨d, f⟩ := p
  simp only [Path.exists, dirs, files, Bool.or_eq_true, Bool.and_eq_true, List.contains_iff_mem, List.mem_cons,
    List.not_mem_nil, or_false, decide_eq_true_eq] at h
  rcases h with ⟨hd, hf⟩ | h
  · rcases hd with rfl | rfl | rfl | rfl | rfl <;> rcases hf with rfl | rfl | rfl <;> decide
  · rw [h]; decide

/-- generic assembly for load/clone steps past the euid test -/
theorem stepOK_created {cfg : Cfg} {w : World} {A : Obj} (_hw : Inv w) (hA : getO w.objs A.oid = some A)
    (hguard : ¬ (A.oid ≠ masterOid ∧ A.euid = none)) (op : Op) (hop : isCreatingOp op = true)
    (w1 : World) (cs : List Creation) (res : Res) (hinv : Inv w1)
    (H : ∀ e ∈ w1.objs, getO w.objs e.oid = some e ∨ ∃ c ∈ cs, c.made = some e)
    (M : ∀ c ∈ cs, ∀ m, c.made = some m → getO w1.objs m.oid = some m)
    (C : ∀ c ∈ cs, madeOk cfg.bb w.objs (recOf w1 A.oid op none cs res) c = true) :
    StepOK cfg.bb w.objs w1 (recOf w1 A.oid op none cs res) := by
  apply stepOK_of hinv
  · intro e he
    rcases H e he with h | ⟨c, hc, hm⟩
    · exact Or.inl h
    · refine Or.inr (Or.inl ?_)
      simp only [isMade, recOf, List.any_eq_true]
      exact ⟨c, hc, by simp [hm]⟩
  · exact M
  · simp only [creationClause, List.all_eq_true]
    exact C
  · simp [noEuidClause, recOf, hA, hguard]
  · cases op <;> simp [exportClause, recOf] <;> simp [isCreatingOp] at hop
  · cases op <;> simp [askedClause, recOf] <;> simp [isCreatingOp] at hop

end NV.C20
