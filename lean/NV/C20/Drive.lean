/-
C20 driver: parses the case lines the harness executes (harness/c20/c20.c, harness/mudlib/c20) and runs the model
(`model` mode) or the specification oracle on an implementation trace (`judge` mode).

Case lines:
  pol cf <dir> [drop+]<spec>       creator_file answer for /c20/<dir>/...; `drop+`: the master first calls back into the
                                   creating object - when that is the master itself - and makes it seteuid(0)
  pol vs <oid|*> <uid|*|-> <spec>  valid_seteuid answer (`-` = empty uid)
  pol vb <doer|*> <new owner|*> <spec>   valid_bind answer
  pol vo <dir> <spec>|-            valid_object answer for blueprints under /c20/<dir>/ (`-`: no opinion, nothing logged)
  pol root <name> / pol bb <name>  get_root_uid() / get_bb_uid() answer this from now on (matters at a master reload)
  pol co <dir> none|i:<n>|err|t:<template path>|-   compile_object answer for /c20/<dir>/... (`-` = no policy)
  script <name> <op>;<op>..|-      ops run by create() of the object with that file name (<path> / <path>#)
  do <oid> <op>                    op: seteuid,s:<name> | seteuid,i:<n> | export,<oid> | load,<path> |
                                       clone,<newoid>,<path> | dest,<oid> | reload,<oid> | via,<owner>,<op> |
                                       bind,<new owner>,<load..|clone..>
  spec: s:<text> | i:<n> | arr | err | none
Trace lines:  do / vs / vb / vo / co / cf / new / r / q / crash
-/
import NV.Common.Proto
import NV.C20.Model
import NV.C20.Spec

namespace NV.C20

open NV.Proto

def driveCfg : Cfg := { root := "Root", bb := some "Backbone" }
/-- nesting bound of the executable model; the generators stay far below it -/
def driveFuel : Nat := 24

/-! rendering -/

def Ans.render : Ans → String
  | .str s => "s:" ++ s
  | .int n => "i:" ++ toString n
  | .arr => "arr"
  | .err => "err"
  | .none => "none"

def Op.render : Op → String
  | .via t op => "via," ++ t ++ "," ++ op.render
  | .bind t op => "bind," ++ t ++ "," ++ op.render
  | .seteuidStr s => "seteuid,s:" ++ s
  | .seteuidInt n => "seteuid,i:" ++ toString n
  | .exportUid t => "export," ++ t
  | .load p => "load," ++ p.name
  | .clone o p => "clone," ++ o ++ "," ++ p.name
  | .dest t => "dest," ++ t
  | .reload t => "reload," ++ t

def Err.render : Err → String
  | .noEuidLoad => "*Can't_load_objects_when_no_effective_user."
  | .noEuidClone => "*Attempt_to_create_object_without_effective_UID."
  | .exportZero => "Illegal_to_export_uid_0"
  | .badArg => "*Bad_argument"
  | .policy => "*policy_error"
  | .simulDest => "*Cannot_destruct_simul_efun_object_while_master_object_exists."
  | .bindDenied => "Permission_of_binding_denied_by_master_object."
  | .voDenied => "*valid_object_denied"

def Res.render : Res → String
  | .int n => toString n
  | .oid o => o
  | .nobj => "nobj"
  | .err e => "err " ++ e.render

def us : Option Name → String
  | some n => "s:" ++ n
  | none => "0"

def CoAns.render : CoAns → String
  | .silent => "silent"
  | .none => "none"
  | .nonobj n => "i:" ++ toString n
  | .err => "err"
  | .tmpl p => "t:" ++ p.name

def snapLine (S : List Obj) (vo : List Oid) : Option String :=
  if S.any (fun o => o.uid.isNone) then none
  else
    let m := match getO S masterOid with
      | some o => [o]
      | none => []
    let rest := (S.filter (fun o => o.oid ≠ masterOid)).mergeSort (fun a b => !(b.oid < a.oid))
    some ("q" ++ String.join ((m ++ rest).map (fun o => " " ++ o.oid ++ "=" ++ us o.uid ++ "/" ++ us o.euid ++
      (if vo.contains o.oid then "*" else ""))))

def renderCreations : List Creation → List String × Bool
  | [] => ([], false)
  | c :: cs =>
    let cfl := match c.ans with
      | some a => ["cf " ++ c.name ++ " " ++ a.render]
      | none => []
    match c.made with
    | none => let (l, cr) := renderCreations cs; (cfl ++ l, cr)
    | some m =>
      if m.uid.isNone then (cfl ++ ["crash"], true)
      else
        let (l, cr) := renderCreations cs
        (cfl ++ ["new " ++ m.oid ++ " " ++ c.name ++ " " ++ us m.uid ++ " " ++ us m.euid] ++ l, cr)

def StepRec.render (r : StepRec) : List String :=
  let head := if r.first then ["do " ++ r.actor ++ " " ++ r.op.render] else []
  let vsl := match r.vs with
    | some (o, u, a) => ["vs " ++ o ++ " s:" ++ u ++ " " ++ a.render]
    | none => []
  let col := match r.co with
    | some (n, a) => ["co " ++ n ++ " " ++ a.render]
    | none => []
  let vol := match r.vo with
    | some (n, a) => ["vo " ++ n ++ " " ++ a.render]
    | none => []
  let vbl := match r.vb with
    | some (d, n, a) => ["vb " ++ d ++ " " ++ n ++ " " ++ a.render]
    | none => []
  let (cl, crashed) := renderCreations r.creations
  let vsl := vsl ++ vbl ++ vol ++ col
  if crashed then head ++ vsl ++ cl
  else
    let rl := match r.res with
      | some x => ["r " ++ x.render]
      | none => []
    let ql := match r.snap with
      | some S => (match snapLine S r.vsnap with
        | some l => [l]
        | none => ["crash"])
      | none => []
    head ++ vsl ++ cl ++ rl ++ ql

/-! parsing of case lines -/

def parseAns (s : String) : Option Ans :=
  if s.startsWith "s:" then some (.str (s.drop 2).toString)
  else if s.startsWith "i:" then (s.drop 2).toString.toInt?.map .int
  else if s == "arr" then some .arr
  else if s == "err" then some .err
  else if s == "none" then some .none
  else none

def parsePath (s : String) : Option Path :=
  match s.splitOn "/" with
  | ["", "c20", d, f] => if (d ++ f).contains '#' then none else some { dir := d, file := f }
  | _ => none

def parseCo (s : String) : Option CoAns :=
  if s == "none" then some .none
  else if s == "err" then some .err
  else if s.startsWith "i:" then (s.drop 2).toString.toInt?.map .nonobj
  else if s.startsWith "t:" then (parsePath (s.drop 2).toString).map .tmpl
  else none

partial def parseOp (s : String) : Option Op :=
  match s.splitOn "," with
  | "via" :: t :: rest => (parseOp (",".intercalate rest)).map (.via t)
  | "bind" :: t :: rest => (parseOp (",".intercalate rest)).map (.bind t)
  | ["seteuid", a] =>
    if a.startsWith "s:" then some (.seteuidStr (a.drop 2).toString)
    else if a.startsWith "i:" then (a.drop 2).toString.toInt?.map .seteuidInt
    else none
  | ["export", t] => some (.exportUid t)
  | ["load", p] => (parsePath p).map .load
  | ["clone", o, p] => (parsePath p).map (.clone o)
  | ["dest", t] => some (.dest t)
  | ["reload", t] => some (.reload t)
  | _ => none

structure Tables where
  cf : List (String × Ans) :=
    [("u1", .str "u1"), ("u2", .str "u2"), ("bb", .str "Backbone"), ("root", .str "Root"), ("odd", .int 0)]
  vs : List (String × Ans) := []
  vb : List (String × Ans) := []
  /-- `pol vo <dir> <spec>|-`: valid_object answer for blueprints under that directory -/
  vo : List (String × Option Ans) := []
  /-- `pol root <name>`: what get_root_uid() answers from now on -/
  root : Option Name := none
  /-- directories whose creator_file answer is preceded by the master's callback into itself (`drop+<spec>`) -/
  cfd : List (String × Bool) := []
  scripts : List (String × List Op) := []
  co : List (String × Option CoAns) := []

def lookupS (l : List (String × Ans)) (k : String) : Option Ans :=
  (l.find? (fun e => e.1 == k)).map (·.2)

def Tables.cfAns (t : Tables) (name : String) : Ans :=
  match name.splitOn "/" with
  | "" :: "c20" :: d :: _ :: _ => (lookupS t.cf d).getD (.str "Root")
  | _ => .str "Root"

def Tables.cfDrop (t : Tables) (name : String) : Bool :=
  match name.splitOn "/" with
  | "" :: "c20" :: d :: _ :: _ => ((t.cfd.find? (fun e => e.1 == d)).map (·.2)).getD false
  | _ => false

def Tables.voAns (t : Tables) (name : String) : Option Ans :=
  match name.splitOn "/" with
  | "" :: "c20" :: d :: _ :: _ => ((t.vo.find? (fun e => e.1 == d)).map (·.2)).getD none
  | _ => none

def Tables.coAns (t : Tables) (name : String) : CoAns :=
  match name.splitOn "/" with
  | "" :: "c20" :: d :: _ :: _ =>
    (match t.co.find? (fun e => e.1 == d) with
     | some (_, some a) => a
     | _ => .silent)
  | _ => .silent

def Tables.vsAns (t : Tables) (o : Oid) (u : Name) : Ans :=
  match lookupS t.vs (o ++ ":" ++ u) with
  | some a => a
  | none =>
    match lookupS t.vs (o ++ ":*") with
    | some a => a
    | none =>
      match lookupS t.vs ("*:" ++ u) with
      | some a => a
      | none => (lookupS t.vs "*:*").getD (.int 1)

/-- `cfg <flag>..` line: which verification master / simul_efun object the case runs under
    (nobb: no get_bb_uid(); noroot: no get_root_uid(); novb: no valid_bind(); simul: the simul_efun object /c20/simul is
    actor `se`) -/
def applyCfgFlag (c : Cfg) (f : String) : Option Cfg :=
  if f == "nobb" then some { c with bb := none }
  else if f == "noroot" then some { c with noRoot := true }
  else if f == "simul" then some { c with simul := true }
  else if f == "novb" then some { c with noVb := true }
  else none

def parseCfgFlags (fs : List String) : Option Cfg :=
  fs.foldl (fun c f => c.bind (applyCfgFlag · f)) (some driveCfg)

def Tables.vbAns (t : Tables) (d : Oid) (n : Oid) : Ans :=
  match lookupS t.vb (d ++ ":" ++ n) with
  | some a => a
  | none =>
    match lookupS t.vb (d ++ ":*") with
    | some a => a
    | none =>
      match lookupS t.vb ("*:" ++ n) with
      | some a => a
      | none => (lookupS t.vb "*:*").getD (.int 1)

structure Parsed where
  cfg : Cfg := driveCfg
  tab : Tables := {}
  steps : List ((Oid × Op) × Tables) := []
  bad : List String := []

def parseLine (p : Parsed) (line : String) : Parsed :=
  match toks line with
  | [] => p
  | ["load", "reg", "/c20/reg"] => p
  | "cfg" :: flags =>
    -- only as the first line of a case
    match parseCfgFlags flags with
    | some c => if p.steps.isEmpty then { p with cfg := c } else { p with bad := line :: p.bad }
    | none => { p with bad := line :: p.bad }
  | ["script", key, ops] =>
    if ops == "-" then { p with tab := { p.tab with scripts := (key, []) :: p.tab.scripts } }
    else
      let parsed := (ops.splitOn ";").map (fun o => (parseOp o).filter (fun op => op.render == o))
      if parsed.all Option.isSome then { p with tab := { p.tab with scripts := (key, parsed.filterMap id) :: p.tab.scripts } }
      else { p with bad := line :: p.bad }
  | ["pol", "co", d, spec] =>
    if spec == "-" then { p with tab := { p.tab with co := (d, none) :: p.tab.co } }
    else
      match parseCo spec with
      | some a => { p with tab := { p.tab with co := (d, some a) :: p.tab.co } }
      | none => { p with bad := line :: p.bad }
  | ["pol", "cf", d, spec0] =>
    -- `drop+<spec>`: before answering, the master calls back into the creating object (if that is the master itself)
    let drop := spec0.startsWith "drop+"
    let spec := if drop then (spec0.drop 5).toString else spec0
    match parseAns spec with
    | some a => { p with tab := { p.tab with cf := (d, a) :: p.tab.cf, cfd := (d, drop) :: p.tab.cfd } }
    | none => { p with bad := line :: p.bad }
  | ["pol", "vo", d, spec] =>
    if spec == "-" then { p with tab := { p.tab with vo := (d, none) :: p.tab.vo } }
    else
      match parseAns spec with
      | some a => { p with tab := { p.tab with vo := (d, some a) :: p.tab.vo } }
      | none => { p with bad := line :: p.bad }
  | ["pol", "root", n] => { p with tab := { p.tab with root := some n } }
  | ["pol", "bb", _] => p        -- get_bb_uid() answers something else from now on: set_master ignores it after the first load
  | ["pol", "vb", d, n, spec] =>
    match parseAns spec with
    | some a => { p with tab := { p.tab with vb := (d ++ ":" ++ n, a) :: p.tab.vb } }
    | none => { p with bad := line :: p.bad }
  | ["pol", "vs", o, u, spec] =>
    match parseAns spec with
    | some a => { p with tab := { p.tab with vs := (o ++ ":" ++ (if u == "-" then "" else u), a) :: p.tab.vs } }
    | none => { p with bad := line :: p.bad }
  | ["do", o, ops] =>
    match parseOp ops with
    | some op =>
      if op.render == ops then { p with steps := ((o, op), p.tab) :: p.steps } else { p with bad := line :: p.bad }
    | none => { p with bad := line :: p.bad }
  | _ => if line.startsWith "#" then p else { p with bad := line :: p.bad }

def parseCase (lines : List String) : Parsed :=
  let p := lines.foldl parseLine {}
  { p with steps := p.steps.reverse }

def policyOf (steps : List ((Oid × Op) × Tables)) : Policy :=
  let arr := steps.toArray
  { cf := fun i name => match arr[i]? with
      | some e => e.2.cfAns name
      | none => .str "Root",
    vs := fun i o u => match arr[i]? with
      | some e => e.2.vsAns o u
      | none => .int 1,
    script := fun i key => match arr[i]? with
      | some e => ((e.2.scripts.find? (fun x => x.1 == key)).map (·.2)).getD []
      | none => [],
    co := fun i name => match arr[i]? with
      | some e => e.2.coAns name
      | none => .silent,
    cfDrop := fun i name => match arr[i]? with
      | some e => e.2.cfDrop name
      | none => false,
    vb := fun i d n => match arr[i]? with
      | some e => e.2.vbAns d n
      | none => .int 1,
    root := fun i => match arr[i]? with
      | some e => e.2.root
      | none => none,
    vo := fun i name => match arr[i]? with
      | some e => e.2.voAns name
      | none => none }

def runModel (lines : List String) : List String :=
  let p := parseCase lines
  if !p.bad.isEmpty then p.bad.reverse.map (fun l => s!"bad-line {l}")
  else
    let trace := events p.cfg (policyOf p.steps) driveFuel (p.steps.map (·.1))
    -- the real driver is dead after a crash: nothing is printed after the first crashing segment
    let upto := trace.takeWhile (fun r => !r.crash) ++ (trace.dropWhile (fun r => !r.crash)).take 1
    upto.flatMap StepRec.render

/-! parsing of an implementation trace into step records -/

def parseU (s : String) : Option (Option Name) :=
  if s == "0" then some none
  else if s.startsWith "s:" then some (some (s.drop 2).toString)
  else none

def parseRes (ws : List String) : Option Res :=
  match ws with
  | ["nobj"] => some .nobj
  | ["err", e] =>
    ([Err.noEuidLoad, .noEuidClone, .exportZero, .badArg, .policy, .simulDest, .bindDenied, .voDenied].find? (fun x => x.render == e)).map .err
  | [x] =>
    match x.toInt? with
    | some n => some (.int n)
    | none => some (.oid x)
  | _ => none

def parseSnapEntry (s0 : String) : Option Obj :=
  let s := if s0.endsWith "*" then (s0.dropEnd 1).toString else s0
  match s.splitOn "=" with
  | [o, ue] =>
    match ue.splitOn "/" with
    | [u, e] =>
      match parseU u, parseU e with
      | some u, some e => some { oid := o, name := "", uid := u, euid := e }
      | _, _ => none
    | _ => none
  | _ => none

structure JParse where
  done : List StepRec := []            -- closed segments, newest first
  stack : List (Oid × Op) := []        -- running ops, innermost first
  cur : Option StepRec := none         -- open segment
  bad : List String := []

/-- the open segment; a line arriving with no open segment continues the innermost running op -/
def JParse.open (j : JParse) : Option StepRec :=
  match j.cur with
  | some r => some r
  | none =>
    match j.stack with
    | (a, op) :: _ => some { actor := a, op := op, first := false }
    | [] => none

def JParse.upd (j : JParse) (line : String) (f : StepRec → Option StepRec) : JParse :=
  match j.open with
  | none => { j with bad := line :: j.bad }
  | some r =>
    match f r with
    | some r' => { j with cur := some r' }
    | none => { j with bad := line :: j.bad }

/-- attach a `new` line to the creator_file call it answers (same name, nothing made yet), else it stands alone -/
def attachNew (cs : List Creation) (m : Obj) : List Creation :=
  match cs.reverse with
  | c :: rest =>
    if c.name = m.name ∧ c.made = none ∧ c.ans ≠ none then (({ c with made := some m }) :: rest).reverse
    else cs ++ [{ name := m.name, ans := none, made := some m }]
  | [] => [{ name := m.name, ans := none, made := some m }]

def jline (j : JParse) (line : String) : JParse :=
  match toks line with
  | [] => j
  | ["do", o, ops] =>
    match parseOp ops, j.cur with
    | some op, none =>
      -- a bind() announces in its first segment as whom the function is going to run
      let bt := match op with
        | .bind t _ => some t
        | _ => none
      { j with stack := (o, op) :: j.stack, cur := some { actor := o, op := op, bindTo := bt } }
    | _, _ => { j with bad := line :: j.bad }
  | ["vs", o, u, spec] =>
    j.upd line fun r =>
      match parseU u, parseAns spec with
      | some (some u), some a => if r.vs.isNone then some { r with vs := some (o, u, a) } else none
      | _, _ => none
  | ["vb", d, n, spec] =>
    j.upd line fun r => if r.vb.isSome then none else (parseAns spec).map fun a => { r with vb := some (d, n, a) }
  | ["vo", name, spec] =>
    j.upd line fun r => if r.vo.isSome then none else (parseAns spec).map fun a => { r with vo := some (name, a) }
  | ["co", name, spec] =>
    j.upd line fun r => if r.co.isSome then none else (parseCo spec).map fun a => { r with co := some (name, a) }
  | ["cf", name, spec] =>
    j.upd line fun r => (parseAns spec).map fun a =>
      { r with creations := r.creations ++ [{ name := name, ans := some a, made := none }] }
  | ["new", o, name, u, e] =>
    j.upd line fun r =>
      match parseU u, parseU e with
      | some u, some e => some { r with creations := attachNew r.creations { oid := o, name := name, uid := u, euid := e } }
      | _, _ => none
  | "r" :: ws =>
    -- the result that ends a via / bind op (not its first segment: refusals end there) is geteuid(function)
    j.upd line fun r => if r.res.isSome then none else (parseRes ws).map fun x =>
      let fo := if r.first then none else (match r.op with
        | .via t _ => some t
        | .bind t _ => some t
        | _ => none)
      { r with res := some x, fpOwner := fo }
  | "q" :: es =>
    let ps := es.map parseSnapEntry
    match j.open with
    | some r =>
      if ps.all Option.isSome then
        { j with done := { r with snap := some (ps.filterMap id) } :: j.done, cur := none,
                 stack := if r.res.isSome then j.stack.drop 1 else j.stack }
      else { j with bad := line :: j.bad }
    | none => { j with bad := line :: j.bad }
  | "crash" :: _ =>
    match j.open with
    | some r => { j with done := { r with crash := true } :: j.done, cur := none }
    | none => { j with done := { actor := "?", op := .dest "?", crash := true } :: j.done }
  | "sanitizer" :: _ => j
  | _ => { j with bad := line :: j.bad }

def parseTrace (lines : List String) : List StepRec × List String :=
  let j := lines.foldl jline {}
  let done := match j.cur with
    | some r => r :: j.done
    | none => j.done
  (done.reverse, j.bad.reverse ++ (if j.cur.isSome then ["segment without snapshot"] else []))

def runJudge (body : List String) : List String :=
  let (input, impl) := splitJudge body
  let (trace, bad) := parseTrace impl
  -- the configuration (which master, simul_efun object as actor) is part of the case, not of the trace
  let cfg := (input.filterMap (fun l => match toks l with
    | "cfg" :: flags => parseCfgFlags flags
    | _ => none)).head?.getD driveCfg
  let vs := bad.map (fun l => s!"unparsed {l}") ++ judgeEv cfg trace
  match vs with
  | [] => ["ok"]
  | vs => vs.map (fun v => s!"bad {v}")

def main (mode : String) : IO Unit :=
  match mode with
  | "model" => serve runModel
  | "judge" => serve runJudge
  | _ => IO.eprintln s!"C20: unknown mode {mode}"

end NV.C20
