/-
C20 — helper lemmas: the registry (association list), the world invariant, and the per-operation facts used by
NV/C20/Props.lean.
-/
import NV.C20.Model
import NV.C20.Spec

namespace NV.C20

/-! ### registry -/

theorem mem_delO {l : List Obj} {k : Oid} {e : Obj} : e ∈ delO l k ↔ e ∈ l ∧ e.oid ≠ k := by
  induction l with
  | nil => simp [delO]
  | cons o l ih =>
    unfold delO
    by_cases h : o.oid = k
    · simp only [h, if_true, ih, List.mem_cons]
      constructor
      · rintro ⟨h1, h2⟩; exact ⟨Or.inr h1, h2⟩
      · rintro ⟨h1 | h1, h2⟩
        · subst h1; exact absurd h h2
        · exact ⟨h1, h2⟩
    · simp only [h, if_false, List.mem_cons, ih]
      constructor
      · rintro (h1 | ⟨h1, h2⟩)
        · subst h1; exact ⟨Or.inl rfl, h⟩
        · exact ⟨Or.inr h1, h2⟩
      · rintro ⟨h1 | h1, h2⟩
        · exact Or.inl h1
        · exact Or.inr ⟨h1, h2⟩

theorem getO_delO (l : List Obj) (k k' : Oid) : getO (delO l k) k' = if k' = k then none else getO l k' := by
  induction l with
  | nil => simp [delO, getO]
  | cons o l ih =>
    unfold delO
    by_cases h : o.oid = k
    · simp only [h, if_true, ih]
      by_cases h2 : k' = k
      · simp [h2]
      · simp only [h2, if_false, getO, h]
        have : ¬ k = k' := fun x => h2 x.symm
        simp [this]
    · simp only [h, if_false, getO, ih]
      by_cases h3 : o.oid = k'
      · have : ¬ k' = k := fun x => h (h3.trans x)
        simp [h3, this]
      · simp [h3]

theorem getO_setO (l : List Obj) (o : Obj) (k : Oid) :
    getO (setO l o) k = if o.oid = k then some o else getO l k := by
  unfold setO
  by_cases h : o.oid = k
  · simp [getO, h]
  · have : ¬ k = o.oid := fun x => h x.symm
    simp [getO, h, getO_delO, this]

theorem mem_setO {l : List Obj} {o e : Obj} : e ∈ setO l o ↔ e = o ∨ (e ∈ l ∧ e.oid ≠ o.oid) := by
  simp [setO, mem_delO]

theorem getO_some {l : List Obj} {k : Oid} {e : Obj} (h : getO l k = some e) : e ∈ l ∧ e.oid = k := by
  induction l with
  | nil => simp [getO] at h
  | cons o l ih =>
    unfold getO at h
    by_cases h1 : o.oid = k
    · simp only [h1, if_true, Option.some.injEq] at h
      subst h; exact ⟨List.mem_cons_self, h1⟩
    · simp only [h1, if_false] at h
      exact ⟨List.mem_cons_of_mem _ (ih h).1, (ih h).2⟩

/-- keys are distinct: every member is what a lookup of its key finds -/
def WF (l : List Obj) : Prop := ∀ e ∈ l, getO l e.oid = some e

theorem WF_delO {l : List Obj} (h : WF l) (k : Oid) : WF (delO l k) := by
  intro e he
  rw [mem_delO] at he
  rw [getO_delO]
  simp [he.2, h e he.1]

theorem WF_setO {l : List Obj} (h : WF l) (o : Obj) : WF (setO l o) := by
  intro e he
  rw [mem_setO] at he
  rw [getO_setO]
  rcases he with he | ⟨he, hne⟩
  · simp [he]
  · have : ¬ o.oid = e.oid := fun x => hne x.symm
    simp [this, h e he]

theorem frame_setO {P : List Obj} (hP : WF P) {o e : Obj} (he : e ∈ setO P o) : e = o ∨ getO P e.oid = some e := by
  rw [mem_setO] at he
  rcases he with he | ⟨he, _⟩
  · exact Or.inl he
  · exact Or.inr (hP e he)

theorem frame_delO {P : List Obj} (hP : WF P) {k : Oid} {e : Obj} (he : e ∈ delO P k) : getO P e.oid = some e := by
  rw [mem_delO] at he
  exact hP e he.1

/-! ### invariant of the model's world -/

structure Inv (w : World) : Prop where
  wf : WF w.objs
  uid : ∀ e ∈ w.objs, e.uid ≠ none

theorem Inv_init (cfg : Cfg) : Inv (World.init cfg) := by
  constructor
  · intro e he
    simp only [World.init, initObjs] at he ⊢
    cases hs : cfg.simul
    · simp only [hs, Bool.false_eq_true, if_false, List.mem_singleton] at he ⊢
      subst he
      simp [getO]
    · simp only [hs, if_true, List.mem_cons, List.mem_singleton, List.not_mem_nil, or_false] at he ⊢
      rcases he with he | he <;> subst he <;> simp [getO, masterOid, simulOid]
  · intro e he
    simp only [World.init, initObjs] at he
    cases hs : cfg.simul
    · simp only [hs, Bool.false_eq_true, if_false, List.mem_singleton] at he
      subst he
      simp
    · simp only [hs, if_true, List.mem_cons, List.mem_singleton, List.not_mem_nil, or_false] at he
      rcases he with he | he <;> subst he <;> simp

theorem Inv_setO {w : World} (h : Inv w) (o : Obj) (ho : o.uid ≠ none) (w1 : World) (hw1 : w1.objs = setO w.objs o) :
    Inv w1 := by
  constructor
  · rw [hw1]; exact WF_setO h.wf o
  · intro e he
    rw [hw1, mem_setO] at he
    rcases he with he | ⟨he, _⟩
    · subst he; exact ho
    · exact h.uid e he

theorem Inv_same {w : World} (h : Inv w) (w1 : World) (hw1 : w1.objs = w.objs) : Inv w1 := by
  constructor
  · rw [hw1]; exact h.wf
  · rw [hw1]; exact h.uid

/-! ### what a step must establish -/

structure StepOK (bb : Option Name) (P : List Obj) (w1 : World) (r : StepRec) : Prop where
  inv : Inv w1
  snap : r.snap = some w1.objs
  nocrash : r.crash = false
  known : knownClause P r = true
  euid : euidClause P r = true
  uid : uidClause P r = true
  creation : creationClause bb P r = true
  noeuid : noEuidClause P r = true
  exportc : exportClause P r = true
  asked : askedClause P r = true
  bind : bindClause r = true
  fp : fpClause r = true
  voc : voClause r = true

theorem crashes_false {cs : List Creation} {S : List Obj} (hS : ∀ e ∈ S, e.uid ≠ none)
    (M : ∀ c ∈ cs, ∀ m, c.made = some m → getO S m.oid = some m) : crashes cs S = false := by
  unfold crashes
  rw [Bool.or_eq_false_iff]
  constructor
  · rw [List.any_eq_false]
    intro c hc
    cases hm : c.made with
    | none => simp
    | some m =>
      have := hS m (getO_some (M c hc m hm)).1
      cases hu : m.uid with
      | none => exact absurd hu this
      | some _ => simp [hu]
  · rw [List.any_eq_false]
    intro e he
    have := hS e he
    cases hu : e.uid with
    | none => exact absurd hu this
    | some _ => simp

/-- the three snapshot clauses from a per-object description of the new snapshot -/
theorem snapshot_clauses {P S : List Obj} {r : StepRec} (hs : r.snap = some S) (hc : r.crash = false)
    (hS : ∀ e ∈ S, e.uid ≠ none) (hwf : WF S)
    (H : ∀ e ∈ S, getO P e.oid = some e ∨ isMade r e.oid = true ∨
      ∃ p, getO P e.oid = some p ∧ (e.euid = p.euid ∨ euidChangeOk r e = true) ∧
        (e.uid = p.uid ∨ uidChangeOk P r p e = true))
    (M : ∀ c ∈ r.creations, ∀ m, c.made = some m → getO S m.oid = some m) :
    knownClause P r = true ∧ euidClause P r = true ∧ uidClause P r = true := by
  refine ⟨?_, ?_, ?_⟩
  · unfold knownClause
    simp only [hc, hs, Bool.not_false, Bool.true_and, Bool.and_eq_true, List.all_eq_true]
    constructor
    · intro e he
      have hu := hS e he
      have hu' : e.uid.isSome = true := by
        cases h : e.uid with
        | none => exact absurd h hu
        | some _ => rfl
      rw [hu']
      have hw := hwf e he
      rcases H e he with h | h | ⟨p, h, _⟩
      · simp [h, hw]
      · simp [h, hw]
      · simp [h, hw]
    · intro c hc'
      cases hm : c.made with
      | none => simp
      | some m => simp [M c hc' m hm]
  · unfold euidClause
    simp only [hs, List.all_eq_true]
    intro e he
    rcases H e he with h | h | ⟨p, h, h2, _⟩
    · simp [h]
    · cases getO P e.oid <;> simp [h]
    · rcases h2 with h2 | h2 <;> simp [h, h2]
  · unfold uidClause
    simp only [hs, List.all_eq_true]
    intro e he
    rcases H e he with h | h | ⟨p, h, _, h3⟩
    · simp [h]
    · cases getO P e.oid <;> simp [h]
    · rcases h3 with h3 | h3 <;> simp [h, h3]

end NV.C20
