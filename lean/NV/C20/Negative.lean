/-
C20 — the oracle rejects what it should: NEGATIVE examples for every clause of `judgeEv` (each a concrete trace
that violates exactly the idea of one clause, checked by evaluation), after a positive control on the common prefix.
-/
import NV.C20.Spec

namespace NV.C20.Negative

open NV.C20

def M : Obj := { oid := "m", name := "", uid := some "Root", euid := some "Root" }
def ob (oid : Oid) (uid euid : Option Name) : Obj := { oid := oid, name := "", uid := uid, euid := euid }
def pa : Path := ⟨"u1", "a"⟩
def pb : Path := ⟨"u2", "a"⟩
def mk (oid : Oid) (name : String) (ans : Ans) (uid euid : Option Name) : Creation :=
  { name := name, ans := some ans, made := some (ob oid uid euid) }

def A0 : Obj := ob "u1a" (some "u1") none
def A1 : Obj := ob "u1a" (some "u1") (some "u1")
def B0 : Obj := ob "u2a" (some "u2") none

/-- the master loads /c20/u1/a and /c20/u2/a (euid 0 each) -/
def pre : List StepRec :=
  [{ actor := "m", op := .load pa, creations := [mk "u1a" "/c20/u1/a" (.str "u1") (some "u1") none], snap := some [M, A0] },
   { actor := "m", op := .load pa, res := some (.oid "u1a"), snap := some [M, A0], first := false },
   { actor := "m", op := .load pb, creations := [mk "u2a" "/c20/u2/a" (.str "u2") (some "u2") none], snap := some [M, A0, B0] },
   { actor := "m", op := .load pb, res := some (.oid "u2a"), snap := some [M, A0, B0], first := false }]

/-- u1a sets its euid with the master's approval -/
def setA : StepRec :=
  { actor := "u1a", op := .seteuidStr "u1", vs := some ("u1a", "u1", .int 1), res := some (.int 1), snap := some [M, A1, B0] }

def J (t : List StepRec) : List String := judgeEv { root := "Root", bb := some "Backbone" } t

/-! positive controls -/
example : J pre = [] := by decide
example : J (pre ++ [setA]) = [] := by decide
example : J (pre ++ [setA, { actor := "u1a", op := .exportUid "u2a", res := some (.int 1), snap := some [M, A1, ob "u2a" (some "u1") none] }]) = [] := by decide

/-! euid clause -/
-- another object's op changes u1a's euid
example : J (pre ++ [{ actor := "u2a", op := .seteuidInt 0, res := some (.int 1), snap := some [M, A1, B0] }]) ≠ [] := by decide
-- the master refused, the euid changed all the same
example : J (pre ++ [{ actor := "u1a", op := .seteuidStr "u1", vs := some ("u1a", "u1", .int 0), res := some (.int 0), snap := some [M, A1, B0] }]) ≠ [] := by decide
-- approved for "u1", but the euid became something else
example : J (pre ++ [{ actor := "u1a", op := .seteuidStr "u1", vs := some ("u1a", "u1", .int 1), res := some (.int 1), snap := some [M, ob "u1a" (some "u1") (some "Root"), B0] }]) ≠ [] := by decide
-- the master was not asked at all
example : J (pre ++ [{ actor := "u1a", op := .seteuidStr "u1", res := some (.int 1), snap := some [M, A1, B0] }]) ≠ [] := by decide
-- the master's apply raised an error (counts as refusal), the euid changed
example : J (pre ++ [{ actor := "u1a", op := .seteuidStr "u1", vs := some ("u1a", "u1", .err), res := some (.err .policy), snap := some [M, A1, B0] }]) ≠ [] := by decide
-- seteuid(5) is a bad argument, not a way to get an euid
example : J (pre ++ [{ actor := "u1a", op := .seteuidInt 5, res := some (.int 1), snap := some [M, A1, B0] }]) ≠ [] := by decide
-- an euid appears during somebody's load
example : J (pre ++ [{ actor := "m", op := .load pa, res := some (.oid "u1a"), snap := some [M, A1, B0] }]) ≠ [] := by decide

/-! uid clause -/
-- uid changes without export_uid
example : J (pre ++ [{ actor := "u1a", op := .seteuidInt 0, res := some (.int 1), snap := some [M, ob "u1a" (some "Root") none, B0] }]) ≠ [] := by decide
-- export by a caller whose euid is 0
example : J (pre ++ [{ actor := "u1a", op := .exportUid "u2a", res := some (.int 1), snap := some [M, A0, ob "u2a" (some "u1") none] }]) ≠ [] := by decide
-- export onto a target that has an euid
example : J (pre ++ [setA, { actor := "m", op := .exportUid "u1a", res := some (.int 1), snap := some [M, ob "u1a" (some "Root") (some "u1"), B0] }]) ≠ [] := by decide
-- the target gets a uid that is not the caller's euid
example : J (pre ++ [setA, { actor := "u1a", op := .exportUid "u2a", res := some (.int 1), snap := some [M, A1, ob "u2a" (some "Root") none] }]) ≠ [] := by decide
-- export_uid returned 0 and changed the uid all the same
example : J (pre ++ [setA, { actor := "u1a", op := .exportUid "u2a", res := some (.int 0), snap := some [M, A1, ob "u2a" (some "u1") none] }]) ≠ [] := by decide
-- export_uid changed a third object's uid
example : J (pre ++ [setA, { actor := "u1a", op := .exportUid "u2a", res := some (.int 1), snap := some [ob "m" (some "u1") (some "Root"), A1, B0] }]) ≠ [] := by decide

/-! creation clause -/
-- an object is created for a non-master actor whose euid is 0
example : J (pre ++ [{ actor := "u1a", op := .load ⟨"u1", "b"⟩, creations := [mk "u1b" "/c20/u1/b" (.str "u1") (some "u1") none], snap := some [M, A0, B0, ob "u1b" (some "u1") none] }]) ≠ [] := by decide
-- the uid is not what creator_file said
example : J (pre ++ [{ actor := "m", op := .load ⟨"u1", "b"⟩, creations := [mk "u1b" "/c20/u1/b" (.str "u1") (some "Root") none], snap := some [M, A0, B0, ob "u1b" (some "Root") none] }]) ≠ [] := by decide
-- the new object has an euid although the answer is not the backbone uid
example : J (pre ++ [{ actor := "m", op := .load ⟨"u1", "b"⟩, creations := [mk "u1b" "/c20/u1/b" (.str "u1") (some "u1") (some "u1")], snap := some [M, A0, B0, ob "u1b" (some "u1") (some "u1")] }]) ≠ [] := by decide
-- backbone answer: the euid must be the creator's, not somebody else's
example : J (pre ++ [setA, { actor := "u1a", op := .load ⟨"bb", "a"⟩, creations := [mk "bba" "/c20/bb/a" (.str "Backbone") (some "Root") (some "Root")], snap := some [M, A1, B0, ob "bba" (some "Root") (some "Root")] }]) ≠ [] := by decide
-- creator_file raised an error and the object was made all the same
example : J (pre ++ [{ actor := "m", op := .load ⟨"u1", "b"⟩, creations := [mk "u1b" "/c20/u1/b" .err (some "NONAME") none], snap := some [M, A0, B0, ob "u1b" (some "NONAME") none] }]) ≠ [] := by decide
-- an object is created by an op that creates nothing
example : J (pre ++ [{ actor := "m", op := .seteuidInt 0, creations := [mk "u1b" "/c20/u1/b" (.str "u1") (some "u1") none], res := some (.int 1), snap := some [ob "m" (some "Root") none, A0, B0, ob "u1b" (some "u1") none] }]) ≠ [] := by decide
-- an object announces itself without creator_file having been asked, with a uid of its choice
example : J (pre ++ [{ actor := "m", op := .load ⟨"u1", "b"⟩, creations := [{ name := "/c20/u1/b", ans := none, made := some (ob "u1b" (some "Root") none) }], res := some (.oid "u1b"), snap := some [M, A0, B0, ob "u1b" (some "Root") none] }]) ≠ [] := by decide
-- reload_object must keep the uid and clear the euid
example : J (pre ++ [setA, { actor := "m", op := .reload "u1a", creations := [{ name := "/c20/u1/a", ans := none, made := some A1 }], snap := some [M, A1, B0] }]) ≠ [] := by decide
-- the master is reloaded for an actor without euid
example : J (pre ++ [{ actor := "u1a", op := .dest "m", creations := [{ name := "/c20/master", ans := none, made := some M }], res := some (.int 1), snap := some [M, A0, B0] }]) ≠ [] := by decide

/-! noeuid clause -/
-- creator_file is consulted for an euid-0 actor (even if nothing is made)
example : J (pre ++ [{ actor := "u1a", op := .clone "c1" pb, creations := [{ name := "/c20/u2/a#1", ans := some (.str "u2"), made := none }], res := some (.err .policy), snap := some [M, A0, B0] }]) ≠ [] := by decide
-- compile_object is consulted for an euid-0 actor
example : J (pre ++ [{ actor := "u1a", op := .clone "c1" ⟨"u1", "v1"⟩, co := some ("/c20/u1/v1", .none), snap := some [M, A0, B0] }]) ≠ [] := by decide
example : J (pre ++ [{ actor := "u1a", op := .load ⟨"u1", "v1"⟩, co := some ("/c20/u1/v1", .tmpl pb), snap := some [M, A0, B0] }]) ≠ [] := by decide
-- the same calls are fine for the master, and for u1a once it has an euid (positive controls)
example : J (pre ++ [{ actor := "m", op := .load ⟨"u1", "v1"⟩, co := some ("/c20/u1/v1", .none), snap := some [M, A0, B0] }]) = [] := by decide
example : J (pre ++ [setA, { actor := "u1a", op := .load ⟨"u1", "v1"⟩, co := some ("/c20/u1/v1", .none), snap := some [M, A1, B0] }]) = [] := by decide

/-! export clause -/
-- result 1 for a caller with euid 0 (nothing else changes)
example : J (pre ++ [{ actor := "u1a", op := .exportUid "u2a", res := some (.int 1), snap := some [M, A0, B0] }]) ≠ [] := by decide
-- a caller with euid 0 must get the error, not 0
example : J (pre ++ [{ actor := "u1a", op := .exportUid "u2a", res := some (.int 0), snap := some [M, A0, B0] }]) ≠ [] := by decide
-- result 1 onto a target with an euid (uid unchanged because equal)
example : J (pre ++ [setA, { actor := "u1a", op := .exportUid "u1a", res := some (.int 1), snap := some [M, A1, B0] }]) ≠ [] := by decide

/-! asked clause -/
-- valid_seteuid was asked about another object
example : J (pre ++ [{ actor := "u1a", op := .seteuidStr "u1", vs := some ("u2a", "u1", .int 0), res := some (.int 0), snap := some [M, A0, B0] }]) ≠ [] := by decide
-- ... about another uid
example : J (pre ++ [{ actor := "u1a", op := .seteuidStr "u1", vs := some ("u1a", "zed", .int 0), res := some (.int 0), snap := some [M, A0, B0] }]) ≠ [] := by decide
-- ... not at all (and nothing changed)
example : J (pre ++ [{ actor := "u1a", op := .seteuidStr "u1", res := some (.int 0), snap := some [M, A0, B0] }]) ≠ [] := by decide

/-! known clause -/
-- an object nobody announced appears
example : J (pre ++ [{ actor := "m", op := .seteuidInt 5, res := some (.err .badArg), snap := some [M, A0, B0, ob "x" (some "Root") (some "Root")] }]) ≠ [] := by decide
-- an object without uid
example : J (pre ++ [{ actor := "m", op := .seteuidInt 5, res := some (.err .badArg), snap := some [M, ob "u1a" none none, B0] }]) ≠ [] := by decide
-- the snapshot disagrees with what the new object's create() saw
example : J (pre ++ [{ actor := "m", op := .load ⟨"u1", "b"⟩, creations := [mk "u1b" "/c20/u1/b" (.str "u1") (some "u1") none], snap := some [M, A0, B0, ob "u1b" (some "u1") (some "Root")] }]) ≠ [] := by decide
-- the announced object is missing from the snapshot
example : J (pre ++ [{ actor := "m", op := .load ⟨"u1", "b"⟩, creations := [mk "u1b" "/c20/u1/b" (.str "u1") (some "u1") none], snap := some [M, A0, B0] }]) ≠ [] := by decide
-- the same id twice in a snapshot
example : J (pre ++ [{ actor := "m", op := .seteuidInt 5, res := some (.err .badArg), snap := some [M, A0, B0, ob "u1a" (some "u1") (some "Root")] }]) ≠ [] := by decide
-- the driver crashed / printed no snapshot
example : J (pre ++ [{ actor := "m", op := .seteuidInt 0, crash := true }]) ≠ [] := by decide
example : J (pre ++ [{ actor := "m", op := .seteuidInt 5, res := some (.err .badArg) }]) ≠ [] := by decide

/-! bind clause (round 5) -/
def bindOp : Op := .bind "u1a" (.load ⟨"u1", "b"⟩)
-- positive control: the master approved exactly this doer and new owner, the function may run
example : J (pre ++ [setA, { actor := "u2a", op := bindOp, vb := some ("u2a", "u1a", .int 1), bindTo := some "u1a", snap := some [M, A1, B0] }]) = [] := by decide
-- positive control: binding to oneself needs nobody
example : J (pre ++ [setA, { actor := "u1a", op := bindOp, bindTo := some "u1a", snap := some [M, A1, B0] }]) = [] := by decide
-- positive control: a refused bind() ends with the error in its first segment
example : J (pre ++ [setA, { actor := "u2a", op := bindOp, vb := some ("u2a", "u1a", .int 0), bindTo := some "u1a", res := some (.err .bindDenied), snap := some [M, A1, B0] }]) = [] := by decide
-- the function runs although the master was not asked
example : J (pre ++ [setA, { actor := "u2a", op := bindOp, bindTo := some "u1a", snap := some [M, A1, B0] }]) ≠ [] := by decide
-- ... although the master refused
example : J (pre ++ [setA, { actor := "u2a", op := bindOp, vb := some ("u2a", "u1a", .int 0), bindTo := some "u1a", snap := some [M, A1, B0] }]) ≠ [] := by decide
-- ... although the master's apply raised an error
example : J (pre ++ [setA, { actor := "u2a", op := bindOp, vb := some ("u2a", "u1a", .err), bindTo := some "u1a", snap := some [M, A1, B0] }]) ≠ [] := by decide
-- the master approved another new owner
example : J (pre ++ [setA, { actor := "u2a", op := bindOp, vb := some ("u2a", "m", .int 1), bindTo := some "u1a", snap := some [M, A1, B0] }]) ≠ [] := by decide
-- the master approved another doer
example : J (pre ++ [setA, { actor := "u2a", op := bindOp, vb := some ("u1a", "u1a", .int 1), bindTo := some "u1a", snap := some [M, A1, B0] }]) ≠ [] := by decide

/-! other configurations (round 5): the initial snapshot is part of the specification -/
def Jc (c : Cfg) (t : List StepRec) : List String := judgeEv c t
-- a master without get_root_uid() starts with "NONAME" / 0: a trace that shows it as root from the start is rejected
example : Jc { root := "Root", bb := none, noRoot := true } [{ actor := "m", op := .seteuidInt 5, res := some (.err .badArg), snap := some [M] }] ≠ [] := by decide
example : Jc { root := "Root", bb := none, noRoot := true } [{ actor := "m", op := .seteuidInt 5, res := some (.err .badArg), snap := some [ob "m" (some "NONAME") none] }] = [] := by decide
-- without a backbone uid a "Backbone" answer gives no euid
example : Jc { root := "Root", bb := none } [{ actor := "m", op := .load ⟨"bb", "a"⟩, creations := [mk "bba" "/c20/bb/a" (.str "Backbone") (some "Root") (some "Root")], snap := some [M, ob "bba" (some "Root") (some "Root")] }] ≠ [] := by decide
example : J [{ actor := "m", op := .load ⟨"bb", "a"⟩, creations := [mk "bba" "/c20/bb/a" (.str "Backbone") (some "Root") (some "Root")], snap := some [M, ob "bba" (some "Root") (some "Root")] }] = [] := by decide
-- the simul_efun object exists from the start (uid NONAME, euid 0) and gets no object created on its behalf
example : Jc { root := "Root", bb := some "Backbone", simul := true } [{ actor := "se", op := .load ⟨"u1", "a"⟩, creations := [mk "u1a" "/c20/u1/a" (.str "u1") (some "u1") none], snap := some [M, ob "se" (some "NONAME") none, A0] }] ≠ [] := by decide
-- a master reload that renames somebody else's uid (the class of the independently written change C20-4)
example : J (pre ++ [{ actor := "m", op := .dest "m", creations := [{ name := "/c20/master", ans := none, made := some (ob "m" (some "zed") (some "zed")) }], res := some (.int 1), snap := some [ob "m" (some "zed") (some "zed"), A0, B0] }]) = [] := by decide
example : J (pre ++ [{ actor := "m", op := .dest "m", creations := [{ name := "/c20/master", ans := none, made := some (ob "m" (some "zed") (some "zed")) }], res := some (.int 1), snap := some [ob "m" (some "zed") (some "zed"), ob "u1a" (some "zed") none, B0] }]) ≠ [] := by decide

/-! fp clause (round 6): geteuid(function) after a via / bind op is the euid of the function's (new) owner -/
-- positive: u1a has euid u1 (setA); the result that ends `u2a via,u1a,..` is s:u1
example : J (pre ++ [setA, { actor := "u2a", op := .via "u1a" (.seteuidInt 5), res := some (.oid "s:u1"), fpOwner := some "u1a", first := false, snap := some [M, A1, B0] }]) = [] := by decide
-- it reports the evaluator's euid (0) instead
example : J (pre ++ [setA, { actor := "u2a", op := .via "u1a" (.seteuidInt 5), res := some (.int 0), fpOwner := some "u1a", first := false, snap := some [M, A1, B0] }]) ≠ [] := by decide
-- it reports the owner's uid although the owner has no euid
example : J (pre ++ [{ actor := "u2a", op := .via "u1a" (.seteuidInt 5), res := some (.oid "s:u1"), fpOwner := some "u1a", first := false, snap := some [M, A0, B0] }]) ≠ [] := by decide

/-! vo clause (round 6): a blueprint master::valid_object refused is not created -/
-- positive: refusal ends the op with the error, nothing is announced
example : J (pre ++ [{ actor := "m", op := .load ⟨"u1", "b"⟩, vo := some ("/c20/u1/b", .int 0), res := some (.err .voDenied), snap := some [M, A0, B0] }]) = [] := by decide
-- positive: approval, the segment is closed and the load goes on
example : J (pre ++ [{ actor := "m", op := .load ⟨"u1", "b"⟩, vo := some ("/c20/u1/b", .int 1), snap := some [M, A0, B0] }]) = [] := by decide
-- refused, created all the same
example : J (pre ++ [{ actor := "m", op := .load ⟨"u1", "b"⟩, vo := some ("/c20/u1/b", .int 0), creations := [mk "u1b" "/c20/u1/b" (.str "u1") (some "u1") none], snap := some [M, A0, B0, ob "u1b" (some "u1") none] }]) ≠ [] := by decide
-- refused, but the op goes on as if nothing had happened
example : J (pre ++ [{ actor := "m", op := .load ⟨"u1", "b"⟩, vo := some ("/c20/u1/b", .none), snap := some [M, A0, B0] }]) ≠ [] := by decide
-- the apply raised an error and the op reports success
example : J (pre ++ [{ actor := "m", op := .load ⟨"u1", "b"⟩, vo := some ("/c20/u1/b", .err), res := some (.oid "u1b"), snap := some [M, A0, B0] }]) ≠ [] := by decide

end NV.C20.Negative
