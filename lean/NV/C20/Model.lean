/-
C20 — executable model of the uid/euid rules of the driver.

Mirrors, line by line (current source, i.e. including the two `fix:` commits of branch c20):
  src/simulate.c  give_uid_to_object   -> `giveUid`      creator_file answer kinds (string / anything else = "NONAME"),
                                                         same-uid-as-creator rule (uid copied, euid stays 0),
                                                         AUTO_TRUST_BACKBONE rule (only when the creator HAS an euid),
                                                         otherwise uid = answer, euid = 0
                  load_object          -> `doLoad`       object-table lookup first (find_or_load_object), then
                                                         "no effective user" test with the master exemption, file
                                                         existence, default uid "NONAME" before the object becomes
                                                         visible, master creator_file (an error in the apply leaves a
                                                         loaded, never created object behind: `half`)
                  clone_object         -> `doClone`      euid test with the master exemption, blueprint find-or-load,
                                                         make_new_name counter, give_uid_to_object, create
                  set_master           -> `World.init`   master uid = euid = get_root_uid(); `doDest` of the master:
                                                         destruct_object reloads it (a load on behalf of the caller)
  lib/efuns/uids.c f_seteuid           -> `doSeteuidInt` / `doSeteuidStr` (0 always allowed, other ints bad argument,
                                                         strings only with MASTER_APPROVED(valid_seteuid))
                  f_export_uid         -> `doExport`     caller euid 0 = error; target euid != 0 = 0; else target UID
                                                         := caller EUID
                  f_getuid             -> `getuid`       NULL uid = crash (explicit outcome)
  lib/lpc/object.c reload_object       -> `doReload`     euid := 0, create() again

Round 5 additions:
  lib/lpc/operator.c f_bind           -> `.bind` case of `execWith`: same owner = no master call; master valid_bind (error
                                                         propagates, NULL / 0 refuse = error); the function then runs as the NEW owner
  src/simulate.c  set_master           -> `initObjs` (first load, with / without get_root_uid(): `Cfg.noRoot`) and `doDest` of the
                                                         master with `Policy.root` (the reloaded master announces another root uid: it
                                                         gets that name through add_uid, nobody else's names change)
                  give_uid_to_object   -> `withCfPre`: the creator's uids are read AFTER the creator_file apply; the verification
                                                         master may drop its own euid inside it (`Policy.cfDrop`)
  the simul_efun object                -> actor `se` (`Cfg.simul`): "NONAME" / 0 from before the master existed, no exemption;
                                                         destruct_object refuses to destruct it (`Err.simulDest`)

Compile-time options come from NV/Gen/C20.lean (`autoTrustBackbone`; AUTO_SETEUID is recorded there, the source has
no code depending on it - the plugin checks that).

Nested creation (round 2): create() of a scripted object runs the op list the case attached to its file name
(`Policy.script`; `Policy.co` is master::compile_object), with the object under construction as actor and the uid/euid it has at that moment; the model
runs these scripts recursively (`exec`, bounded by fuel; with fuel 0 scripts are skipped) and emits one `StepRec`
per SEGMENT (the events between two uid snapshots): creation segment, the nested ops' segments, result segment.
Inside a create() script the harness refuses destruct/reload_object, and it never lets two live objects share a
registry id (`nobj`); the model mirrors both.  The inherit-chain counter of load_object (`num_objects_this_thread`,
limit MaxInheritDepth = 30, reset by clone_object and by every error) is not modelled: the generated nestings stay
far below it, where it has no influence on the outcome.

The mudlib side is the scripted harness of harness/mudlib/c20 (registry of object ids, one op per step, `new` line
from create(), uid snapshot after every step); master applies are an oracle `Policy`.
-/
import NV.Gen.C20

namespace NV.C20

abbrev Name := String
abbrev Oid := String

/-- `#ifdef AUTO_TRUST_BACKBONE` of lib/efuns/options.h, regenerated on every run -/
def autoTrustBackbone : Bool := decide (NV.Gen.C20.autoTrustBackbone ≠ 0)

/-- what a master apply did: returned a string / an int / an array (any other non-number) / raised an error /
    returned 0 through `return 0` (`none`, semantically the int 0) -/
inductive Ans where
  | str (s : String)
  | int (n : Int)
  | arr
  | err
  | none
  deriving Repr, BEq, DecidableEq

/-- src/apply.h MASTER_APPROVED on the returned svalue (`err` never reaches the macro: the error unwinds first) -/
def Ans.approved : Ans → Bool
  | .str _ => true
  | .int n => decide (n ≠ 0)
  | .arr => true
  | .err => false
  | .none => false

/-- mudlib configuration: get_root_uid() and get_bb_uid() of the master (backbone may be unset);
    `noRoot`: the master defines no get_root_uid() - set_master then leaves the first master with what
    give_uid_to_object gave it before a master existed ("NONAME" / 0), `root` is unused;
    `simul`: the simul_efun object (loaded before the master: "NONAME" / 0, no exemption anywhere) is an actor, id `se` -/
structure Cfg where
  root : Name
  bb : Option Name
  noRoot : Bool := false
  simul : Bool := false
  /-- the master defines no valid_bind(): apply_master_ob returns NULL, which MASTER_APPROVED refuses -/
  noVb : Bool := false

structure Path where
  dir : String
  file : String
  deriving Repr, BEq, DecidableEq

def Path.name (p : Path) : String := "/c20/" ++ p.dir ++ "/" ++ p.file
def Path.oid (p : Path) : Oid := p.dir ++ p.file

def dirs : List String := ["u1", "u2", "bb", "root", "odd"]
def files : List String := ["a", "b", "c"]
/-- the inheriting blueprint of the harness mudlib: /c20/u1/i.c is nothing but `inherit "/c20/u2/a";` -/
def inhChild : Path := ⟨"u1", "i"⟩
def inhParent : Path := ⟨"u2", "a"⟩
/-- the blueprint a file inherits (its program must be loaded before the file compiles) -/
def Path.parent (p : Path) : Option Path := if p = inhChild then some inhParent else none

/-- the source files present in harness/mudlib/c20 -/
def Path.exists (p : Path) : Bool := (dirs.contains p.dir && files.contains p.file) || decide (p = inhChild)

def masterOid : Oid := "m"
def simulOid : Oid := "se"
/-- object ids a clone may not take: the master's, the simul_efun object's and the blueprints' own ids -/
def reservedOids : List Oid := masterOid :: simulOid :: "u1i" :: dirs.flatMap (fun d => files.map (fun f => d ++ f))

structure Obj where
  oid : Oid
  name : String                 -- file_name()
  uid : Option Name             -- object_t.uid  (none = NULL)
  euid : Option Name            -- object_t.euid (none = NULL = 0)
  deriving Repr, BEq, DecidableEq

inductive Op where
  | seteuidStr (s : Name)
  | seteuidInt (n : Int)
  | exportUid (target : Oid)
  | load (p : Path)
  | clone (newOid : Oid) (p : Path)
  | dest (target : Oid)
  | reload (target : Oid)
  | via (owner : Oid) (op : Op)      -- evaluate a function pointer made by `owner` that performs `op`
  | bind (newOwner : Oid) (op : Op)  -- bind() an efun pointer (load_object / clone_object) to `newOwner`, then run it
  deriving Repr, BEq, DecidableEq

/-- what master::compile_object does for a path: no policy for that directory (returns 0, nothing logged) /
    returns 0 / returns a non-object / raises an error / clones the template and returns the clone -/
inductive CoAns where
  | silent
  | none
  | nonobj (n : Int)
  | err
  | tmpl (p : Path)
  deriving Repr, BEq, DecidableEq

/-- master policy oracle: answers may depend on the step number (policies are switchable), on the name passed
    to creator_file, and on (object, uid) for valid_seteuid; `script` is the op list create() of the object with
    that file name runs (blueprint: its path, clone: path ++ "#") -/
structure Policy where
  cf : Nat → String → Ans
  vs : Nat → Oid → Name → Ans
  script : Nat → String → List Op
  co : Nat → String → CoAns
  /-- re-entrancy: while answering creator_file(name) the verification master first calls back into the creating
      object - only when that is the master itself - and makes it seteuid(0) -/
  cfDrop : Nat → String → Bool := fun _ _ => false
  /-- master::valid_bind(doer, old owner = doer, new owner) for f_bind -/
  vb : Nat → Oid → Oid → Ans := fun _ _ _ => .int 1
  /-- what master::get_root_uid() answers now, when it no longer is the name of the first load (`none`: still `cfg.root`);
      get_bb_uid() may change as well - set_master ignores it after the first load, so the model has nothing for it -/
  root : Nat → Option Name := fun _ => none
  /-- master::valid_object(ob) for a blueprint of that name that load_object is about to create (`none`: the master has no
      opinion - nothing is logged, the load goes on) -/
  vo : Nat → String → Option Ans := fun _ _ => none

inductive Err where
  | noEuidLoad | noEuidClone | exportZero | badArg | policy | simulDest | bindDenied | voDenied
  deriving Repr, BEq, DecidableEq

inductive Res where
  | int (n : Int)
  | oid (o : Oid)
  | nobj
  | err (e : Err)
  deriving Repr, BEq, DecidableEq

/-- one creator_file consultation and/or one create() (`new` line) -/
structure Creation where
  name : String
  ans : Option Ans              -- the master's creator_file answer (none: the master was not asked)
  made : Option Obj             -- the object as its create() saw itself (none: creation aborted)
  deriving Repr, BEq, DecidableEq

/-- everything observable about one step: the event the oracle sees -/
structure StepRec where
  actor : Oid
  op : Op
  vs : Option (Oid × Name × Ans) := none
  creations : List Creation := []
  res : Option Res := none
  snap : Option (List Obj) := none
  crash : Bool := false
  first : Bool := true          -- this segment starts the op (rendering only)
  co : Option (String × CoAns) := none     -- master::compile_object was asked (path, what it did)
  vsnap : List Oid := []        -- ids whose object is virtual (virtualp) at the snapshot
  vb : Option (Oid × Oid × Ans) := none    -- master::valid_bind was asked (doer = old owner, new owner, verdict)
  bindTo : Option Oid := none   -- this segment starts a bind(): the function will run as that object
  vo : Option (String × Ans) := none      -- master::valid_object was asked about the blueprint of that name
  fpOwner : Option Oid := none  -- this segment ends a via / bind op: its result is geteuid(function) of a function owned by that object
  deriving Repr, BEq, DecidableEq

/-! registry: association list keyed by `oid` -/

def getO : List Obj → Oid → Option Obj
  | [], _ => none
  | o :: l, k => if o.oid = k then some o else getO l k

def delO : List Obj → Oid → List Obj
  | [], _ => []
  | o :: l, k => if o.oid = k then delO l k else o :: delO l k

/-- replace or insert -/
def setO (l : List Obj) (o : Obj) : List Obj := o :: delO l o.oid

structure World where
  objs : List Obj               -- registered live objects (the master is `m`)
  loaded : List String          -- names of blueprints in the driver's object table
  half : List String            -- subset of `loaded`: entered into the table, never given uids by the master nor created
  cloneSeq : Nat                -- make_new_name counter
  virt : List String := []      -- names in the object table that are virtual objects (O_VIRTUAL)
  vSeq : Nat := 0               -- the verification master's counter of compiled objects (`v<n>`)
  curName : List (Oid × String) := []   -- objects the driver renamed (virtual objects): current file_name
  virtOids : List Oid := []     -- registered objects with O_VIRTUAL
  deriving Repr

/-- file_name() now: virtual objects were renamed after their creation -/
def World.nameOf (w : World) (o : Obj) : String :=
  match w.curName.find? (fun e => e.1 = o.oid) with
  | some e => e.2
  | none => o.name

/-- registry id of the object that carries `name` now -/
def World.oidOfName (w : World) (name : String) (dflt : Oid) : Oid :=
  match w.curName.find? (fun e => e.2 = name) with
  | some e => e.1
  | none => dflt

/-- the objects that exist before the first step.  set_master (first load): uid = euid = get_root_uid(), and without
    get_root_uid() the uids give_uid_to_object assigned before the master existed: "NONAME" / 0 - which is also what the
    simul_efun object has (it is loaded before the master) -/
def initObjs (cfg : Cfg) : List Obj :=
  { oid := masterOid, name := "/c20/master", uid := some (if cfg.noRoot then "NONAME" else cfg.root),
    euid := if cfg.noRoot then none else some cfg.root } ::
  (if cfg.simul then [{ oid := simulOid, name := "/c20/simul", uid := some "NONAME", euid := none }] else [])

def World.init (cfg : Cfg) : World :=
  { objs := initObjs cfg, loaded := [], half := [], cloneSeq := 1 }

def creatorName : Ans → Name
  | .str s => s
  | _ => "NONAME"

/-- give_uid_to_object with a current_object (`creator`) -/
def giveUid (cfg : Cfg) (creator : Obj) (a : Ans) : Option Name × Option Name :=
  let cn := creatorName a
  if creator.uid = some cn then (creator.uid, none)
  else if autoTrustBackbone = true ∧ cfg.bb = some cn ∧ creator.euid ≠ none then (creator.euid, creator.euid)
  else (some cn, none)

/-- f_getuid: a NULL uid is dereferenced -/
def getuid (o : Obj) : Except Unit Name :=
  match o.uid with
  | some n => .ok n
  | none => .error ()

def crashes (creations : List Creation) (snap : List Obj) : Bool :=
  creations.any (fun c => match c.made with
    | some m => m.uid.isNone
    | none => false) || snap.any (fun o => o.uid.isNone)

/-- master creator_file + give_uid_to_object + create() for one new object;
    third component: false when the master apply raised an error -/
def create (cfg : Cfg) (pol : Policy) (i : Nat) (w : World) (creator : Obj) (oid : Oid) (name : String)
    (blueprint : Bool) : World × Creation × Bool :=
  let a := pol.cf i name
  let w1 := if blueprint then { w with loaded := name :: w.loaded } else w
  if a = .err then
    (if blueprint then { w1 with half := name :: w1.half } else w1, { name := name, ans := some a, made := none }, false)
  else
    let ue := giveUid cfg creator a
    let o : Obj := { oid := oid, name := name, uid := ue.1, euid := ue.2 }
    ({ w1 with objs := setO w1.objs o }, { name := name, ans := some a, made := some o }, true)

def doSeteuidInt (w : World) (A : Obj) (n : Int) : World × List Creation × Option (Oid × Name × Ans) × Res :=
  if n = 0 then ({ w with objs := setO w.objs { A with euid := none } }, [], none, .int 1)
  else (w, [], none, .err .badArg)

def doSeteuidStr (pol : Policy) (i : Nat) (w : World) (A : Obj) (s : Name) :
    World × List Creation × Option (Oid × Name × Ans) × Res :=
  let a := pol.vs i A.oid s
  if a = .err then (w, [], some (A.oid, s, a), .err .policy)
  else if a.approved then ({ w with objs := setO w.objs { A with euid := some s } }, [], some (A.oid, s, a), .int 1)
  else (w, [], some (A.oid, s, a), .int 0)

def doExport (w : World) (A : Obj) (t : Oid) : World × List Creation × Option (Oid × Name × Ans) × Res :=
  match getO w.objs t with
  | none => (w, [], none, .nobj)
  | some T =>
    if A.euid = none then (w, [], none, .err .exportZero)
    else if T.euid ≠ none then (w, [], none, .int 0)
    else ({ w with objs := setO w.objs { T with uid := A.euid } }, [], none, .int 1)

def doLoad (cfg : Cfg) (pol : Policy) (i : Nat) (w : World) (A : Obj) (p : Path) :
    World × List Creation × Option (Oid × Name × Ans) × Res :=
  -- harness: an object that would be registered under a taken id is not loaded
  if (p.name ∉ w.loaded ∨ p.name ∈ w.half) ∧ getO w.objs p.oid ≠ none then (w, [], none, .nobj)
  else if p.name ∈ w.loaded then
    if p.name ∈ w.half then
      -- found in the object table but never created: the harness initialises it late (create() body)
      let o : Obj := { oid := p.oid, name := p.name, uid := some "NONAME", euid := none }
      ({ w with objs := setO w.objs o, half := w.half.filter (· ≠ p.name) },
       [{ name := p.name, ans := none, made := some o }], none, .oid p.oid)
    else (w, [], none, .oid (w.oidOfName p.name p.oid))
  else if A.oid ≠ masterOid ∧ A.euid = none then (w, [], none, .err .noEuidLoad)
  else if p.exists = false then (w, [], none, .int 0)
  else
    let (w1, c, ok) := create cfg pol i w A p.oid p.name true
    (w1, [c], none, if ok then .oid p.oid else .err .policy)

/-- harness guards and the euid test at the top of clone_object; `none` = go on -/
def clonePre (w : World) (A : Obj) (newOid : Oid) (p : Path) : Option Res :=
  if newOid ∈ reservedOids ∨ getO w.objs newOid ≠ none then some .nobj
  else if p.name ∉ w.loaded ∧ getO w.objs p.oid ≠ none then some .nobj
  else if p.name ∉ w.loaded ∧ p.parent ≠ none then some .nobj      -- harness: inheriting blueprints are loaded, not cloned unloaded
  else if A.oid ≠ masterOid ∧ A.euid = none then some (.err .noEuidClone)
  else none

/-- the clone itself: make_new_name, give_uid_to_object, create() -/
def cloneSelf (cfg : Cfg) (pol : Policy) (i : Nat) (w : World) (A : Obj) (newOid : Oid) (p : Path) :
    World × Creation × Bool :=
  create cfg pol i { w with cloneSeq := w.cloneSeq + 1 } A newOid (p.name ++ "#" ++ toString w.cloneSeq) false

def doDest (cfg : Cfg) (rootNow : Name) (w : World) (A : Obj) (t : Oid) : World × List Creation × Option (Oid × Name × Ans) × Res :=
  match getO w.objs t with
  | none => (w, [], none, .nobj)
  | some T =>
    if t = masterOid then
      -- destruct_object(master_ob): load_object of a new master on behalf of the caller (its euid test), the old
      -- master's creator_file answers for the master file (not logged), then set_master: uid = euid = get_root_uid()
      -- = `rootNow`, what the NEW master answers - through add_uid: a uid record of its own (or the existing one of
      -- that name); the root uid record of the first load is never renamed, every other object keeps its names
      -- (harness: a master without get_root_uid() is not reloaded - its uids would come from that unlogged answer)
      if cfg.noRoot = true then (w, [], none, .nobj)
      else if A.oid ≠ masterOid ∧ A.euid = none then (w, [], none, .err .noEuidLoad)
      else
        let M' : Obj := { T with uid := some rootNow, euid := some rootNow }
        ({ w with objs := setO w.objs M' }, [{ name := w.nameOf T, ans := none, made := some M' }], none, .int 1)
    else if t = simulOid then
      -- destruct_object: "*Cannot destruct simul_efun_object while master_object exists."
      (w, [], none, .err .simulDest)
    else ({ w with objs := delO w.objs t, loaded := w.loaded.filter (· ≠ w.nameOf T),
                   virt := w.virt.filter (· ≠ w.nameOf T), curName := w.curName.filter (·.1 ≠ t),
                   virtOids := w.virtOids.filter (· ≠ t) }, [], none, .int 1)

def doReload (w : World) (t : Oid) : World × List Creation × Option (Oid × Name × Ans) × Res :=
  match getO w.objs t with
  | none => (w, [], none, .nobj)
  | some T =>
    -- (also of the master object: reload_object(master()) is open to everybody and resets the master's euid)
    let o : Obj := { T with euid := none }
    ({ w with objs := setO w.objs o }, [{ name := w.nameOf T, ans := none, made := some o }], none, .int 1)

/-- one segment record: what happened between two uid snapshots, in the context (actor, op) of the innermost
    running op; closed by the snapshot of every registered object (getuid on each) -/
def seg (w1 : World) (a : Oid) (op : Op) (vs : Option (Oid × Name × Ans)) (cs : List Creation) (res : Option Res)
    (first : Bool) : StepRec :=
  { actor := a, op := op, vs := vs, creations := cs, res := res, snap := some w1.objs,
    crash := crashes cs w1.objs, first := first, vsnap := w1.virtOids }

/-- segment in which master::compile_object was asked -/
def segCo (w1 : World) (a : Oid) (op : Op) (first : Bool) (co : String × CoAns) : StepRec :=
  { seg w1 a op none [] none first with co := some co }

/-- file-name key of the create() script: clones share `<path>#` -/
def scriptKey (name : String) : String :=
  match name.splitOn "#" with
  | [b, _] => b ++ "#"
  | _ => name

/-- runner of a create() script: world, acting object id, script key -/
abbrev Sub := World → Oid → String → World × List StepRec
/-- runner of one (nested) op -/
abbrev Run := World → Oid → Op → World × List StepRec

def single (a : Oid) (op : Op) (x : World × List Creation × Option (Oid × Name × Ans) × Res) : World × List StepRec :=
  (x.1, [seg x.1 a op x.2.2.1 x.2.1 (some x.2.2.2) true])

def singleF (a : Oid) (op : Op) (x : World × List Creation × Option (Oid × Name × Ans) × Res) (first : Bool) :
    World × List StepRec :=
  (x.1, [seg x.1 a op x.2.2.1 x.2.1 (some x.2.2.2) first])

/-- give_uid_to_object asks master::creator_file(name) through apply_master_ob and reads current_object->uid / ->euid
    only AFTERWARDS: what the apply did to the creating object counts.  The verification master can (policy `cfDrop`)
    call back into the creating object when that is the master itself and make it `seteuid(0)` before it answers:
    the open segment of the op is closed, the nested op runs (`run`), and the creation `k` continues from the world
    after it with the creating object re-read.  `active`: the op really reaches creator_file. -/
def withCfPre (pol : Policy) (i : Nat) (run : Run) (active : Bool) (w : World) (a : Oid) (op : Op) (first : Bool)
    (name : String) (k : World → Obj → Bool → World × List StepRec) : World × List StepRec :=
  match getO w.objs a with
  | none => (w, [seg w a op none [] (some .nobj) first])
  | some A =>
    if active = true ∧ pol.cfDrop i name = true ∧ a = masterOid then
      let y := run w masterOid (.seteuidInt 0)
      match getO y.1.objs a with
      | none => (y.1, seg w a op none [] none first :: y.2 ++ [seg y.1 a op none [] (some .nobj) false])
      | some A2 =>
        let r := k y.1 A2 false
        (r.1, seg w a op none [] none first :: y.2 ++ r.2)
    else k w A first

/-- the object a one-creation phase really created (creator_file was asked and create() ran) -/
def createdNow : List Creation → Option Obj
  | [c] => if c.ans.isSome then c.made else none
  | _ => none

/-! virtual objects -/

inductive VOut where
  | obj (v : Oid)
  | zero
  | err
  deriving Repr, BEq, DecidableEq

def VOut.res : VOut → Res
  | .obj v => .oid v
  | .zero => .int 0
  | .err => .err .policy

/-- load_virtual_object: master::compile_object(path) on behalf of the running op (a, op).  With a template policy
    the verification master clones the template as `v<n>` (an op of the master like any other, with everything
    that nests in it) and returns it; the driver renames that object - to the virtual path (load_object), or to
    `<path>#<n>` (the virtual branch of clone_object).  No give_uid_to_object: it keeps the uids the master's clone got. -/
def virtCore (pol : Policy) (i : Nat) (run : Run) (w : World) (a : Oid) (op : Op) (first : Bool) (p : Path)
    (asClone : Bool) : World × List StepRec × VOut :=
  match pol.co i p.name with
  | .silent => (w, [], .zero)
  | .none => (w, [segCo w a op first (p.name, .none)], .zero)
  | .nonobj n => (w, [segCo w a op first (p.name, .nonobj n)], .zero)
  | .err => (w, [segCo w a op first (p.name, .err)], .err)
  | .tmpl t =>
    let v : Oid := "v" ++ toString (w.vSeq + 1)
    let w1 : World := { w with vSeq := w.vSeq + 1 }
    let y := run w1 masterOid (.clone v t)
    let ok : Bool := decide ((y.2.getLast?.bind (·.res)) = some (.oid v))
    let s1 := segCo w1 a op first (p.name, .tmpl t)
    if ok = true ∧ (getO y.1.objs v).isSome then
      let nm := if asClone then p.name ++ "#" ++ toString y.1.cloneSeq else p.name
      let w3 : World :=
        { y.1 with curName := (v, nm) :: y.1.curName, virtOids := v :: y.1.virtOids,
                   loaded := if asClone then y.1.loaded else p.name :: y.1.loaded,
                   virt := if asClone then y.1.virt else p.name :: y.1.virt,
                   cloneSeq := if asClone then y.1.cloneSeq + 1 else y.1.cloneSeq }
      (w3, s1 :: y.2, .obj v)
    else (y.1, s1 :: y.2, .zero)

/-- load_object reaches the file system check with no file there: the conditions under which compile_object is asked -/
def needsCompile (w : World) (A : Obj) (p : Path) : Bool :=
  decide (¬ ((p.name ∉ w.loaded ∨ p.name ∈ w.half) ∧ getO w.objs p.oid ≠ none) ∧ p.name ∉ w.loaded ∧
    ¬ (A.oid ≠ masterOid ∧ A.euid = none) ∧ p.exists = false)

/-- load_object, once the new blueprint is in the object table (default uid "NONAME"): master valid_object(ob) through the
    non-catching apply.  An error in it unwinds out of load_object and leaves the loaded, never created object behind
    (`half`, like an error in creator_file); a refusing verdict (`mret && !MASTER_APPROVED(mret)`) destructs the object again
    and raises the error; an approving one lets the load go on (`k`) - the verification master closes the segment with a
    snapshot then.  `active`: the op really reaches this point. -/
def withVo (pol : Policy) (i : Nat) (active : Bool) (w : World) (a : Oid) (op : Op) (first : Bool) (name : String)
    (k : Bool → World × List StepRec) : World × List StepRec :=
  match (if active then pol.vo i name else none) with
  | none => k first
  | some v =>
    if v = .err then
      let w1 : World := { w with loaded := name :: w.loaded, half := name :: w.half }
      (w1, [{ seg w1 a op none [] (some (.err .policy)) first with vo := some (name, v) }])
    else if v.approved = false then
      (w, [{ seg w a op none [] (some (.err .voDenied)) first with vo := some (name, v) }])
    else
      let r := k false
      (r.1, { seg w a op none [] none first with vo := some (name, v) } :: r.2)

/-- load_object reaches creator_file: not found in the object table, euid test passed, the file exists -/
def loadCreates (w : World) (A : Obj) (p : Path) : Bool :=
  decide (¬ ((p.name ∉ w.loaded ∨ p.name ∈ w.half) ∧ getO w.objs p.oid ≠ none) ∧ p.name ∉ w.loaded ∧
    ¬ (A.oid ≠ masterOid ∧ A.euid = none) ∧ p.exists = true)

/-- load_object of an ordinary (non virtual) path `p` from world `w`, as part of the op `op` (the load op itself, or the load of
    the file that inherits `p`).  `k = some ..`: the nested load_object of an inherited file - after its create() the caller
    goes on (`k`) instead of returning a result -/
def execLoadCore (cfg : Cfg) (pol : Policy) (i : Nat) (sub : Sub) (w : World) (a : Oid) (A : Obj) (p : Path) (op : Op)
    (first : Bool) (k : Option (World → World × List StepRec)) : World × List StepRec :=
  let x := doLoad cfg pol i w A p
  match createdNow x.2.1 with
  | none => singleF a op x first
  | some o =>
    let y := sub x.1 o.oid p.name
    match k with
    | none => (y.1, seg x.1 a op none x.2.1 none first :: y.2 ++ [seg y.1 a op none [] (some x.2.2.2) false])
    | some k =>
      let z := k y.1
      (z.1, seg x.1 a op none x.2.1 none first :: y.2 ++ z.2)

/-- valid_object, creator_file (with the master's callback), creation and create() script of blueprint `p` -/
def loadPlain (cfg : Cfg) (pol : Policy) (i : Nat) (run : Run) (sub : Sub) (w : World) (a : Oid) (A : Obj) (p : Path) (op : Op)
    (first : Bool) (k : Option (World → World × List StepRec)) : World × List StepRec :=
  withVo pol i (loadCreates w A p) w a op first p.name fun f0 =>
    withCfPre pol i run (loadCreates w A p) w a op f0 p.name
      (fun W A2 f => execLoadCore cfg pol i sub W a A2 p op f k)

def execLoad (cfg : Cfg) (pol : Policy) (i : Nat) (run : Run) (sub : Sub) (w : World) (a : Oid) (A : Obj) (p : Path) :
    World × List StepRec :=
  if needsCompile w A p = true then
    let v := virtCore pol i run w a (.load p) true p false
    (v.1, v.2.1 ++ [seg v.1 a (.load p) none [] (some v.2.2.res) v.2.1.isEmpty])
  else
    match p.parent with
    | some q =>
      if loadCreates w A p = true ∧ q.name ∉ w.loaded then
        -- compiling `p` finds the program it inherits missing: load_object(q) for the SAME current_object (its own euid test,
        -- valid_object, creator_file, create()), then load_object(p) starts again from the top (test repeated)
        loadPlain cfg pol i run sub w a A q (.load p) true (some fun W =>
          match getO W.objs a with
          | none => (W, [seg W a (.load p) none [] (some .nobj) false])
          | some A' => loadPlain cfg pol i run sub W a A' p (.load p) false none)
      else loadPlain cfg pol i run sub w a A p (.load p) true none
    | none => loadPlain cfg pol i run sub w a A p (.load p) true none

/-- second half of clone_object from world `w` (after the blueprint's create() script): the clone is made by the
    same object `A'` with the uids it has now, then the clone's create() script runs -/
def cloneTail (cfg : Cfg) (pol : Policy) (i : Nat) (sub : Sub) (w : World) (a : Oid) (A' : Obj) (newOid : Oid)
    (p : Path) (first : Bool) : World × List StepRec :=
  let op := Op.clone newOid p
  let c := cloneSelf cfg pol i w A' newOid p
  if c.2.2 = false then (c.1, [seg c.1 a op none [c.2.1] (some (.err .policy)) first])
  else
    let y := sub c.1 newOid (p.name ++ "#")
    (y.1, seg c.1 a op none [c.2.1] none first :: y.2 ++ [seg y.1 a op none [] (some (.oid newOid)) false])

/-- clone_object once find_or_load_object has returned the blueprint (world `w`, segments so far not empty iff
    `first = false`): the repeated euid test (third fix: commit), then the virtual branch or the ordinary clone -/
def clonePhase2 (cfg : Cfg) (pol : Policy) (i : Nat) (run : Run) (sub : Sub) (w : World) (a : Oid) (newOid : Oid)
    (p : Path) (first : Bool) : World × List StepRec :=
  let op := Op.clone newOid p
  match getO w.objs a with
  | none => (w, [seg w a op none [] (some .nobj) first])        -- the caller is gone (not reachable: see Keeps)
  | some A' =>
    if A'.oid ≠ masterOid ∧ A'.euid = none then (w, [seg w a op none [] (some (.err .noEuidClone)) first])
    else if p.name ∈ w.virt then
      let v := virtCore pol i run w a op first p true
      (v.1, v.2.1 ++ [seg v.1 a op none [] (some v.2.2.res) (first && v.2.1.isEmpty)])
    else
      -- make_new_name, then init_object = give_uid_to_object: creator_file for the clone's name
      withCfPre pol i run true w a op first (p.name ++ "#" ++ toString w.cloneSeq)
        (fun W A2 f => cloneTail cfg pol i sub W a A2 newOid p f)

/-- clone_object of a path whose blueprint has to be loaded first: creator_file + create() of the blueprint, its
    script, then the second half -/
def cloneBlueprint (cfg : Cfg) (pol : Policy) (i : Nat) (run : Run) (sub : Sub) (w : World) (a : Oid) (A : Obj)
    (newOid : Oid) (p : Path) (first : Bool) : World × List StepRec :=
  let op := Op.clone newOid p
  let b := create cfg pol i w A p.oid p.name true
  if b.2.2 = false then (b.1, [seg b.1 a op none [b.2.1] (some (.err .policy)) first])
  else
    -- blueprint created just now: its segment and its create() script
    let y := sub b.1 p.oid p.name
    let t := clonePhase2 cfg pol i run sub y.1 a newOid p false
    (t.1, seg b.1 a op none [b.2.1] none first :: y.2 ++ t.2)

def execClone (cfg : Cfg) (pol : Policy) (i : Nat) (run : Run) (sub : Sub) (w : World) (a : Oid) (A : Obj)
    (newOid : Oid) (p : Path) : World × List StepRec :=
  let op := Op.clone newOid p
  match clonePre w A newOid p with
  | some r => (w, [seg w a op none [] (some r) true])
  | none =>
    if p.name ∈ w.loaded then clonePhase2 cfg pol i run sub w a newOid p true
    else if p.exists = false then
      -- find_or_load_object -> load_object -> no file: a virtual object
      let v := virtCore pol i run w a op true p false
      match v.2.2 with
      | .obj _ =>
        let t := clonePhase2 cfg pol i run sub v.1 a newOid p false
        (t.1, v.2.1 ++ t.2)
      | out => (v.1, v.2.1 ++ [seg v.1 a op none [] (some out.res) v.2.1.isEmpty])
    else
      withVo pol i true w a op true p.name fun f0 =>
        withCfPre pol i run true w a op f0 p.name (fun W A2 f => cloneBlueprint cfg pol i run sub W a A2 newOid p f)

def execReload (sub : Sub) (w : World) (a : Oid) (t : Oid) : World × List StepRec :=
  let x := doReload w t
  match x.2.1 with
  | [c] =>
    (match c.made with
     | some o =>
       let y := sub x.1 o.oid (scriptKey (w.nameOf o))
       (y.1, seg x.1 a (.reload t) none x.2.1 none true :: y.2 ++ [seg y.1 a (.reload t) none [] (some x.2.2.2) false])
     | none => single a (.reload t) x)
  | _ => single a (.reload t) x

/-- inside a create() script the harness lets reload_object through only for objects whose own create() has no script -/
def reloadRefused (pol : Policy) (i : Nat) (w : World) (t : Oid) : Bool :=
  match getO w.objs t with
  | some T => !(pol.script i (scriptKey (w.nameOf T))).isEmpty
  | none => false

/-- geteuid(function): the euid of the function's owner, as the harness prints it -/
def fpEuid (S : List Obj) (t : Oid) : Res :=
  match getO S t with
  | some T' => (match T'.euid with
    | some n => .oid ("s:" ++ n)
    | none => .int 0)
  | none => .int 0

/-- efun pointers the harness binds: load_object / clone_object -/
def bindable : Op → Bool
  | .load _ => true
  | .clone _ _ => true
  | _ => false

/-- one op of `a`; `run` runs the nested op of the master inside compile_object, `sub` the create() scripts of the
    objects made; `nested` = the op is itself part of a create() script (destruct refused by the harness) -/
def execWith (cfg : Cfg) (pol : Policy) (i : Nat) (run : Run) (sub : Sub) (nested : Bool) (w : World) (a : Oid)
    (op : Op) : World × List StepRec :=
  match getO w.objs a with
  | none => (w, [seg w a op none [] (some .nobj) true])
  | some A =>
    match op with
    | .seteuidInt n => single a op (doSeteuidInt w A n)
    | .seteuidStr s => single a op (doSeteuidStr pol i w A s)
    | .exportUid t => single a op (doExport w A t)
    | .load p => execLoad cfg pol i run sub w a A p
    | .clone o p => execClone cfg pol i run sub w a A o p
    | .dest t => if nested then (w, [seg w a op none [] (some .nobj) true]) else single a op (doDest cfg ((pol.root i).getD cfg.root) w A t)
    | .reload t =>
      if nested = true ∧ reloadRefused pol i w t = true then (w, [seg w a op none [] (some .nobj) true])
      else execReload sub w a t
    | .via t op' =>
      -- the function runs with its OWNER as current_object (whose euid counts for what it creates); afterwards
      -- the harness reports geteuid(function) = the owner's euid
      match getO w.objs t with
      | none => (w, [seg w a op none [] (some .nobj) true])
      | some _ =>
        let y := run w t op'
        (y.1, seg w a op none [] none true :: y.2 ++
          [{ seg y.1 a op none [] (some (fpEuid y.1.objs t)) false with fpOwner := some t }])
    | .bind t op' =>
      -- lib/lpc/operator.c f_bind: same owner = nothing to do (the master is not asked); otherwise master
      -- valid_bind(doer, old owner, new owner) through the NON-catching apply, refusal iff !MASTER_APPROVED = error;
      -- the bound function then runs with the NEW owner as current_object (its euid counts); afterwards the harness
      -- reports geteuid(bound function) = the new owner's euid
      match getO w.objs t with
      | none => (w, [seg w a op none [] (some .nobj) true])
      | some _ =>
        if bindable op' = false then (w, [seg w a op none [] (some .nobj) true])
        else
          let v := pol.vb i a t
          let asked : Option (Oid × Oid × Ans) := if t = a then none else some (a, t, v)
          if t ≠ a ∧ cfg.noVb = true then
            -- no valid_bind in the master: nothing is logged, the NULL result refuses
            (w, [seg w a op none [] (some (.err .bindDenied)) true])
          else if t ≠ a ∧ v = .err then (w, [{ seg w a op none [] (some (.err .policy)) true with vb := asked, bindTo := none }])
          else if t ≠ a ∧ v.approved = false then
            (w, [{ seg w a op none [] (some (.err .bindDenied)) true with vb := asked, bindTo := none }])
          else
            let y := run w t op'
            (y.1, { seg w a op none [] none true with vb := asked, bindTo := some t } :: y.2 ++
              [{ seg y.1 a op none [] (some (fpEuid y.1.objs t)) false with fpOwner := some t }])

def runScript (f : Run) (w : World) (o : Oid) : List Op → World × List StepRec
  | [] => (w, [])
  | op :: ops =>
    let r := f w o op
    let r2 := runScript f r.1 o ops
    (r2.1, r.2 ++ r2.2)

/-- ops with nested create() scripts and nested master ops, recursion bounded by fuel (fuel 0: scripts are skipped,
    the master's compile_object makes nothing) -/
def exec (cfg : Cfg) (pol : Policy) (i : Nat) : Nat → Bool → World → Oid → Op → World × List StepRec
  | 0, nested, w, a, op => execWith cfg pol i (fun w _ _ => (w, [])) (fun w _ _ => (w, [])) nested w a op
  | fuel + 1, nested, w, a, op =>
    execWith cfg pol i (exec cfg pol i fuel true)
      (fun w o key => runScript (exec cfg pol i fuel true) w o (pol.script i key)) nested w a op

/-- one harness step `do <actor> <op>` -/
def step (cfg : Cfg) (pol : Policy) (fuel : Nat) (i : Nat) (w : World) (a : Oid) (op : Op) : World × List StepRec :=
  exec cfg pol i fuel false w a op

/-- the trace of a history from world `w` (step numbers from `i`); a crashed driver performs nothing more -/
def runFrom (cfg : Cfg) (pol : Policy) (fuel : Nat) : Nat → World → List (Oid × Op) → List StepRec
  | _, _, [] => []
  | i, w, (a, op) :: rest =>
    let x := step cfg pol fuel i w a op
    x.2 ++ (if x.2.any (·.crash) then [] else runFrom cfg pol fuel (i + 1) x.1 rest)

/-- the event trace of a history -/
def events (cfg : Cfg) (pol : Policy) (fuel : Nat) (hist : List (Oid × Op)) : List StepRec :=
  runFrom cfg pol fuel 0 (World.init cfg) hist

end NV.C20
