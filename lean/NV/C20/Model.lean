/-
C20 — executable model of the uid/euid rules of the driver.

Mirrors, line by line (current source, i.e. including the two `fix:` commits of branch c20):
  src/simulate.c  give_uid_to_object   -> `giveUid`      creator_file answer kinds (string / anything else = "NONAME"),
                                                         same-uid-as-creator rule (uid copied, euid stays 0),
                                                         AUTO_TRUST_BACKBONE rule (only when the creator HAS an euid),
                                                         otherwise uid = answer, euid = 0
                  load_object          -> `doLoad`       object-table lookup first (find_or_load_object), then
                                                         "no effective user" test with the master exemption, file
                                                         existence, default uid "NONAME" before the object becomes
                                                         visible, master creator_file (an error in the apply leaves a
                                                         loaded, never created object behind: `half`)
                  clone_object         -> `doClone`      euid test with the master exemption, blueprint find-or-load,
                                                         make_new_name counter, give_uid_to_object, create
                  set_master           -> `World.init`   master uid = euid = get_root_uid()
  lib/efuns/uids.c f_seteuid           -> `doSeteuidInt` / `doSeteuidStr` (0 always allowed, other ints bad argument,
                                                         strings only with MASTER_APPROVED(valid_seteuid))
                  f_export_uid         -> `doExport`     caller euid 0 = error; target euid != 0 = 0; else target UID
                                                         := caller EUID
                  f_getuid             -> `getuid`       NULL uid = crash (explicit outcome)
  lib/lpc/object.c reload_object       -> `doReload`     euid := 0, create() again

Compile-time options come from NV/Gen/C20.lean (`autoTrustBackbone`; AUTO_SETEUID is recorded there, the source has
no code depending on it - the plugin checks that).

The mudlib side is the scripted harness of harness/mudlib/c20 (registry of object ids, one op per step, `new` line
from create(), uid snapshot after every step); master applies are an oracle `Policy`.
-/
import NV.Gen.C20

namespace NV.C20

abbrev Name := String
abbrev Oid := String

/-- `#ifdef AUTO_TRUST_BACKBONE` of lib/efuns/options.h, regenerated on every run -/
def autoTrustBackbone : Bool := decide (NV.Gen.C20.autoTrustBackbone ≠ 0)

/-- what a master apply did: returned a string / an int / an array (any other non-number) / raised an error /
    returned 0 through `return 0` (`none`, semantically the int 0) -/
inductive Ans where
  | str (s : String)
  | int (n : Int)
  | arr
  | err
  | none
  deriving Repr, BEq, DecidableEq

/-- src/apply.h MASTER_APPROVED on the returned svalue (`err` never reaches the macro: the error unwinds first) -/
def Ans.approved : Ans → Bool
  | .str _ => true
  | .int n => decide (n ≠ 0)
  | .arr => true
  | .err => false
  | .none => false

/-- master policy oracle: answers may depend on the step number (policies are switchable), on the name passed
    to creator_file, and on (object, uid) for valid_seteuid -/
structure Policy where
  cf : Nat → String → Ans
  vs : Nat → Oid → Name → Ans

/-- mudlib configuration: get_root_uid() and get_bb_uid() of the master (backbone may be unset) -/
structure Cfg where
  root : Name
  bb : Option Name

structure Path where
  dir : String
  file : String
  deriving Repr, BEq, DecidableEq

def Path.name (p : Path) : String := "/c20/" ++ p.dir ++ "/" ++ p.file
def Path.oid (p : Path) : Oid := p.dir ++ p.file

def dirs : List String := ["u1", "u2", "bb", "root", "odd"]
def files : List String := ["a", "b", "c"]
/-- the source files present in harness/mudlib/c20 -/
def Path.exists (p : Path) : Bool := dirs.contains p.dir && files.contains p.file

def masterOid : Oid := "m"
/-- object ids a clone may not take: the master's and the blueprints' own ids -/
def reservedOids : List Oid := masterOid :: dirs.flatMap (fun d => files.map (fun f => d ++ f))

structure Obj where
  oid : Oid
  name : String                 -- file_name()
  uid : Option Name             -- object_t.uid  (none = NULL)
  euid : Option Name            -- object_t.euid (none = NULL = 0)
  deriving Repr, BEq, DecidableEq

inductive Op where
  | seteuidStr (s : Name)
  | seteuidInt (n : Int)
  | exportUid (target : Oid)
  | load (p : Path)
  | clone (newOid : Oid) (p : Path)
  | dest (target : Oid)
  | reload (target : Oid)
  deriving Repr, BEq, DecidableEq

inductive Err where
  | noEuidLoad | noEuidClone | exportZero | badArg | policy
  deriving Repr, BEq, DecidableEq

inductive Res where
  | int (n : Int)
  | oid (o : Oid)
  | nobj
  | err (e : Err)
  deriving Repr, BEq, DecidableEq

/-- one creator_file consultation and/or one create() (`new` line) -/
structure Creation where
  name : String
  ans : Option Ans              -- the master's creator_file answer (none: the master was not asked)
  made : Option Obj             -- the object as its create() saw itself (none: creation aborted)
  deriving Repr, BEq, DecidableEq

/-- everything observable about one step: the event the oracle sees -/
structure StepRec where
  actor : Oid
  op : Op
  vs : Option (Oid × Name × Ans) := none
  creations : List Creation := []
  res : Option Res := none
  snap : Option (List Obj) := none
  crash : Bool := false
  deriving Repr, BEq, DecidableEq

/-! registry: association list keyed by `oid` -/

def getO : List Obj → Oid → Option Obj
  | [], _ => none
  | o :: l, k => if o.oid = k then some o else getO l k

def delO : List Obj → Oid → List Obj
  | [], _ => []
  | o :: l, k => if o.oid = k then delO l k else o :: delO l k

/-- replace or insert -/
def setO (l : List Obj) (o : Obj) : List Obj := o :: delO l o.oid

structure World where
  objs : List Obj               -- registered live objects (the master is `m`)
  loaded : List String          -- names of blueprints in the driver's object table
  half : List String            -- subset of `loaded`: entered into the table, never given uids by the master nor created
  cloneSeq : Nat                -- make_new_name counter
  deriving Repr

def World.init (cfg : Cfg) : World :=
  { objs := [{ oid := masterOid, name := "/c20/master", uid := some cfg.root, euid := some cfg.root }],
    loaded := [], half := [], cloneSeq := 1 }

def creatorName : Ans → Name
  | .str s => s
  | _ => "NONAME"

/-- give_uid_to_object with a current_object (`creator`) -/
def giveUid (cfg : Cfg) (creator : Obj) (a : Ans) : Option Name × Option Name :=
  let cn := creatorName a
  if creator.uid = some cn then (creator.uid, none)
  else if autoTrustBackbone = true ∧ cfg.bb = some cn ∧ creator.euid ≠ none then (creator.euid, creator.euid)
  else (some cn, none)

/-- f_getuid: a NULL uid is dereferenced -/
def getuid (o : Obj) : Except Unit Name :=
  match o.uid with
  | some n => .ok n
  | none => .error ()

def crashes (creations : List Creation) (snap : List Obj) : Bool :=
  creations.any (fun c => match c.made with
    | some m => m.uid.isNone
    | none => false) || snap.any (fun o => o.uid.isNone)

/-- close a step: uid snapshot of every registered object (getuid on each) -/
def fin (w : World) (r : StepRec) : World × StepRec :=
  (w, { r with snap := some w.objs, crash := crashes r.creations w.objs })

/-- master creator_file + give_uid_to_object + create() for one new object;
    third component: false when the master apply raised an error -/
def create (cfg : Cfg) (pol : Policy) (i : Nat) (w : World) (creator : Obj) (oid : Oid) (name : String)
    (blueprint : Bool) : World × Creation × Bool :=
  let a := pol.cf i name
  let w1 := if blueprint then { w with loaded := name :: w.loaded } else w
  if a = .err then
    (if blueprint then { w1 with half := name :: w1.half } else w1, { name := name, ans := some a, made := none }, false)
  else
    let ue := giveUid cfg creator a
    let o : Obj := { oid := oid, name := name, uid := ue.1, euid := ue.2 }
    ({ w1 with objs := setO w1.objs o }, { name := name, ans := some a, made := some o }, true)

def doSeteuidInt (w : World) (A : Obj) (n : Int) : World × List Creation × Option (Oid × Name × Ans) × Res :=
  if n = 0 then ({ w with objs := setO w.objs { A with euid := none } }, [], none, .int 1)
  else (w, [], none, .err .badArg)

def doSeteuidStr (pol : Policy) (i : Nat) (w : World) (A : Obj) (s : Name) :
    World × List Creation × Option (Oid × Name × Ans) × Res :=
  let a := pol.vs i A.oid s
  if a = .err then (w, [], some (A.oid, s, a), .err .policy)
  else if a.approved then ({ w with objs := setO w.objs { A with euid := some s } }, [], some (A.oid, s, a), .int 1)
  else (w, [], some (A.oid, s, a), .int 0)

def doExport (w : World) (A : Obj) (t : Oid) : World × List Creation × Option (Oid × Name × Ans) × Res :=
  match getO w.objs t with
  | none => (w, [], none, .nobj)
  | some T =>
    if A.euid = none then (w, [], none, .err .exportZero)
    else if T.euid ≠ none then (w, [], none, .int 0)
    else ({ w with objs := setO w.objs { T with uid := A.euid } }, [], none, .int 1)

def doLoad (cfg : Cfg) (pol : Policy) (i : Nat) (w : World) (A : Obj) (p : Path) :
    World × List Creation × Option (Oid × Name × Ans) × Res :=
  if p.name ∈ w.loaded then
    if p.name ∈ w.half then
      -- found in the object table but never created: the harness initialises it late (create() body)
      let o : Obj := { oid := p.oid, name := p.name, uid := some "NONAME", euid := none }
      ({ w with objs := setO w.objs o, half := w.half.filter (· ≠ p.name) },
       [{ name := p.name, ans := none, made := some o }], none, .oid p.oid)
    else (w, [], none, .oid p.oid)
  else if A.oid ≠ masterOid ∧ A.euid = none then (w, [], none, .err .noEuidLoad)
  else if p.exists = false then (w, [], none, .int 0)
  else
    let (w1, c, ok) := create cfg pol i w A p.oid p.name true
    (w1, [c], none, if ok then .oid p.oid else .err .policy)

def doClone (cfg : Cfg) (pol : Policy) (i : Nat) (w : World) (A : Obj) (newOid : Oid) (p : Path) :
    World × List Creation × Option (Oid × Name × Ans) × Res :=
  if newOid ∈ reservedOids then (w, [], none, .nobj)
  else if A.oid ≠ masterOid ∧ A.euid = none then (w, [], none, .err .noEuidClone)
  else
    -- find_or_load_object: the blueprint
    let (w1, cs, ok) :=
      if p.name ∈ w.loaded then (w, [], true)
      else if p.exists = false then (w, [], false)
      else
        let (w1, c, ok) := create cfg pol i w A p.oid p.name true
        (w1, [c], ok)
    if ok = false then
      (w1, cs, none, if cs.isEmpty then .int 0 else .err .policy)
    else
      let name := p.name ++ "#" ++ toString w1.cloneSeq
      let w2 := { w1 with cloneSeq := w1.cloneSeq + 1 }
      let (w3, c, ok2) := create cfg pol i w2 A newOid name false
      (w3, cs ++ [c], none, if ok2 then .oid newOid else .err .policy)

def doDest (w : World) (t : Oid) : World × List Creation × Option (Oid × Name × Ans) × Res :=
  match getO w.objs t with
  | none => (w, [], none, .nobj)
  | some T =>
    if t = masterOid then (w, [], none, .nobj)
    else ({ w with objs := delO w.objs t, loaded := w.loaded.filter (· ≠ T.name) }, [], none, .int 1)

def doReload (w : World) (t : Oid) : World × List Creation × Option (Oid × Name × Ans) × Res :=
  match getO w.objs t with
  | none => (w, [], none, .nobj)
  | some T =>
    if t = masterOid then (w, [], none, .nobj)
    else
      let o : Obj := { T with euid := none }
      ({ w with objs := setO w.objs o }, [{ name := T.name, ans := none, made := some o }], none, .int 1)

def doOp (cfg : Cfg) (pol : Policy) (i : Nat) (w : World) (A : Obj) (op : Op) :
    World × List Creation × Option (Oid × Name × Ans) × Res :=
  match op with
  | .seteuidInt n => doSeteuidInt w A n
  | .seteuidStr s => doSeteuidStr pol i w A s
  | .exportUid t => doExport w A t
  | .load p => doLoad cfg pol i w A p
  | .clone o p => doClone cfg pol i w A o p
  | .dest t => doDest w t
  | .reload t => doReload w t

/-- one harness step `do <actor> <op>` -/
def step (cfg : Cfg) (pol : Policy) (i : Nat) (w : World) (a : Oid) (op : Op) : World × StepRec :=
  match getO w.objs a with
  | none => fin w { actor := a, op := op, res := some .nobj }
  | some A =>
    let (w1, cs, vs, res) := doOp cfg pol i w A op
    fin w1 { actor := a, op := op, vs := vs, creations := cs, res := some res }

/-- the trace of a history from world `w` (step numbers from `i`); a crashed driver performs nothing more -/
def runFrom (cfg : Cfg) (pol : Policy) : Nat → World → List (Oid × Op) → List StepRec
  | _, _, [] => []
  | i, w, (a, op) :: rest =>
    let (w1, r) := step cfg pol i w a op
    r :: (if r.crash then [] else runFrom cfg pol (i + 1) w1 rest)

/-- the event trace of a history -/
def events (cfg : Cfg) (pol : Policy) (hist : List (Oid × Op)) : List StepRec :=
  runFrom cfg pol 0 (World.init cfg) hist

end NV.C20
