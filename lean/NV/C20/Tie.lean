/-
C20 — translator ties.  NV/Gen/C20.lean is regenerated on every run from the clang AST of the working tree
(props/c20_extract.py): the path conditions of the euid tests of load_object / clone_object, the guards and
assignments of f_export_uid and f_seteuid (MASTER_APPROVED expanded), the statement order in clone_object, the
shape of give_uid_to_object.  Each lemma states that the regenerated definition is what NV/C20/Model.lean does at
that place; they are obligations of the check, so a changed C line breaks one of them (or leaves the translator's
grammar = broken tie).
-/
import NV.Gen.C20
import NV.C20.Model

namespace NV.C20

open NV.Gen.C20

/-- load_object (master loaded, a current_object): the test fails exactly when the model's
    `A.oid ≠ masterOid ∧ A.euid = none` holds (doLoad, needsCompile, doDest of the master) -/
theorem tie_load_guard (A : Obj) :
    loadRefuses true true (decide (A.oid = masterOid)) A.euid.isSome = true ↔ (A.oid ≠ masterOid ∧ A.euid = none) := by
  unfold loadRefuses
  cases h : A.euid <;> by_cases hm : A.oid = masterOid <;> simp [hm]

/-- loads started by the driver itself (no current_object) are never refused, whatever else holds -/
theorem tie_load_no_current : ∀ m e : Bool, loadRefuses true false m e = false := by decide

theorem tie_load_test_first : loadTestFirst = 1 := by decide

/-- clone_object, test on entry = the model's `clonePre` -/
theorem tie_clone_entry (A : Obj) :
    cloneEntryRefuses true (decide (A.oid = masterOid)) A.euid.isSome = true ↔ (A.oid ≠ masterOid ∧ A.euid = none) := by
  unfold cloneEntryRefuses
  cases h : A.euid <;> by_cases hm : A.oid = masterOid <;> simp [hm]

/-- clone_object, repeated test = the model's `clonePhase2` -/
theorem tie_clone_retest (A : Obj) :
    cloneRetestRefuses true (decide (A.oid = masterOid)) A.euid.isSome = true ↔ (A.oid ≠ masterOid ∧ A.euid = none) := by
  unfold cloneRetestRefuses
  cases h : A.euid <;> by_cases hm : A.oid = masterOid <;> simp [hm]

/-- entry test, then find_or_load_object, then the repeated test, then the virtual branch and every creation -/
theorem tie_clone_order : cloneOrderOk = 1 := by decide

/-- f_export_uid: error exactly for a caller with euid 0 (doExport) -/
theorem tie_export_error (A : Obj) : exportErrors A.euid.isSome = true ↔ A.euid = none := by
  unfold exportErrors
  cases h : A.euid <;> simp

/-- f_export_uid: result 0 exactly for a target that has an euid (doExport) -/
theorem tie_export_target (T : Obj) : exportRefusesTarget T.euid.isSome = true ↔ T.euid ≠ none := by
  unfold exportRefusesTarget
  cases h : T.euid <;> simp

/-- f_export_uid: the accepting branch sets the target's UID to the caller's EUID and returns 1, the refusing
    branch only returns 0, and nothing else in the function writes a uid or euid -/
theorem tie_export_assign :
    exportAssign = ["(ob->uid = current_object->euid)", "(*sp = const1)"] ∧ exportRefuseAssign = ["(*sp = const0)"] ∧
    exportUidWrites = ["(ob->uid = current_object->euid)"] := by decide

/-- f_seteuid: number argument first (non-zero = bad argument, zero clears the own euid without asking anybody),
    then master valid_seteuid through the NON-catching apply (an error in it propagates: `Ans.err`), refusal iff
    !MASTER_APPROVED, then the own euid is set from the argument; no other uid/euid write -/
theorem tie_seteuid_shape :
    seteuidIfs = [s!"if (sp->type & {tNumber})", "if sp->u.number",
                  s!"if !((ret == -1) || (ret && ((ret->type != {tNumber}) || ret->u.number)))"] ∧
    seteuidCalls = ["bad_arg", "apply_master_ob(\"valid_seteuid\", 2)", "add_uid(sp->u.string)"] ∧
    seteuidEuidWrites = ["(current_object->euid = 0)", "(current_object->euid = add_uid(sp->u.string))"] := by decide

/-- the svalue the master returned, as the refusal condition sees it -/
def ansIsNumber : Ans → Bool
  | .int _ => true
  | .none => true
  | _ => false

def ansNumber : Ans → Bool
  | .int n => decide (n ≠ 0)
  | _ => false

/-- f_seteuid's refusal condition on a returned value = `¬ Ans.approved` (doSeteuidStr) -/
theorem tie_seteuid_verdict (a : Ans) (h : a ≠ .err) :
    seteuidRefuses false true (ansIsNumber a) (ansNumber a) = !a.approved := by
  unfold seteuidRefuses
  cases a <;> simp [ansIsNumber, ansNumber, Ans.approved] at *

/-- a NULL result (no valid_seteuid in the master) refuses; no master object at all approves -/
theorem tie_seteuid_null_verdict : (∀ x y : Bool, seteuidRefuses false false x y = true) ∧
    (∀ r x y : Bool, seteuidRefuses true r x y = false) := by decide

/-- give_uid_to_object, statement by statement = `giveUid` / `create` / `creatorName`: before the master exists
    NONAME/0; no master = error; string answer or "NONAME"; with a current_object: same uid -> uid copied (euid
    untouched = 0); backbone rule only with backbone_uid, a creator euid and the backbone name -> uid = euid =
    creator's euid; otherwise uid = answer, euid 0 -/
theorem tie_giveuid_shape :
    giveUidShape = [
      s!"if (get_machine_state() < {msMudlibLimbo})",
      "(ob->uid = add_uid(\"NONAME\"))",
      "(ob->euid = 0)",
      "return",
      "if (ret == -1)",
      "return",
      s!"if (ret && (ret->type == {tString}))",
      "(creator_name = ret->u.string)",
      "if !creator_name",
      "(creator_name = \"NONAME\")",
      "if current_object",
      "if (current_object->uid && (strcmp(current_object->uid->name, creator_name) == 0))",
      "(ob->uid = current_object->uid)",
      "return",
      "if ((backbone_uid && current_object->euid) && !strcmp(backbone_uid->name, creator_name))",
      "(ob->uid = current_object->euid)",
      "(ob->euid = current_object->euid)",
      "return",
      "(ob->uid = add_uid(creator_name))",
      "(ob->euid = 0)",
      "return"] := by decide

end NV.C20
