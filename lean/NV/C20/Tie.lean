/-
C20 — translator ties.  NV/Gen/C20.lean is regenerated on every run from the clang AST of the working tree
(props/c20_extract.py): the path conditions of the euid tests of load_object / clone_object, the guards and
assignments of f_export_uid and f_seteuid (MASTER_APPROVED expanded), the statement order in clone_object, the
shape of give_uid_to_object.  Each lemma states that the regenerated definition is what NV/C20/Model.lean does at
that place; they are obligations of the check, so a changed C line breaks one of them (or leaves the translator's
grammar = broken tie).
-/
import NV.Gen.C20
import NV.C20.Model
import NV.C20.Drive

namespace NV.C20

open NV.Gen.C20

/-- load_object (master loaded, a current_object): the test fails exactly when the model's
    `A.oid ≠ masterOid ∧ A.euid = none` holds (doLoad, needsCompile, doDest of the master) -/
theorem tie_load_guard (A : Obj) :
    loadRefuses true true (decide (A.oid = masterOid)) A.euid.isSome = true ↔ (A.oid ≠ masterOid ∧ A.euid = none) := by
  unfold loadRefuses
  cases h : A.euid <;> by_cases hm : A.oid = masterOid <;> simp [hm]

/-- loads started by the driver itself (no current_object) are never refused, whatever else holds -/
theorem tie_load_no_current : ∀ m e : Bool, loadRefuses true false m e = false := by decide

theorem tie_load_test_first : loadTestFirst = 1 := by decide

/-- clone_object, test on entry = the model's `clonePre` -/
theorem tie_clone_entry (A : Obj) :
    cloneEntryRefuses true (decide (A.oid = masterOid)) A.euid.isSome = true ↔ (A.oid ≠ masterOid ∧ A.euid = none) := by
  unfold cloneEntryRefuses
  cases h : A.euid <;> by_cases hm : A.oid = masterOid <;> simp [hm]

/-- clone_object, repeated test = the model's `clonePhase2` -/
theorem tie_clone_retest (A : Obj) :
    cloneRetestRefuses true (decide (A.oid = masterOid)) A.euid.isSome = true ↔ (A.oid ≠ masterOid ∧ A.euid = none) := by
  unfold cloneRetestRefuses
  cases h : A.euid <;> by_cases hm : A.oid = masterOid <;> simp [hm]

/-- entry test, then find_or_load_object, then the repeated test, then the virtual branch and every creation -/
theorem tie_clone_order : cloneOrderOk = 1 := by decide

/-- f_export_uid: error exactly for a caller with euid 0 (doExport) -/
theorem tie_export_error (A : Obj) : exportErrors A.euid.isSome = true ↔ A.euid = none := by
  unfold exportErrors
  cases h : A.euid <;> simp

/-- f_export_uid: result 0 exactly for a target that has an euid (doExport) -/
theorem tie_export_target (T : Obj) : exportRefusesTarget T.euid.isSome = true ↔ T.euid ≠ none := by
  unfold exportRefusesTarget
  cases h : T.euid <;> simp

/-- f_export_uid: the accepting branch sets the target's UID to the caller's EUID and returns 1, the refusing
    branch only returns 0, and nothing else in the function writes a uid or euid -/
theorem tie_export_assign :
    exportAssign = ["(ob->uid = current_object->euid)", "(*sp = const1)"] ∧ exportRefuseAssign = ["(*sp = const0)"] ∧
    exportUidWrites = ["(ob->uid = current_object->euid)"] := by decide

/-- f_seteuid: number argument first (non-zero = bad argument, zero clears the own euid without asking anybody),
    then master valid_seteuid through the NON-catching apply (an error in it propagates: `Ans.err`), refusal iff
    !MASTER_APPROVED, then the own euid is set from the argument; no other uid/euid write -/
theorem tie_seteuid_shape :
    seteuidIfs = [s!"if (sp->type & {tNumber})", "if sp->u.number",
                  s!"if !((ret == -1) || (ret && ((ret->type != {tNumber}) || ret->u.number)))"] ∧
    seteuidCalls = ["bad_arg", "apply_master_ob(\"valid_seteuid\", 2)", "add_uid(sp->u.string)"] ∧
    seteuidEuidWrites = ["(current_object->euid = 0)", "(current_object->euid = add_uid(sp->u.string))"] := by decide

/-- the svalue the master returned, as the refusal condition sees it -/
def ansIsNumber : Ans → Bool
  | .int _ => true
  | .none => true
  | _ => false

def ansNumber : Ans → Bool
  | .int n => decide (n ≠ 0)
  | _ => false

/-- f_seteuid's refusal condition on a returned value = `¬ Ans.approved` (doSeteuidStr) -/
theorem tie_seteuid_verdict (a : Ans) (h : a ≠ .err) :
    seteuidRefuses false true (ansIsNumber a) (ansNumber a) = !a.approved := by
  unfold seteuidRefuses
  cases a <;> simp [ansIsNumber, ansNumber, Ans.approved] at *

/-- a NULL result (no valid_seteuid in the master) refuses; no master object at all approves -/
theorem tie_seteuid_null_verdict : (∀ x y : Bool, seteuidRefuses false false x y = true) ∧
    (∀ r x y : Bool, seteuidRefuses true r x y = false) := by decide

/-- give_uid_to_object, statement by statement = `giveUid` / `create` / `creatorName`: before the master exists
    NONAME/0; no master = error; string answer or "NONAME"; with a current_object: same uid -> uid copied (euid
    untouched = 0); backbone rule only with backbone_uid, a creator euid and the backbone name -> uid = euid =
    creator's euid; otherwise uid = answer, euid 0 -/
theorem tie_giveuid_shape :
    giveUidShape = [
      s!"if (get_machine_state() < {msMudlibLimbo})",
      "(ob->uid = add_uid(\"NONAME\"))",
      "(ob->euid = 0)",
      "return",
      "if (ret == -1)",
      "return",
      s!"if (ret && (ret->type == {tString}))",
      "(creator_name = ret->u.string)",
      "if !creator_name",
      "(creator_name = \"NONAME\")",
      "if current_object",
      "if (current_object->uid && (strcmp(current_object->uid->name, creator_name) == 0))",
      "(ob->uid = current_object->uid)",
      "return",
      "if ((backbone_uid && current_object->euid) && !strcmp(backbone_uid->name, creator_name))",
      "(ob->uid = current_object->euid)",
      "(ob->euid = current_object->euid)",
      "return",
      "(ob->uid = add_uid(creator_name))",
      "(ob->euid = 0)",
      "return"] := by decide

/-! ## round 5: inventory of every uid / euid write in the driver, interleaved statement order of the anchor functions -/

/-- the driver rules by which an object's uid / euid may be written; each names the model definition that mirrors it -/
inductive WriteRule where
  | seteuidZero      -- f_seteuid, number branch: own euid := 0 without the master              `doSeteuidInt`
  | seteuidApproved  -- f_seteuid after MASTER_APPROVED(valid_seteuid): own euid := argument     `doSeteuidStr`
  | exportUid        -- f_export_uid: target uid := caller's euid                                `doExport`
  | reloadReset      -- reload_object: euid := 0                                                 `doReload`
  | preMaster        -- give_uid_to_object before a master exists: "NONAME" / 0                  `initObjs`
  | creatorSame      -- give_uid_to_object, same uid as the creator                              `giveUid` branch 1
  | creatorBackbone  -- give_uid_to_object, backbone rule                                        `giveUid` branch 2
  | creatorDefault   -- give_uid_to_object, uid := creator_file answer, euid := 0                `giveUid` branch 3
  | loadDefault      -- load_object: default uid before the object can be found                  `World.half`, late init in `doLoad`
  | masterRoot       -- set_master: uid = euid = get_root_uid()                                  `initObjs`, `doDest` of the master
  deriving DecidableEq, Repr

/-- the table: which rule a write site falls under (`none` = a write the model knows nothing of) -/
def writeRule (w : UidWrite) : Option WriteRule :=
  if w.file = "lib/efuns/uids.c" ∧ w.fn = "f_seteuid" ∧ w.stmt = "(current_object->euid = 0)" then some .seteuidZero
  else if w.file = "lib/efuns/uids.c" ∧ w.fn = "f_seteuid" ∧ w.stmt = "(current_object->euid = add_uid(sp->u.string))" then
    some .seteuidApproved
  else if w.file = "lib/efuns/uids.c" ∧ w.fn = "f_export_uid" ∧ w.stmt = "(ob->uid = current_object->euid)" then some .exportUid
  else if w.file = "lib/lpc/object.c" ∧ w.fn = "reload_object" ∧ w.stmt = "(obj->euid = 0)" then some .reloadReset
  else if w.file = "src/simulate.c" ∧ w.fn = "load_object" ∧ w.stmt = "(ob->uid = add_uid(\"NONAME\"))" then some .loadDefault
  else if w.file = "src/simulate.c" ∧ w.fn = "set_master" ∧
      (w.stmt = "(master_ob->uid = set_root_uid(uid))" ∨ w.stmt = "(master_ob->uid = add_uid(uid))" ∨
       w.stmt = "(master_ob->euid = master_ob->uid)") then some .masterRoot
  else if w.file = "src/simulate.c" ∧ w.fn = "give_uid_to_object" then
    if w.applies = [] then
      (if w.stmt = "(ob->uid = add_uid(\"NONAME\"))" ∨ w.stmt = "(ob->euid = 0)" then some .preMaster else none)
    else if w.stmt = "(ob->uid = current_object->uid)" then some .creatorSame
    else if w.stmt = "(ob->uid = current_object->euid)" ∨ w.stmt = "(ob->euid = current_object->euid)" then some .creatorBackbone
    else if w.stmt = "(ob->uid = add_uid(creator_name))" ∨ w.stmt = "(ob->euid = 0)" then some .creatorDefault
    else none
  else none

def refusalGuard : String := s!"unless !((ret == -1) || (ret && ((ret->type != {tNumber}) || ret->u.number)))"
def sameUidCond : String := "(current_object->uid && (strcmp(current_object->uid->name, creator_name) == 0))"
def backboneCond : String := "((backbone_uid && current_object->euid) && !strcmp(backbone_uid->name, creator_name))"
def afterCreatorFile : List String := [s!"unless (get_machine_state() < {msMudlibLimbo})", "unless (ret == -1)"]

/-- what dominates a write of each kind: the master apply that was asked before it and the guards on the way -/
def governed (w : UidWrite) : Bool :=
  match writeRule w with
  | none => false
  | some .seteuidZero => decide (w.applies = []) && decide (w.path = ["unless sp->u.number", s!"if (sp->type & {tNumber})"])
  | some .seteuidApproved =>
    decide (w.applies = ["valid_seteuid"]) && decide (w.path = [s!"unless (sp->type & {tNumber})", refusalGuard])
  | some .exportUid => decide (w.applies = []) && decide (w.path = ["unless (current_object->euid == 0)", "else ob->euid"])
  | some .reloadReset => decide (w.applies = []) && decide (w.path = [])
  | some .preMaster => decide (w.applies = []) && decide (w.path = [s!"if (get_machine_state() < {msMudlibLimbo})"])
  | some .creatorSame =>
    decide (w.applies = ["creator_file"]) && decide (w.path = afterCreatorFile ++ ["if current_object", "if " ++ sameUidCond])
  | some .creatorBackbone =>
    decide (w.applies = ["creator_file"]) &&
      decide (w.path = afterCreatorFile ++ ["unless " ++ sameUidCond, "if current_object", "if " ++ backboneCond])
  | some .creatorDefault => decide (w.applies = ["creator_file"]) && decide (w.path = afterCreatorFile)
  | some .loadDefault => decide (w.applies = []) && decide (w.path = [])
  | some .masterRoot =>
    -- the record-renaming set_root_uid only at the FIRST load; a reloaded master gets its uid through add_uid
    w.applies.contains "get_root_uid" && w.path.contains "if uid" &&
      (if w.stmt = "(master_ob->uid = set_root_uid(uid))" then w.path.contains "if first_load"
       else if w.stmt = "(master_ob->uid = add_uid(uid))" then w.path.contains "else first_load"
       else (w.path.contains "if first_load" || w.path.contains "else first_load"))

/-- EVERY write to an object's uid / euid anywhere in src/ and lib/ (regenerated: text scan of all sources + clang AST
    of every function that touches the fields) falls under one of the enumerated rules, and is dominated by what that
    rule needs: the seteuid write by an approving valid_seteuid verdict, the three creation writes by the
    creator_file apply and give_uid_to_object's conditions, the export write by the two euid tests, the master's
    by get_root_uid.  A new assignment site (or a site that lost its guard) makes this false. -/
theorem tie_uid_writes_governed : uidWrites.all governed = true := by decide

/-- the inventory itself, site by site in (file, function, source) order: 16 writes in 6 functions -/
theorem tie_uid_write_inventory :
    uidWrites.map (fun w => (w.fn, w.stmt)) = [
      ("f_export_uid", "(ob->uid = current_object->euid)"),
      ("f_seteuid", "(current_object->euid = 0)"),
      ("f_seteuid", "(current_object->euid = add_uid(sp->u.string))"),
      ("reload_object", "(obj->euid = 0)"),
      ("give_uid_to_object", "(ob->uid = add_uid(\"NONAME\"))"),
      ("give_uid_to_object", "(ob->euid = 0)"),
      ("give_uid_to_object", "(ob->uid = current_object->uid)"),
      ("give_uid_to_object", "(ob->uid = current_object->euid)"),
      ("give_uid_to_object", "(ob->euid = current_object->euid)"),
      ("give_uid_to_object", "(ob->uid = add_uid(creator_name))"),
      ("give_uid_to_object", "(ob->euid = 0)"),
      ("load_object", "(ob->uid = add_uid(\"NONAME\"))"),
      ("set_master", "(master_ob->uid = set_root_uid(uid))"),
      ("set_master", "(master_ob->euid = master_ob->uid)"),
      ("set_master", "(master_ob->uid = add_uid(uid))"),
      ("set_master", "(master_ob->euid = master_ob->uid)")] ∧
    uidWrites.map (·.file) = ["lib/efuns/uids.c", "lib/efuns/uids.c", "lib/efuns/uids.c", "lib/lpc/object.c",
      "src/simulate.c", "src/simulate.c", "src/simulate.c", "src/simulate.c", "src/simulate.c", "src/simulate.c",
      "src/simulate.c", "src/simulate.c", "src/simulate.c", "src/simulate.c", "src/simulate.c", "src/simulate.c"] := by decide

/-- uid names are interned records shared by pointer (userid_t): a name and its record stay in bijection - which is why the
    model may use names - as long as no record is renamed.  The two functions that rename one IN PLACE (set_root_uid,
    set_backbone_uid) are called from set_master only, and only in its first-load branch: at that moment no object but the
    master holds a uid.  A reloaded master takes the add_uid path (`doDest`: nobody else's names change). -/
theorem tie_uid_records_never_renamed :
    uidRenamers = [("src/simulate.c", "set_master", "set_backbone_uid", s!"if first_load && if (ret && (ret->type == {tString}))"),
                   ("src/simulate.c", "set_master", "set_root_uid", "if first_load && if uid")] := by decide

/-- the rules are exhaustive the other way round too: every rule of the table has a site (no dead model rule) -/
theorem tie_uid_rules_all_used :
    ∀ r : WriteRule, (uidWrites.any fun w => decide (writeRule w = some r)) = true := by
  intro r; cases r <;> decide

/-- f_seteuid in ONE source-ordered list: the number branch returns before the master is asked; the master is asked
    (non-catching apply) BEFORE the refusal test; the refusal returns BEFORE the euid is written (`doSeteuidStr`) -/
theorem tie_seteuid_order :
    seteuidShape = [
      s!"if (sp->type & {tNumber})", "if sp->u.number", "bad_arg", "(current_object->euid = 0)", "return",
      "push_object(current_object)", "apply_master_ob(\"valid_seteuid\", 2)",
      s!"if !((ret == -1) || (ret && ((ret->type != {tNumber}) || ret->u.number)))", "return",
      "(current_object->euid = add_uid(sp->u.string))"] := by decide

/-- f_export_uid in one list: the caller test (error) precedes reading the target, the target test precedes the write (`doExport`) -/
theorem tie_export_order :
    exportShape = ["if (current_object->euid == 0)", "error(\"Illegal to export uid 0\\n\")", "(ob = sp->u.ob)", "if ob->euid",
      "(ob->uid = current_object->euid)"] := by decide

/-- set_master = `initObjs` (first load: uid = euid = get_root_uid() only when it is a string, backbone uid fixed once)
    and `doDest` of the master (reload: uid = euid = get_root_uid()) -/
theorem tie_set_master_shape :
    setMasterShape = [
      "decl first_load = !master_ob", "decl uid = 0", s!"if (ob && (ob->flags & {oDestructed}))", "error(\"Bad master object\\n\")",
      "if !(master_ob = ob)", "return", "apply_master_ob(\"get_root_uid\", 0)", s!"if (ret && (ret->type == {tString}))",
      "(uid = ret->u.string)", "if first_load", "if uid", "(master_ob->uid = set_root_uid(uid))",
      "(master_ob->euid = master_ob->uid)", "apply_master_ob(\"get_bb_uid\", 0)", s!"if (ret && (ret->type == {tString}))",
      "set_backbone_uid(ret->u.string)", "if uid", "(master_ob->uid = add_uid(uid))", "(master_ob->euid = master_ob->uid)"] := by
  decide

/-- reload_object = `doReload` / `execReload`: euid := 0, then create() -/
theorem tie_reload_shape : reloadShape = ["(obj->euid = 0)", "call_create(obj, 0)"] := by decide

/-- load_object past the file checks = `create` with `blueprint := true`: the default uid is assigned BEFORE the object
    enters the object table (so the half-made object of `World.half` has a uid), valid_object / creator_file are asked
    through the non-catching apply, give_uid_to_object runs before create() -/
theorem tie_load_tail_shape :
    loadTailShape = [
      "get_empty_object", "(ob->uid = add_uid(\"NONAME\"))", "enter_object_hash(ob)",
      s!"if (get_machine_state() >= {msMudlibLimbo})", "apply_master_ob(\"valid_object\", 1)",
      s!"if (mret && !((mret == -1) || (mret && ((mret->type != {tNumber}) || mret->u.number))))",
      "destruct_object(ob)", "error", "if init_object(ob)", "call_create(ob, 0)"] := by decide

/-- clone_object = `clonePre` / `clonePhase2` / `virtCore` / `cloneTail`: entry test, blueprint, repeated test, virtual
    branch (compile_object again, make_new_name, no uids, no create()), ordinary clone: make_new_name (`cloneSeq`),
    give_uid_to_object BEFORE the clone enters the object table (an error in creator_file leaves nothing behind:
    `create` with `blueprint := false` adds no `half`), then create() -/
theorem tie_clone_shape :
    cloneShape = [
      "if (current_object && (current_object->euid == 0))", "if (current_object != master_ob)",
      "error(\"*Attempt to create object without effective UID.\")", "find_or_load_object(str1)",
      "if ((current_object && (current_object != master_ob)) && (current_object->euid == 0))",
      "error(\"*Attempt to create object without effective UID.\")", "if (ob && !object_visible(ob))", "if (ob == 0)", "return",
      s!"if (ob->flags & {oClone})", s!"if (!(ob->flags & {oVirtual}) || strrchr(str1, '#'))",
      "error(\"*Cannot clone from a clone!\")", "if !(str1 = strip_and_check_name(str1))",
      "error(\"*Filenames with consecutive /'s in them aren't allowed (%s).\", str1)",
      "if (((ob->ref == 1) && !ob->super) && !ob->contains)", "if !(v = load_virtual_object(str1))", "return",
      "if new_ob->name", "make_new_name(str1)", "enter_object_hash(new_ob)", "return",
      s!"if (ob->flags & {oHeartBeat})", "get_empty_object", "make_new_name(ob->name)", "if !current_object",
      "init_object(new_ob)", "enter_object_hash(new_ob)", "call_create(new_ob, num_arg)",
      s!"if (new_ob->flags & {oDestructed})", "return", "return"] := by decide

/-- init_object is give_uid_to_object and nothing else -/
theorem tie_init_object_shape : initObjectShape = ["return", "give_uid_to_object(ob)"] := by decide

/-- load_virtual_object = `virtCore`: compile_object through the non-catching apply, anything but an object = nothing;
    no uid is given to the returned object -/
theorem tie_load_virtual_shape :
    loadVirtualShape = [s!"if (get_machine_state() < {msMudlibLimbo})", "return", "apply_master_ob(\"compile_object\", 1)",
      s!"if (!v || (v->type != {tObject}))", "return", "return"] := by decide

/-- f_bind = the `.bind` case of `execWith`: binding to the present owner returns at once (the master is not asked);
    otherwise master valid_bind through the NON-catching apply (an error propagates: `Ans.err`), refusal iff
    !MASTER_APPROVED (a NULL result - no valid_bind in the master - refuses: `Cfg.noVb`) = error; only after that the
    function gets its new owner -/
theorem tie_bind_shape :
    bindShape = [
      "if (ob == old_fp->hdr.owner)", "return",
      s!"if (old_fp->hdr.type == ({fpLocal} | {fpNotBindable}))", "error(\"Local function is not bindable.\\n\")",
      s!"if (old_fp->hdr.type & {fpNotBindable})", "error(\"Function that references global variables is not bindable.\\n\")",
      s!"if (current_object->flags & {oDestructed})", s!"if (old_fp->hdr.owner->flags & {oDestructed})",
      "apply_master_ob(\"valid_bind\", 3)",
      s!"if !((res == -1) || (res && ((res->type != {tNumber}) || res->u.number)))",
      "error(\"Permission of binding denied by master object.\\n\")",
      s!"if ((old_fp->hdr.type & 15) == {fpFunctional})", "(new_fp->hdr.owner = ob)",
      s!"if ((old_fp->hdr.type & 15) == {fpFunctional})"] := by decide

/-- make_new_name = `World.cloneSeq` (starts at 1 in `World.init`, `cloneSelf` / `virtCore` use it and add 1): one static
    counter, initialised to 1, the name is `<str>#<counter>`, incremented once per call -/
theorem tie_make_new_name_shape :
    makeNewNameShape = ["decl static i = 1", "sprintf(\"%s#%d\", str, i)", "post++ i"] ∧ (World.init ⟨"", none, false, false, false⟩).cloneSeq = 1 := by
  decide

/-- destruct_object, as far as the master and the simul_efun object are concerned = `doDest`: the simul_efun object is not
    destructed while a master exists (`Err.simulDest`); a destructed master is replaced by `load_object` of the same name -
    a load on behalf of the CALLER (the euid test of `doDest`) - and then `set_master` (uid = euid = get_root_uid()) -/
theorem tie_destruct_vital_shape :
    destructVitalShape = [
      "if ((ob == simul_efun_ob) && master_ob)", "error(\"*Cannot destruct simul_efun_object while master_object exists.\")",
      "if ((ob == master_ob) || (ob == simul_efun_ob))", "decl new_ob = 0", "decl vital_obj_name = 0", "if (ob == master_ob)",
      "if (ob == simul_efun_ob)", "if (vital_obj_name && !g_proceeding_shutdown)",
      "if !strip_name(vital_obj_name, new_name, sizeof)",
      "error(\"*Destruction of vital object rejected due to invalid config setting (\\\"%s\\\").\", vital_obj_name)",
      "(new_ob = load_object(tmp, 0))", "if !new_ob", "error(\"*Destruct on vital object failed: new copy failed to reload.\")",
      "if (ob == master_ob)", "set_master(new_ob)", "if (ob == simul_efun_ob)", "set_simul_efun(new_ob)", "if new_ob", "if new_ob"] := by
  decide

/-- the error texts the model prints (`Err.render`, NV/C20/Drive.lean) are the driver's (harness form: newline dropped,
    blanks as `_`) -/
theorem tie_error_texts :
    errTexts = [Err.render .noEuidLoad, Err.render .noEuidClone, Err.render .exportZero, Err.render .simulDest,
                Err.render .bindDenied] := by decide

end NV.C20
