/-
C20 — translator ties.  NV/Gen/C20.lean is regenerated on every run from the clang AST of the working tree
(props/c20_extract.py): the path conditions of the euid tests of load_object / clone_object, the guards and
assignments of f_export_uid and f_seteuid (MASTER_APPROVED expanded), the statement order in clone_object, the
shape of give_uid_to_object.  Each lemma states that the regenerated definition is what NV/C20/Model.lean does at
that place; they are obligations of the check, so a changed C line breaks one of them (or leaves the translator's
grammar = broken tie).
-/
import NV.Gen.C20
import NV.C20.Model
import NV.C20.Drive

namespace NV.C20

open NV.Gen.C20

/-- load_object (master loaded, a current_object): the test fails exactly when the model's
    `A.oid ≠ masterOid ∧ A.euid = none` holds (doLoad, needsCompile, doDest of the master) -/
theorem tie_load_guard (A : Obj) :
    loadRefuses true true (decide (A.oid = masterOid)) A.euid.isSome = true ↔ (A.oid ≠ masterOid ∧ A.euid = none) := by
  unfold loadRefuses
  cases h : A.euid <;> by_cases hm : A.oid = masterOid <;> simp [hm]

/-- loads started by the driver itself (no current_object) are never refused, whatever else holds -/
theorem tie_load_no_current : ∀ m e : Bool, loadRefuses true false m e = false := by decide

theorem tie_load_test_first : loadTestFirst = 1 := by decide

/-- clone_object, test on entry = the model's `clonePre` -/
theorem tie_clone_entry (A : Obj) :
    cloneEntryRefuses true (decide (A.oid = masterOid)) A.euid.isSome = true ↔ (A.oid ≠ masterOid ∧ A.euid = none) := by
  unfold cloneEntryRefuses
  cases h : A.euid <;> by_cases hm : A.oid = masterOid <;> simp [hm]

/-- clone_object, repeated test = the model's `clonePhase2` -/
theorem tie_clone_retest (A : Obj) :
    cloneRetestRefuses true (decide (A.oid = masterOid)) A.euid.isSome = true ↔ (A.oid ≠ masterOid ∧ A.euid = none) := by
  unfold cloneRetestRefuses
  cases h : A.euid <;> by_cases hm : A.oid = masterOid <;> simp [hm]

/-- entry test, then find_or_load_object, then the repeated test, then the virtual branch and every creation -/
theorem tie_clone_order : cloneOrderOk = 1 := by decide

/-- f_export_uid: error exactly for a caller with euid 0 (doExport) -/
theorem tie_export_error (A : Obj) : exportErrors A.euid.isSome = true ↔ A.euid = none := by
  unfold exportErrors
  cases h : A.euid <;> simp

/-- the svalue the master returned, as the refusal condition sees it -/
def ansIsNumber : Ans → Bool
  | .int _ => true
  | .none => true
  | _ => false

def ansNumber : Ans → Bool
  | .int n => decide (n ≠ 0)
  | _ => false

/-- f_seteuid's refusal condition on a returned value = `¬ Ans.approved` (doSeteuidStr) -/
theorem tie_seteuid_verdict (a : Ans) (h : a ≠ .err) :
    seteuidRefuses false true (ansIsNumber a) (ansNumber a) = !a.approved := by
  unfold seteuidRefuses
  cases a <;> simp [ansIsNumber, ansNumber, Ans.approved] at *

/-- a NULL result (no valid_seteuid in the master) refuses; no master object at all approves -/
theorem tie_seteuid_null_verdict : (∀ x y : Bool, seteuidRefuses false false x y = true) ∧
    (∀ r x y : Bool, seteuidRefuses true r x y = false) := by decide

/-! ## round 5: inventory of every uid / euid write in the driver, interleaved statement order of the anchor functions -/

/-- the driver rules by which an object's uid / euid may be written; each names the model definition that mirrors it -/
inductive WriteRule where
  | seteuidZero      -- f_seteuid, number branch: own euid := 0 without the master              `doSeteuidInt`
  | seteuidApproved  -- f_seteuid after MASTER_APPROVED(valid_seteuid): own euid := argument     `doSeteuidStr`
  | exportUid        -- f_export_uid: target uid := caller's euid                                `doExport`
  | reloadReset      -- reload_object: euid := 0                                                 `doReload`
  | preMaster        -- give_uid_to_object before a master exists: "NONAME" / 0                  `initObjs`
  | creatorSame      -- give_uid_to_object, same uid as the creator                              `giveUid` branch 1
  | creatorBackbone  -- give_uid_to_object, backbone rule                                        `giveUid` branch 2
  | creatorDefault   -- give_uid_to_object, uid := creator_file answer, euid := 0                `giveUid` branch 3
  | loadDefault      -- load_object: default uid before the object can be found                  `World.half`, late init in `doLoad`
  | masterRoot       -- set_master: uid = euid = get_root_uid()                                  `initObjs`, `doDest` of the master
  deriving DecidableEq, Repr

/-- the table: which rule a write site falls under (`none` = a write the model knows nothing of) -/
def writeRule (w : UidWrite) : Option WriteRule :=
  if w.file = "lib/efuns/uids.c" ∧ w.fn = "f_seteuid" ∧ w.stmt = "(current_object->euid = 0)" then some .seteuidZero
  else if w.file = "lib/efuns/uids.c" ∧ w.fn = "f_seteuid" ∧ w.stmt = "(current_object->euid = add_uid(sp->u.string))" then
    some .seteuidApproved
  else if w.file = "lib/efuns/uids.c" ∧ w.fn = "f_export_uid" ∧ w.stmt = "(ob->uid = current_object->euid)" then some .exportUid
  else if w.file = "lib/lpc/object.c" ∧ w.fn = "reload_object" ∧ w.stmt = "(obj->euid = 0)" then some .reloadReset
  else if w.file = "src/simulate.c" ∧ w.fn = "load_object" ∧ w.stmt = "(ob->uid = add_uid(\"NONAME\"))" then some .loadDefault
  else if w.file = "src/simulate.c" ∧ w.fn = "set_master" ∧
      (w.stmt = "(master_ob->uid = set_root_uid(uid))" ∨ w.stmt = "(master_ob->uid = add_uid(uid))" ∨
       w.stmt = "(master_ob->euid = master_ob->uid)") then some .masterRoot
  else if w.file = "src/simulate.c" ∧ w.fn = "give_uid_to_object" then
    if w.applies = [] then
      (if w.stmt = "(ob->uid = add_uid(\"NONAME\"))" ∨ w.stmt = "(ob->euid = 0)" then some .preMaster else none)
    else if w.stmt = "(ob->uid = current_object->uid)" then some .creatorSame
    else if w.stmt = "(ob->uid = current_object->euid)" ∨ w.stmt = "(ob->euid = current_object->euid)" then some .creatorBackbone
    else if w.stmt = "(ob->uid = add_uid(creator_name))" ∨ w.stmt = "(ob->euid = 0)" then some .creatorDefault
    else none
  else none

def refusalGuard : String := s!"unless !((ret == -1) || (ret && ((ret->type != {tNumber}) || ret->u.number)))"
def sameUidCond : String := "(current_object->uid && (strcmp(current_object->uid->name, creator_name) == 0))"
def backboneCond : String := "((backbone_uid && current_object->euid) && !strcmp(backbone_uid->name, creator_name))"
def afterCreatorFile : List String := [s!"unless (get_machine_state() < {msMudlibLimbo})", "unless (ret == -1)"]

/-- what dominates a write of each kind: the master apply that was asked before it and the guards on the way -/
def governed (w : UidWrite) : Bool :=
  -- (the guards must be AMONG the dominating conditions: further, unrelated guards of a refactored function do no harm; what
  -- exactly happens on each path is the business of the decision-tree ties below)
  match writeRule w with
  | none => false
  | some .seteuidZero => decide (w.applies = []) && w.path.contains "unless sp->u.number" && w.path.contains s!"if (sp->type & {tNumber})"
  | some .seteuidApproved =>
    w.applies.contains "valid_seteuid" && w.path.contains s!"unless (sp->type & {tNumber})" && w.path.contains refusalGuard
  | some .exportUid => w.path.contains "unless (current_object->euid == 0)"     -- (the target test: `tie_export_write_dominated`)
  | some .reloadReset => true
  | some .preMaster => decide (w.applies = []) && w.path.contains s!"if (get_machine_state() < {msMudlibLimbo})"
  | some .creatorSame =>
    w.applies.contains "creator_file" && afterCreatorFile.all w.path.contains && w.path.contains "if current_object" &&
      w.path.contains ("if " ++ sameUidCond)
  | some .creatorBackbone =>
    w.applies.contains "creator_file" && afterCreatorFile.all w.path.contains && w.path.contains ("unless " ++ sameUidCond) &&
      w.path.contains "if current_object" && w.path.contains ("if " ++ backboneCond)
  | some .creatorDefault => w.applies.contains "creator_file" && afterCreatorFile.all w.path.contains
  | some .loadDefault => true
  | some .masterRoot =>
    -- the record-renaming set_root_uid only at the FIRST load; a reloaded master gets its uid through add_uid
    w.applies.contains "get_root_uid" && w.path.contains "if uid" &&
      (if w.stmt = "(master_ob->uid = set_root_uid(uid))" then w.path.contains "if first_load"
       else if w.stmt = "(master_ob->uid = add_uid(uid))" then w.path.contains "else first_load"
       else (w.path.contains "if first_load" || w.path.contains "else first_load"))

/-- EVERY write to an object's uid / euid anywhere in src/ and lib/ (regenerated: text scan of all sources + clang AST
    of every function that touches the fields) falls under one of the enumerated rules, and is dominated by what that
    rule needs: the seteuid write by an approving valid_seteuid verdict, the three creation writes by the
    creator_file apply and give_uid_to_object's conditions, the export write by the two euid tests, the master's
    by get_root_uid.  A new assignment site (or a site that lost its guard) makes this false. -/
theorem tie_uid_writes_governed : uidWrites.all governed = true := by decide

/-- the inventory itself, site by site in (file, function, source) order: 16 writes in 6 functions -/
theorem tie_uid_write_inventory :
    uidWrites.map (fun w => (w.fn, w.stmt)) = [
      ("f_export_uid", "(ob->uid = current_object->euid)"),
      ("f_seteuid", "(current_object->euid = 0)"),
      ("f_seteuid", "(current_object->euid = add_uid(sp->u.string))"),
      ("reload_object", "(obj->euid = 0)"),
      ("give_uid_to_object", "(ob->uid = add_uid(\"NONAME\"))"),
      ("give_uid_to_object", "(ob->euid = 0)"),
      ("give_uid_to_object", "(ob->uid = current_object->uid)"),
      ("give_uid_to_object", "(ob->uid = current_object->euid)"),
      ("give_uid_to_object", "(ob->euid = current_object->euid)"),
      ("give_uid_to_object", "(ob->uid = add_uid(creator_name))"),
      ("give_uid_to_object", "(ob->euid = 0)"),
      ("load_object", "(ob->uid = add_uid(\"NONAME\"))"),
      ("set_master", "(master_ob->uid = set_root_uid(uid))"),
      ("set_master", "(master_ob->euid = master_ob->uid)"),
      ("set_master", "(master_ob->uid = add_uid(uid))"),
      ("set_master", "(master_ob->euid = master_ob->uid)")] ∧
    uidWrites.map (·.file) = ["lib/efuns/uids.c", "lib/efuns/uids.c", "lib/efuns/uids.c", "lib/lpc/object.c",
      "src/simulate.c", "src/simulate.c", "src/simulate.c", "src/simulate.c", "src/simulate.c", "src/simulate.c",
      "src/simulate.c", "src/simulate.c", "src/simulate.c", "src/simulate.c", "src/simulate.c", "src/simulate.c"] := by decide

/-- uid names are interned records shared by pointer (userid_t): a name and its record stay in bijection - which is why the
    model may use names - as long as no record is renamed.  The two functions that rename one IN PLACE (set_root_uid,
    set_backbone_uid) are called from set_master only, and only in its first-load branch: at that moment no object but the
    master holds a uid.  A reloaded master takes the add_uid path (`doDest`: nobody else's names change). -/
theorem tie_uid_records_never_renamed :
    uidRenamers = [("src/simulate.c", "set_master", "set_backbone_uid", s!"if first_load && if (ret && (ret->type == {tString}))"),
                   ("src/simulate.c", "set_master", "set_root_uid", "if first_load && if uid")] := by decide

/-- the rules are exhaustive the other way round too: every rule of the table has a site (no dead model rule) -/
theorem tie_uid_rules_all_used :
    ∀ r : WriteRule, (uidWrites.any fun w => decide (writeRule w = some r)) = true := by
  intro r; cases r <;> decide

/-- init_object is give_uid_to_object and nothing else -/
theorem tie_init_object_shape : initObjectShape = ["return", "give_uid_to_object(ob)"] := by decide

/-- load_object past the file checks = `create` with `blueprint := true` (only the statements that matter are regenerated):
    the default uid is assigned BEFORE the object enters the object table (so the half-made object of `World.half` has a
    uid), valid_object / creator_file are asked through the non-catching apply, give_uid_to_object runs before create() -/
theorem tie_load_tail_shape :
    loadTailShape = [
      "get_empty_object", "(ob->uid = add_uid(\"NONAME\"))", "enter_object_hash(ob)",
      s!"if (get_machine_state() >= {msMudlibLimbo})", "apply_master_ob(\"valid_object\", 1)",
      s!"if (mret && !((mret == -1) || (mret && ((mret->type != {tNumber}) || mret->u.number))))",
      "if init_object(ob)", "call_create(ob, 0)"] := by decide

/-- clone_object = `clonePre` / `clonePhase2` / `virtCore` / `cloneTail` (only the statements that matter): entry test,
    blueprint, repeated test, virtual branch (compile_object again, make_new_name, no uids, no create()), ordinary clone:
    make_new_name (`cloneSeq`), give_uid_to_object BEFORE the clone enters the object table, then create() -/
theorem tie_clone_shape :
    cloneShape = [
      "if (current_object && (current_object->euid == 0))", "error(\"*Attempt to create object without effective UID.\")",
      "find_or_load_object(str1)", "if ((current_object && (current_object != master_ob)) && (current_object->euid == 0))",
      "error(\"*Attempt to create object without effective UID.\")",
      s!"if (!(ob->flags & {oVirtual}) || strrchr(str1, '#'))", "if (((ob->ref == 1) && !ob->super) && !ob->contains)",
      "if !(v = load_virtual_object(str1))", "make_new_name(str1)", "enter_object_hash(new_ob)", "get_empty_object",
      "make_new_name(ob->name)", "init_object(new_ob)", "enter_object_hash(new_ob)", "call_create(new_ob, num_arg)"] := by decide

/-- f_bind = the `.bind` case of `execWith`: binding to the present owner returns at once (the master is not asked); the two
    unbindable kinds are errors before the master is asked; otherwise master valid_bind through the NON-catching apply, refusal
    iff !MASTER_APPROVED (the same expansion as in f_seteuid: `seteuidRefuses`; a NULL result - no valid_bind - refuses:
    `Cfg.noVb`) = error WITHOUT a new owner; only an approved bind sets the new owner -/
theorem tie_bind_tree : ∀ sameOwner localFn notBindable noMaster res isNumber number : Bool,
    bindTree sameOwner localFn notBindable noMaster res isNumber number =
      (if sameOwner then { writes := [], res := "", asked := [], exit := "return" }
       else if localFn || notBindable then { writes := [], res := "", asked := [], exit := "error:error" }
       else if seteuidRefuses noMaster res isNumber number then { writes := [], res := "", asked := ["valid_bind"], exit := "error:error" }
       else { writes := [("new_fp->hdr.owner", "ob")], res := "", asked := ["valid_bind"], exit := "end" }) := by decide

/-- load_virtual_object = `virtCore`: nothing before a master exists; compile_object through the non-catching apply; anything
    but an object = 0; the object is handed back as it is - no uid / euid is written, give_uid_to_object is not called -/
theorem tie_load_virtual_tree : ∀ v isObject : Bool,
    loadVirtualTree true v isObject = { writes := [], res := "0", asked := [], exit := "return" } ∧
    loadVirtualTree false v isObject =
      { writes := [], res := (if v && isObject then "v" else "0"), asked := ["compile_object"], exit := "return" } := by decide

/-- make_new_name = `World.cloneSeq` (starts at 1 in `World.init`, `cloneSelf` / `virtCore` use it and add 1): one static
    counter, initialised to 1, the name is `<str>#<counter>`, incremented once per call -/
theorem tie_make_new_name_shape :
    makeNewNameShape = ["decl static i = 1", "sprintf(\"%s#%d\", str, i)", "post++ i"] ∧ (World.init ⟨"", none, false, false, false⟩).cloneSeq = 1 := by
  decide

/-- destruct_object, as far as the master and the simul_efun object are concerned = `doDest`: the simul_efun object is not
    destructed while a master exists (`Err.simulDest`); a destructed master is replaced by `load_object` of the same name -
    a load on behalf of the CALLER (the euid test of `doDest`) - and then `set_master` (uid = euid = get_root_uid()) -/
theorem tie_destruct_vital_shape :
    destructVitalShape = [
      "if ((ob == simul_efun_ob) && master_ob)", "error(\"*Cannot destruct simul_efun_object while master_object exists.\")",
      "(new_ob = load_object(tmp, 0))", "set_master(new_ob)", "set_simul_efun(new_ob)"] := by decide

/-- the error texts the model prints (`Err.render`, NV/C20/Drive.lean) are the driver's (harness form: newline dropped,
    blanks as `_`) -/
theorem tie_error_texts :
    errTexts = [Err.render .noEuidLoad, Err.render .noEuidClone, Err.render .exportZero, Err.render .simulDest,
                Err.render .bindDenied] := by decide

/-! ## round 6: decision trees (symbolic execution of the C functions over their AST) = the model, semantically -/

def retLeaf (ws : List (String × String)) (asked : List String) : Leaf := { writes := ws, res := "", asked := asked, exit := "return" }

/-- `giveUid` / `creatorName` / `create`, written over the atoms of the C conditions -/
def giveUidExpected (ret retString cur curUid uidDiffers bbSet curEuid bbDiffers : Bool) : Leaf :=
  let nm := if ret && retString then "add_uid(<answer>)" else "add_uid(<lit:NONAME>)"
  if cur && curUid && !uidDiffers then retLeaf [("ob->uid", "current_object->uid")] ["creator_file"]
  else if cur && decide (NV.Gen.C20.autoTrustBackbone ≠ 0) && bbSet && curEuid && !bbDiffers then
    retLeaf [("ob->uid", "current_object->euid"), ("ob->euid", "current_object->euid")] ["creator_file"]
  else retLeaf [("ob->uid", nm), ("ob->euid", "0")] ["creator_file"]

/-- give_uid_to_object once a master exists and answers: on EVERY path creator_file was asked before anything is written; same
    uid as the creator -> the creator's UID record, euid untouched; backbone rule (only with AUTO_TRUST_BACKBONE, a backbone uid, a
    creator euid, the backbone name) -> uid AND euid = the creator's EUID; otherwise uid = the answer ("NONAME" for anything but a
    string), euid = 0.  No other path, no other write. -/
theorem tie_giveuid_tree : ∀ ret retString cur curUid uidDiffers bbSet curEuid bbDiffers : Bool,
    giveUidTree false false ret retString cur curUid uidDiffers bbSet curEuid bbDiffers =
      giveUidExpected ret retString cur curUid uidDiffers bbSet curEuid bbDiffers := by decide

/-- before a master exists: "NONAME" / 0 and nobody is asked (`initObjs`: simul_efun object, master without get_root_uid);
    no master object at all: the new object is destructed and the load fails -/
theorem tie_giveuid_tree_premaster : ∀ a b c d e f g h i : Bool,
    giveUidTree true a b c d e f g h i = retLeaf [("ob->uid", "add_uid(\"NONAME\")"), ("ob->euid", "0")] [] ∧
    (giveUidTree false true b c d e f g h i).exit = "error:error" := by decide

/-- value of a right-hand side of the tree for a given creator and creator_file answer -/
def rhsVal (creator : Obj) (a : Ans) (rhs : String) : Option (Option Name) :=
  if rhs = "current_object->uid" then some creator.uid
  else if rhs = "current_object->euid" then some creator.euid
  else if rhs = "0" then some none
  else if rhs = "add_uid(<lit:NONAME>)" ∨ rhs = "add_uid(\"NONAME\")" then some (some "NONAME")
  else if rhs = "add_uid(<answer>)" then (match a with
    | .str s => some (some s)
    | _ => none)
  else none

/-- perform the writes of a leaf on the (uid, euid) of the new object (get_empty_object: both NULL) -/
def applyWrites (creator : Obj) (a : Ans) : List (String × String) → Option Name × Option Name → Option (Option Name × Option Name)
  | [], ue => some ue
  | (l, r) :: ws, ue =>
    match rhsVal creator a r with
    | none => none
    | some v =>
      if l = "ob->uid" then applyWrites creator a ws (v, ue.2)
      else if l = "ob->euid" then applyWrites creator a ws (ue.1, v)
      else none

def ansIsString : Ans → Bool
  | .str _ => true
  | _ => false

/-- **give_uid_to_object = `giveUid`, for every configuration, creator and creator_file answer**: running the writes of the
    regenerated tree - with its atoms read off the creator and the answer - on a fresh object gives exactly the model's
    (uid, euid).  (A wrong-but-plausible operand, e.g. the creator's uid where its euid belongs, falsifies this.) -/
theorem tie_giveuid_semantics (cfg : Cfg) (creator : Obj) (a : Ans) :
    applyWrites creator a
      (giveUidTree false false true (ansIsString a) true creator.uid.isSome (decide (creator.uid ≠ some (creatorName a)))
        cfg.bb.isSome creator.euid.isSome (decide (cfg.bb ≠ some (creatorName a)))).writes (none, none) =
      some (giveUid cfg creator a) := by
  rw [tie_giveuid_tree]
  unfold giveUidExpected giveUid
  by_cases h1 : creator.uid = some (creatorName a)
  · simp [h1, retLeaf, applyWrites, rhsVal]
  · have h1' : (creator.uid.isSome && !decide (creator.uid ≠ some (creatorName a))) = false := by
      cases hu : creator.uid <;> simp_all
    by_cases h2 : autoTrustBackbone = true ∧ cfg.bb = some (creatorName a) ∧ creator.euid ≠ none
    · obtain ⟨h2a, h2b, h2c⟩ := h2
      have hb : decide (NV.Gen.C20.autoTrustBackbone ≠ 0) = true := by simpa [NV.C20.autoTrustBackbone] using h2a
      have he : creator.euid.isSome = true := by cases h : creator.euid <;> simp_all
      simp [h1, h1', h2a, h2b, h2c, hb, he, retLeaf, applyWrites, rhsVal]
    · have hA : (true && creator.uid.isSome && !decide (creator.uid ≠ some (creatorName a))) = false := by
        simpa using h1'
      have hB : (true && decide (NV.Gen.C20.autoTrustBackbone ≠ 0) && cfg.bb.isSome && creator.euid.isSome &&
          !decide (cfg.bb ≠ some (creatorName a))) = false := by
        rw [Bool.eq_false_iff]
        intro hc
        simp only [Bool.and_eq_true, Bool.true_and, decide_eq_true_eq, Bool.not_eq_true', decide_eq_false_iff_not] at hc
        obtain ⟨⟨⟨hx, _⟩, hz⟩, hw⟩ := hc
        refine h2 ⟨?_, Classical.not_not.mp hw, ?_⟩
        · simpa [NV.C20.autoTrustBackbone] using hx
        · intro hn; simp [hn] at hz
      rw [if_neg h1, if_neg h2]
      simp only [hA, hB, Bool.false_eq_true, if_false]
      cases a <;> simp [retLeaf, applyWrites, rhsVal, ansIsString, creatorName]

/-! ### dominance, semantically: on EVERY path of the regenerated trees a uid / euid write is preceded by what its rule needs -/

def bools : List Bool := [false, true]

/-- f_seteuid: the own euid is written to a non-zero value only on paths on which valid_seteuid was asked and its verdict
    does not refuse; it is cleared only on the number path with argument 0, where nobody is asked -/
theorem tie_seteuid_write_dominated : ∀ argIsNumber argNonZero noMaster ret isNumber number : Bool,
    let l := seteuidTree argIsNumber argNonZero noMaster ret isNumber number
    (("current_object->euid", "add_uid(sp->u.string)") ∈ l.writes →
        l.asked = ["valid_seteuid"] ∧ argIsNumber = false ∧ seteuidRefuses noMaster ret isNumber number = false) ∧
    (("current_object->euid", "0") ∈ l.writes → argIsNumber = true ∧ argNonZero = false ∧ l.asked = []) ∧
    l.writes.all (fun w => w.1 == "current_object->euid") = true := by decide

/-- give_uid_to_object: once a master exists EVERY write of the new object's uid / euid comes after the creator_file apply; the
    creator's EUID reaches the new object only through the backbone rule (a backbone uid, a creator euid, the backbone name), the
    creator's UID only through the same-uid rule -/
theorem tie_giveuid_writes_dominated : ∀ noMaster ret retString cur curUid uidDiffers bbSet curEuid bbDiffers : Bool,
    let l := giveUidTree false noMaster ret retString cur curUid uidDiffers bbSet curEuid bbDiffers
    ((l.writes.any fun w => w.1 == "ob->uid" || w.1 == "ob->euid") = true → l.asked = ["creator_file"] ∧ noMaster = false) ∧
    ((l.writes.any fun w => w.2 == "current_object->euid") = true →
        cur = true ∧ bbSet = true ∧ curEuid = true ∧ bbDiffers = false ∧ (curUid = false ∨ uidDiffers = true)) ∧
    ((l.writes.any fun w => w.2 == "current_object->uid") = true → cur = true ∧ curUid = true ∧ uidDiffers = false) := by decide

/-- f_export_uid: the target's uid is written only for a caller WITH an euid and a target WITHOUT one, and it is the caller's
    euid that is written; no euid is written on any path -/
theorem tie_export_write_dominated : ∀ curEuid tgtEuid : Bool,
    let l := exportTree curEuid tgtEuid
    (l.writes ≠ [] → curEuid = true ∧ tgtEuid = false ∧ l.writes = [("ob->uid", "current_object->euid")]) := by decide

/-- set_master: the master's uid / euid are written only after get_root_uid() returned a string; the record-renaming
    set_root_uid / set_backbone_uid only on the first load -/
theorem tie_master_write_dominated : ∀ obSet obDestructed firstLoad rootRet rootIsString bbRet bbIsString : Bool,
    let l := setMasterTree obSet obDestructed firstLoad rootRet rootIsString bbRet bbIsString
    (l.writes ≠ [] → "get_root_uid" ∈ l.asked) ∧
    ((l.writes.any fun w => w.1 == "master_ob->uid") = true → rootRet = true ∧ rootIsString = true) ∧
    ((l.writes.any fun w => w.2 == "set_root_uid(<root-answer>)" || w.1 == "set_backbone_uid") = true → firstLoad = true) := by decide

/-- f_bind: a function gets a new owner only on the path on which valid_bind was asked and did not refuse -/
theorem tie_bind_write_dominated : ∀ sameOwner localFn notBindable noMaster res isNumber number : Bool,
    let l := bindTree sameOwner localFn notBindable noMaster res isNumber number
    (l.writes ≠ [] → l.asked = ["valid_bind"] ∧ seteuidRefuses noMaster res isNumber number = false ∧ l.exit = "end") := by decide

/-- f_seteuid: number argument = no master call at all (non-zero: bad argument, zero: own euid := 0, result 1); string
    argument: valid_seteuid is asked FIRST, a refusing verdict (`seteuidRefuses`, bridged to `Ans.approved` by
    `tie_seteuid_verdict`) returns 0 WITHOUT a write, otherwise own euid := the argument, result 1 (`doSeteuidInt`, `doSeteuidStr`) -/
theorem tie_seteuid_tree : ∀ argIsNumber argNonZero noMaster ret isNumber number : Bool,
    seteuidTree argIsNumber argNonZero noMaster ret isNumber number =
      (if argIsNumber then
        (if argNonZero then { writes := [], res := "", asked := [], exit := "error:bad_arg" }
         else { writes := [("current_object->euid", "0")], res := "1", asked := [], exit := "return" })
       else if seteuidRefuses noMaster ret isNumber number then
        { writes := [], res := "const0", asked := ["valid_seteuid"], exit := "return" }
       else { writes := [("current_object->euid", "add_uid(sp->u.string)")], res := "const1", asked := ["valid_seteuid"], exit := "end" }) := by
  decide

/-- f_export_uid: caller without euid = error and nothing else; target with an euid = 0 and NO write; otherwise the target's UID :=
    the caller's EUID, 1; the master is never asked (`doExport`) -/
theorem tie_export_tree : ∀ curEuid tgtEuid : Bool,
    exportTree curEuid tgtEuid =
      (if !curEuid then { writes := [], res := "", asked := [], exit := "error:error" }
       else if tgtEuid then { writes := [], res := "const0", asked := [], exit := "end" }
       else { writes := [("ob->uid", "current_object->euid")], res := "const1", asked := [], exit := "end" }) := by decide

/-- **f_export_uid = `doExport`, for every world, caller and registered target**: the regenerated tree, with its atoms read off the
    two objects, raises the error exactly when the model does, hands back 1 exactly when the model does, and writes - the
    target's uid := the caller's euid - exactly when the model changes the world (in that way) -/
theorem tie_export_semantics (w : World) (A T : Obj) (t : Oid) (hT : getO w.objs t = some T) :
    let l := exportTree A.euid.isSome T.euid.isSome
    (l.exit = "error:error" ↔ (doExport w A t).2.2.2 = .err .exportZero) ∧
    (l.res = "const1" ↔ (doExport w A t).2.2.2 = .int 1) ∧
    (l.res = "const0" ↔ (doExport w A t).2.2.2 = .int 0) ∧
    (l.writes = [("ob->uid", "current_object->euid")] → (doExport w A t).1.objs = setO w.objs { T with uid := A.euid }) ∧
    (l.writes = [] → (doExport w A t).1.objs = w.objs) := by
  simp only [tie_export_tree]
  unfold doExport
  simp only [hT]
  cases hA : A.euid <;> cases hTe : T.euid <;> simp

/-- **f_seteuid(number) = `doSeteuidInt`**: bad argument exactly for a non-zero number; otherwise result 1 and the own euid
    cleared - the only write - without anybody being asked -/
theorem tie_seteuid_int_semantics (w : World) (A : Obj) (n : Int) (x y z u : Bool) :
    let l := seteuidTree true (decide (n ≠ 0)) x y z u
    (l.exit = "error:bad_arg" ↔ (doSeteuidInt w A n).2.2.2 = .err .badArg) ∧
    (l.writes = [("current_object->euid", "0")] ↔ (doSeteuidInt w A n).1.objs = setO w.objs { A with euid := none } ∧
      (doSeteuidInt w A n).2.2.2 = .int 1) ∧
    l.asked = [] := by
  simp only [tie_seteuid_tree]
  unfold doSeteuidInt
  by_cases hn : n = 0 <;> simp [hn]

/-- **f_seteuid(string) = `doSeteuidStr`** for every master verdict that is not an error (an error unwinds before the test):
    the euid is written - to the argument, after valid_seteuid was asked - exactly when the model sets it (`Ans.approved`),
    and 0 is handed back without a write exactly when the model refuses -/
theorem tie_seteuid_str_semantics (pol : Policy) (i : Nat) (w : World) (A : Obj) (s : Name) (h : pol.vs i A.oid s ≠ .err) (x : Bool) :
    let a := pol.vs i A.oid s
    let l := seteuidTree false x false true (ansIsNumber a) (ansNumber a)
    l.asked = ["valid_seteuid"] ∧
    (l.writes = [("current_object->euid", "add_uid(sp->u.string)")] ↔
      (doSeteuidStr pol i w A s).1.objs = setO w.objs { A with euid := some s } ∧ (doSeteuidStr pol i w A s).2.2.2 = .int 1) ∧
    (l.writes = [] ↔ (doSeteuidStr pol i w A s).1.objs = w.objs ∧ (doSeteuidStr pol i w A s).2.2.2 = .int 0) := by
  have hv := tie_seteuid_verdict (pol.vs i A.oid s) h
  simp only [tie_seteuid_tree, hv]
  unfold doSeteuidStr
  simp only [h, if_false]
  cases hap : (pol.vs i A.oid s).approved <;> simp [hap]

/-- reload_object: euid := 0 BEFORE create() runs again, the uid is not touched (`doReload`, `execReload`) -/
theorem tie_reload_tree :
    reloadTree true = { writes := [("obj->euid", "0"), ("call_create", "call_create(obj, 0)")], res := "", asked := [], exit := "end" } ∧
    reloadTree false = { writes := [], res := "", asked := [], exit := "return" } := by decide

/-- set_master: get_root_uid() is asked on every load, get_bb_uid() only on the FIRST; a string answer gives uid = euid = that
    name - through set_root_uid (which may rename a record) on the first load only, through add_uid on a reload (`doDest`,
    `Policy.root`); without a string answer nothing is written (`Cfg.noRoot`); the backbone uid is set on the first load only -/
theorem tie_set_master_tree : ∀ rootRet rootIsString bbRet bbIsString : Bool,
    setMasterTree true false true rootRet rootIsString bbRet bbIsString =
      { writes := (if rootRet && rootIsString then [("master_ob->uid", "set_root_uid(<root-answer>)"), ("master_ob->euid", "master_ob->uid")] else []) ++
                  (if bbRet && bbIsString then [("set_backbone_uid", "set_backbone_uid(ret->u.string)")] else []),
        res := "", asked := ["get_root_uid", "get_bb_uid"], exit := "end" } ∧
    setMasterTree true false false rootRet rootIsString bbRet bbIsString =
      { writes := (if rootRet && rootIsString then [("master_ob->uid", "add_uid(<root-answer>)"), ("master_ob->euid", "master_ob->uid")] else []),
        res := "", asked := ["get_root_uid"], exit := "end" } := by decide

/-- **reload_object = `doReload`** for every world and registered target: the tree's only uid / euid write is `euid := 0`, before
    create(); the model clears exactly the target's euid, keeps its uid and announces it without a creator_file call -/
theorem tie_reload_semantics (w : World) (t : Oid) (T : Obj) (hT : getO w.objs t = some T) :
    (reloadTree true).writes = [("obj->euid", "0"), ("call_create", "call_create(obj, 0)")] ∧
    (doReload w t).1.objs = setO w.objs { T with euid := none } ∧
    (doReload w t).2.1 = [{ name := w.nameOf T, ans := none, made := some { T with euid := none } }] ∧
    (doReload w t).2.2.2 = .int 1 := by
  refine ⟨by decide, ?_, ?_, ?_⟩ <;> simp [doReload, hT]

/-- **set_master = `initObjs` (first load) and `doDest` of the master (reload)**, for every configuration:
    first load - with get_root_uid() answering a string the tree writes uid := that name, euid := uid, and the model's first
    master has uid = euid = `cfg.root`; without it the tree writes nothing and the model's master keeps the pre-master
    "NONAME" / 0 of give_uid_to_object (`tie_giveuid_tree_premaster`);
    reload - uid := add_uid(name the NEW master answers), euid := uid, and `doDest` gives the master exactly `rootNow` / `rootNow` -/
theorem tie_set_master_semantics (cfg : Cfg) (bbRet bbIsString : Bool) (rootNow : Name) (w : World) (A M : Obj)
    (hM : getO w.objs masterOid = some M) (hr : cfg.noRoot = false) (hg : ¬ (A.oid ≠ masterOid ∧ A.euid = none)) :
    ((setMasterTree true false true true (!cfg.noRoot) bbRet bbIsString).writes.take 2 =
        (if cfg.noRoot then [] else [("master_ob->uid", "set_root_uid(<root-answer>)"), ("master_ob->euid", "master_ob->uid")]) ++
        (if cfg.noRoot && bbRet && bbIsString then [("set_backbone_uid", "set_backbone_uid(ret->u.string)")] else [])) ∧
    ((initObjs cfg).head?.map (fun m => (m.uid, m.euid)) = some (some cfg.root, some cfg.root)) ∧
    ((setMasterTree true false false true true bbRet bbIsString).writes =
        [("master_ob->uid", "add_uid(<root-answer>)"), ("master_ob->euid", "master_ob->uid")]) ∧
    ((doDest cfg rootNow w A masterOid).1.objs = setO w.objs { M with uid := some rootNow, euid := some rootNow }) := by
  refine ⟨?_, ?_, ?_, ?_⟩
  · rw [(tie_set_master_tree true (!cfg.noRoot) bbRet bbIsString).1]
    cases bbRet <;> cases bbIsString <;> simp [hr]
  · simp [initObjs, hr]
  · rw [(tie_set_master_tree true true bbRet bbIsString).2]; simp
  · unfold doDest
    simp [hM, hr, hg]

/-- a master WITHOUT get_root_uid(): set_master writes nothing, the model's first master is what give_uid_to_object made of it
    before a master existed -/
theorem tie_set_master_noroot (cfg : Cfg) (bbRet bbIsString : Bool) (hr : cfg.noRoot = true) :
    ((setMasterTree true false true true (!cfg.noRoot) bbRet bbIsString).writes.all (fun w => w.1 != "master_ob->uid" && w.1 != "master_ob->euid") = true) ∧
    ((initObjs cfg).head?.map (fun m => (m.uid, m.euid)) = some (some "NONAME", none)) := by
  refine ⟨?_, ?_⟩
  · rw [(tie_set_master_tree true (!cfg.noRoot) bbRet bbIsString).1]
    cases bbRet <;> cases bbIsString <;> simp [hr]
  · simp [initObjs, hr]

/-- **give_uid_to_object before a master exists = the pre-master objects of `initObjs`**: the writes of the pre-master leaf give
    "NONAME" / 0 - exactly the uids of the simul_efun object (`cfg.simul`) and of a first master without get_root_uid()
    (`cfg.noRoot`, see `tie_set_master_noroot`: set_master then writes nothing) -/
theorem tie_premaster_semantics (cfg : Cfg) (creator : Obj) (a : Ans) (b c d e f g h i j : Bool) :
    applyWrites creator a (giveUidTree true b c d e f g h i j).writes (none, none) = some (some "NONAME", none) ∧
    (cfg.simul = true → (initObjs cfg).getLast?.map (fun o => (o.oid, o.uid, o.euid)) = some (simulOid, some "NONAME", none)) ∧
    (cfg.noRoot = true → (initObjs cfg).head?.map (fun o => (o.uid, o.euid)) = some (some "NONAME", none)) := by
  refine ⟨?_, ?_, ?_⟩
  · rw [(tie_giveuid_tree_premaster b c d e f g h i j).1]
    simp [retLeaf, applyWrites, rhsVal]
  · intro hs; simp [initObjs, hs]
  · intro hn; simp [initObjs, hn]

end NV.C20
