/-
C20 — `execWith` (one op, create() scripts run by a good runner) and `exec` (any fuel) are good: the invariant is
kept, the emitted segments chain with every oracle clause satisfied, and in nested mode every object other than
the actor keeps its euid.
-/
import NV.C20.LemmasNest

namespace NV.C20

/-- like `Frame` but for every registered object -/
def AllKeep (P Q : List Obj) : Prop :=
  ∀ x X, getO P x = some X → ∃ X', getO Q x = some X' ∧ X'.euid = X.euid

theorem AllKeep.refl (P : List Obj) : AllKeep P P := fun _ X h => ⟨X, h, rfl⟩

theorem AllKeep.frame {P Q : List Obj} (h : AllKeep P Q) (z : Oid) : Frame z P Q := fun x X _ hX => h x X hX

theorem AllKeep.setO_fresh {P : List Obj} {o : Obj} (h : getO P o.oid = none) : AllKeep P (setO P o) := by
  intro x X hX
  have hne : ¬ o.oid = x := by
    intro e; rw [e] at h; rw [h] at hX; cases hX
  exact ⟨X, by simp [getO_setO, hne, hX], rfl⟩

theorem AllKeep.through_fresh {o : Oid} {P P1 Q : List Obj} (hfresh : getO P o = none) (h1 : AllKeep P P1)
    (h2 : Frame o P1 Q) : AllKeep P Q := by
  intro x X hX
  have hxo : x ≠ o := by
    intro e; rw [e] at hX; rw [hfresh] at hX; cases hX
  obtain ⟨X1, h3, h4⟩ := h1 x X hX
  obtain ⟨X2, h5, h6⟩ := h2 x X1 hxo h3
  exact ⟨X2, h5, h6.trans h4⟩

theorem single_good {bb : Option Name} {w : World} (a : Oid) (op : Op)
    (x : World × List Creation × Option (Oid × Name × Ans) × Res) (hx : StepOK bb w.objs x.1 (recOfR a op x)) :
    Inv (single a op x).1 ∧ Chain bb w.objs (single a op x).2 (single a op x).1.objs :=
  ⟨hx.inv, Chain.single hx⟩

/-- result segment of an op whose create() scripts have finished: nothing changes -/
theorem final_seg_ok {bb : Option Name} {w1 : World} (hw : Inv w1) (a : Oid) (op : Op) (res : Res)
    (hop : ∀ t, op ≠ .exportUid t) (hop2 : ∀ s, op ≠ .seteuidStr s) :
    StepOK bb w1.objs w1 (seg w1 a op none [] (some res) false) := by
  have h : StepOK bb w1.objs w1 (recOf w1 a op none [] res) := by
    apply stepOK_same hw w1 rfl
    · exact noEuid_of_all (by simp [recOf])
    · cases op <;> simp [exportClause, recOf]
      exact absurd rfl (hop _)
    · cases op <;> simp [askedClause, recOf]
      exact absurd rfl (hop2 _)
  exact StepOK_congr h rfl rfl rfl rfl rfl rfl (Or.inl rfl)

/-- a refused op (`nobj`) of an existing or missing actor -/
theorem nobj_seg_ok {bb : Option Name} {w : World} (hw : Inv w) (a : Oid) (op : Op)
    (hop : ∀ t, op ≠ .exportUid t) (hop2 : ∀ s, op ≠ .seteuidStr s) :
    StepOK bb w.objs w (seg w a op none [] (some .nobj) true) := by
  have h := final_seg_ok (bb := bb) hw a op .nobj hop hop2
  exact StepOK_congr h rfl rfl rfl rfl rfl rfl (Or.inl rfl)

/-- creation segment: the op's record without its result -/
theorem creation_seg_ok {bb : Option Name} {P : List Obj} {x1 : World} {a : Oid} {op : Op} {cs : List Creation}
    {res : Res} (first : Bool) (hx : StepOK bb P x1 (recOf x1 a op none cs res)) (hop : ∀ t, op ≠ .exportUid t) :
    StepOK bb P x1 (seg x1 a op none cs none first) :=
  StepOK_congr hx rfl rfl rfl rfl rfl rfl (Or.inr hop)

/-! ### load -/

theorem create_objs {cfg : Cfg} {pol : Policy} {i : Nat} {w : World} {A : Obj} {oid : Oid} {name : String} {bp : Bool} :
    ((create cfg pol i w A oid name bp).1.objs = w.objs ∧ (create cfg pol i w A oid name bp).2.1.made = none) ∨
    (∃ o, o.oid = oid ∧ (create cfg pol i w A oid name bp).1.objs = setO w.objs o ∧
      (create cfg pol i w A oid name bp).2.1.made = some o ∧ (create cfg pol i w A oid name bp).2.1.ans.isSome = true) := by
  by_cases hcf : pol.cf i name = .err
  · obtain ⟨e1, e2, _, _⟩ := create_err (cfg := cfg) (w := w) (A := A) (oid := oid) (bp := bp) hcf
    exact Or.inl ⟨e1, by rw [e2]⟩
  · obtain ⟨e1, e2, _⟩ := create_ok (cfg := cfg) (w := w) (A := A) (oid := oid) (bp := bp) hcf
    exact Or.inr ⟨_, rfl, e1, by rw [e2], by rw [e2]; rfl⟩

theorem doLoad_facts (cfg : Cfg) (pol : Policy) (i : Nat) (w : World) (A : Obj) (p : Path) :
    (doLoad cfg pol i w A p).2.2.1 = none ∧
    (((doLoad cfg pol i w A p).1.objs = w.objs ∧ createdNow (doLoad cfg pol i w A p).2.1 = none) ∨
     (∃ o, getO w.objs o.oid = none ∧ (doLoad cfg pol i w A p).1.objs = setO w.objs o ∧
        (createdNow (doLoad cfg pol i w A p).2.1 = none ∨ createdNow (doLoad cfg pol i w A p).2.1 = some o))) := by
  unfold doLoad
  by_cases hgd : (p.name ∉ w.loaded ∨ p.name ∈ w.half) ∧ getO w.objs p.oid ≠ none
  · rw [if_pos hgd]; exact ⟨rfl, Or.inl ⟨rfl, rfl⟩⟩
  rw [if_neg hgd]
  by_cases hl : p.name ∈ w.loaded
  · rw [if_pos hl]
    by_cases hh : p.name ∈ w.half
    · rw [if_pos hh]
      have hfresh : getO w.objs p.oid = none := by
        cases h : getO w.objs p.oid with
        | none => rfl
        | some _ => exact absurd ⟨Or.inr hh, by simp [h]⟩ hgd
      exact ⟨rfl, Or.inr ⟨_, hfresh, rfl, Or.inl rfl⟩⟩
    · rw [if_neg hh]; exact ⟨rfl, Or.inl ⟨rfl, rfl⟩⟩
  · rw [if_neg hl]
    have hfresh : getO w.objs p.oid = none := by
      cases h : getO w.objs p.oid with
      | none => rfl
      | some _ => exact absurd ⟨Or.inl hl, by simp [h]⟩ hgd
    by_cases hguard : A.oid ≠ masterOid ∧ A.euid = none
    · rw [if_pos hguard]; exact ⟨rfl, Or.inl ⟨rfl, rfl⟩⟩
    · rw [if_neg hguard]
      by_cases hex : p.exists = false
      · rw [if_pos hex]; exact ⟨rfl, Or.inl ⟨rfl, rfl⟩⟩
      · rw [if_neg hex]
        refine ⟨rfl, ?_⟩
        rcases create_objs (cfg := cfg) (pol := pol) (i := i) (w := w) (A := A) (oid := p.oid) (name := p.name) (bp := true)
          with ⟨h1, h2⟩ | ⟨o, h1, h2, h3, h4⟩
        · exact Or.inl ⟨h1, by simp [createdNow, h2]⟩
        · exact Or.inr ⟨o, by rw [h1]; exact hfresh, h2, Or.inr (by simp [createdNow, h3, h4])⟩

theorem execLoad_good {cfg : Cfg} {pol : Policy} {i : Nat} {sub : Sub} (hsub : GoodSub cfg.bb sub) {w : World}
    (hw : Inv w) {a : Oid} {A : Obj} (hA : getO w.objs a = some A) (p : Path) :
    Inv (execLoad cfg pol i sub w a A p).1 ∧
    Chain cfg.bb w.objs (execLoad cfg pol i sub w a A p).2 (execLoad cfg pol i sub w a A p).1.objs ∧
    Frame a w.objs (execLoad cfg pol i sub w a A p).1.objs := by
  have hx := load_ok hw hA cfg pol i p
  obtain ⟨hvs, hcase⟩ := doLoad_facts cfg pol i w A p
  cases hc : createdNow (doLoad cfg pol i w A p).2.1 with
  | none =>
    simp only [execLoad, hc]
    refine ⟨hx.inv, Chain.single hx, ?_⟩
    rcases hcase with ⟨h1, _⟩ | ⟨o, hfresh, h1, _⟩
    · exact Frame.of_eq h1
    · simp only [single]; rw [h1]; exact Frame.setO_fresh hfresh
  | some o =>
    simp only [execLoad, hc]
    rcases hcase with ⟨_, h2⟩ | ⟨o', hfresh, h1, h2⟩
    · rw [hc] at h2; cases h2
    · rcases h2 with h2 | h2
      · rw [hc] at h2; cases h2
      · rw [hc] at h2; cases h2
        obtain ⟨hy1, hy2, hy3⟩ := hsub (doLoad cfg pol i w A p).1 o.oid p.name hx.inv
        have hx' : StepOK cfg.bb w.objs (doLoad cfg pol i w A p).1
            (recOf (doLoad cfg pol i w A p).1 a (.load p) none (doLoad cfg pol i w A p).2.1 (doLoad cfg pol i w A p).2.2.2) := by
          have := hx
          unfold recOfR at this
          rw [hvs] at this
          exact this
        refine ⟨hy1, ?_, ?_⟩
        · exact Chain.cons (creation_seg_ok true hx' (by intro t h; cases h))
            (Chain.append hy2 (Chain.single (final_seg_ok hy1 a (.load p) _ (by intro t h; cases h) (by intro t h; cases h))))
        · refine Frame.through_fresh hfresh ?_ hy3
          rw [h1]; exact Frame.setO_fresh hfresh

/-! ### reload_object (top level only) -/

theorem execReload_good {bb : Option Name} {sub : Sub} (hsub : GoodSub bb sub) {w : World}
    (hw : Inv w) {a : Oid} {A : Obj} (hA : getO w.objs a = some A) (t : Oid) :
    Inv (execReload sub w a t).1 ∧ Chain bb w.objs (execReload sub w a t).2 (execReload sub w a t).1.objs := by
  have hx := reload_ok (bb := bb) hw hA t
  have hvs : (doReload w t).2.2.1 = none := by
    unfold doReload
    cases getO w.objs t with
    | none => rfl
    | some T => simp only; split <;> rfl
  cases hcs : (doReload w t).2.1 with
  | nil => simp only [execReload, hcs]; exact single_good a _ _ hx
  | cons c cs =>
    cases cs with
    | cons _ _ => simp only [execReload, hcs]; exact single_good a _ _ hx
    | nil =>
      cases hm : c.made with
      | none => simp only [execReload, hcs, hm]; exact single_good a _ _ hx
      | some o =>
        simp only [execReload, hcs, hm]
        obtain ⟨hy1, hy2, _⟩ := hsub (doReload w t).1 o.oid (scriptKey o.name) hx.inv
        have hx' : StepOK bb w.objs (doReload w t).1
            (recOf (doReload w t).1 a (.reload t) none (doReload w t).2.1 (doReload w t).2.2.2) := by
          have := hx
          unfold recOfR at this
          rw [hvs] at this
          exact this
        refine ⟨hy1, ?_⟩
        rw [← hcs]
        exact Chain.cons (creation_seg_ok true hx' (by intro t h; cases h))
          (Chain.append hy2 (Chain.single (final_seg_ok hy1 a (.reload t) _ (by intro t h; cases h) (by intro t h; cases h))))

/-! ### the simple ops keep everybody else's euid -/

theorem frame_seteuidInt {w : World} {A : Obj} (n : Int) : Frame A.oid w.objs (doSeteuidInt w A n).1.objs := by
  unfold doSeteuidInt
  split
  · exact Frame.setO_self (o := { A with euid := none })
  · exact Frame.refl _ _

theorem frame_seteuidStr {w : World} {A : Obj} (pol : Policy) (i : Nat) (s : Name) :
    Frame A.oid w.objs (doSeteuidStr pol i w A s).1.objs := by
  unfold doSeteuidStr
  by_cases h1 : pol.vs i A.oid s = .err
  · simp only [h1, if_true]; exact Frame.refl _ _
  · simp only [h1, if_false]
    by_cases h2 : (pol.vs i A.oid s).approved = true
    · simp only [h2, if_true]; exact Frame.setO_self (o := { A with euid := some s })
    · simp only [h2]; exact Frame.refl _ _

theorem frame_export {w : World} {A : Obj} (z : Oid) (t : Oid) : Frame z w.objs (doExport w A t).1.objs := by
  unfold doExport
  cases hT : getO w.objs t with
  | none => exact Frame.refl _ _
  | some T =>
    simp only
    split
    · exact Frame.refl _ _
    · split
      · exact Frame.refl _ _
      · have hTo := (getO_some hT).2
        exact Frame.setO_euid (o := { T with uid := A.euid }) (T := T) (by simpa [hTo] using hT) rfl

/-! ### clone -/

theorem clonePre_none {w : World} {A : Obj} {newOid : Oid} {p : Path} (h : clonePre w A newOid p = none) :
    newOid ∉ reservedOids ∧ getO w.objs newOid = none ∧ (p.name ∈ w.loaded ∨ getO w.objs p.oid = none) ∧
    ¬ (A.oid ≠ masterOid ∧ A.euid = none) := by
  unfold clonePre at h
  by_cases h1 : newOid ∈ reservedOids ∨ getO w.objs newOid ≠ none
  · rw [if_pos h1] at h; cases h
  rw [if_neg h1] at h
  by_cases h2 : p.name ∉ w.loaded ∧ getO w.objs p.oid ≠ none
  · rw [if_pos h2] at h; cases h
  rw [if_neg h2] at h
  by_cases h3 : A.oid ≠ masterOid ∧ A.euid = none
  · rw [if_pos h3] at h; cases h
  refine ⟨fun x => h1 (Or.inl x), ?_, ?_, h3⟩
  · cases hg : getO w.objs newOid with
    | none => rfl
    | some _ => exact absurd (Or.inr (by simp [hg])) h1
  · by_cases hl : p.name ∈ w.loaded
    · exact Or.inl hl
    · right
      cases hg : getO w.objs p.oid with
      | none => rfl
      | some _ => exact absurd ⟨hl, by simp [hg]⟩ h2

/-- the clone itself, from the world `W` reached after the blueprint's create() script -/
theorem clone_phase2 {cfg : Cfg} {pol : Policy} {i : Nat} {sub : Sub} (hsub : GoodSub cfg.bb sub) {W : World}
    (hW : Inv W) {A' : Obj} (hA' : getO W.objs A'.oid = some A') (hguard : ¬ (A'.oid ≠ masterOid ∧ A'.euid = none))
    (newOid : Oid) (p : Path) (first : Bool) :
    Inv (cloneTail cfg pol i sub W A'.oid A' newOid p first).1 ∧
    Chain cfg.bb W.objs (cloneTail cfg pol i sub W A'.oid A' newOid p first).2
      (cloneTail cfg pol i sub W A'.oid A' newOid p first).1.objs ∧
    Frame newOid W.objs (cloneTail cfg pol i sub W A'.oid A' newOid p first).1.objs := by
  let c := cloneSelf cfg pol i W A' newOid p
  let y := sub c.1 newOid (p.name ++ "#")
  have htl : cloneTail cfg pol i sub W A'.oid A' newOid p first =
      (if c.2.2 = false then (c.1, [seg c.1 A'.oid (.clone newOid p) none [c.2.1] (some (.err .policy)) first])
      else (y.1, seg c.1 A'.oid (.clone newOid p) none [c.2.1] none first :: y.2 ++
              [seg y.1 A'.oid (.clone newOid p) none [] (some (.oid newOid)) false])) := rfl
  rw [htl]
  have hopx : ∀ t, Op.clone newOid p ≠ .exportUid t := by intro t h; cases h
  have hops : ∀ t, Op.clone newOid p ≠ .seteuidStr t := by intro t h; cases h
  by_cases hcf : pol.cf i (p.name ++ "#" ++ toString W.cloneSeq) = .err
  · obtain ⟨e1, e2, e3, _⟩ := create_err (cfg := cfg) (w := { W with cloneSeq := W.cloneSeq + 1 }) (A := A')
      (oid := newOid) (bp := false) hcf
    have hc2 : c.2.2 = false := e3
    have hs : StepOK cfg.bb W.objs c.1 (recOf c.1 A'.oid (.clone newOid p) none [c.2.1] (.err .policy)) := by
      apply stepOK_created hW hA' hguard _ (by simp [isCreatingOp])
      · exact Inv_same hW _ e1
      · intro e he
        have : c.1.objs = W.objs := e1
        rw [this] at he
        exact Or.inl (hW.wf e he)
      · intro c' hc' m hm
        simp at hc'
        subst hc'
        have : c.2.1 = { name := p.name ++ "#" ++ toString W.cloneSeq, ans := some .err, made := none } := e2
        rw [this] at hm; simp at hm
      · intro c' hc'
        simp at hc'
        subst hc'
        have : c.2.1 = { name := p.name ++ "#" ++ toString W.cloneSeq, ans := some .err, made := none } := e2
        rw [this]; simp [madeOk]
    simp only [hc2, if_true]
    refine ⟨hs.inv, Chain.single (StepOK_congr hs rfl rfl rfl rfl rfl rfl (Or.inl rfl)), ?_⟩
    exact Frame.of_eq e1
  · obtain ⟨e1, e2, e3⟩ := create_ok (cfg := cfg) (w := { W with cloneSeq := W.cloneSeq + 1 }) (A := A')
      (oid := newOid) (bp := false) hcf
    have hg := giveUid_spec cfg A' (pol.cf i (p.name ++ "#" ++ toString W.cloneSeq))
    have hc2 : c.2.2 = true := e3
    have hobjs : c.1.objs = setO W.objs (Obj.mk newOid (p.name ++ "#" ++ toString W.cloneSeq)
        (giveUid cfg A' (pol.cf i (p.name ++ "#" ++ toString W.cloneSeq))).1
        (giveUid cfg A' (pol.cf i (p.name ++ "#" ++ toString W.cloneSeq))).2) := e1
    have hcre : c.2.1 = Creation.mk (p.name ++ "#" ++ toString W.cloneSeq)
        (some (pol.cf i (p.name ++ "#" ++ toString W.cloneSeq)))
        (some (Obj.mk newOid (p.name ++ "#" ++ toString W.cloneSeq)
          (giveUid cfg A' (pol.cf i (p.name ++ "#" ++ toString W.cloneSeq))).1
          (giveUid cfg A' (pol.cf i (p.name ++ "#" ++ toString W.cloneSeq))).2)) := e2
    have hs : StepOK cfg.bb W.objs c.1 (recOf c.1 A'.oid (.clone newOid p) none [c.2.1] (.oid newOid)) := by
      apply stepOK_created hW hA' hguard _ (by simp [isCreatingOp])
      · exact Inv_setO hW _ hg.1 _ hobjs
      · intro e he
        rw [hobjs] at he
        rcases frame_setO hW.wf he with h | h
        · exact Or.inr ⟨c.2.1, by simp, by rw [hcre, h]⟩
        · exact Or.inl h
      · intro c' hc' m hm
        simp at hc'
        subst hc'
        rw [hcre] at hm
        simp at hm
        subst hm
        simp [hobjs, getO_setO]
      · intro c' hc'
        simp at hc'
        subst hc'
        rw [hcre]
        exact madeOk_created (by simp [recOf, isCreatingOp]) (by simpa [recOf] using hA')
          (by simpa [recOf] using guard_or hguard) hcf hg.2
    obtain ⟨hy1, hy2, hy3⟩ := hsub c.1 newOid (p.name ++ "#") hs.inv
    simp only [hc2, Bool.true_eq_false, if_false]
    refine ⟨hy1, ?_, ?_⟩
    · exact Chain.cons (creation_seg_ok first hs hopx)
        (Chain.append hy2 (Chain.single (final_seg_ok hy1 _ _ _ hopx hops)))
    · refine Frame.trans ?_ hy3
      rw [hobjs]
      exact Frame.setO_self (o := Obj.mk newOid _ _ _)

theorem plain_seg_ok {bb : Option Name} {w : World} (hw : Inv w) (a : Oid) (op : Op) (res : Res) (first : Bool)
    (hop : ∀ t, op ≠ .exportUid t) (hop2 : ∀ s, op ≠ .seteuidStr s) :
    StepOK bb w.objs w (seg w a op none [] (some res) first) :=
  StepOK_congr (final_seg_ok (bb := bb) hw a op res hop hop2) rfl rfl rfl rfl rfl rfl (Or.inl rfl)

theorem AllKeep.of_frame_fresh {o : Oid} {P Q : List Obj} (hfresh : getO P o = none) (h : Frame o P Q) : AllKeep P Q :=
  AllKeep.through_fresh hfresh (AllKeep.refl P) h

theorem execClone_good {cfg : Cfg} {pol : Policy} {i : Nat} {sub : Sub} (hsub : GoodSub cfg.bb sub) {w : World}
    (hw : Inv w) {a : Oid} {A : Obj} (hA : getO w.objs a = some A) (newOid : Oid) (p : Path) :
    Inv (execClone cfg pol i sub w a A newOid p).1 ∧
    Chain cfg.bb w.objs (execClone cfg pol i sub w a A newOid p).2 (execClone cfg pol i sub w a A newOid p).1.objs ∧
    Frame a w.objs (execClone cfg pol i sub w a A newOid p).1.objs := by
  have hAo := (getO_some hA).2
  subst hAo
  have hopx : ∀ t, Op.clone newOid p ≠ .exportUid t := by intro t h; cases h
  have hops : ∀ t, Op.clone newOid p ≠ .seteuidStr t := by intro t h; cases h
  cases hpre : clonePre w A newOid p with
  | some r =>
    simp only [execClone, hpre]
    exact ⟨hw, Chain.single (plain_seg_ok hw _ _ _ _ hopx hops), Frame.refl _ _⟩
  | none =>
    obtain ⟨hres, hfreshN, hbp, hguard⟩ := clonePre_none hpre
    by_cases hl : p.name ∈ w.loaded
    · have hb : cloneBp cfg pol i w A p = (w, [], true) := by simp [cloneBp, hl]
      simp only [execClone, hpre, hb]
      obtain ⟨h1, h2, h3⟩ := clone_phase2 (cfg := cfg) (pol := pol) (i := i) hsub hw hA hguard newOid p true
      exact ⟨h1, h2, (AllKeep.of_frame_fresh hfreshN h3).frame _⟩
    · have hfreshP : getO w.objs p.oid = none := by
        rcases hbp with h | h
        · exact absurd h hl
        · exact h
      by_cases hex : p.exists = false
      · have hb : cloneBp cfg pol i w A p = (w, [], false) := by simp [cloneBp, hl, hex]
        simp only [execClone, hpre, hb]
        exact ⟨hw, Chain.single (plain_seg_ok hw _ _ _ _ hopx hops), Frame.refl _ _⟩
      · have hex' : p.exists = true := by simpa using hex
        have hb : cloneBp cfg pol i w A p = ((create cfg pol i w A p.oid p.name true).1,
            [(create cfg pol i w A p.oid p.name true).2.1], (create cfg pol i w A p.oid p.name true).2.2) := by
          simp [cloneBp, hl, hex']
        by_cases hcf : pol.cf i p.name = .err
        · obtain ⟨e1, e2, e3, _⟩ := create_err (cfg := cfg) (w := w) (A := A) (oid := p.oid) (bp := true) hcf
          simp only [execClone, hpre, hb, e3, if_true, List.isEmpty_cons, Bool.false_eq_true, if_false]
          have hs : StepOK cfg.bb w.objs (create cfg pol i w A p.oid p.name true).1
              (recOf (create cfg pol i w A p.oid p.name true).1 A.oid (.clone newOid p) none
                [(create cfg pol i w A p.oid p.name true).2.1] (.err .policy)) := by
            apply stepOK_created hw hA hguard _ (by simp [isCreatingOp])
            · exact Inv_same hw _ e1
            · intro e he
              rw [e1] at he
              exact Or.inl (hw.wf e he)
            · intro c hc m hm
              simp at hc
              subst hc
              rw [e2] at hm; simp at hm
            · intro c hc
              simp at hc
              subst hc
              rw [e2]; simp [madeOk]
          exact ⟨hs.inv, Chain.single hs, Frame.of_eq e1⟩
        · obtain ⟨e1, e2, e3⟩ := create_ok (cfg := cfg) (w := w) (A := A) (oid := p.oid) (bp := true) hcf
          have hg := giveUid_spec cfg A (pol.cf i p.name)
          have hs : StepOK cfg.bb w.objs (create cfg pol i w A p.oid p.name true).1
              (recOf (create cfg pol i w A p.oid p.name true).1 A.oid (.clone newOid p) none
                [(create cfg pol i w A p.oid p.name true).2.1] (.oid newOid)) := by
            apply stepOK_created hw hA hguard _ (by simp [isCreatingOp])
            · exact Inv_setO hw _ hg.1 _ e1
            · intro e he
              rw [e1] at he
              rcases frame_setO hw.wf he with h | h
              · exact Or.inr ⟨(create cfg pol i w A p.oid p.name true).2.1, by simp, by rw [e2, h]⟩
              · exact Or.inl h
            · intro c hc m hm
              simp at hc
              subst hc
              rw [e2] at hm
              simp at hm
              subst hm
              simp [e1, getO_setO]
            · intro c hc
              simp at hc
              subst hc
              rw [e2]
              exact madeOk_created (by simp [recOf, isCreatingOp]) (by simpa [recOf] using hA)
                (by simpa [recOf] using guard_or hguard) hcf hg.2
          obtain ⟨hy1, hy2, hy3⟩ := hsub (create cfg pol i w A p.oid p.name true).1 p.oid p.name hs.inv
          have hkeep : AllKeep w.objs (sub (create cfg pol i w A p.oid p.name true).1 p.oid p.name).1.objs := by
            refine AllKeep.through_fresh hfreshP ?_ hy3
            rw [e1]
            exact AllKeep.setO_fresh (o := Obj.mk p.oid _ _ _) hfreshP
          obtain ⟨A', hA', hA'e⟩ := hkeep A.oid A hA
          have hA'o : A'.oid = A.oid := (getO_some hA').2
          have hguard' : ¬ (A'.oid ≠ masterOid ∧ A'.euid = none) := by rw [hA'o, hA'e]; exact hguard
          have hA'' : getO (sub (create cfg pol i w A p.oid p.name true).1 p.oid p.name).1.objs A'.oid = some A' := by
            rw [hA'o]; exact hA'
          obtain ⟨h1, h2, h3⟩ := clone_phase2 (cfg := cfg) (pol := pol) (i := i) hsub hy1 hA'' hguard' newOid p false
          rw [hA'o] at h1 h2 h3
          simp only [execClone, hpre, hb, e3, Bool.true_eq_false, if_false, hA', Option.getD_some]
          refine ⟨h1, ?_, ?_⟩
          · exact Chain.cons (creation_seg_ok true hs hopx) (Chain.append hy2 h2)
          · intro x X hx hX
            obtain ⟨X1, h4, h5⟩ := hkeep x X hX
            have hxn : x ≠ newOid := by
              intro e; rw [e] at hX; rw [hfreshN] at hX; cases hX
            obtain ⟨X2, h6, h7⟩ := h3 x X1 hxn h4
            exact ⟨X2, h6, h7.trans h5⟩

/-! ### one op, and any fuel -/

theorem execWith_good {cfg : Cfg} {pol : Policy} {i : Nat} {sub : Sub} (hsub : GoodSub cfg.bb sub)
    (nested : Bool) (w : World) (a : Oid) (op : Op) (hw : Inv w) :
    Inv (execWith cfg pol i sub nested w a op).1 ∧
    Chain cfg.bb w.objs (execWith cfg pol i sub nested w a op).2 (execWith cfg pol i sub nested w a op).1.objs ∧
    (nested = true → Frame a w.objs (execWith cfg pol i sub nested w a op).1.objs) := by
  cases hA : getO w.objs a with
  | none =>
    simp only [execWith, hA]
    exact ⟨hw, Chain.single (actor_missing_ok hw a op hA), fun _ => Frame.refl _ _⟩
  | some A =>
    have hAo := (getO_some hA).2
    cases op with
    | seteuidInt n =>
      simp only [execWith, hA]
      have := single_good a (.seteuidInt n) _ (seteuidInt_ok (bb := cfg.bb) hw hA n)
      exact ⟨this.1, this.2, fun _ => hAo ▸ frame_seteuidInt n⟩
    | seteuidStr s =>
      simp only [execWith, hA]
      have := single_good a (.seteuidStr s) _ (seteuidStr_ok (bb := cfg.bb) hw hA pol i s)
      exact ⟨this.1, this.2, fun _ => hAo ▸ frame_seteuidStr pol i s⟩
    | exportUid t =>
      simp only [execWith, hA]
      have := single_good a (.exportUid t) _ (export_ok (bb := cfg.bb) hw hA t)
      exact ⟨this.1, this.2, fun _ => frame_export a t⟩
    | load p =>
      simp only [execWith, hA]
      have := execLoad_good (pol := pol) (i := i) hsub hw hA p
      exact ⟨this.1, this.2.1, fun _ => this.2.2⟩
    | clone o p =>
      simp only [execWith, hA]
      have := execClone_good (pol := pol) (i := i) hsub hw hA o p
      exact ⟨this.1, this.2.1, fun _ => this.2.2⟩
    | dest t =>
      cases nested with
      | true =>
        simp only [execWith, hA, if_true]
        exact ⟨hw, Chain.single (plain_seg_ok hw _ _ _ _ (by intro t h; cases h) (by intro t h; cases h)),
          fun _ => Frame.refl _ _⟩
      | false =>
        simp only [execWith, hA, Bool.false_eq_true, if_false]
        have := single_good a (.dest t) _ (dest_ok (bb := cfg.bb) hw hA t)
        exact ⟨this.1, this.2, fun h => by cases h⟩
    | reload t =>
      cases nested with
      | true =>
        simp only [execWith, hA, if_true]
        exact ⟨hw, Chain.single (plain_seg_ok hw _ _ _ _ (by intro t h; cases h) (by intro t h; cases h)),
          fun _ => Frame.refl _ _⟩
      | false =>
        simp only [execWith, hA, Bool.false_eq_true, if_false]
        have := execReload_good (bb := cfg.bb) hsub hw hA t
        exact ⟨this.1, this.2, fun h => by cases h⟩

theorem exec_good (cfg : Cfg) (pol : Policy) (i : Nat) : ∀ fuel, GoodExec cfg.bb (exec cfg pol i fuel) := by
  intro fuel
  induction fuel with
  | zero =>
    intro nested w a op hw
    simp only [exec]
    exact execWith_good (goodSub_skip cfg.bb) nested w a op hw
  | succ f ih =>
    intro nested w a op hw
    simp only [exec]
    exact execWith_good (goodSub_script ih (pol.script i)) nested w a op hw

end NV.C20
