/-
C20 — `execWith` (one op, create() scripts run by a good runner) and `exec` (any fuel) are good: the invariant is
kept, the emitted segments chain with every oracle clause satisfied, and in nested mode every object other than
the actor keeps its euid.
-/
import NV.C20.LemmasNest

namespace NV.C20

def GoodRun (bb : Option Name) (run : Run) : Prop :=
  ∀ w a op, Inv w →
    Inv (run w a op).1 ∧ Chain bb w.objs (run w a op).2 (run w a op).1.objs ∧ Keeps w.objs (run w a op).1.objs

theorem goodRun_skip (bb : Option Name) : GoodRun bb (fun w _ _ => (w, [])) :=
  fun w _ _ hw => ⟨hw, rfl, Keeps.refl w.objs⟩

theorem goodRun_of_exec {bb : Option Name} {f : Bool → World → Oid → Op → World × List StepRec} (hf : GoodExec bb f) :
    GoodRun bb (f true) :=
  fun w a op hw => ⟨(hf true w a op hw).1, (hf true w a op hw).2.1, (hf true w a op hw).2.2 rfl⟩

theorem seg_of_recOf {bb : Option Name} {P : List Obj} {w1 : World} {a : Oid} {op : Op}
    {vs : Option (Oid × Name × Ans)} {cs : List Creation} {res : Res} (first : Bool)
    (h : StepOK bb P w1 (recOf w1 a op vs cs res)) : StepOK bb P w1 (seg w1 a op vs cs (some res) first) :=
  StepOK_congr h rfl rfl rfl rfl rfl rfl rfl rfl rfl rfl (Or.inl rfl)

theorem single_good {bb : Option Name} {w : World} (a : Oid) (op : Op)
    (x : World × List Creation × Option (Oid × Name × Ans) × Res) (hx : StepOK bb w.objs x.1 (recOfR a op x)) :
    Inv (single a op x).1 ∧ Chain bb w.objs (single a op x).2 (single a op x).1.objs :=
  ⟨hx.inv, Chain.single (seg_of_recOf true hx)⟩

/-- result segment of an op whose create() scripts have finished: nothing changes -/
theorem final_seg_ok {bb : Option Name} {w1 : World} (hw : Inv w1) (a : Oid) (op : Op) (res : Res)
    (hop : ∀ t, op ≠ .exportUid t) (hop2 : ∀ s, op ≠ .seteuidStr s) :
    StepOK bb w1.objs w1 (seg w1 a op none [] (some res) false) := by
  have h : StepOK bb w1.objs w1 (recOf w1 a op none [] res) := by
    apply stepOK_same hw w1 rfl
    · exact noEuid_of_all (by simp [recOf]) rfl
    · cases op <;> simp [exportClause, recOf]
      exact absurd rfl (hop _)
    · cases op <;> simp [askedClause, recOf]
      exact absurd rfl (hop2 _)
  exact StepOK_congr h rfl rfl rfl rfl rfl rfl rfl rfl rfl rfl (Or.inl rfl)

/-- a refused op (`nobj`) of an existing or missing actor -/
theorem nobj_seg_ok {bb : Option Name} {w : World} (hw : Inv w) (a : Oid) (op : Op)
    (hop : ∀ t, op ≠ .exportUid t) (hop2 : ∀ s, op ≠ .seteuidStr s) :
    StepOK bb w.objs w (seg w a op none [] (some .nobj) true) := by
  have h := final_seg_ok (bb := bb) hw a op .nobj hop hop2
  exact StepOK_congr h rfl rfl rfl rfl rfl rfl rfl rfl rfl rfl (Or.inl rfl)

/-- creation segment: the op's record without its result -/
theorem creation_seg_ok {bb : Option Name} {P : List Obj} {x1 : World} {a : Oid} {op : Op} {cs : List Creation}
    {res : Res} (first : Bool) (hx : StepOK bb P x1 (recOf x1 a op none cs res)) (hop : ∀ t, op ≠ .exportUid t) :
    StepOK bb P x1 (seg x1 a op none cs none first) :=
  StepOK_congr hx rfl rfl rfl rfl rfl rfl rfl rfl rfl rfl (Or.inr hop)

/-! ### load -/

theorem create_objs {cfg : Cfg} {pol : Policy} {i : Nat} {w : World} {A : Obj} {oid : Oid} {name : String} {bp : Bool} :
    ((create cfg pol i w A oid name bp).1.objs = w.objs ∧ (create cfg pol i w A oid name bp).2.1.made = none) ∨
    (∃ o, o.oid = oid ∧ (create cfg pol i w A oid name bp).1.objs = setO w.objs o ∧
      (create cfg pol i w A oid name bp).2.1.made = some o ∧ (create cfg pol i w A oid name bp).2.1.ans.isSome = true) := by
  by_cases hcf : pol.cf i name = .err
  · obtain ⟨e1, e2, _, _⟩ := create_err (cfg := cfg) (w := w) (A := A) (oid := oid) (bp := bp) hcf
    exact Or.inl ⟨e1, by rw [e2]⟩
  · obtain ⟨e1, e2, _⟩ := create_ok (cfg := cfg) (w := w) (A := A) (oid := oid) (bp := bp) hcf
    exact Or.inr ⟨_, rfl, e1, by rw [e2], by rw [e2]; rfl⟩

theorem doLoad_facts (cfg : Cfg) (pol : Policy) (i : Nat) (w : World) (A : Obj) (p : Path) :
    (doLoad cfg pol i w A p).2.2.1 = none ∧
    (((doLoad cfg pol i w A p).1.objs = w.objs ∧ createdNow (doLoad cfg pol i w A p).2.1 = none) ∨
     (∃ o, getO w.objs o.oid = none ∧ (doLoad cfg pol i w A p).1.objs = setO w.objs o ∧
        (createdNow (doLoad cfg pol i w A p).2.1 = none ∨ createdNow (doLoad cfg pol i w A p).2.1 = some o))) := by
  unfold doLoad
  by_cases hgd : (p.name ∉ w.loaded ∨ p.name ∈ w.half) ∧ getO w.objs p.oid ≠ none
  · rw [if_pos hgd]; exact ⟨rfl, Or.inl ⟨rfl, rfl⟩⟩
  rw [if_neg hgd]
  by_cases hl : p.name ∈ w.loaded
  · rw [if_pos hl]
    by_cases hh : p.name ∈ w.half
    · rw [if_pos hh]
      have hfresh : getO w.objs p.oid = none := by
        cases h : getO w.objs p.oid with
        | none => rfl
        | some _ => exact absurd ⟨Or.inr hh, by simp [h]⟩ hgd
      exact ⟨rfl, Or.inr ⟨_, hfresh, rfl, Or.inl rfl⟩⟩
    · rw [if_neg hh]; exact ⟨rfl, Or.inl ⟨rfl, rfl⟩⟩
  · rw [if_neg hl]
    have hfresh : getO w.objs p.oid = none := by
      cases h : getO w.objs p.oid with
      | none => rfl
      | some _ => exact absurd ⟨Or.inl hl, by simp [h]⟩ hgd
    by_cases hguard : A.oid ≠ masterOid ∧ A.euid = none
    · rw [if_pos hguard]; exact ⟨rfl, Or.inl ⟨rfl, rfl⟩⟩
    · rw [if_neg hguard]
      by_cases hex : p.exists = false
      · rw [if_pos hex]; exact ⟨rfl, Or.inl ⟨rfl, rfl⟩⟩
      · rw [if_neg hex]
        refine ⟨rfl, ?_⟩
        rcases create_objs (cfg := cfg) (pol := pol) (i := i) (w := w) (A := A) (oid := p.oid) (name := p.name) (bp := true)
          with ⟨h1, h2⟩ | ⟨o, h1, h2, h3, h4⟩
        · exact Or.inl ⟨h1, by simp [createdNow, h2]⟩
        · exact Or.inr ⟨o, by rw [h1]; exact hfresh, h2, Or.inr (by simp [createdNow, h3, h4])⟩


/-- result / refusal segment of an op: nothing registered changes -/
theorem plain_seg_ok {bb : Option Name} {w : World} (hw : Inv w) (a : Oid) (op : Op) (res : Res) (first : Bool)
    (hop : ∀ t, op ≠ .exportUid t) (hop2 : ∀ s, op ≠ .seteuidStr s) :
    StepOK bb w.objs w (seg w a op none [] (some res) first) :=
  StepOK_congr (final_seg_ok (bb := bb) hw a op res hop hop2) rfl rfl rfl rfl rfl rfl rfl rfl rfl rfl (Or.inl rfl)

/-- like `plain_seg_ok` when only unregistered bookkeeping of the world differs -/
theorem plain_seg_ok' {bb : Option Name} {w w' : World} (hw : Inv w) (hobjs : w'.objs = w.objs) (a : Oid) (op : Op)
    (res : Res) (first : Bool) (hop : ∀ t, op ≠ .exportUid t) (hop2 : ∀ s, op ≠ .seteuidStr s) :
    StepOK bb w.objs w' (seg w' a op none [] (some res) first) := by
  have h := plain_seg_ok (bb := bb) (Inv_same hw w' hobjs) a op res first hop hop2
  rw [hobjs] at h
  exact h

/-- segment in which compile_object was asked, for an actor that passed the euid test -/
theorem co_seg_ok {bb : Option Name} {w w1 : World} (hw : Inv w) (hobjs : w1.objs = w.objs) {a : Oid} {A : Obj}
    (hA : getO w.objs a = some A) (hguard : ¬ (a ≠ masterOid ∧ A.euid = none)) (op : Op) (first : Bool)
    (x : String × CoAns) (hop : ∀ t, op ≠ .exportUid t) (hop2 : ∀ s, op ≠ .seteuidStr s) :
    StepOK bb w.objs w1 (segCo w1 a op first x) := by
  have h0 : StepOK bb w.objs w1 (seg w1 a op none [] (some .nobj) first) := plain_seg_ok' hw hobjs a op _ first hop hop2
  have h1 : StepOK bb w.objs w1 (seg w1 a op none [] none first) :=
    StepOK_congr h0 rfl rfl rfl rfl rfl rfl rfl rfl rfl rfl (Or.inr hop)
  exact StepOK_co h1 hA hguard x

/-! ### creator_file re-entrancy: the master's callback into the creating object -/

theorem withCfPre_good {bb : Option Name} {pol : Policy} {i : Nat} {run : Run} (hrun : GoodRun bb run) {w : World}
    (hw : Inv w) {a : Oid} {A : Obj} (hA : getO w.objs a = some A) (active : Bool) (op : Op) (first : Bool) (name : String)
    (k : World → Obj → Bool → World × List StepRec)
    (hop : ∀ t, op ≠ .exportUid t) (hop2 : ∀ s, op ≠ .seteuidStr s)
    (hk0 : Inv (k w A first).1 ∧ Chain bb w.objs (k w A first).2 (k w A first).1.objs ∧ Keeps w.objs (k w A first).1.objs)
    (hk1 : a = masterOid → ∀ (W : World) (A2 : Obj), Inv W → getO W.objs a = some A2 →
      Inv (k W A2 false).1 ∧ Chain bb W.objs (k W A2 false).2 (k W A2 false).1.objs ∧ Keeps W.objs (k W A2 false).1.objs) :
    Inv (withCfPre pol i run active w a op first name k).1 ∧
    Chain bb w.objs (withCfPre pol i run active w a op first name k).2
      (withCfPre pol i run active w a op first name k).1.objs ∧
    Keeps w.objs (withCfPre pol i run active w a op first name k).1.objs := by
  unfold withCfPre
  simp only [hA]
  by_cases hd : active = true ∧ pol.cfDrop i name = true ∧ a = masterOid
  · rw [if_pos hd]
    obtain ⟨h1, h2, h3⟩ := hrun w masterOid (.seteuidInt 0) hw
    have hs0 : StepOK bb w.objs w (seg w a op none [] none first) :=
      StepOK_congr (plain_seg_ok (bb := bb) hw a op .nobj first hop hop2) rfl rfl rfl rfl rfl rfl rfl rfl rfl rfl (Or.inr hop)
    cases hA2 : getO (run w masterOid (.seteuidInt 0)).1.objs a with
    | none =>
      simp only
      exact ⟨h1, Chain.cons hs0 (Chain.append h2 (Chain.single (plain_seg_ok h1 _ _ _ _ hop hop2))), h3⟩
    | some A2 =>
      simp only
      obtain ⟨k1, k2, k3⟩ := hk1 hd.2.2 _ A2 h1 hA2
      exact ⟨k1, Chain.cons hs0 (Chain.append h2 k2), Keeps.trans h3 k3⟩
  · rw [if_neg hd]
    exact hk0

/-! ### valid_object -/

theorem withVo_good {bb : Option Name} {pol : Policy} {i : Nat} {w : World} (hw : Inv w) (active : Bool) (a : Oid) (op : Op)
    (first : Bool) (name : String) (k : Bool → World × List StepRec)
    (hop : ∀ t, op ≠ .exportUid t) (hop2 : ∀ s, op ≠ .seteuidStr s)
    (hk : ∀ f, Inv (k f).1 ∧ Chain bb w.objs (k f).2 (k f).1.objs ∧ Keeps w.objs (k f).1.objs) :
    Inv (withVo pol i active w a op first name k).1 ∧
    Chain bb w.objs (withVo pol i active w a op first name k).2 (withVo pol i active w a op first name k).1.objs ∧
    Keeps w.objs (withVo pol i active w a op first name k).1.objs := by
  unfold withVo
  cases hv : (if active = true then pol.vo i name else none) with
  | none => simp only; exact hk first
  | some v =>
    simp only
    by_cases h1 : v = .err
    · rw [if_pos h1]
      have hw1 : Inv { w with loaded := name :: w.loaded, half := name :: w.half } := Inv_same hw _ rfl
      have hs := plain_seg_ok' (bb := bb) (w' := { w with loaded := name :: w.loaded, half := name :: w.half }) hw rfl a op
        (.err .policy) first hop hop2
      exact ⟨hw1, Chain.single (StepOK_vo hs (name, v) (by simp [voClause, seg])), Keeps.refl _⟩
    · rw [if_neg h1]
      by_cases h2 : v.approved = false
      · rw [if_pos h2]
        have hs := plain_seg_ok (bb := bb) hw a op (.err .voDenied) first hop hop2
        exact ⟨hw, Chain.single (StepOK_vo hs (name, v) (by simp [voClause, seg])), Keeps.refl _⟩
      · rw [if_neg h2]
        have happ : v.approved = true := by cases h : v.approved <;> simp_all
        obtain ⟨k1, k2, k3⟩ := hk false
        have hs0 : StepOK bb w.objs w (seg w a op none [] none first) :=
          StepOK_congr (plain_seg_ok (bb := bb) hw a op .nobj first hop hop2) rfl rfl rfl rfl rfl rfl rfl rfl rfl rfl (Or.inr hop)
        exact ⟨k1, Chain.cons (StepOK_vo hs0 (name, v) (by simp [voClause, happ])) k2, k3⟩

/-! ### virtual objects -/

theorem virtCore_good {bb : Option Name} {pol : Policy} {i : Nat} {run : Run} (hrun : GoodRun bb run) {w : World}
    (hw : Inv w) {a : Oid} {A : Obj} (hA : getO w.objs a = some A) (hguard : ¬ (a ≠ masterOid ∧ A.euid = none))
    (op : Op) (first : Bool) (p : Path) (asClone : Bool)
    (hop : ∀ t, op ≠ .exportUid t) (hop2 : ∀ s, op ≠ .seteuidStr s) :
    Inv (virtCore pol i run w a op first p asClone).1 ∧
    Chain bb w.objs (virtCore pol i run w a op first p asClone).2.1 (virtCore pol i run w a op first p asClone).1.objs ∧
    Keeps w.objs (virtCore pol i run w a op first p asClone).1.objs := by
  unfold virtCore
  cases hco : pol.co i p.name with
  | silent => exact ⟨hw, rfl, Keeps.refl _⟩
  | none => exact ⟨hw, Chain.single (co_seg_ok hw rfl hA hguard op first _ hop hop2), Keeps.refl _⟩
  | nonobj n => exact ⟨hw, Chain.single (co_seg_ok hw rfl hA hguard op first _ hop hop2), Keeps.refl _⟩
  | err => exact ⟨hw, Chain.single (co_seg_ok hw rfl hA hguard op first _ hop hop2), Keeps.refl _⟩
  | tmpl t =>
    simp only
    have hw1 : Inv { w with vSeq := w.vSeq + 1 } := Inv_same hw _ rfl
    obtain ⟨h1, h2, h3⟩ := hrun { w with vSeq := w.vSeq + 1 } masterOid (.clone ("v" ++ toString (w.vSeq + 1)) t) hw1
    have hs := co_seg_ok (bb := bb) (w1 := { w with vSeq := w.vSeq + 1 }) hw rfl hA hguard op first (p.name, .tmpl t) hop hop2
    split
    · exact ⟨Inv_same h1 _ rfl, Chain.cons hs h2, h3⟩
    · exact ⟨h1, Chain.cons hs h2, h3⟩

theorem needsCompile_guard {w : World} {A : Obj} {p : Path} (h : needsCompile w A p = true) :
    ¬ (A.oid ≠ masterOid ∧ A.euid = none) := by
  unfold needsCompile at h
  simp only [decide_eq_true_eq] at h
  exact h.2.2.1

theorem keeps_doLoad (cfg : Cfg) (pol : Policy) (i : Nat) (w : World) (A : Obj) (p : Path) :
    Keeps w.objs (doLoad cfg pol i w A p).1.objs := by
  rcases (doLoad_facts cfg pol i w A p).2 with ⟨h1, _⟩ | ⟨o, _, h1, _⟩
  · exact Keeps.of_eq h1
  · rw [h1]; exact Keeps.setO _ _

theorem execLoadCore_good {cfg : Cfg} {pol : Policy} {i : Nat} {sub : Sub}
    (hsub : GoodSub cfg.bb sub) {w : World} (hw : Inv w) {a : Oid} {A : Obj} (hA : getO w.objs a = some A) (p p' : Path)
    (first : Bool) (k : Option (World → World × List StepRec))
    (hk : ∀ k', k = some k' → ∀ W, Inv W → Inv (k' W).1 ∧ Chain cfg.bb W.objs (k' W).2 (k' W).1.objs ∧ Keeps W.objs (k' W).1.objs) :
    Inv (execLoadCore cfg pol i sub w a A p (.load p') first k).1 ∧
    Chain cfg.bb w.objs (execLoadCore cfg pol i sub w a A p (.load p') first k).2
      (execLoadCore cfg pol i sub w a A p (.load p') first k).1.objs ∧
    Keeps w.objs (execLoadCore cfg pol i sub w a A p (.load p') first k).1.objs := by
  have hopx : ∀ t, Op.load p' ≠ .exportUid t := by intro t h; cases h
  have hops : ∀ t, Op.load p' ≠ .seteuidStr t := by intro t h; cases h
  have hx := load_ok hw hA cfg pol i p p'
  obtain ⟨hvs, hcase⟩ := doLoad_facts cfg pol i w A p
  cases hc : createdNow (doLoad cfg pol i w A p).2.1 with
  | none =>
    simp only [execLoadCore, hc, singleF]
    exact ⟨hx.inv, Chain.single (seg_of_recOf first hx), keeps_doLoad cfg pol i w A p⟩
  | some o =>
    obtain ⟨hy1, hy2, hy3⟩ := hsub (doLoad cfg pol i w A p).1 o.oid p.name hx.inv
    have hx' : StepOK cfg.bb w.objs (doLoad cfg pol i w A p).1
        (recOf (doLoad cfg pol i w A p).1 a (.load p') none (doLoad cfg pol i w A p).2.1 (doLoad cfg pol i w A p).2.2.2) := by
      have := hx
      unfold recOfR at this
      rw [hvs] at this
      exact this
    cases k with
    | none =>
      simp only [execLoadCore, hc]
      refine ⟨hy1, ?_, Keeps.trans (keeps_doLoad cfg pol i w A p) hy3⟩
      exact Chain.cons (creation_seg_ok first hx' hopx)
        (Chain.append hy2 (Chain.single (final_seg_ok hy1 a (.load p') _ hopx hops)))
    | some k' =>
      simp only [execLoadCore, hc]
      obtain ⟨hz1, hz2, hz3⟩ := hk k' rfl _ hy1
      refine ⟨hz1, ?_, Keeps.trans (keeps_doLoad cfg pol i w A p) (Keeps.trans hy3 hz3)⟩
      exact Chain.cons (creation_seg_ok first hx' hopx) (Chain.append hy2 hz2)

theorem loadPlain_good {cfg : Cfg} {pol : Policy} {i : Nat} {run : Run} {sub : Sub} (hrun : GoodRun cfg.bb run)
    (hsub : GoodSub cfg.bb sub) {w : World} (hw : Inv w) {a : Oid} {A : Obj} (hA : getO w.objs a = some A) (p p' : Path)
    (first : Bool) (k : Option (World → World × List StepRec))
    (hk : ∀ k', k = some k' → ∀ W, Inv W → Inv (k' W).1 ∧ Chain cfg.bb W.objs (k' W).2 (k' W).1.objs ∧ Keeps W.objs (k' W).1.objs) :
    Inv (loadPlain cfg pol i run sub w a A p (.load p') first k).1 ∧
    Chain cfg.bb w.objs (loadPlain cfg pol i run sub w a A p (.load p') first k).2
      (loadPlain cfg pol i run sub w a A p (.load p') first k).1.objs ∧
    Keeps w.objs (loadPlain cfg pol i run sub w a A p (.load p') first k).1.objs := by
  have hopx : ∀ t, Op.load p' ≠ .exportUid t := by intro t h; cases h
  have hops : ∀ t, Op.load p' ≠ .seteuidStr t := by intro t h; cases h
  unfold loadPlain
  exact withVo_good hw _ _ _ _ _ _ hopx hops fun f0 =>
    withCfPre_good hrun hw hA _ _ _ _ _ hopx hops (execLoadCore_good hsub hw hA p p' f0 k hk)
      (fun _ W A2 hW hA2 => execLoadCore_good hsub hW hA2 p p' false k hk)

theorem execLoad_good {cfg : Cfg} {pol : Policy} {i : Nat} {run : Run} {sub : Sub} (hrun : GoodRun cfg.bb run)
    (hsub : GoodSub cfg.bb sub) {w : World} (hw : Inv w) {a : Oid} {A : Obj} (hA : getO w.objs a = some A) (p : Path) :
    Inv (execLoad cfg pol i run sub w a A p).1 ∧
    Chain cfg.bb w.objs (execLoad cfg pol i run sub w a A p).2 (execLoad cfg pol i run sub w a A p).1.objs ∧
    Keeps w.objs (execLoad cfg pol i run sub w a A p).1.objs := by
  have hopx : ∀ t, Op.load p ≠ .exportUid t := by intro t h; cases h
  have hops : ∀ t, Op.load p ≠ .seteuidStr t := by intro t h; cases h
  by_cases hn : needsCompile w A p = true
  · have hAo := (getO_some hA).2
    have hguard : ¬ (a ≠ masterOid ∧ A.euid = none) := hAo ▸ needsCompile_guard hn
    obtain ⟨h1, h2, h3⟩ := virtCore_good (pol := pol) (i := i) hrun hw hA hguard (.load p) true p false hopx hops
    simp only [execLoad, hn, if_true]
    exact ⟨h1, Chain.append h2 (Chain.single (plain_seg_ok h1 _ _ _ _ hopx hops)), h3⟩
  have hn' : needsCompile w A p = false := by simpa using hn
  have hplain := loadPlain_good (pol := pol) (i := i) hrun hsub hw hA p p true none (by intro k' h; cases h)
  simp only [execLoad, hn', Bool.false_eq_true, if_false]
  cases hq : p.parent with
  | none => simp only; exact hplain
  | some q =>
    simp only
    by_cases hc : loadCreates w A p = true ∧ q.name ∉ w.loaded
    · rw [if_pos hc]
      apply loadPlain_good hrun hsub hw hA q p true
      intro k' hk' W hW
      cases hk'
      cases hA' : getO W.objs a with
      | none =>
        simp only [hA']
        exact ⟨hW, Chain.single (plain_seg_ok hW _ _ _ _ hopx hops), Keeps.refl _⟩
      | some A' =>
        simp only [hA']
        exact loadPlain_good hrun hsub hW hA' p p false none (by intro k'' h; cases h)
    · rw [if_neg hc]
      exact hplain

/-! ### reload_object -/

theorem execReload_good {bb : Option Name} {sub : Sub} (hsub : GoodSub bb sub) {w : World}
    (hw : Inv w) {a : Oid} {A : Obj} (hA : getO w.objs a = some A) (t : Oid) :
    Inv (execReload sub w a t).1 ∧ Chain bb w.objs (execReload sub w a t).2 (execReload sub w a t).1.objs ∧
    Keeps w.objs (execReload sub w a t).1.objs := by
  have hx := reload_ok (bb := bb) hw hA t
  have hvs : (doReload w t).2.2.1 = none := by
    unfold doReload
    cases getO w.objs t with
    | none => rfl
    | some T => rfl
  have hk : Keeps w.objs (doReload w t).1.objs := by
    unfold doReload
    cases getO w.objs t with
    | none => exact Keeps.refl _
    | some T => exact Keeps.setO _ _
  cases hcs : (doReload w t).2.1 with
  | nil => simp only [execReload, hcs]; exact ⟨hx.inv, Chain.single (seg_of_recOf true hx), hk⟩
  | cons c cs =>
    cases cs with
    | cons _ _ => simp only [execReload, hcs]; exact ⟨hx.inv, Chain.single (seg_of_recOf true hx), hk⟩
    | nil =>
      cases hm : c.made with
      | none => simp only [execReload, hcs, hm]; exact ⟨hx.inv, Chain.single (seg_of_recOf true hx), hk⟩
      | some o =>
        simp only [execReload, hcs, hm]
        obtain ⟨hy1, hy2, hy3⟩ := hsub (doReload w t).1 o.oid (scriptKey (w.nameOf o)) hx.inv
        have hx' : StepOK bb w.objs (doReload w t).1
            (recOf (doReload w t).1 a (.reload t) none (doReload w t).2.1 (doReload w t).2.2.2) := by
          have := hx
          unfold recOfR at this
          rw [hvs] at this
          exact this
        refine ⟨hy1, ?_, Keeps.trans hk hy3⟩
        rw [← hcs]
        exact Chain.cons (creation_seg_ok true hx' (by intro t h; cases h))
          (Chain.append hy2 (Chain.single (final_seg_ok hy1 a (.reload t) _ (by intro t h; cases h) (by intro t h; cases h))))

/-! ### the simple ops remove nothing -/

theorem keeps_seteuidInt {w : World} {A : Obj} (n : Int) : Keeps w.objs (doSeteuidInt w A n).1.objs := by
  unfold doSeteuidInt
  split
  · exact Keeps.setO _ _
  · exact Keeps.refl _

theorem keeps_seteuidStr {w : World} {A : Obj} (pol : Policy) (i : Nat) (s : Name) :
    Keeps w.objs (doSeteuidStr pol i w A s).1.objs := by
  unfold doSeteuidStr
  by_cases h1 : pol.vs i A.oid s = .err
  · simp only [h1, if_true]; exact Keeps.refl _
  · simp only [h1, if_false]
    by_cases h2 : (pol.vs i A.oid s).approved = true
    · simp only [h2, if_true]; exact Keeps.setO _ _
    · simp only [h2]; exact Keeps.refl _

theorem keeps_export {w : World} {A : Obj} (t : Oid) : Keeps w.objs (doExport w A t).1.objs := by
  unfold doExport
  cases getO w.objs t with
  | none => exact Keeps.refl _
  | some T =>
    simp only
    split
    · exact Keeps.refl _
    · split
      · exact Keeps.refl _
      · exact Keeps.setO _ _

/-! ### clone -/

theorem clonePre_none {w : World} {A : Obj} {newOid : Oid} {p : Path} (h : clonePre w A newOid p = none) :
    ¬ (A.oid ≠ masterOid ∧ A.euid = none) := by
  unfold clonePre at h
  by_cases h1 : newOid ∈ reservedOids ∨ getO w.objs newOid ≠ none
  · rw [if_pos h1] at h; cases h
  rw [if_neg h1] at h
  by_cases h2 : p.name ∉ w.loaded ∧ getO w.objs p.oid ≠ none
  · rw [if_pos h2] at h; cases h
  rw [if_neg h2] at h
  by_cases h2' : p.name ∉ w.loaded ∧ p.parent ≠ none
  · rw [if_pos h2'] at h; cases h
  rw [if_neg h2'] at h
  by_cases h3 : A.oid ≠ masterOid ∧ A.euid = none
  · rw [if_pos h3] at h; cases h
  exact h3

/-- the clone itself, from the world `W` reached after the blueprint's create() script and the repeated euid test -/
theorem cloneTail_good {cfg : Cfg} {pol : Policy} {i : Nat} {sub : Sub} (hsub : GoodSub cfg.bb sub) {W : World}
    (hW : Inv W) {a : Oid} {A' : Obj} (hA'' : getO W.objs a = some A') (hguard' : ¬ (a ≠ masterOid ∧ A'.euid = none))
    (newOid : Oid) (p : Path) (first : Bool) :
    Inv (cloneTail cfg pol i sub W a A' newOid p first).1 ∧
    Chain cfg.bb W.objs (cloneTail cfg pol i sub W a A' newOid p first).2
      (cloneTail cfg pol i sub W a A' newOid p first).1.objs ∧
    Keeps W.objs (cloneTail cfg pol i sub W a A' newOid p first).1.objs := by
  have hAo := (getO_some hA'').2
  subst hAo
  have hA' := hA''
  have hguard := hguard'
  let c := cloneSelf cfg pol i W A' newOid p
  let y := sub c.1 newOid (p.name ++ "#")
  have htl : cloneTail cfg pol i sub W A'.oid A' newOid p first =
      (if c.2.2 = false then (c.1, [seg c.1 A'.oid (.clone newOid p) none [c.2.1] (some (.err .policy)) first])
      else (y.1, seg c.1 A'.oid (.clone newOid p) none [c.2.1] none first :: y.2 ++
              [seg y.1 A'.oid (.clone newOid p) none [] (some (.oid newOid)) false])) := rfl
  rw [htl]
  have hopx : ∀ t, Op.clone newOid p ≠ .exportUid t := by intro t h; cases h
  have hops : ∀ t, Op.clone newOid p ≠ .seteuidStr t := by intro t h; cases h
  by_cases hcf : pol.cf i (p.name ++ "#" ++ toString W.cloneSeq) = .err
  · obtain ⟨e1, e2, e3, _⟩ := create_err (cfg := cfg) (w := { W with cloneSeq := W.cloneSeq + 1 }) (A := A')
      (oid := newOid) (bp := false) hcf
    have hc2 : c.2.2 = false := e3
    have hs : StepOK cfg.bb W.objs c.1 (recOf c.1 A'.oid (.clone newOid p) none [c.2.1] (.err .policy)) := by
      apply stepOK_created hW hA' hguard _ (by simp [isCreatingOp])
      · exact Inv_same hW _ e1
      · intro e he
        have : c.1.objs = W.objs := e1
        rw [this] at he
        exact Or.inl (hW.wf e he)
      · intro c' hc' m hm
        simp at hc'
        subst hc'
        have : c.2.1 = { name := p.name ++ "#" ++ toString W.cloneSeq, ans := some .err, made := none } := e2
        rw [this] at hm; simp at hm
      · intro c' hc'
        simp at hc'
        subst hc'
        have : c.2.1 = { name := p.name ++ "#" ++ toString W.cloneSeq, ans := some .err, made := none } := e2
        rw [this]; simp [madeOk]
    simp only [hc2, if_true]
    refine ⟨hs.inv, Chain.single (StepOK_congr hs rfl rfl rfl rfl rfl rfl rfl rfl rfl rfl (Or.inl rfl)), ?_⟩
    exact Keeps.of_eq e1
  · obtain ⟨e1, e2, e3⟩ := create_ok (cfg := cfg) (w := { W with cloneSeq := W.cloneSeq + 1 }) (A := A')
      (oid := newOid) (bp := false) hcf
    have hg := giveUid_spec cfg A' (pol.cf i (p.name ++ "#" ++ toString W.cloneSeq))
    have hc2 : c.2.2 = true := e3
    have hobjs : c.1.objs = setO W.objs (Obj.mk newOid (p.name ++ "#" ++ toString W.cloneSeq)
        (giveUid cfg A' (pol.cf i (p.name ++ "#" ++ toString W.cloneSeq))).1
        (giveUid cfg A' (pol.cf i (p.name ++ "#" ++ toString W.cloneSeq))).2) := e1
    have hcre : c.2.1 = Creation.mk (p.name ++ "#" ++ toString W.cloneSeq)
        (some (pol.cf i (p.name ++ "#" ++ toString W.cloneSeq)))
        (some (Obj.mk newOid (p.name ++ "#" ++ toString W.cloneSeq)
          (giveUid cfg A' (pol.cf i (p.name ++ "#" ++ toString W.cloneSeq))).1
          (giveUid cfg A' (pol.cf i (p.name ++ "#" ++ toString W.cloneSeq))).2)) := e2
    have hs : StepOK cfg.bb W.objs c.1 (recOf c.1 A'.oid (.clone newOid p) none [c.2.1] (.oid newOid)) := by
      apply stepOK_created hW hA' hguard _ (by simp [isCreatingOp])
      · exact Inv_setO hW _ hg.1 _ hobjs
      · intro e he
        rw [hobjs] at he
        rcases frame_setO hW.wf he with h | h
        · exact Or.inr ⟨c.2.1, by simp, by rw [hcre, h]⟩
        · exact Or.inl h
      · intro c' hc' m hm
        simp at hc'
        subst hc'
        rw [hcre] at hm
        simp at hm
        subst hm
        simp [hobjs, getO_setO]
      · intro c' hc'
        simp at hc'
        subst hc'
        rw [hcre]
        exact madeOk_created (by simp [recOf, isCreatingOp]) (by simpa [recOf] using hA')
          (by simpa [recOf] using guard_or hguard) hcf hg.2
    obtain ⟨hy1, hy2, hy3⟩ := hsub c.1 newOid (p.name ++ "#") hs.inv
    simp only [hc2, Bool.true_eq_false, if_false]
    refine ⟨hy1, ?_, ?_⟩
    · exact Chain.cons (creation_seg_ok first hs hopx)
        (Chain.append hy2 (Chain.single (final_seg_ok hy1 _ _ _ hopx hops)))
    · refine Keeps.trans ?_ hy3
      rw [hobjs]
      exact Keeps.setO _ _

theorem clonePhase2_good {cfg : Cfg} {pol : Policy} {i : Nat} {run : Run} {sub : Sub} (hrun : GoodRun cfg.bb run)
    (hsub : GoodSub cfg.bb sub) {W : World} (hW : Inv W) (a : Oid) (newOid : Oid) (p : Path) (first : Bool) :
    Inv (clonePhase2 cfg pol i run sub W a newOid p first).1 ∧
    Chain cfg.bb W.objs (clonePhase2 cfg pol i run sub W a newOid p first).2
      (clonePhase2 cfg pol i run sub W a newOid p first).1.objs ∧
    Keeps W.objs (clonePhase2 cfg pol i run sub W a newOid p first).1.objs := by
  have hopx : ∀ t, Op.clone newOid p ≠ .exportUid t := by intro t h; cases h
  have hops : ∀ t, Op.clone newOid p ≠ .seteuidStr t := by intro t h; cases h
  cases hA : getO W.objs a with
  | none =>
    simp only [clonePhase2, hA]
    exact ⟨hW, Chain.single (plain_seg_ok hW _ _ _ _ hopx hops), Keeps.refl _⟩
  | some A' =>
    have hAo := (getO_some hA).2
    subst hAo
    by_cases hguard : A'.oid ≠ masterOid ∧ A'.euid = none
    · simp only [clonePhase2, hA]
      rw [if_pos hguard]
      exact ⟨hW, Chain.single (plain_seg_ok hW _ _ _ _ hopx hops), Keeps.refl _⟩
    · by_cases hv : p.name ∈ W.virt
      · obtain ⟨h1, h2, h3⟩ := virtCore_good (pol := pol) (i := i) hrun hW hA hguard (.clone newOid p) first p true hopx hops
        simp only [clonePhase2, hA]
        rw [if_neg hguard, if_pos hv]
        exact ⟨h1, Chain.append h2 (Chain.single (plain_seg_ok h1 _ _ _ _ hopx hops)), h3⟩
      · simp only [clonePhase2, hA]
        rw [if_neg hguard, if_neg hv]
        exact withCfPre_good hrun hW hA _ _ _ _ _ hopx hops (cloneTail_good hsub hW hA hguard newOid p first)
          (fun hm W2 A2 hW2 hA2 => cloneTail_good hsub hW2 hA2 (fun h => h.1 hm) newOid p false)

theorem cloneBlueprint_good {cfg : Cfg} {pol : Policy} {i : Nat} {run : Run} {sub : Sub} (hrun : GoodRun cfg.bb run)
    (hsub : GoodSub cfg.bb sub) {w : World} (hw : Inv w) {a : Oid} {A : Obj} (hA' : getO w.objs a = some A)
    (hguard' : ¬ (a ≠ masterOid ∧ A.euid = none)) (newOid : Oid) (p : Path) (first : Bool) :
    Inv (cloneBlueprint cfg pol i run sub w a A newOid p first).1 ∧
    Chain cfg.bb w.objs (cloneBlueprint cfg pol i run sub w a A newOid p first).2
      (cloneBlueprint cfg pol i run sub w a A newOid p first).1.objs ∧
    Keeps w.objs (cloneBlueprint cfg pol i run sub w a A newOid p first).1.objs := by
  have hAo := (getO_some hA').2
  subst hAo
  have hA := hA'
  have hguard := hguard'
  have hopx : ∀ t, Op.clone newOid p ≠ .exportUid t := by intro t h; cases h
  have hops : ∀ t, Op.clone newOid p ≠ .seteuidStr t := by intro t h; cases h
  by_cases hcf : pol.cf i p.name = .err
  · obtain ⟨e1, e2, e3, _⟩ := create_err (cfg := cfg) (w := w) (A := A) (oid := p.oid) (bp := true) hcf
    simp only [cloneBlueprint]
    rw [if_pos e3]
    have hs : StepOK cfg.bb w.objs (create cfg pol i w A p.oid p.name true).1
        (recOf (create cfg pol i w A p.oid p.name true).1 A.oid (.clone newOid p) none
          [(create cfg pol i w A p.oid p.name true).2.1] (.err .policy)) := by
      apply stepOK_created hw hA hguard _ (by simp [isCreatingOp])
      · exact Inv_same hw _ e1
      · intro e he
        rw [e1] at he
        exact Or.inl (hw.wf e he)
      · intro c hc m hm
        simp at hc
        subst hc
        rw [e2] at hm; simp at hm
      · intro c hc
        simp at hc
        subst hc
        rw [e2]; simp [madeOk]
    exact ⟨hs.inv, Chain.single (seg_of_recOf first hs), Keeps.of_eq e1⟩
  · obtain ⟨e1, e2, e3⟩ := create_ok (cfg := cfg) (w := w) (A := A) (oid := p.oid) (bp := true) hcf
    have hg := giveUid_spec cfg A (pol.cf i p.name)
    have hs : StepOK cfg.bb w.objs (create cfg pol i w A p.oid p.name true).1
        (recOf (create cfg pol i w A p.oid p.name true).1 A.oid (.clone newOid p) none
          [(create cfg pol i w A p.oid p.name true).2.1] (.oid newOid)) := by
      apply stepOK_created hw hA hguard _ (by simp [isCreatingOp])
      · exact Inv_setO hw _ hg.1 _ e1
      · intro e he
        rw [e1] at he
        rcases frame_setO hw.wf he with h | h
        · exact Or.inr ⟨(create cfg pol i w A p.oid p.name true).2.1, by simp, by rw [e2, h]⟩
        · exact Or.inl h
      · intro c hc m hm
        simp at hc
        subst hc
        rw [e2] at hm
        simp at hm
        subst hm
        simp [e1, getO_setO]
      · intro c hc
        simp at hc
        subst hc
        rw [e2]
        exact madeOk_created (by simp [recOf, isCreatingOp]) (by simpa [recOf] using hA)
          (by simpa [recOf] using guard_or hguard) hcf hg.2
    obtain ⟨hy1, hy2, hy3⟩ := hsub (create cfg pol i w A p.oid p.name true).1 p.oid p.name hs.inv
    obtain ⟨h4, h5, h6⟩ := clonePhase2_good (cfg := cfg) (pol := pol) (i := i) hrun hsub hy1 A.oid newOid p false
    simp only [cloneBlueprint]
    rw [if_neg (by rw [e3]; simp)]
    refine ⟨h4, ?_, ?_⟩
    · exact Chain.cons (creation_seg_ok first hs hopx) (Chain.append hy2 h5)
    · refine Keeps.trans ?_ (Keeps.trans hy3 h6)
      rw [e1]; exact Keeps.setO _ _

theorem execClone_good {cfg : Cfg} {pol : Policy} {i : Nat} {run : Run} {sub : Sub} (hrun : GoodRun cfg.bb run)
    (hsub : GoodSub cfg.bb sub) {w : World} (hw : Inv w) {a : Oid} {A : Obj} (hA : getO w.objs a = some A)
    (newOid : Oid) (p : Path) :
    Inv (execClone cfg pol i run sub w a A newOid p).1 ∧
    Chain cfg.bb w.objs (execClone cfg pol i run sub w a A newOid p).2 (execClone cfg pol i run sub w a A newOid p).1.objs ∧
    Keeps w.objs (execClone cfg pol i run sub w a A newOid p).1.objs := by
  have hAo := (getO_some hA).2
  subst hAo
  have hopx : ∀ t, Op.clone newOid p ≠ .exportUid t := by intro t h; cases h
  have hops : ∀ t, Op.clone newOid p ≠ .seteuidStr t := by intro t h; cases h
  cases hpre : clonePre w A newOid p with
  | some r =>
    simp only [execClone, hpre]
    exact ⟨hw, Chain.single (plain_seg_ok hw _ _ _ _ hopx hops), Keeps.refl _⟩
  | none =>
    have hguard := clonePre_none hpre
    by_cases hl : p.name ∈ w.loaded
    · simp only [execClone, hpre]
      rw [if_pos hl]
      exact clonePhase2_good hrun hsub hw _ newOid p true
    · by_cases hex : p.exists = false
      · obtain ⟨h1, h2, h3⟩ := virtCore_good (pol := pol) (i := i) hrun hw hA hguard (.clone newOid p) true p false hopx hops
        simp only [execClone, hpre]
        rw [if_neg hl, if_pos hex]
        cases hout : (virtCore pol i run w A.oid (.clone newOid p) true p false).2.2 with
        | obj v =>
          simp only
          obtain ⟨h4, h5, h6⟩ := clonePhase2_good (cfg := cfg) (pol := pol) (i := i) hrun hsub h1 A.oid newOid p false
          exact ⟨h4, Chain.append h2 h5, Keeps.trans h3 h6⟩
        | zero =>
          simp only
          exact ⟨h1, Chain.append h2 (Chain.single (plain_seg_ok h1 _ _ _ _ hopx hops)), h3⟩
        | err =>
          simp only
          exact ⟨h1, Chain.append h2 (Chain.single (plain_seg_ok h1 _ _ _ _ hopx hops)), h3⟩
      · simp only [execClone, hpre]
        rw [if_neg hl, if_neg hex]
        exact withVo_good hw _ _ _ _ _ _ hopx hops fun f0 =>
          withCfPre_good hrun hw hA _ _ _ _ _ hopx hops (cloneBlueprint_good hrun hsub hw hA hguard newOid p f0)
            (fun hm W2 A2 hW2 hA2 => cloneBlueprint_good hrun hsub hW2 hA2 (fun h => h.1 hm) newOid p false)

/-! ### one op, and any fuel -/

theorem execWith_good {cfg : Cfg} {pol : Policy} {i : Nat} {run : Run} {sub : Sub} (hrun : GoodRun cfg.bb run)
    (hsub : GoodSub cfg.bb sub) (nested : Bool) (w : World) (a : Oid) (op : Op) (hw : Inv w) :
    Inv (execWith cfg pol i run sub nested w a op).1 ∧
    Chain cfg.bb w.objs (execWith cfg pol i run sub nested w a op).2 (execWith cfg pol i run sub nested w a op).1.objs ∧
    (nested = true → Keeps w.objs (execWith cfg pol i run sub nested w a op).1.objs) := by
  cases hA : getO w.objs a with
  | none =>
    simp only [execWith, hA]
    exact ⟨hw, Chain.single (StepOK_congr (actor_missing_ok hw a op hA) rfl rfl rfl rfl rfl rfl rfl rfl rfl rfl (Or.inl rfl)),
      fun _ => Keeps.refl _⟩
  | some A =>
    cases op with
    | seteuidInt n =>
      simp only [execWith, hA]
      have := single_good a (.seteuidInt n) _ (seteuidInt_ok (bb := cfg.bb) hw hA n)
      exact ⟨this.1, this.2, fun _ => keeps_seteuidInt n⟩
    | seteuidStr s =>
      simp only [execWith, hA]
      have := single_good a (.seteuidStr s) _ (seteuidStr_ok (bb := cfg.bb) hw hA pol i s)
      exact ⟨this.1, this.2, fun _ => keeps_seteuidStr pol i s⟩
    | exportUid t =>
      simp only [execWith, hA]
      have := single_good a (.exportUid t) _ (export_ok (bb := cfg.bb) hw hA t)
      exact ⟨this.1, this.2, fun _ => keeps_export t⟩
    | load p =>
      simp only [execWith, hA]
      have := execLoad_good (pol := pol) (i := i) hrun hsub hw hA p
      exact ⟨this.1, this.2.1, fun _ => this.2.2⟩
    | clone o p =>
      simp only [execWith, hA]
      have := execClone_good (pol := pol) (i := i) hrun hsub hw hA o p
      exact ⟨this.1, this.2.1, fun _ => this.2.2⟩
    | dest t =>
      cases nested with
      | true =>
        simp only [execWith, hA, if_true]
        exact ⟨hw, Chain.single (plain_seg_ok hw _ _ _ _ (by intro t h; cases h) (by intro t h; cases h)),
          fun _ => Keeps.refl _⟩
      | false =>
        simp only [execWith, hA, Bool.false_eq_true, if_false]
        have := single_good a (.dest t) _ (dest_ok (cfg := cfg) hw hA ((pol.root i).getD cfg.root) t)
        exact ⟨this.1, this.2, fun h => by cases h⟩
    | reload t =>
      by_cases hr : nested = true ∧ reloadRefused pol i w t = true
      · simp only [execWith, hA, hr, and_self, if_true]
        exact ⟨hw, Chain.single (plain_seg_ok hw _ _ _ _ (by intro t h; cases h) (by intro t h; cases h)),
          fun _ => Keeps.refl _⟩
      · simp only [execWith, hA, hr, if_false]
        have := execReload_good (bb := cfg.bb) hsub hw hA t
        exact ⟨this.1, this.2.1, fun _ => this.2.2⟩

    | via t op' =>
      cases hT : getO w.objs t with
      | none =>
        simp only [execWith, hA, hT]
        exact ⟨hw, Chain.single (plain_seg_ok hw _ _ _ _ (by intro t h; cases h) (by intro t h; cases h)),
          fun _ => Keeps.refl _⟩
      | some T =>
        simp only [execWith, hA, hT]
        obtain ⟨h1, h2, h3⟩ := hrun w t op' hw
        have hopx : ∀ x, Op.via t op' ≠ .exportUid x := by intro x h; cases h
        have hops : ∀ x, Op.via t op' ≠ .seteuidStr x := by intro x h; cases h
        have hs0 : StepOK cfg.bb w.objs w (seg w a (.via t op') none [] none true) :=
          StepOK_congr (plain_seg_ok (bb := cfg.bb) hw a (.via t op') .nobj true hopx hops) rfl rfl rfl rfl rfl rfl rfl rfl rfl rfl
            (Or.inr hopx)
        exact ⟨h1, Chain.cons hs0 (Chain.append h2 (Chain.single
          (StepOK_fp (plain_seg_ok h1 _ _ _ _ hopx hops) t (by simp [fpClause, seg])))), fun _ => h3⟩

    | bind t op' =>
      have hopx : ∀ x, Op.bind t op' ≠ .exportUid x := by intro x h; cases h
      have hops : ∀ x, Op.bind t op' ≠ .seteuidStr x := by intro x h; cases h
      cases hT : getO w.objs t with
      | none =>
        simp only [execWith, hA, hT]
        exact ⟨hw, Chain.single (plain_seg_ok hw _ _ _ _ hopx hops), fun _ => Keeps.refl _⟩
      | some T =>
        simp only [execWith, hA, hT]
        by_cases hb : bindable op' = false
        · rw [if_pos hb]
          exact ⟨hw, Chain.single (plain_seg_ok hw _ _ _ _ hopx hops), fun _ => Keeps.refl _⟩
        rw [if_neg hb]
        by_cases h0 : t ≠ a ∧ cfg.noVb = true
        · rw [if_pos h0]
          exact ⟨hw, Chain.single (plain_seg_ok hw _ _ _ _ hopx hops), fun _ => Keeps.refl _⟩
        rw [if_neg h0]
        by_cases h1 : t ≠ a ∧ pol.vb i a t = .err
        · rw [if_pos h1]
          exact ⟨hw, Chain.single (StepOK_bind (plain_seg_ok hw _ _ _ _ hopx hops) _ none rfl), fun _ => Keeps.refl _⟩
        rw [if_neg h1]
        by_cases h2 : t ≠ a ∧ (pol.vb i a t).approved = false
        · rw [if_pos h2]
          exact ⟨hw, Chain.single (StepOK_bind (plain_seg_ok hw _ _ _ _ hopx hops) _ none rfl), fun _ => Keeps.refl _⟩
        rw [if_neg h2]
        obtain ⟨r1, r2, r3⟩ := hrun w t op' hw
        have hs0 : StepOK cfg.bb w.objs w (seg w a (.bind t op') none [] none true) :=
          StepOK_congr (plain_seg_ok (bb := cfg.bb) hw a (.bind t op') .nobj true hopx hops) rfl rfl rfl rfl rfl rfl rfl rfl rfl rfl
            (Or.inr hopx)
        have hcl : bindClause { seg w a (.bind t op') none [] none true with
            vb := (if t = a then none else some (a, t, pol.vb i a t)), bindTo := some t } = true := by
          by_cases hta : t = a
          · simp [bindClause, seg, hta]
          · have happ : (pol.vb i a t).approved = true := by
              cases h : (pol.vb i a t).approved with
              | true => rfl
              | false => exact absurd ⟨hta, h⟩ h2
            simp [bindClause, seg, hta, happ]
        exact ⟨r1, Chain.cons (StepOK_bind hs0 _ _ hcl)
          (Chain.append r2 (Chain.single (StepOK_fp (plain_seg_ok r1 _ _ _ _ hopx hops) t (by simp [fpClause, seg])))),
          fun _ => r3⟩

theorem exec_good (cfg : Cfg) (pol : Policy) (i : Nat) : ∀ fuel, GoodExec cfg.bb (exec cfg pol i fuel) := by
  intro fuel
  induction fuel with
  | zero =>
    intro nested w a op hw
    simp only [exec]
    exact execWith_good (goodRun_skip cfg.bb) (goodSub_skip cfg.bb) nested w a op hw
  | succ f ih =>
    intro nested w a op hw
    simp only [exec]
    exact execWith_good (goodRun_of_exec ih) (goodSub_script ih (pol.script i)) nested w a op hw

end NV.C20
