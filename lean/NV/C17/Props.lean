/-
C17 — property theorems over the model of lib/lpc/program/binaries.c (NV/C17/Model.lean).
Statements only; helper lemmas are in NV/C17/Lemmas.lean.  Counterexamples for the code as it was before the
`fix:` commits are in NV/C17/Witness.lean.
-/
import NV.C17.Model
import NV.C17.Lemmas
import NV.C17.QSortLemmas

namespace NV.C17

/-! ## (a) the staleness decision -/

theorem checkTimes_pos (w : World) (mt : Nat) (nm : String) :
    ¬ (checkTimes w mt nm ≤ 0) ↔ ∃ t, w.mtime nm = some t ∧ t ≤ mt := by
  unfold checkTimes
  cases h : w.mtime nm with
  | none => simp
  | some t =>
    simp only [Gen.C17.checkTimesStrict, if_true]
    by_cases ht : t > mt
    · simp [ht] <;> omega
    · simp [ht] <;> omega

theorem checkTimes_ne_zero (w : World) (mt : Nat) (nm : String) :
    ¬ (checkTimes w mt nm = 0) ↔ ∀ t, w.mtime nm = some t → t ≤ mt := by
  unfold checkTimes
  cases h : w.mtime nm with
  | none => simp
  | some t =>
    simp only [Gen.C17.checkTimesStrict, if_true]
    by_cases ht : t > mt
    · simp [ht] <;> omega
    · simp [ht] <;> omega

theorem checkTimes_missing (w : World) (mt : Nat) (nm : String) :
    checkTimes w mt nm = -1 ↔ w.mtime nm = none := by
  unfold checkTimes
  cases h : w.mtime nm with
  | none => simp
  | some t => simp; split <;> omega

/-- what "every inherited program is not newer and is loaded" means -/
def InheritsFresh (w : World) (mt : Nat) (inhs : List String) : Prop :=
  ∀ i, i ∈ inhs →
    (∃ t, w.mtime i = some t ∧ t ≤ mt) ∧ (∀ t, w.mtime (binPath w i) = some t → t ≤ mt) ∧
      w.loaded.contains (objName w i) = true ∧ treeNewer w mt treeFuel i = false

theorem checkInherits_use (w : World) (mt : Nat) (inhs : List String) :
    checkInherits w mt inhs = .use ↔ InheritsFresh w mt inhs := by
  induction inhs with
  | nil => simp [checkInherits, InheritsFresh]
  | cons a rest ih =>
    unfold checkInherits
    by_cases h1 : checkTimes w mt a ≤ 0 ∨ checkTimes w mt (binPath w a) = 0
    · simp only [h1, if_true]
      constructor
      · intro h; cases h
      · intro h
        obtain ⟨x1, x2, _⟩ := h a (by simp)
        rcases h1 with h1 | h1
        · exact absurd h1 ((checkTimes_pos w mt a).mpr x1)
        · exact absurd h1 ((checkTimes_ne_zero w mt (binPath w a)).mpr x2)
    · simp only [h1, if_false]
      have h1' := not_or.mp h1
      have y1 := (checkTimes_pos w mt a).mp h1'.1
      have y2 := (checkTimes_ne_zero w mt (binPath w a)).mp h1'.2
      by_cases h2 : w.loaded.contains (objName w a) = true
      · simp only [h2, Bool.not_true, Bool.false_eq_true, if_false]
        by_cases h3 : treeNewer w mt treeFuel a = true
        · simp only [h3, if_true]
          constructor
          · intro h; cases h
          · intro h
            have := (h a (by simp)).2.2.2
            rw [h3] at this
            cases this
        · have h3' : treeNewer w mt treeFuel a = false := by simpa using h3
          simp only [h3', Bool.false_eq_true, if_false]
          rw [ih]
          constructor
          · intro h i hi
            rcases List.mem_cons.mp hi with e | e
            · subst e; exact ⟨y1, y2, h2, h3'⟩
            · exact h i e
          · intro h i hi
            exact h i (by simp [hi])
      · have h2' : w.loaded.contains (objName w a) = false := by simpa using h2
        simp only [h2', Bool.not_false, if_true]
        constructor
        · intro h; cases h
        · intro h
          have := (h a (by simp)).2.2.1
          rw [h2'] at this
          cases this

/-- the conditions under which the property allows a saved binary to be used: the binary exists; magic, driver id and
    config id (the simul_efun file's modification time when the simul_efun object was loaded) are the current ones and
    the simul_efun file itself is not newer than the binary; nothing behind an inherited program (the files it was built
    from, its saved binary, the programs it inherits in turn — `treeNewer`, see `never_stale_transitive`) is newer; the source file,
    every include file and every inherited source exist and are NOT NEWER than the binary (equal modification times are
    allowed: the property says "newer"); no inherited program has a binary newer than this one; the inherited programs
    are loaded; the binary was saved under this name -/
def MayUse (w : World) (name : String) : Prop :=
  ∃ mt b, w.mtime (binPath w name) = some mt ∧ w.bins.lookup (binPath w name) = some b ∧
    b.intact = true ∧ b.magic = magicId ∧ b.driverId = driverId ∧ b.configId = w.configId ∧
    (w.simulPath = "" ∨ ∀ t, w.mtime w.simulPath = some t → t ≤ mt) ∧
    (∃ t, w.mtime name = some t ∧ t ≤ mt) ∧
    (∀ i, i ∈ b.includes → ∃ t, w.mtime i = some t ∧ t ≤ mt) ∧
    (∀ f, f ∈ b.absent → w.mtime f = none) ∧
    (b.name.length = 0 ∨ b.name = name) ∧
    InheritsFresh w mt b.inherits

/-- **never_stale**: for all modification times, ids and file contents, `load_binary` answers "use the binary" only if
    no dependency's modification time exceeds the binary's (comparison `>` as coded in check_times, read from the
    source into `Gen.C17.checkTimesStrict`) and both ids match. -/
theorem never_stale (w : World) (name : String) (h : loadBinary w name = .use) : MayUse w name := by
  unfold loadBinary at h
  split at h
  next mt b hm hb =>
    split at h
    · cases h
    next c0 =>
    split at h
    · cases h
    next c1 =>
    split at h
    · cases h
    next c2 =>
    split at h
    · cases h
    next c3 =>
    split at h
    · cases h
    next c4 =>
    split at h
    · cases h
    next cs =>
    split at h
    · cases h
    next c5 =>
    split at h
    · cases h
    next ca =>
    split at h
    · cases h
    next c6 =>
    refine ⟨mt, b, hm, hb, by simpa using c0, by simpa using c2, by simpa using c3, by simpa using c4, ?_,
      (checkTimes_pos w mt name).mp c1, ?_, ?_, ?_, (checkInherits_use w mt b.inherits).mp h⟩
    · by_cases hp : w.simulPath = ""
      · exact Or.inl hp
      · right
        apply (checkTimes_ne_zero w mt w.simulPath).mp
        intro hc
        exact cs ⟨hp, hc⟩
    · intro i hi
      apply (checkTimes_pos w mt i).mp
      intro hc
      apply c5
      rw [List.any_eq_true]
      exact ⟨i, hi, by simpa using hc⟩
    · intro f hf
      apply (checkTimes_missing w mt f).mp
      apply Classical.byContradiction
      intro hc
      apply ca
      rw [List.any_eq_true]
      exact ⟨f, hf, by simpa using hc⟩
    · by_cases hl : b.name.length = 0
      · exact Or.inl hl
      · right
        apply Classical.byContradiction
        intro hne
        exact c6 ⟨by omega, hne⟩
  next => cases h

/-- the converse: whenever those conditions hold the binary is used (the decision is exactly the property's rule,
    not merely a safe approximation of it) -/
theorem fresh_binary_used (w : World) (name : String) (h : MayUse w name) : loadBinary w name = .use := by
  obtain ⟨mt, b, hm, hb, m0, m1, m2, m3, hsim, hs, hi, habs, hn, hinh⟩ := h
  unfold loadBinary
  rw [hm, hb]
  simp only [m0, Bool.not_true, Bool.false_eq_true, if_false]
  have cs : ¬ (w.simulPath ≠ "" ∧ checkTimes w mt w.simulPath = 0) := by
    rintro ⟨x, y⟩
    rcases hsim with hsim | hsim
    · exact x hsim
    · exact (checkTimes_ne_zero w mt w.simulPath).mpr hsim y
  have c1 : ¬ checkTimes w mt name ≤ 0 := (checkTimes_pos w mt name).mpr hs
  have c5 : ¬ (b.includes.any (fun i => checkTimes w mt i ≤ 0) = true) := by
    rw [List.any_eq_true]
    rintro ⟨i, hi', hc⟩
    exact (checkTimes_pos w mt i).mpr (hi i hi') (by simpa using hc)
  have ca : ¬ (b.absent.any (fun f => checkTimes w mt f ≠ -1) = true) := by
    rw [List.any_eq_true]
    rintro ⟨f, hf, hc⟩
    have := (checkTimes_missing w mt f).mpr (habs f hf)
    simp [this] at hc
  have c6 : ¬ (b.name.length > 0 ∧ b.name ≠ name) := by
    rintro ⟨x, y⟩
    rcases hn with hn | hn
    · omega
    · exact y hn
  simp only [c1, m1, m2, m3, c5, ca, c6, ne_eq, not_true_eq_false, if_false]
  rw [if_neg cs]
  exact (checkInherits_use w mt b.inherits).mpr hinh

/-- the programs reachable from `q` through the inherit lists of the loaded programs -/
inductive Reach (w : World) : String → String → Prop where
  | refl (q : String) : Reach w q q
  | step {q p r : String} (lp : LoadedProg) : w.progs.lookup q = some lp → p ∈ lp.inherits → Reach w p r → Reach w q r

theorem treeNewer_false_reach (w : World) (mt : Nat) {q r : String} (hr : Reach w q r) :
    ∀ fuel, treeNewer w mt fuel q = false →
      ∃ lp, w.progs.lookup r = some lp ∧ (∀ f, f ∈ lp.files → ∀ t, w.mtime f = some t → t ≤ mt) ∧
        (∀ t, w.mtime (binPath w r) = some t → t ≤ mt) := by
  induction hr with
  | refl q =>
    intro fuel h
    cases fuel with
    | zero => simp [treeNewer] at h
    | succ fuel =>
      unfold treeNewer at h
      cases hl : w.progs.lookup q with
      | none => rw [hl] at h; simp at h
      | some lp =>
        rw [hl] at h
        simp only [Bool.or_eq_false_iff] at h
        refine ⟨lp, rfl, ?_, ?_⟩
        · intro f hf
          apply (checkTimes_ne_zero w mt f).mp
          intro hc
          have := h.1.1
          rw [List.any_eq_false] at this
          exact this f hf (by simpa using hc)
        · apply (checkTimes_ne_zero w mt (binPath w q)).mp
          intro hc
          have := h.1.2
          simp [hc] at this
  | step lp hl hp _ ih =>
    intro fuel h
    cases fuel with
    | zero => simp [treeNewer] at h
    | succ fuel =>
      unfold treeNewer at h
      rw [hl] at h
      simp only [Bool.or_eq_false_iff] at h
      have := h.2
      rw [List.any_eq_false] at this
      exact ih fuel (by simpa using this _ hp)

/-- **never_stale_transitive**: when `load_binary` uses a binary, then for EVERY program reachable from it through
    inherit lists — directly or through any chain of parents, saved or not — every file that program was built from
    (its source and all its includes) and its saved binary are not newer than the binary. -/
theorem never_stale_transitive (w : World) (name : String) (h : loadBinary w name = .use) :
    ∃ mt b, w.mtime (binPath w name) = some mt ∧ w.bins.lookup (binPath w name) = some b ∧
      ∀ i, i ∈ b.inherits → ∀ r, Reach w i r →
        ∃ lp, w.progs.lookup r = some lp ∧ (∀ f, f ∈ lp.files → ∀ t, w.mtime f = some t → t ≤ mt) ∧
          (∀ t, w.mtime (binPath w r) = some t → t ≤ mt) := by
  obtain ⟨mt, b, hm, hb, _, _, _, _, _, _, _, _, _, hinh⟩ := never_stale w name h
  refine ⟨mt, b, hm, hb, ?_⟩
  intro i hi r hr
  exact treeNewer_false_reach w mt hr treeFuel (hinh i hi).2.2.2

/-- non-vacuity: a inherits b inherits c (b has no saved binary).  The binary of a is used; a newer include, a changed
    config id, a newer simul_efun file, a newer c, or a newer header of b make the same binary stale -/
example :
    let bo : String → String := fun n => if n = "d/a.c" then "B/a" else if n = "d/b.c" then "B/b" else "B/c"
    let oo : String → String := fun n => if n = "d/b.c" then "d/b" else "?"
    let w : World := { files := [("B/a", 200), ("d/a.c", 100), ("d/x.h", 200), ("d/b.c", 150), ("d/c.c", 120),
                                 ("d/y.h", 110), ("sim.c", 50)],
                       bins := [("B/a", { magic := magicId, driverId := driverId, configId := 50,
                                          includes := ["d/x.h"], name := "d/a.c", inherits := ["d/b.c"] })],
                       progs := [("d/b.c", { files := ["d/b.c", "d/y.h"], inherits := ["d/c.c"] }),
                                 ("d/c.c", { files := ["d/c.c"], inherits := [] })],
                       loaded := ["d/b"], configId := 50, simulPath := "sim.c", binOf := bo, objOf := oo }
    loadBinary w "d/a.c" = .use ∧
      loadBinary { w with files := ("d/x.h", 201) :: w.files } "d/a.c" = .stale "include" ∧
      loadBinary { w with configId := 51 } "d/a.c" = .stale "config" ∧
      loadBinary { w with bins := w.bins.map (fun e => (e.1, { e.2 with intact := false })) } "d/a.c" = .stale "damaged" ∧
      loadBinary { w with files := ("sim.c", 201) :: w.files } "d/a.c" = .stale "simul" ∧
      loadBinary { w with files := ("d/c.c", 201) :: w.files } "d/a.c" = .stale "behind-inherited" ∧
      loadBinary { w with files := ("d/y.h", 201) :: w.files } "d/a.c" = .stale "behind-inherited" := by
  decide

/-- what `inc_open` takes for an include directive: the first candidate that exists (the same definition as in
    Witness.lean, where the full statement is refuted) -/
def resolveIncludeP (w : World) (cands : List String) : Option String :=
  cands.find? (fun c => (w.mtime c).isSome)

/-- **include_resolution_partial**: when a binary is used, an include directive still resolves to the file the binary
    recorded for it PROVIDED no candidate earlier in the search order exists (the side condition that the open finding
    C17-include-shadowed is about: `load_binary` cannot see a new file in front of a recorded one) -/
theorem include_resolution_partial (w : World) (name : String) (pre post : List String) (r : String)
    (h : loadBinary w name = .use) (hr : ∀ b, w.bins.lookup (binPath w name) = some b → r ∈ b.includes)
    (hpre : ∀ c, c ∈ pre → w.mtime c = none) : resolveIncludeP w (pre ++ r :: post) = some r := by
  obtain ⟨mt, b, _, hb, _, _, _, _, _, _, hi, _, _, _⟩ := never_stale w name h
  obtain ⟨t, ht, _⟩ := hi r (hr b hb)
  unfold resolveIncludeP
  rw [List.find?_append]
  have : pre.find? (fun c => (w.mtime c).isSome) = none := by
    rw [List.find?_eq_none]
    intro c hc
    simp [hpre c hc]
  rw [this]
  simp [ht]

/-- what `inc_open` found and what it noted as missing -/
theorem incOpen_spec (w : World) : ∀ (cands : List String) (r : String) (missed : List String),
    incOpen w cands = some (r, missed) →
      (∃ post, cands = missed ++ r :: post) ∧ (w.mtime r).isSome = true ∧ ∀ c, c ∈ missed → w.mtime c = none := by
  intro cands
  induction cands with
  | nil => intro r missed h; simp [incOpen] at h
  | cons c rest ih =>
    intro r missed h
    unfold incOpen at h
    by_cases hc : (w.mtime c).isSome = true
    · simp only [hc, if_true, Option.some.injEq, Prod.mk.injEq] at h
      obtain ⟨h1, h2⟩ := h
      subst h1 h2
      exact ⟨⟨rest, rfl⟩, hc, by intro x hx; cases hx⟩
    · simp only [hc, Bool.false_eq_true, if_false] at h
      cases hr : incOpen w rest with
      | none => rw [hr] at h; simp at h
      | some p =>
        rw [hr] at h
        simp only [Option.map_some, Option.some.injEq, Prod.mk.injEq] at h
        obtain ⟨h1, h2⟩ := h
        obtain ⟨⟨post, hp⟩, hex, hmiss⟩ := ih p.1 p.2 (by rw [hr])
        subst h1 h2
        refine ⟨⟨post, by rw [hp]; rfl⟩, hex, ?_⟩
        intro x hx
        rcases List.mem_cons.mp hx with e | e
        · subst e
          cases hm : w.mtime x with
          | none => rfl
          | some t => simp [hm] at hc
        · exact hmiss x e

/-- **includes_resolve_as_recorded**: the FULL include-resolution statement, for the code with the '!' entries.  Take any
    #include directive (its candidates in search order) as `inc_open` resolved it when the program was compiled in world
    `w0`: it opened `r` and noted the candidates `missed` before it.  If the binary lists `r` among the files read and
    every noted candidate among its '!' entries, then whenever `load_binary` uses the binary in a later world `w`, the
    directive still resolves to `r` — no file that shadows a recorded include file goes unnoticed, whatever its
    modification time. -/
theorem includes_resolve_as_recorded (w0 w : World) (name : String) (b : BinFile) (cands : List String) (r : String)
    (missed : List String) (hcomp : incOpen w0 cands = some (r, missed))
    (hb : w.bins.lookup (binPath w name) = some b) (hr : r ∈ b.includes) (hm : ∀ c, c ∈ missed → c ∈ b.absent)
    (h : loadBinary w name = .use) : resolveIncludeP w cands = some r := by
  obtain ⟨⟨post, hp⟩, _, _⟩ := incOpen_spec w0 cands r missed hcomp
  obtain ⟨mt, b', _, hb', _, _, _, _, _, _, hi, habs, _, _⟩ := never_stale w name h
  rw [hb] at hb'
  cases hb'
  obtain ⟨t, ht, _⟩ := hi r hr
  rw [hp]
  unfold resolveIncludeP
  rw [List.find?_append]
  have : missed.find? (fun c => (w.mtime c).isSome) = none := by
    rw [List.find?_eq_none]
    intro c hc
    simp [habs c (hm c hc)]
  rw [this]
  simp [ht]

/-- non-vacuity: "s.h" found in /include when a.c was compiled (d/s.h noted as missing); later d/s.h appears, older than
    everything: the binary is not used any more; without the new file it is, and the directive resolves as recorded -/
example :
    let w0 : World := { files := [("d/a.c", 100), ("include/s.h", 90)] }
    let bin : BinFile := { magic := magicId, driverId := driverId, configId := 0, includes := ["include/s.h"],
                           absent := ["d/s.h"], name := "d/a.c", inherits := [] }
    let w : World := { files := [("B/a", 200), ("d/a.c", 100), ("include/s.h", 90)], bins := [("B/a", bin)],
                       binOf := fun _ => "B/a" }
    incOpen w0 ["d/s.h", "include/s.h"] = some ("include/s.h", ["d/s.h"]) ∧
      loadBinary w "d/a.c" = .use ∧ resolveIncludeP w ["d/s.h", "include/s.h"] = some "include/s.h" ∧
      loadBinary { w with files := ("d/s.h", 80) :: w.files } "d/a.c" = .stale "shadowed" := by
  decide

/-- **parent_include_shadow_partial**: the part of the open finding C17-unsaved-parent-include-shadowed that does hold —
    when a binary is used, the file that an include directive of ANY inherited program (direct or not, saved or not)
    resolves to now, being one of the files that program in memory was built from, is not newer than the binary.  A
    shadowing file NEWER than the binary is therefore always noticed; only an older one slips through. -/
theorem parent_include_shadow_partial (w : World) (name : String) (h : loadBinary w name = .use) :
    ∃ mt b, w.mtime (binPath w name) = some mt ∧ w.bins.lookup (binPath w name) = some b ∧
      ∀ i, i ∈ b.inherits → ∀ q, Reach w i q → ∀ lp, w.progs.lookup q = some lp → ∀ cands r,
        resolveIncludeP w cands = some r → r ∈ lp.files → ∀ t, w.mtime r = some t → t ≤ mt := by
  obtain ⟨mt, b, hm, hb, hall⟩ := never_stale_transitive w name h
  refine ⟨mt, b, hm, hb, ?_⟩
  intro i hi q hq lp hl cands r _ hr t ht
  obtain ⟨lp', hl', hfiles, _⟩ := hall i hi q hq
  rw [hl] at hl'
  cases hl'
  exact hfiles r hr t ht

/-! ## (a') what may be saved: no binary for a program laid out for a parent that is no longer current -/

/-- the program blocks reachable from a linked block through `prog->inherit[]` -/
inductive ReachL (w : World) : String × Nat → String × Nat → Prop where
  | refl (q : String × Nat) : ReachL w q q
  | step {q p r : String × Nat} (lp : LoadedProg) : w.progs.lookup q.1 = some lp → p ∈ lp.linked → ReachL w p r →
      ReachL w q r

theorem progOutdated_false_reach (w : World) {q r : String × Nat} (hr : ReachL w q r) :
    ∀ fuel, progOutdated w fuel q.1 q.2 = false →
      ∃ lp, w.progs.lookup r.1 = some lp ∧ lp.gen = r.2 ∧ w.loaded.contains (objName w r.1) = true ∧
        (∀ f, f ∈ lp.files → ∀ t, w.mtime f = some t → t ≤ lp.loadTime) := by
  induction hr with
  | refl q =>
    intro fuel h
    cases fuel with
    | zero => simp [progOutdated] at h
    | succ fuel =>
      unfold progOutdated at h
      cases hl : w.progs.lookup q.1 with
      | none => rw [hl] at h; simp at h
      | some lp =>
        rw [hl] at h
        simp only [Bool.or_eq_false_iff] at h
        refine ⟨lp, rfl, ?_, ?_, ?_⟩
        · simpa using h.1.1.2
        · simpa using h.1.1.1
        · intro f hf
          apply (checkTimes_ne_zero w lp.loadTime f).mp
          intro hc
          have := h.1.2
          rw [List.any_eq_false] at this
          exact this f hf (by simpa using hc)
  | step lp hl hp _ ih =>
    intro fuel h
    cases fuel with
    | zero => simp [progOutdated] at h
    | succ fuel =>
      unfold progOutdated at h
      rw [hl] at h
      simp only [Bool.or_eq_false_iff] at h
      have := h.2
      rw [List.any_eq_false] at this
      exact ih fuel (by simpa using this _ hp)

/-- **saved_only_against_current_parents**: `save_binary` writes a binary only if EVERY program block the new program
    is linked with — its parents and, through them, every block reachable by `prog->inherit[]`, at any depth — is still
    the program of the loaded object of its name and none of the files it was built from (its source, its includes) has
    been modified since that object was loaded.  So the layout baked into a saved binary (variable and function index
    offsets of the inherited programs) is the layout the current sources give. -/
theorem saved_only_against_current_parents (s : Sys) (d : ProgDecl) (linked : List (String × Nat)) (t : Nat)
    (incs : List String) (h : Ev.sv d.name t incs ∈ (saveStep s d linked).evs) (hnew : Ev.sv d.name t incs ∉ s.evs) :
    ∀ pg, pg ∈ linked → ∀ r, ReachL s.w pg r →
      ∃ lp, s.w.progs.lookup r.1 = some lp ∧ lp.gen = r.2 ∧ s.w.loaded.contains (objName s.w r.1) = true ∧
        (∀ f, f ∈ lp.files → ∀ t, s.w.mtime f = some t → t ≤ lp.loadTime) := by
  unfold saveStep at h
  by_cases hs : d.save = true
  · by_cases ha : saveAllowed s.w linked = true ∧ d.refuse = false
    · obtain ⟨ha, _⟩ := ha
      intro pg hpg r hr
      unfold saveAllowed at ha
      have : linked.any (fun pg => progOutdated s.w treeFuel pg.1 pg.2) = false := by simpa using ha
      rw [List.any_eq_false] at this
      exact progOutdated_false_reach s.w hr treeFuel (by simpa using this pg hpg)
    · have : (d.refuse || !(saveAllowed s.w linked)) = true := by
        cases hr : d.refuse <;> cases hsa : saveAllowed s.w linked <;> simp_all
      simp [hs, this] at h
      exact absurd h hnew
  · simp [hs] at h
    exact absurd h hnew

/-- and it is not more cautious than that: with current parents a `#pragma save_binary` program is saved -/
theorem current_parents_are_saved (s : Sys) (d : ProgDecl) (linked : List (String × Nat)) (hs : d.save = true)
    (hr : d.refuse = false) (ha : saveAllowed s.w linked = true) :
    Ev.sv d.name s.vnow d.includes ∈ (saveStep s d linked).evs := by
  simp [saveStep, hs, hr, ha]

/-- non-vacuity: a inherits b (block 3, loaded at 1013) inherits c (block 2).  Saved; but not after b.c was edited at
    1024 while b stays loaded, not after c was loaded again (block 5) under b, not with a header of c touched -/
example :
    let w : World := { files := [("a.c", 1002), ("b.c", 1001), ("c.c", 1000), ("c.h", 999)],
                       progs := [("b.c", { files := ["b.c"], inherits := ["c.c"], gen := 3, loadTime := 1013, linked := [("c.c", 2)] }),
                                 ("c.c", { files := ["c.c", "c.h"], inherits := [], gen := 2, loadTime := 1013 })],
                       loaded := ["b", "c"],
                       objOf := fun n => if n = "b.c" then "b" else if n = "c.c" then "c" else "?",
                       binOf := fun n => if n = "b.c" then "B/b" else if n = "c.c" then "B/c" else "B/a" }
    saveAllowed w [("b.c", 3)] = true ∧
      saveAllowed { w with files := ("b.c", 1024) :: w.files } [("b.c", 3)] = false ∧
      saveAllowed { w with files := ("c.h", 1024) :: w.files } [("b.c", 3)] = false ∧
      saveAllowed { w with progs := ("c.c", { files := ["c.c"], inherits := [], gen := 5, loadTime := 1030 }) :: w.progs }
        [("b.c", 3)] = false ∧
      saveAllowed { w with loaded := ["c"] } [("b.c", 3)] = false := by
  decide

/-! ## (b) sort_function_table -/

/-- **swap_loop_correct**: for every table and every permutation `temp` with inverse table `inverse`, the loop of n-1
    swaps driven by `sorttmp`/`invtmp` never leaves the arrays and leaves `tab[k] = old tab[temp[k]]` everywhere. -/
theorem swap_loop_correct {α : Type} (tab : Arr α) (temp inverse : Arr Nat) (n : Nat)
    (hT : tab.size = n) (hS : temp.size = n) (hV : inverse.size = n)
    (h1 : ∀ i, i < n → temp.get i < n ∧ inverse.get (temp.get i) = i)
    (h2 : ∀ j, j < n → inverse.get j < n ∧ temp.get (inverse.get j) = j) :
    ∃ out, swapLoop tab temp inverse = some out ∧ out.size = n ∧ ∀ k, k < n → out.get k = tab.get (temp.get k) := by
  have inv0 : SwapInv n tab.get temp.get 0 ⟨tab, temp, inverse⟩ :=
    ⟨hT, hS, hV, by intro k hk; omega,
      by intro k _ hk; exact ⟨Nat.zero_le _, (h1 k hk).1, rfl, (h1 k hk).2⟩,
      by intro j _ hj; exact ⟨Nat.zero_le _, (h2 j hj).1, (h2 j hj).2⟩⟩
  obtain ⟨s', e, hinv⟩ := swapFrom_inv (n - 1) 0 _ inv0 (by omega)
  refine ⟨s'.tab, ?_, ?_, ?_⟩
  · simp [swapLoop, hT, e]
  · have := hinv.szT; simpa using this
  · have hinv' : SwapInv n tab.get temp.get (n - 1) s' := by simpa using hinv
    exact swapInv_final hinv'

/-- facts about a permutation table: any rearrangement of 0..n-1 (what `quickSort` leaves in `temp`) -/
theorem permTable_facts (n : Nat) (l : List Nat) (hp : l.Perm (List.range n)) :
    l.length = n ∧ (∀ i (h : i < l.length), l[i] < n) ∧
      (∀ i j (hi : i < l.length) (hj : j < l.length), l[i] = l[j] → i = j) ∧
      (∀ j, j < n → ∃ i, ∃ h : i < l.length, l[i] = j) := by
  have hlen : l.length = n := by rw [hp.length_eq, List.length_range]
  have hnd : l.Nodup := hp.nodup_iff.mpr List.nodup_range
  refine ⟨hlen, ?_, ?_, ?_⟩
  · intro i h
    have : l[i] ∈ List.range n := hp.mem_iff.mp (List.getElem_mem h)
    exact List.mem_range.mp this
  · intro i j hi hj e
    have hpw := List.pairwise_iff_getElem.mp (List.nodup_iff_pairwise_ne.mp hnd)
    rcases Nat.lt_trichotomy i j with c | c | c
    · exact absurd e (hpw i j hi hj c)
    · exact c
    · exact absurd e.symm (hpw j i hj hi c)
  · intro j hj
    have : j ∈ l := hp.mem_iff.mpr (List.mem_range.mpr hj)
    exact List.getElem_of_mem this

/-- **sort_perm_from_quicksort**: `quickSort (temp, num, sizeof (int), compare_compiler_funcs)` — the model of the code
    of lib/misc/qsort.c, not a library sort — never leaves `temp`, and leaves in it a rearrangement of 0..num-1 that,
    for a comparison that is a strict order, lists the table in non-descending order -/
theorem sort_perm_from_quicksort {α : Type} [Inhabited α] (lt : α → α → Bool) (table : List α) :
    ∃ temp, sortPerm lt table = some temp ∧ temp.Perm (List.range table.length) ∧
      ((∀ x y, lt x y = true → lt y x = false) → (∀ x y z, lt x y = true → lt y z = true → lt x z = true) →
        temp.Pairwise (fun i j => lt (table.getD j default) (table.getD i default) = false)) := by
  obtain ⟨l', e, hp, hs⟩ :=
    quickSortL_spec (fun x y => lt (table.getD x default) (table.getD y default)) (List.range table.length)
  exact ⟨l', e, hp, fun asym trans => hs (fun x y => asym _ _) (fun x y z => trans _ _ _)⟩

theorem getD_ofList {α : Type} [Inhabited α] (l : List α) (i : Nat) (h : i < l.length) :
    (Arr.ofList l).get i = l[i] := by
  simp [Arr.ofList, List.getD_eq_getElem?_getD, h]

/-- the inverse table computed by the code for a permutation table -/
theorem mkInverse_permTable (n : Nat) (l : List Nat) (hp : l.Perm (List.range n)) :
    let temp := Arr.ofList l
    ∃ inv, mkInverse temp = some inv ∧ inv.size = n ∧
      (∀ i, i < n → temp.get i < n ∧ inv.get (temp.get i) = i) ∧
      (∀ j, j < n → inv.get j < n ∧ temp.get (inv.get j) = j) := by
  intro temp
  obtain ⟨hlen, hr, hinj, hsurj⟩ := permTable_facts n l hp
  have hsz : temp.size = n := by simp [temp, Arr.ofList, hlen]
  have hr' : ∀ i, i < n → temp.get i < n := by
    intro i hi
    rw [getD_ofList _ i (by omega)]
    exact hr i (by omega)
  have hinj' : ∀ i j, i < n → j < n → temp.get i = temp.get j → i = j := by
    intro i j hi hj e
    rw [getD_ofList _ i (by omega), getD_ofList _ j (by omega)] at e
    exact hinj i j (by omega) (by omega) e
  obtain ⟨inv, e, hs, hv⟩ := inverseLoop_spec temp n hsz hr' hinj' n (Nat.le_refl _)
  refine ⟨inv, ?_, hs, ?_, ?_⟩
  · simp [mkInverse, hsz, e]
  · intro i hi; exact ⟨hr' i hi, hv i hi⟩
  · intro j hj
    obtain ⟨i, hi, eij⟩ := hsurj j hj
    have hi' : i < n := by omega
    have : temp.get i = j := by rw [getD_ofList _ i hi]; exact eij
    rw [← this, hv i hi']
    exact ⟨hi', rfl⟩

/-- the table read through a permutation table: entry k is the old entry number `temp[k]` -/
def sortedBy {α : Type} [Inhabited α] (temp : List Nat) (table : List α) : List α :=
  temp.map (fun x => table.getD x default)

theorem sortedBy_perm {α : Type} [Inhabited α] (temp : List Nat) (table : List α)
    (hp : temp.Perm (List.range table.length)) : (sortedBy temp table).Perm table := by
  have h1 := hp.map (fun x => table.getD x default)
  have h2 : (List.range table.length).map (fun x => table.getD x default) = table := by
    apply List.ext_getElem
    · simp
    · intro i h1 h2
      simp [List.getD_eq_getElem?_getD, h2]
  rw [h2] at h1
  exact h1

/-- **perm_sort_correct**: for every function table and every comparison `lt` that is a strict order, the code of
    `sort_function_table` — `quickSort` on the permutation table (the code of qsort.c), inverse table, n-1 swaps — does
    not leave its arrays and yields the table in non-descending order, a permutation of the old table. -/
theorem perm_sort_correct {α : Type} [Inhabited α] (lt : α → α → Bool)
    (asym : ∀ x y, lt x y = true → lt y x = false)
    (trans : ∀ x y z, lt x y = true → lt y z = true → lt x z = true) (table : List α) :
    ∃ temp inv out, sortPerm lt table = some temp ∧ mkInverse (Arr.ofList temp) = some inv ∧
      swapLoop (Arr.ofList table) (Arr.ofList temp) inv = some out ∧
      out.toList = sortedBy temp table ∧
      (out.toList).Pairwise (fun a b => lt b a = false) ∧ (out.toList).Perm table := by
  obtain ⟨temp, et, hp, hsorted⟩ := sort_perm_from_quicksort lt table
  obtain ⟨inv, e, hs, h1, h2⟩ := mkInverse_permTable table.length temp hp
  obtain ⟨hlen, _, _, _⟩ := permTable_facts table.length temp hp
  obtain ⟨out, eo, hsz, hv⟩ := swap_loop_correct (Arr.ofList table) (Arr.ofList temp) inv table.length
    (by simp [Arr.ofList]) (by simp [Arr.ofList, hlen]) hs h1 h2
  have hl : out.toList = sortedBy temp table := by
    apply List.ext_getElem
    · simp [Arr.toList, sortedBy, hsz, hlen]
    · intro i hi1 hi2
      have hi : i < table.length := by simpa [Arr.toList, hsz] using hi1
      simp only [Arr.toList, sortedBy, List.getElem_map, List.getElem_range]
      rw [hv i hi, getD_ofList _ i (by omega)]
      simp [Arr.ofList]
  refine ⟨temp, inv, out, et, e, eo, hl, ?_, ?_⟩
  · rw [hl]
    unfold sortedBy
    rw [List.pairwise_map]
    exact hsorted asym trans
  · rw [hl]; exact sortedBy_perm temp table hp

/-- the order of `compare_compiler_funcs` is transitive and total -/
theorem cfLe_trans (a b c : CF) : cfLe a b = true → cfLe b c = true → cfLe a c = true := by
  unfold cfLe
  cases a.hash <;> cases b.hash <;> cases c.hash <;> simp <;> omega

theorem cfLe_total (a b : CF) : (cfLe a b || cfLe b a) = true := by
  unfold cfLe
  cases a.hash <;> cases b.hash <;> simp <;> omega

/-- `compare_compiler_funcs (x, y) < 0` is a strict order, and "not below" is `<= 0` the other way round -/
theorem cfLt_asymm (a b : CF) : cfLt a b = true → cfLt b a = false := by
  unfold cfLt
  cases a.hash <;> cases b.hash <;> simp <;> omega

theorem cfLt_trans (a b c : CF) : cfLt a b = true → cfLt b c = true → cfLt a c = true := by
  unfold cfLt
  cases a.hash <;> cases b.hash <;> cases c.hash <;> simp <;> omega

theorem cfLt_false_iff (a b : CF) : cfLt b a = false ↔ cfLe a b = true := by
  unfold cfLt cfLe
  cases a.hash <;> cases b.hash <;> simp

/-- the function table after `sort_function_table` is in the order of `compare_compiler_funcs` -/
theorem function_table_sorted (table : List CF) :
    ∃ temp inv out, sortPerm cfLt table = some temp ∧ mkInverse (Arr.ofList temp) = some inv ∧
      swapLoop (Arr.ofList table) (Arr.ofList temp) inv = some out ∧
      (out.toList).Pairwise (fun a b => cfLe a b = true) ∧ (out.toList).Perm table := by
  obtain ⟨temp, inv, out, h1, h2, h3, _, h5, h6⟩ := perm_sort_correct cfLt cfLt_asymm cfLt_trans table
  exact ⟨temp, inv, out, h1, h2, h3, h5.imp (fun h => (cfLt_false_iff _ _).mp h), h6⟩

/-- non-vacuity: the real comparison order on a table with a '#' function in the middle -/
example := function_table_sorted
  [⟨30, false, "c"⟩, ⟨5, true, "#global_init#"⟩, ⟨10, false, "a"⟩, ⟨20, false, "b"⟩]

example :
    let t : List CF := [⟨30, false, "c"⟩, ⟨5, true, "#global_init#"⟩, ⟨10, false, "a"⟩, ⟨20, false, "b"⟩]
    sortPerm cfLt t = some [2, 3, 0, 1] ∧
    (do let inv ← mkInverse (Arr.ofList [2, 3, 0, 1])
        let out ← swapLoop (Arr.ofList t) (Arr.ofList [2, 3, 0, 1]) inv
        pure (out.toList.map (·.tag))) = some ["a", "b", "c", "#global_init#"] := by
  refine ⟨by decide, by decide⟩

/-- **remap_points_at_same_function**: when the slots the two remap loops visit are pairwise distinct and hold valid
    function numbers, every visited `f_index` is replaced by its image under `inverse`, i.e. it designates the same
    `compiler_function_t` in the sorted table as before in the unsorted one; all other slots are untouched. -/
theorem remap_points_at_same_function {α : Type} (tab out : Arr α) (temp inverse offs : Arr Nat) (n : Nat)
    (slots : List Nat)
    (hV : inverse.size = n)
    (hout : ∀ k, k < n → out.get k = tab.get (temp.get k))
    (h2 : ∀ j, j < n → inverse.get j < n ∧ temp.get (inverse.get j) = j)
    (hnd : slots.Nodup) (hb : ∀ s, s ∈ slots → s < offs.size ∧ offs.get s < n) :
    ∃ offs', remapSlots inverse slots offs = some offs' ∧ offs'.size = offs.size ∧
      (∀ s, s ∈ slots → offs'.get s < n ∧ out.get (offs'.get s) = tab.get (offs.get s)) ∧
      (∀ s, s ∉ slots → offs'.get s = offs.get s) := by
  obtain ⟨o', e, hs, g1, g2⟩ := remapSlots_spec inverse n hV slots offs hnd hb
  refine ⟨o', e, hs, ?_, g2⟩
  intro s hs'
  obtain ⟨_, hlt⟩ := hb s hs'
  obtain ⟨k1, k2⟩ := h2 (offs.get s) hlt
  rw [g1 s hs']
  refine ⟨k1, ?_⟩
  rw [hout _ k1, k2]

/-- **type_start_follows**: the parallel `type_start` array is permuted exactly like the function table
    (this is the repaired loop; the loop as it was is refuted in Witness.lean). -/
theorem type_start_follows {τ : Type} (ts : Arr τ) (temp : Arr Nat) (num : Nat)
    (h1 : num ≤ ts.size) (h2 : num ≤ temp.size) (h3 : ∀ i, i < num → temp.get i < num) :
    ∃ out, permuteTypeStart ts temp num = some out ∧ out.size = ts.size ∧
      (∀ i, i < num → out.get i = ts.get (temp.get i)) ∧ (∀ i, num ≤ i → out.get i = ts.get i) := by
  have hall : (List.range num).all (fun i => decide (temp.get i < num)) = true := by
    rw [List.all_eq_true]
    intro i hi
    simpa using h3 i (List.mem_range.mp hi)
  refine ⟨⟨ts.size, fun i => if i < num then ts.get (temp.get i) else ts.get i⟩, ?_, rfl, ?_, ?_⟩
  · simp [permuteTypeStart, h1, h2, hall]
  · intro i hi; simp [hi]
  · intro i hi
    have : ¬ i < num := by omega
    simp [this]

example : (permuteTypeStart (Arr.ofList [100, 101, 102, 103]) (Arr.ofList [3, 1, 2, 0]) 4).map Arr.toList
    = some [103, 101, 102, 100] := by decide

/-! ## (c) relocation -/

theorem bv_sub_ne_zero (x b : BitVec 64) (h : x ≠ b) : x - b ≠ 0 := by
  intro hc
  have := BitVec.sub_add_cancel x b
  rw [hc] at this
  exact h (by simpa using this.symm)

/-- **relocate_roundtrip**: `locate_in ∘ locate_out = id` on every program whose guarded members (`inherit`,
    `type_start`) are NULL or do not coincide with the program's own address (in a real program they point behind the
    header). -/
theorem relocate_roundtrip (b : BitVec 64) (p : ProgPtrs) (h : p.typeStart = 0 ∨ p.typeStart ≠ b)
    (hi : p.inherit = 0 ∨ p.inherit ≠ b) : locateIn b (locateOut b p) = p := by
  cases p with
  | mk a1 a2 a3 a4 a5 a6 a7 a8 a9 a10 a11 at' ts =>
    simp only [locateIn, locateOut]
    have e9 : (if (if a9 ≠ 0 then a9 - b else a9) ≠ 0 then (if a9 ≠ 0 then a9 - b else a9) + b
               else (if a9 ≠ 0 then a9 - b else a9)) = a9 := by
      by_cases hz : a9 = 0
      · subst hz; simp
      · have hne : a9 - b ≠ 0 := bv_sub_ne_zero a9 b (by rcases hi with h0 | h0; exact absurd h0 hz; exact h0)
        simp only [ne_eq, if_pos hz, if_pos hne, BitVec.sub_add_cancel]
    by_cases hz : ts = 0
    · subst hz
      simp only [e9]
      simp [BitVec.sub_add_cancel]
    · have hne : ts - b ≠ 0 := bv_sub_ne_zero ts b (by rcases h with h0 | h0; exact absurd h0 hz; exact h0)
      simp only [e9]
      simp only [ne_eq, if_pos hz, if_pos hne, BitVec.sub_add_cancel]

/-- **relocate_offsets_preserved**: written at address `b1` and loaded at address `b2`, every relocated member keeps its
    offset from the start of the program block (the 10 unconditional members; with a non-NULL `inherit` / `type_start`
    also the guarded ones), and a NULL `inherit` stays NULL (no wild pointer after a load). -/
theorem relocate_offsets_preserved (b1 b2 : BitVec 64) (p : ProgPtrs) :
    let q := locateIn b2 (locateOut b1 p)
    q.program - b2 = p.program - b1 ∧ q.functionTable - b2 = p.functionTable - b1 ∧
    q.functionFlags - b2 = p.functionFlags - b1 ∧ q.functionOffsets - b2 = p.functionOffsets - b1 ∧
    q.functionCompressed - b2 = p.functionCompressed - b1 ∧ q.strings - b2 = p.strings - b1 ∧
    q.variableTable - b2 = p.variableTable - b1 ∧ q.variableTypes - b2 = p.variableTypes - b1 ∧
    q.classes - b2 = p.classes - b1 ∧ q.classMembers - b2 = p.classMembers - b1 ∧
    (p.inherit = 0 → q.inherit = 0) ∧
    (p.inherit ≠ 0 → p.inherit ≠ b1 → q.inherit - b2 = p.inherit - b1) ∧
    (p.typeStart ≠ 0 → p.typeStart ≠ b1 →
      q.argumentTypes - b2 = p.argumentTypes - b1 ∧ q.typeStart - b2 = p.typeStart - b1) := by
  simp only [locateIn, locateOut, BitVec.add_sub_cancel, true_and]
  refine ⟨?_, ?_, ?_⟩
  · intro h0
    simp [h0]
  · intro hz hb
    have hne := bv_sub_ne_zero p.inherit b1 hb
    simp only [ne_eq, if_pos hz, if_pos hne, BitVec.add_sub_cancel]
  · intro hz hb
    have hne := bv_sub_ne_zero p.typeStart b1 hb
    simp only [ne_eq, if_pos hz, if_pos hne, BitVec.add_sub_cancel, and_self]

example : locateIn 0x5000#64 (locateOut 0x1000#64
    ⟨0x10a8, 0x1100, 0x1200, 0x1300, 0x1400, 0x1500, 0x1600, 0x1700, 0, 0x1800, 0x1900, 0x1a00, 0x1b00⟩)
    = ⟨0x50a8, 0x5100, 0x5200, 0x5300, 0x5400, 0x5500, 0x5600, 0x5700, 0, 0x5800, 0x5900, 0x5a00, 0x5b00⟩ := by
  decide

/-- **relocation_members_tied**: the members that `locate_out` and `locate_in` relocate in the source — read from both
    functions on every run, each with the member that guards it (`if (prog->inherit)`, `if (prog->type_start)`) — are exactly the members of the model's
    `ProgPtrs`, in the same order and under the same guard, on both sides -/
theorem relocation_members_tied :
    Gen.C17.locateOutMembers = relocatedMembers ∧ Gen.C17.locateInMembers = relocatedMembers ∧
      relocatedMembers.length = (ProgPtrs.fields ⟨0, 0, 0, 0, 0, 0, 0, 0, 0, 0, 0, 0, 0⟩).length := by
  decide

/-- **every_pointer_member_handled**: every pointer-typed member of `program_t` (read from lib/lpc/program.h on every
    run) is either relocated by locate_out/locate_in or is one of the members that do not point into the program
    block, and those `load_binary` assigns itself; a pointer member added to the struct breaks this obligation until it
    is put into one of the two lists -/
theorem every_pointer_member_handled :
    (∀ m, m ∈ Gen.C17.programPointerMembers → m ∈ relocatedMembers.map (·.1) ∨ m ∈ rebuiltMembers) ∧
      (∀ m, m ∈ rebuiltMembers → m ∈ Gen.C17.loadBinaryAssigns) ∧
      (∀ m, m ∈ relocatedMembers.map (·.1) → m ∈ Gen.C17.programPointerMembers) := by
  decide

/-- **only_switch_keys_are_addresses**: the operands the code generator stores as machine words (`ins_intptr`, read from
    icode.c on every run) are the three kinds of switch-table key the model knows; the only address among them is the
    string-switch key, which is what the patch list covers (`all_string_switches_patched`).  A new address-valued operand
    (a function name, a class name …) emitted into the byte code breaks this obligation. -/
theorem only_switch_keys_are_addresses : Gen.C17.intptrOperands = modelIntptrOperands := by
  decide

/-- **every_block_pointer_recreated**: every pointer stored inside the saved program block — the pointer-typed members of
    the structures that live there and the elements of the `char **` tables, read from lib/lpc/program.h on every run — is
    one of the four the model knows, and `load_binary` assigns each of them after reading the block (assignments read from
    load_binary).  A new pointer member in one of these structures, or a dropped re-creation, breaks the obligation. -/
theorem every_block_pointer_recreated :
    (∀ p, p ∈ Gen.C17.blockStructPointers ++ Gen.C17.blockPointerTables → p ∈ modelBlockPointers) ∧
      (∀ p, p ∈ modelBlockPointers → p ∈ Gen.C17.blockPointersRecreated) ∧
      (∀ p, p ∈ modelBlockPointers → p ∈ Gen.C17.blockStructPointers ++ Gen.C17.blockPointerTables) := by
  decide

/-- **patch_offsets_read_unsigned**: with the C types read from the source on this run — the 16-bit entry the code
    generator records, the cast through which patch_out and patch_in read it, the type of the table bounds — every program
    offset below 65536 arrives unchanged (in particular offsets and tables above 32767 are not sign-extended), on the
    saving and on the loading side.  A narrowed type or a dropped cast breaks this obligation. -/
theorem patch_offsets_read_unsigned (raw : Nat) (h : raw < 65536) :
    readPatchOffset Gen.C17.patchOutOffsetCast raw = raw ∧ readPatchOffset Gen.C17.patchInOffsetCast raw = raw ∧
      readTableBound Gen.C17.patchOutBoundsType raw = raw ∧ readTableBound Gen.C17.patchInBoundsType raw = raw ∧
      Gen.C17.patchEntryType = "short" := by
  have : raw % 65536 = raw := Nat.mod_eq_of_lt h
  refine ⟨?_, ?_, ?_, ?_, by decide⟩ <;>
    simp [readPatchOffset, readTableBound, Gen.C17.patchOutOffsetCast, Gen.C17.patchInOffsetCast,
      Gen.C17.patchOutBoundsType, Gen.C17.patchInBoundsType, this]

/-- the model of qsort.c mirrors as many statements as qSort + quickSort have -/
theorem qsort_statements_tied : Gen.C17.qsortStatements = modelQsortStatements := by decide

/-! ## (d) string switch tables -/

theorem swLe_trans (a b c : SwEntry) : swLe a b = true → swLe b c = true → swLe a c = true := by
  simp only [swLe, decide_eq_true_eq]; omega

theorem swLe_total (a b : SwEntry) : (swLe a b || swLe b a) = true := by
  simp only [swLe, Bool.or_eq_true, decide_eq_true_eq]; omega

theorem swLt_asymm (a b : SwEntry) : swLt a b = true → swLt b a = false := by
  simp only [swLt, decide_eq_true_eq, decide_eq_false_iff_not]; omega

theorem swLt_trans (a b c : SwEntry) : swLt a b = true → swLt b c = true → swLt a c = true := by
  simp only [swLt, decide_eq_true_eq]; omega

/-- `quickSort (…, str_case_cmp)` on any table: succeeds, same entries, ascending keys -/
theorem quickSort_switch_table (es : List SwEntry) :
    ∃ out, quickSortL swLt es = some out ∧ out.Perm es ∧ out.Pairwise (fun a b => a.key ≤ b.key) := by
  obtain ⟨out, e, hp, hs⟩ := quickSortL_spec swLt es
  refine ⟨out, e, hp, (hs swLt_asymm swLt_trans).imp ?_⟩
  intro a b h
  simp only [swLt, decide_eq_false_iff_not] at h
  omega

/-- **switch_tables_sorted_after_patch**: whatever addresses the strings of a reloaded program received, after
    `patch_in` every string switch table is in ascending order of the key compared as a signed 64-bit integer — the
    order `f_switch` assumes in its binary search (`s < r` / `s > r` on `intptr_t`) — and holds the same entries. -/
theorem switch_tables_sorted_after_patch (strings : List Int) (es out : List SwEntry)
    (h : patchInTable strings es = some out) :
    out.Pairwise (fun a b => a.key ≤ b.key) ∧
      ∃ es', es.mapM (fun e =>
        if e.key = -1 then some { e with key := 0 }
        else if e.key < 0 then none
        else (strings[e.key.toNat]?).map (fun p => { e with key := p })) = some es' ∧ out.Perm es' := by
  unfold patchInTable at h
  cases hm : es.mapM (fun e =>
        if e.key = -1 then some { e with key := 0 }
        else if e.key < 0 then none
        else (strings[e.key.toNat]?).map (fun p => { e with key := p })) with
  | none => rw [hm] at h; cases h
  | some es' =>
    rw [hm] at h
    obtain ⟨o, e, hp, hs⟩ := quickSort_switch_table es'
    have : out = o := by
      simp [e] at h
      exact h.symm
    subst this
    exact ⟨hs, es', rfl, hp⟩

/-- `patch_in` converts every table whose indices are inside the string table (it cannot fail in the sort) -/
theorem patch_in_total (strings : List Int) (es es' : List SwEntry)
    (hm : es.mapM (fun e =>
        if e.key = -1 then some { e with key := 0 }
        else if e.key < 0 then none
        else (strings[e.key.toNat]?).map (fun p => { e with key := p })) = some es') :
    ∃ out, patchInTable strings es = some out ∧ out.Perm es' ∧ out.Pairwise (fun a b => a.key ≤ b.key) := by
  obtain ⟨o, e, hp, hs⟩ := quickSort_switch_table es'
  refine ⟨o, ?_, hp, hs⟩
  unfold patchInTable
  rw [hm]
  simpa using e

/-- non-vacuity: indices 0..3 and the 0 label, strings at far apart addresses (more than 2^32 between them) -/
example : patchInTable [4096, 8192, 100, 6442450944] [⟨0, 10⟩, ⟨1, 11⟩, ⟨2, 12⟩, ⟨3, 13⟩, ⟨-1, 9⟩]
    = some [⟨0, 9⟩, ⟨100, 12⟩, ⟨4096, 10⟩, ⟨8192, 11⟩, ⟨6442450944, 13⟩] := by
  decide

/-- mapping back what was mapped out, entry by entry -/
theorem mapM_roundtrip {α β : Type} (f : α → Option β) (g : β → Option α)
    (hfg : ∀ a b, f a = some b → g b = some a) :
    ∀ (l : List α) (l' : List β), l.mapM f = some l' → l'.mapM g = some l := by
  intro l
  induction l with
  | nil =>
    intro l' h
    simp at h
    subst h
    simp
  | cons a rest ih =>
    intro l' h
    rw [List.mapM_cons] at h
    cases hfa : f a with
    | none => rw [hfa] at h; simp at h
    | some b =>
      cases hr : rest.mapM f with
      | none => rw [hfa, hr] at h; simp at h
      | some bs =>
        rw [hfa, hr] at h
        simp at h
        subst h
        rw [List.mapM_cons, hfg a b hfa, ih bs hr]
        simp

/-- one switch-table entry: the index that `patch_out` stores leads `patch_in` back to the same address -/
theorem patch_entry_roundtrip (strings : List Int) (e e' : SwEntry)
    (h : (if e.key = 0 then some { e with key := -1 }
          else (indexOfPtr strings e.key).map (fun i => { e with key := (i : Int) })) = some e') :
    (if e'.key = -1 then some { e' with key := 0 }
     else if e'.key < 0 then none
     else (strings[e'.key.toNat]?).map (fun p => { e' with key := p })) = some e := by
  by_cases hz : e.key = 0
  · rw [if_pos hz] at h
    cases h
    cases e with
    | mk k a => simp at hz; subst hz; simp
  · rw [if_neg hz] at h
    rw [Option.map_eq_some_iff] at h
    obtain ⟨i, hi, he⟩ := h
    subst he
    unfold indexOfPtr at hi
    by_cases hlt : List.findIdx (fun x => x == e.key) strings < strings.length
    · simp only [hlt, if_true] at hi
      cases hi
      have hget := List.findIdx_getElem (p := fun x => x == e.key) (xs := strings) (w := hlt)
      have hne1 : ¬ ((List.findIdx (fun x => x == e.key) strings : Nat) : Int) = -1 := by omega
      have hnn : ¬ ((List.findIdx (fun x => x == e.key) strings : Nat) : Int) < 0 := by omega
      simp only [hne1, hnn, if_false, Int.toNat_natCast]
      rw [List.getElem?_eq_getElem hlt]
      simp only [Option.map_some]
      have : strings[List.findIdx (fun x => x == e.key) strings] = e.key := by simpa using hget
      rw [this]
    · simp only [hlt, if_false] at hi
      cases hi

/-- **patch_roundtrip**: `patch_in ∘ patch_out` restores every string switch table that `patch_out` can convert (every
    key is the 0 label or the address of a string of the program): the same entries with the same addresses, in the
    order `f_switch` searches — for ANY table, sorted or not, and any string table. -/
theorem patch_roundtrip (strings : List Int) (es mid : List SwEntry)
    (h : patchOutTable strings es = some mid) :
    ∃ out, patchInTable strings mid = some out ∧ out.Perm es ∧ out.Pairwise (fun a b => a.key ≤ b.key) := by
  unfold patchOutTable at h
  have hback := mapM_roundtrip _ _ (patch_entry_roundtrip strings) es mid h
  exact patch_in_total strings mid es hback

/-- non-vacuity: a table with the 0 label; addresses more than 2^32 apart -/
example : patchOutTable [4096, 8192, 100, 6442450944] [⟨0, 9⟩, ⟨100, 12⟩, ⟨4096, 10⟩, ⟨6442450944, 13⟩]
    = some [⟨-1, 9⟩, ⟨2, 12⟩, ⟨0, 10⟩, ⟨3, 13⟩] := by decide

/-! ## (e) the patch list -/

/-- **all_string_switches_patched**: the patch list handed to `save_binary` names exactly the string switches of the
    program, in generation order — unconditionally: the code appends to A_PATCH for every NODE_SWITCH_STRINGS whatever
    the pragma state when the switch is generated (the site is read from icode.c on every run), so a
    `#pragma save_binary` below a function, in an include file, or re-enabled after `#pragma no_save_binary` still
    finds every table in the list when `epilog` decides to save. -/
theorem all_string_switches_patched (evs : List GenEv) : genPatches evs = stringSwitchSites evs := by
  induction evs with
  | nil => rfl
  | cons e rest ih => cases e <;> simp [genPatches, stringSwitchSites, ih]

/-- in particular for a program that is saved although the pragma came after its switches -/
example :
    let evs := [GenEv.stringSwitch 12, .otherSwitch 40, .stringSwitch 90, .pragmaSaveBinary false, .stringSwitch 130,
                .pragmaSaveBinary true]
    savedAtEnd evs = true ∧ genPatches evs = [12, 90, 130] := by decide

/-! ## (f) byte-level layout: what save_binary writes is what load_binary reads -/

/-- **layout_write_read_agree**: the sections of the file between preamble and checksum are written and read in the same
    order and with length fields of the same width (both lists are regenerated from the `[WRITE_*]` / `[READ_*]` blocks
    of binaries.c on every run: moving, dropping or resizing a block on one side only breaks this obligation). -/
theorem layout_write_read_agree :
    Gen.C17.writeLayout.filter (fun s => s.1 != "CHECKSUM") = Gen.C17.readLayout.filter (fun s => s.1 != "CHECKSUM") := by
  decide

/-- **layout_checksum_covers_file**: the checksum is the last thing written and the first thing verified -/
theorem layout_checksum_covers_file :
    Gen.C17.writeLayout.getLast? = some ("CHECKSUM", 32) ∧ Gen.C17.readLayout.head? = some ("CHECKSUM", 32) := by
  decide

end NV.C17
