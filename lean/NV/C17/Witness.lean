/-
C17 — the code of lib/lpc/program/binaries.c (and string_case_compare in compiler.c) as it was BEFORE the four `fix:`
commits of this property, with Lean-checked counterexamples of the statements that the repaired code satisfies
(NV/C17/Props.lean).  Each witness was replayed on the real driver first (see notes/C17.md); the corpus cases
corpus/C17/*.case keep the inputs, and reverting a fix makes `./check C17` report a VIOLATION on them.
-/
import NV.C17.Model
import NV.C17.Props

namespace NV.C17

/-! ### 1. sort_function_table: `for (i = 0; i < num; i++) type_start[i] = type_start[temp[i]];` in place -/

def oldTypeStartLoop {τ} (temp : Arr Nat) : Nat → Nat → Arr τ → Option (Arr τ)
  | 0, _, ts => some ts
  | fuel + 1, i, ts => do
    let t ← temp.read i
    let v ← ts.read t
    let ts' ← ts.write i v
    oldTypeStartLoop temp fuel (i + 1) ts'

/-- the statement `type_start_follows` for the old loop -/
def OldTypeStartFollows : Prop :=
  ∀ (ts temp : List Nat), ts.length = temp.length → (∀ i, i < temp.length → temp.getD i 0 < temp.length) →
    (oldTypeStartLoop (Arr.ofList temp) temp.length 0 (Arr.ofList ts)).map Arr.toList
      = some ((List.range temp.length).map (fun i => ts.getD (temp.getD i 0) 0))

/-- two functions whose order is exchanged by the sort: both end up with the second one's argument types -/
theorem old_type_start_loop_wrong : ¬ OldTypeStartFollows := by
  intro h
  have := h [100, 101] [1, 0] rfl (by decide)
  revert this
  decide

example : (oldTypeStartLoop (Arr.ofList [1, 0]) 2 0 (Arr.ofList [100, 101])).map Arr.toList = some [101, 101] := by decide

/-! ### 2. str_case_cmp / string_case_compare: `return (int)(s1 - s2);` -/

/-- `(int) x` for a 64-bit difference -/
def trunc32 (x : Int) : Int :=
  let m := x % 4294967296
  if m < 2147483648 then m else m - 4294967296

def oldSwLe (a b : SwEntry) : Bool := trunc32 (a.key - b.key) ≤ 0

/-- the order the tables were sorted by contradicts the order `f_switch` searches by as soon as two strings are 2 GiB
    apart: an entry with the larger address is "≤" the one with the smaller, strictly -/
theorem old_str_case_cmp_missorts :
    ∃ a b : SwEntry, oldSwLe a b = true ∧ oldSwLe b a = false ∧ b.key < a.key :=
  ⟨⟨2147483649, 1⟩, ⟨0, 2⟩, by decide, by decide, by decide⟩

/-- and it is not even an order: not transitive -/
theorem old_str_case_cmp_not_transitive :
    ∃ a b c : SwEntry, oldSwLe a b = true ∧ oldSwLe b c = true ∧ oldSwLe a c = false :=
  ⟨⟨0, 1⟩, ⟨1500000000, 2⟩, ⟨3000000000, 3⟩, by decide, by decide, by decide⟩

/-! ### 3. patch_out / patch_in: `short` patch offsets -/

/-- a string switch at program offset 32768 or beyond was addressed through a negative index -/
theorem old_patch_offset_negative (v : Nat) (h1 : 32768 ≤ v) (h2 : v < 65536) : sext16 v < 0 := by
  unfold sext16
  have : v % 65536 = v := Nat.mod_eq_of_lt h2
  rw [this]
  have : ¬ v < 32768 := by omega
  simp only [this, if_false]
  omega

example : sext16 37074 = -28462 := by decide

/-! ### 4. init_binaries: `stat (CONFIG_STR (__SIMUL_EFUN_FILE__), &st)` with the configured "/simul_efun.c" -/

/-- the old code handed the mudlib path, leading slash included, to stat(): a path in the root of the real file system,
    never one of the mudlib's files (whose paths are relative) -/
def oldSampleConfigId (w : World) (simulFile : String) : Nat := (w.mtime simulFile).getD 0

/-- whatever the modification time of the simul_efun file, config_id was 0 -/
theorem old_config_id_blind (t : Nat) :
    oldSampleConfigId { files := [("simul_efun.c", t)] } "/simul_efun.c" = 0 := by
  simp [oldSampleConfigId, World.mtime, List.lookup]

end NV.C17

namespace NV.C17

/-! ### 5. load_binary before the fifth and sixth fix: only the binary's own lists; config_id sampled at start-up only -/

def oldCheckInherits (w : World) (mtime : Nat) : List String → Decision
  | [] => .use
  | inh :: rest =>
    if checkTimes w mtime inh ≤ 0 ∨ checkTimes w mtime (binPath w inh) = 0 then .stale "inherited"
    else if !(w.loaded.contains (objName w inh)) then .needs inh
    else oldCheckInherits w mtime rest

def oldLoadBinary (w : World) (name : String) : Decision :=
  match w.mtime (binPath w name), w.bins.lookup (binPath w name) with
  | some mtime, some b =>
    if checkTimes w mtime name ≤ 0 then .stale "source"
    else if b.magic ≠ magicId then .stale "magic"
    else if b.driverId ≠ driverId then .stale "driver"
    else if b.configId ≠ w.configId then .stale "config"
    else if b.includes.any (fun i => checkTimes w mtime i ≤ 0) then .stale "include"
    else if b.name.length > 0 ∧ b.name ≠ name then .stale "name"
    else oldCheckInherits w mtime b.inherits
  | _, _ => .stale "nobinary"

def witnessWorld : World :=
  let bo : String → String := fun n => if n = "a.c" then "B/a" else if n = "b.c" then "B/b" else "B/c"
  let oo : String → String := fun n => if n = "b.c" then "b" else "?"
  { files := [("B/a", 200), ("a.c", 100), ("b.c", 150), ("c.c", 300), ("h.h", 300), ("sim.c", 300)],
    bins := [("B/a", { magic := magicId, driverId := driverId, configId := 0,
                       includes := [], name := "a.c", inherits := ["b.c"] })],
    progs := [("b.c", { files := ["b.c", "h.h"], inherits := ["c.c"] }), ("c.c", { files := ["c.c"], inherits := [] })],
    loaded := ["b"], configId := 0, simulPath := "sim.c", binOf := bo, objOf := oo }

/-- a inherits b inherits c; b has no saved binary; c, a header of b and the simul_efun file are all newer than a's
    binary: the old decision used the binary — even a damaged one (there was no checksum) —, the repaired one does not -/
theorem old_indirect_inherit_not_checked :
    oldLoadBinary witnessWorld "a.c" = .use ∧
      oldLoadBinary { witnessWorld with bins := witnessWorld.bins.map (fun e => (e.1, { e.2 with intact := false })) } "a.c" = .use ∧
      loadBinary witnessWorld "a.c" = .stale "simul" ∧
      loadBinary { witnessWorld with simulPath := "" } "a.c" = .stale "behind-inherited" := by
  decide

end NV.C17

namespace NV.C17

/-! ### 6. why the patch list must not depend on the pragma state at generation time -/

/-- a code generator that records a string switch only while `#pragma save_binary` is already set -/
def condGenPatches : Bool → List GenEv → List Nat
  | _, [] => []
  | _, .pragmaSaveBinary on :: rest => condGenPatches on rest
  | st, .stringSwitch site :: rest => if st then site :: condGenPatches st rest else condGenPatches st rest
  | st, _ :: rest => condGenPatches st rest

/-- with the pragma below the function, the program is saved but its switch is not in the list: the table keeps the
    string addresses of the saving process -/
theorem conditional_patch_list_misses_switch :
    ∃ evs, savedAtEnd evs = true ∧ condGenPatches false evs ≠ stringSwitchSites evs :=
  ⟨[.stringSwitch 12, .pragmaSaveBinary true], by decide, by decide⟩

end NV.C17

namespace NV.C17

/-! ### 7. save_binary before the seventh fix: a program compiled against an outdated parent in memory was saved -/

/-- the old `save_binary`: `#pragma save_binary` in force ⇒ written, whatever the state of the inherited programs -/
def oldSaveStep (s : Sys) (d : ProgDecl) (_linked : List (String × Nat)) : Sys :=
  if !d.save then s
  else
    let bp := binPath s.w d.name
    let b : BinFile := { magic := magicId, driverId := driverId, configId := s.w.configId,
                         includes := d.includes, name := d.name, inherits := d.inherits }
    { s with w := { s.w with files := (bp, s.vnow) :: s.w.files.filter (·.1 != bp),
                             bins := (bp, b) :: s.w.bins.filter (·.1 != bp) },
             vnow := s.vnow + 1, evs := Ev.sv d.name s.vnow d.includes :: s.evs }

/-- b.c was edited at 1024 while b (loaded at 1013, not saved) stays in memory; a is compiled again at 1034.  The old code
    saves a's binary — laid out for the old b — with modification time 1034; once b is loaded again from its new source
    nothing is newer than that binary: `load_binary` uses it (first conjuncts).  The repaired `save_binary` does not
    write it. -/
theorem old_saved_against_outdated_parent :
    let w0 : World := { files := [("a.c", 1002), ("b.c", 1024)],
                        progs := [("b.c", { files := ["b.c"], inherits := [], gen := 1, loadTime := 1013 })],
                        loaded := ["b"],
                        objOf := fun n => if n = "b.c" then "b" else "?",
                        binOf := fun n => if n = "b.c" then "B/b" else "B/a" }
    let s0 : Sys := { w := w0, vnow := 1034, ctime := 1034 }
    let d : ProgDecl := { name := "a.c", save := true, includes := [], inherits := ["b.c"] }
    let s1 := oldSaveStep s0 d [("b.c", 1)]
    -- later: b loaded again from the edited source at 1054
    let w2 : World := { s1.w with progs := [("b.c", { files := ["b.c"], inherits := [], gen := 2, loadTime := 1054 })] }
    s1.evs = [Ev.sv "a.c" 1034 []] ∧ loadBinary w2 "a.c" = .use ∧
      (saveStep s0 d [("b.c", 1)]).evs = [Ev.svSkipped "a.c"] := by
  decide

end NV.C17

namespace NV.C17

/-! ### 8. open finding: an include file shadowed by a new file earlier in the search path -/

/-- `inc_open` (lib/lpc/lex.c): an include directive takes the first candidate that exists — the file next to the
    including file, then `<include dir>/<name>` for every configured include directory in order -/
def resolveInclude (w : World) (cands : List String) : Option String :=
  cands.find? (fun c => (w.mtime c).isSome)

/-- the full statement: when a binary is used, every include directive of the program still resolves to the file the
    binary recorded for it -/
def IncludesResolveAsRecorded_Full : Prop :=
  ∀ (w : World) (name : String) (b : BinFile) (cands : List String) (r : String),
    loadBinary w name = .use → w.bins.lookup (binPath w name) = some b → r ∈ b.includes → r ∈ cands →
      resolveInclude w cands = some r

/-- a.c includes "s.h", found as include/s.h when a.c was compiled and saved (200); later d/s.h appears (modification
    time 80, older than everything): the binary is used, a compile would now read d/s.h -/
def shadowBin : BinFile :=
  { magic := magicId, driverId := driverId, configId := 0, includes := ["include/s.h"], name := "d/a.c", inherits := [] }

def shadowWorld : World :=
  { files := [("B/a", 200), ("d/a.c", 100), ("include/s.h", 90), ("d/s.h", 80)],
    bins := [("B/a", shadowBin)],
    binOf := fun _ => "B/a" }

theorem shadow_facts :
    loadBinary shadowWorld "d/a.c" = .use ∧
      shadowWorld.bins.lookup (binPath shadowWorld "d/a.c") = some shadowBin ∧
      resolveInclude shadowWorld ["d/s.h", "include/s.h"] = some "d/s.h" := by
  decide

theorem include_shadowing_not_seen : ¬ IncludesResolveAsRecorded_Full := by
  intro h
  obtain ⟨h1, h2, h3⟩ := shadow_facts
  have := h shadowWorld "d/a.c" shadowBin ["d/s.h", "include/s.h"] "include/s.h" h1 h2 (by simp [shadowBin]) (by simp)
  rw [h3] at this
  simp at this

end NV.C17

namespace NV.C17

/-! ### 9. open finding C17-unsaved-parent-include-shadowed: the include of an UNSAVED parent is shadowed -/

/-- the full statement: when a binary is used, every include directive of a program it inherits (a directive whose
    present resolution is one of the files that program in memory was built from) resolves to the same file as in the
    world `w0` in which the binary was saved — provided no file that existed then has changed its time -/
def ParentDirectivesResolveAsAtSave_Full : Prop :=
  ∀ (w0 w : World) (name : String) (b : BinFile) (i q : String) (lp : LoadedProg) (cands : List String),
    loadBinary w name = .use → w.bins.lookup (binPath w name) = some b → i ∈ b.inherits → Reach w i q →
    w.progs.lookup q = some lp → (∀ r, resolveInclude w cands = some r → r ∈ lp.files) →
    (∀ c, c ∈ w0.files.map (·.1) → w.mtime c = w0.mtime c) →
      resolveInclude w cands = resolveInclude w0 cands

def pshadowBin : BinFile :=
  { magic := magicId, driverId := driverId, configId := 0, includes := [], name := "d/a.c", inherits := ["d/b.c"] }

/-- when a's binary was saved -/
def pshadowWorld0 : World :=
  { files := [("d/a.c", 100), ("d/b.c", 95), ("include/s.h", 90)], binOf := fun n => if n = "d/a.c" then "B/a" else "B/b" }

/-- later: d/s.h has appeared (time 80, older than everything); b, which has no binary, was compiled again and read d/s.h -/
def pshadowWorld : World :=
  { files := [("B/a", 200), ("d/a.c", 100), ("d/b.c", 95), ("include/s.h", 90), ("d/s.h", 80)],
    bins := [("B/a", pshadowBin)],
    progs := [("d/b.c", { files := ["d/b.c", "d/s.h"], inherits := [] })],
    loaded := ["d/b"], binOf := fun n => if n = "d/a.c" then "B/a" else "B/b", objOf := fun n => if n = "d/b.c" then "d/b" else "?" }

theorem pshadow_facts :
    loadBinary pshadowWorld "d/a.c" = .use ∧ pshadowWorld.bins.lookup (binPath pshadowWorld "d/a.c") = some pshadowBin ∧
      pshadowWorld.progs.lookup "d/b.c" = some { files := ["d/b.c", "d/s.h"], inherits := [] } ∧
      resolveInclude pshadowWorld ["d/s.h", "include/s.h"] = some "d/s.h" ∧
      resolveInclude pshadowWorld0 ["d/s.h", "include/s.h"] = some "include/s.h" ∧
      (∀ c, c ∈ pshadowWorld0.files.map (·.1) → pshadowWorld.mtime c = pshadowWorld0.mtime c) := by
  decide

/-- a's binary (laid out for b as built from include/s.h) is used although b is now built from d/s.h -/
theorem unsaved_parent_include_shadowing_not_seen : ¬ ParentDirectivesResolveAsAtSave_Full := by
  intro h
  obtain ⟨h1, h2, h3, h4, h5, h6⟩ := pshadow_facts
  have := h pshadowWorld0 pshadowWorld "d/a.c" pshadowBin "d/b.c" "d/b.c" _ ["d/s.h", "include/s.h"] h1 h2
    (by simp [pshadowBin]) (Reach.refl _) h3 (by intro r hr; rw [h4] at hr; cases hr; simp)
    h6
  rw [h4, h5] at this
  simp at this

end NV.C17

