/-
C17 — byte-level model of the `.b` file: what `save_binary` writes (`[WRITE_*]` blocks of lib/lpc/program/binaries.c) and
what `load_binary` reads (`[READ_*]` blocks), as functions on byte lists.

  magic (4) | driver_id (u32) | config_id (u64) | u16 n, include list (n bytes) | u16 n, program name |
  u32 n, program block (the relocated `program_t` image, `total_size` bytes) | num_inherited × (u16 n, name) |
  num_strings × (u16 n, string) | num_variables_defined × (u16 n, name) | num_functions_defined × (u16 n, name) |
  u16 n, line number info | u16 n, patch list | u32 FNV-1a of everything before

All integers are little endian (the file is a memory image of this machine).  The four counts are not stored separately:
`load_binary` takes them from the program block it has just read (`p->num_inherited` …), at the offsets of those members
in `program_t` — `Gen.C17.off*`, produced by the C compiler on every run.  The reader checks every length against what is
left of the file (`none` = the C code's "… corrupted" / short `fread` branch), and verifies the checksum first.
Core Lean only (linked into nvdrive, which decodes the real files the harness hands over).
-/
import NV.Gen.C17

namespace NV.C17

abbrev Bytes := List UInt8

/-- little endian, `k` bytes -/
def leBytes : Nat → Nat → Bytes
  | 0, _ => []
  | k + 1, v => UInt8.ofNat (v % 256) :: leBytes k (v / 256)

def leValue : Bytes → Nat
  | [] => 0
  | b :: rest => b.toNat + 256 * leValue rest

/-- `fread (&x, k, 1, f)`: the next `k` bytes as a number, and the rest; `none` = short read -/
def readLE (k : Nat) (bs : Bytes) : Option (Nat × Bytes) :=
  if k ≤ bs.length then some (leValue (bs.take k), bs.drop k) else none

/-- `fread (buf, 1, n, f)` -/
def readN (n : Nat) (bs : Bytes) : Option (Bytes × Bytes) :=
  if n ≤ bs.length then some (bs.take n, bs.drop n) else none

/-- one length-prefixed field: `fwrite (&bin_count, 2, 1, f); fwrite (s, 1, bin_count, f)` (width = bytes of the length) -/
def putField (width : Nat) (s : Bytes) : Bytes := leBytes width s.length ++ s

def getField (width : Nat) (bs : Bytes) : Option (Bytes × Bytes) :=
  match readLE width bs with
  | none => none
  | some (n, rest) => readN n rest

def putFields (width : Nat) : List Bytes → Bytes
  | [] => []
  | s :: rest => putField width s ++ putFields width rest

/-- `for (i = 0; i < count; i++) { read length; read bytes }` -/
def getFields (width : Nat) : Nat → Bytes → Option (List Bytes × Bytes)
  | 0, bs => some ([], bs)
  | n + 1, bs =>
    match getField width bs with
    | none => none
    | some (s, rest) =>
      match getFields width n rest with
      | none => none
      | some (ss, rest') => some (s :: ss, rest')

/-- `file_checksum`: FNV-1a, 32 bit (`h ^= byte; h *= 16777619u`, start 2166136261u) -/
def fnv1a (bs : Bytes) : UInt32 :=
  bs.foldl (fun h b => (h ^^^ b.toUInt32) * 16777619) 2166136261

/-- what the file holds, section by section -/
structure BinImage where
  magic : Bytes
  driverId : Nat
  configId : Nat
  includes : Bytes
  name : Bytes
  program : Bytes
  inheritNames : List Bytes
  strings : List Bytes
  varNames : List Bytes
  funNames : List Bytes
  lineInfo : Bytes
  patches : Bytes
  deriving Repr, BEq, DecidableEq

/-- a 16-bit member of the `program_t` image -/
def u16At (img : Bytes) (off : Nat) : Nat := leValue ((img.drop off).take 2)

/-- everything before the checksum, in the order of the `[WRITE_*]` blocks -/
def encodeBody (b : BinImage) : Bytes :=
  b.magic ++ leBytes 4 b.driverId ++ leBytes 8 b.configId ++
  putField 2 b.includes ++ putField 2 b.name ++ putField 4 b.program ++
  putFields 2 b.inheritNames ++ putFields 2 b.strings ++ putFields 2 b.varNames ++ putFields 2 b.funNames ++
  putField 2 b.lineInfo ++ putField 2 b.patches

/-- the sections `encodeBody` / `encodeFile` write and `decodeBody` reads, under the names of the `[WRITE_*]` blocks, with
    the width in bits of each length field (compared with the blocks of the source on every run:
    `byte_model_follows_source_layout`) -/
def modelLayout : List (String × Nat) :=
  [("BINARY_PREAMBLE", 0), ("INCLUDE_LIST", 16), ("PROGRAM_NAME", 16), ("PROGRAM_STRUCTURE", 32), ("INHERIT_NAMES", 16),
   ("STRING_TABLE", 16), ("VARIABLE_NAMES", 16), ("FUNCTION_NAMES", 16), ("LINE_NUMBERS", 16), ("PATCHES", 16), ("CHECKSUM", 32)]

/-- `save_binary`: the body, then `[WRITE_CHECKSUM]` -/
def encodeFile (b : BinImage) : Bytes :=
  let body := encodeBody b
  body ++ leBytes 4 (fnv1a body).toNat

/-- the `[READ_*]` blocks after the checksum test, on the body -/
def decodeBody (magicLen : Nat) (bs : Bytes) : Option BinImage := do
  let (magic, bs) ← readN magicLen bs
  let (driverId, bs) ← readLE 4 bs
  let (configId, bs) ← readLE 8 bs
  let (includes, bs) ← getField 2 bs
  let (name, bs) ← getField 2 bs
  let (program, bs) ← getField 4 bs
  let (inheritNames, bs) ← getFields 2 (u16At program Gen.C17.offNumInherited) bs
  let (strings, bs) ← getFields 2 (u16At program Gen.C17.offNumStrings) bs
  let (varNames, bs) ← getFields 2 (u16At program Gen.C17.offNumVariablesDefined) bs
  let (funNames, bs) ← getFields 2 (u16At program Gen.C17.offNumFunctionsDefined) bs
  let (lineInfo, bs) ← getField 2 bs
  let (patches, _) ← getField 2 bs
  pure { magic, driverId, configId, includes, name, program, inheritNames, strings, varNames, funNames, lineInfo, patches }

/-- `load_binary` as far as the bytes go: `[READ_CHECKSUM]` first (the last 4 bytes are the FNV-1a of the rest; a file
    shorter than that is rejected), then the sections -/
def decodeFile (magicLen : Nat) (file : Bytes) : Option BinImage :=
  if file.length < 4 then none
  else
    let body := file.take (file.length - 4)
    let sum := leValue (file.drop (file.length - 4))
    if (fnv1a body).toNat != sum then none else decodeBody magicLen body

/-- a block of `size` zero bytes with 16-bit little endian values stored at the given offsets (sample program blocks for
    the examples: built from the offsets the C compiler reports, so they follow every change of `program_t`) -/
def blockWith (size : Nat) (vals : List (Nat × Nat)) : Bytes :=
  (List.range size).map (fun i =>
    match vals.find? (fun v => v.1 == i || v.1 + 1 == i) with
    | some v => if v.1 == i then UInt8.ofNat (v.2 % 256) else UInt8.ofNat (v.2 / 256 % 256)
    | none => 0)

/-- a `program_t`-sized block holding the four counts where `load_binary` looks for them -/
def sampleProgram (inherits strings vars funs : Nat) : Bytes :=
  blockWith Gen.C17.sizeofProgram [(Gen.C17.offNumInherited, inherits), (Gen.C17.offNumStrings, strings),
    (Gen.C17.offNumVariablesDefined, vars), (Gen.C17.offNumFunctionsDefined, funs)]

/-! ### helpers for the driver and the oracle: the harness prints the file as hexadecimal text -/

def hexVal (c : Char) : Nat :=
  if c.isDigit then c.toNat - 48 else if 'a' ≤ c ∧ c ≤ 'f' then c.toNat - 87 else 0

def unhexBytes (s : String) : Bytes :=
  let rec go : List Char → Bytes
    | a :: b :: rest => UInt8.ofNat (hexVal a * 16 + hexVal b) :: go rest
    | _ => []
  go s.toList

def hexDigit (n : Nat) : Char := if n < 10 then Char.ofNat (48 + n) else Char.ofNat (87 + n)

def hexOfBytes (b : Bytes) : String :=
  if b.isEmpty then "-" else String.ofList (b.flatMap (fun x => [hexDigit (x.toNat / 16), hexDigit (x.toNat % 16)]))

/-- the harness's 64-bit FNV-1a (harness/c17/c17.c `fnv`) -/
def fnv64 (bs : Bytes) : UInt64 :=
  bs.foldl (fun h b => (h ^^^ b.toUInt64) * 1099511628211) 1469598103934665603

/-- what a saved binary holds, in the words of the harness's `binsum` line -/
def binSummary (obj : String) (file : Bytes) : String :=
  match decodeFile Gen.C17.magicId.length file with
  | none => s!"binsum {obj} undecodable"
  | some b =>
    let sumH (l : List Bytes) : UInt64 := l.foldl (fun a s => a + fnv64 s) 0
    let inh := if b.inheritNames.isEmpty then "-" else ",".intercalate (b.inheritNames.map hexOfBytes)
    s!"binsum {obj} size={file.length} drv={b.driverId} cfg={b.configId} name={hexOfBytes b.name} " ++
    s!"total={b.program.length} inh={inh} str={b.strings.length}:{(sumH b.strings).toNat} " ++
    s!"var={b.varNames.length}:{(sumH b.varNames).toNat} fun={b.funNames.length}:{(sumH b.funNames).toNat} " ++
    s!"line={b.lineInfo.length}"

end NV.C17
