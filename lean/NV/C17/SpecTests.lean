/-
C17 — the oracle audited against itself: for every clause of `judge` (Spec.lean) one trace it must accept and traces
it must reject.  `#guard` evaluates at build time; a failing guard fails `lake build NV.C17.SpecTests`, which is one of
the modules of the check (stage B).
-/
import NV.C17.Spec

namespace NV.C17.SpecTests
open NV.C17

def has (vs : List String) (k : String) : Bool := vs.any (·.startsWith k)
def repl (l : List String) (a b : String) : List String := l.map (fun x => if x == a then b else x)
def dropLine (l : List String) (a : String) : List String := l.filter (· != a)

/-- a inherits b, includes h.h; b inherits c (c is inherited indirectly); one string switch in a -/
def setup : List String :=
  ["clean /c17/w/t", "file /c17/w/t/h.h 00", "mtime /c17/w/t/h.h 90", "file /c17/w/t/g.h 00", "mtime /c17/w/t/g.h 91",
   "file /c17/w/t/c.c 00", "mtime /c17/w/t/c.c 92", "prog c17/w/t/c.c save=0 inc=- inh=- ssw=0",
   "file /c17/w/t/b.c 00", "mtime /c17/w/t/b.c 95", "prog c17/w/t/b.c save=1 inc=c17/w/t/g.h inh=c17/w/t/c.c ssw=0",
   "file /c17/w/t/a.c 00", "mtime /c17/w/t/a.c 100", "prog c17/w/t/a.c save=1 inc=c17/w/t/h.h inh=c17/w/t/b.c ssw=1",
   "mtime /simul_efun.c 50", "restart c17/w/t/a c17/w/t/b", "calls f:%61", "expect f:%61 f-0", "now 150"]
def rl : String := "reload c17/w/t/a c17/w/t/b"
def mkCase (between : List String) : List String := setup ++ [rl] ++ between ++ [rl]

def dumpA1 : List String :=
  ["D c17/w/t/a hdr flags=0 ts=1", "D c17/w/t/a cf 0 f 0 5 0 0 2 5", "D c17/w/t/a cf 1 g 1 4 1 9 5 4",
   "D c17/w/t/a ct 0 0 0 0 -", "D c17/w/t/a ro 1:0:0,1:0:1", "D c17/w/t/a fl 4,4", "D c17/w/t/a st 0 61",
   "D c17/w/t/a sw 3 15 20 40 18 0:12:0,3:14:1", "D c17/w/t/a co abc"]
/-- the same program after a load: names and strings at other addresses, tables permuted accordingly -/
def dumpA2 : List String :=
  ["D c17/w/t/a hdr flags=0 ts=1", "D c17/w/t/a cf 0 g 0 4 1 9 5 4", "D c17/w/t/a cf 1 f 1 5 0 0 2 5",
   "D c17/w/t/a ct 0 0 0 0 -", "D c17/w/t/a ro 1:0:1,1:0:0", "D c17/w/t/a fl 4,4", "D c17/w/t/a st 0 61",
   "D c17/w/t/a sw 3 15 20 40 18 3:14:0,0:12:1", "D c17/w/t/a co abc"]
def dumpB : List String :=
  ["D c17/w/t/b hdr flags=0 ts=0", "D c17/w/t/b ct 0 0 0 0 -", "D c17/w/t/b ro -", "D c17/w/t/b fl -", "D c17/w/t/b co x"]

def block1 : List String :=
  ["begin 1", "lb c17/w/t/a.c stale", "lb c17/w/t/b.c stale", "sv c17/w/t/b.c 200 inc=c17/w/t/g.h", "lb c17/w/t/a.c stale",
   "sv c17/w/t/a.c 201 inc=c17/w/t/h.h"] ++ dumpA1 ++ dumpB ++ ["R f:%61 \"f-0\"", "end 1"]
def block2 (a : List String) (r : String) : List String :=
  ["begin 2", "lb c17/w/t/a.c needs c17/w/t/b.c", "lb c17/w/t/b.c use", "lb c17/w/t/a.c use"] ++ a ++ dumpB ++ [r, "end 2"]
def goodTrace : List String := ["restarted 50"] ++ block1 ++ block2 dumpA2 "R f:%61 \"f-0\""
def tr (a : List String) (r : String := "R f:%61 \"f-0\"") : List String := ["restarted 50"] ++ block1 ++ block2 a r

-- the accepted trace
#guard judge (mkCase []) goodTrace == []
-- equal modification times are allowed ("newer" is strict)
#guard judge (mkCase ["mtime /c17/w/t/h.h 201", "mtime /c17/w/t/a.c 201", "mtime /c17/w/t/b.c 200"]) goodTrace == []

/-! never stale: one rejected history per kind of dependency -/
#guard has (judge (mkCase ["mtime /c17/w/t/a.c 202"]) goodTrace) "stale-binary-used c17/w/t/a.c dep=source"
#guard has (judge (mkCase ["mtime /c17/w/t/h.h 202"]) goodTrace) "stale-binary-used c17/w/t/a.c dep=include:c17/w/t/h.h"
#guard has (judge (mkCase ["mtime /c17/w/t/b.c 202"]) goodTrace) "stale-binary-used c17/w/t/a.c dep=inherited-source:c17/w/t/b.c"
#guard has (judge (mkCase ["mtime /c17/w/t/b.c 201"]) goodTrace) "stale-binary-used c17/w/t/b.c dep=source"
#guard has (judge (mkCase ["mtime /c17/w/t/c.c 202"]) goodTrace) "stale-binary-used c17/w/t/a.c dep=indirectly-inherited:c17/w/t/c.c"
#guard has (judge (mkCase ["mtime /c17/w/t/g.h 202"]) goodTrace) "stale-binary-used c17/w/t/a.c dep=include-of-inherited:c17/w/t/b.c:c17/w/t/g.h"
#guard has (judge (mkCase ["mtime /simul_efun.c 202"]) goodTrace) "stale-binary-used c17/w/t/a.c dep=simul_efun"
-- the parent was saved again later than the child and the child's binary is still used
#guard has (judge (mkCase []) (repl goodTrace "sv c17/w/t/b.c 200 inc=c17/w/t/g.h" "sv c17/w/t/b.c 205 inc=c17/w/t/g.h"))
  "stale-binary-used c17/w/t/a.c dep=inherited-binary:c17/w/t/b.c"
#guard has (judge (mkCase []) (dropLine goodTrace "sv c17/w/t/b.c 200 inc=c17/w/t/g.h")) "binary-used-but-never-saved c17/w/t/b.c"
#guard has (judge (mkCase ["corrupt c17/w/t/a.c flip 10 1"]) (["restarted 50"] ++ block1 ++ ["corrupted c17/w/t/a.c"] ++ block2 dumpA2 "R f:%61 \"f-0\""))
  "damaged-binary-used c17/w/t/a.c"

#guard has (judge (mkCase ["foreign c17/w/t/a.c driver"]) (["restarted 50"] ++ block1 ++ ["foreign c17/w/t/a.c driver"] ++ block2 dumpA2 "R f:%61 \"f-0\""))
  "foreign-binary-used c17/w/t/a.c"
#guard has (judge (mkCase ["copybin c17/w/t/b.c c17/w/t/a.c"]) (["restarted 50"] ++ block1 ++ ["copybin c17/w/t/b.c c17/w/t/a.c"] ++ block2 dumpA2 "R f:%61 \"f-0\""))
  "foreign-binary-used c17/w/t/a.c"

/-! equal programs -/
-- the function table of the loaded program is not in address order
#guard has (judge (mkCase []) (tr (repl (repl dumpA2 "D c17/w/t/a cf 0 g 0 4 1 9 5 4" "D c17/w/t/a cf 0 g 1 4 1 9 5 4")
  "D c17/w/t/a cf 1 f 1 5 0 0 2 5" "D c17/w/t/a cf 1 f 0 5 0 0 2 5"))) "function-table-not-sorted"
#guard has (judge (mkCase []) (tr (repl dumpA2 "D c17/w/t/a sw 3 15 20 40 18 3:14:0,0:12:1" "D c17/w/t/a sw 3 15 20 40 18 0:12:1,3:14:0")))
  "switch-table-not-sorted"
-- a switch entry changed its jump address / an entry got lost
#guard has (judge (mkCase []) (tr (repl dumpA2 "D c17/w/t/a sw 3 15 20 40 18 3:14:0,0:12:1" "D c17/w/t/a sw 3 15 20 40 18 3:12:0,0:14:1")))
  "switch-tables-differ"
#guard has (judge (mkCase []) (tr (repl dumpA2 "D c17/w/t/a sw 3 15 20 40 18 3:14:0,0:12:1" "D c17/w/t/a sw 3 15 20 40 18 3:14:0")))
  "switch-tables-differ"
-- another string, other code, other header
#guard has (judge (mkCase []) (tr (repl dumpA2 "D c17/w/t/a st 0 61" "D c17/w/t/a st 0 62"))) "program-differs"
#guard has (judge (mkCase []) (tr (repl dumpA2 "D c17/w/t/a co abc" "D c17/w/t/a co abd"))) "program-differs"
#guard has (judge (mkCase []) (tr (repl dumpA2 "D c17/w/t/a fl 4,4" "D c17/w/t/a fl 4,5"))) "program-differs"
-- a function with another address / other argument types (type_start did not follow)
#guard has (judge (mkCase []) (tr (repl dumpA2 "D c17/w/t/a cf 1 f 1 5 0 0 2 5" "D c17/w/t/a cf 1 f 1 5 0 9 2 5"))) "functions-differ"
#guard has (judge (mkCase []) (tr (repl dumpA2 "D c17/w/t/a cf 1 f 1 5 0 0 2 5" "D c17/w/t/a cf 1 f 1 5 0 0 5 4"))) "functions-differ"
-- the runtime entries were not remapped: they designate the other function now
#guard has (judge (mkCase []) (tr (repl dumpA2 "D c17/w/t/a ro 1:0:1,1:0:0" "D c17/w/t/a ro 1:0:0,1:0:1"))) "runtime-entry-lost-its-function"
#guard has (judge (mkCase []) (tr (repl dumpA2 "D c17/w/t/a ro 1:0:1,1:0:0" "D c17/w/t/a ro 2:0:1,1:0:0"))) "runtime-table-differs"
-- a runtime entry with a function number outside the table / two runtime indices sharing a slot
#guard has (judge (mkCase []) (tr (repl dumpA2 "D c17/w/t/a ro 1:0:1,1:0:0" "D c17/w/t/a ro 1:0:1,1:0:7"))) "runtime-table-malformed"
#guard has (judge (mkCase []) (tr (repl dumpA2 "D c17/w/t/a ct 0 0 0 0 -" "D c17/w/t/a ct 0 0 0 1 -"))) "runtime-table-malformed"
-- calls
#guard has (judge (mkCase []) (tr dumpA2 "R f:%61 \"f-dflt\"")) "string-case-unreachable f:%61"
#guard has (judge (dropLine (mkCase []) "expect f:%61 f-0") (tr dumpA2 "R f:%61 \"f-dflt\"")) "call-results-differ"
-- a saved program with a string switch that is not in the patch list
#guard has (judge (mkCase []) (tr (dropLine dumpA2 "D c17/w/t/a sw 3 15 20 40 18 3:14:0,0:12:1"))) "string-switch-not-in-patch-list"
-- crashes, load failures, unfinished reloads
#guard has (judge (mkCase []) (["restarted 50"] ++ block1 ++ ["begin 2", "crash sanitizer"])) "failure-crash"
#guard has (judge (mkCase []) (["restarted 50"] ++ block1 ++ ["begin 2", "loadfail c17/w/t/a", "end 2"])) "failure-loadfail"
#guard has (judge (mkCase []) (["restarted 50"] ++ block1 ++ ["begin 2", "lb c17/w/t/a.c use"])) "reload-did-not-finish"

/-! unit outputs -/
def us : String := "usort k=30,10,20,5 h=-1 fl=4,4,4,4 of=0,1,2,3 fd=0 fo=0 nc=0 nd=0 ix=- ts=100,101,102,103"
#guard judge [us] ["ft 3,1,2,0", "of 3,1,2,0", "ts 103,101,102,100"] == []
#guard has (judge [us] ["ft 0,1,2,3", "of 0,1,2,3", "ts 100,101,102,103"]) "usort-table-not-sorted"
#guard has (judge [us] ["ft 3,1,2,0", "of 2,1,3,0", "ts 103,101,102,100"]) "usort-findex-wrong"
#guard has (judge [us] ["ft 3,1,2,0", "of 3,1,2,0", "ts 101,101,102,101"]) "usort-typestart-does-not-follow"
#guard has (judge ["usort k=30,10,20 h=1 fl=4,4,4 of=0,1,2 fd=0 fo=0 nc=0 nd=0 ix=- ts=-"] ["ft 1,2,0", "of 2,0,1", "ts -"])
  "usort-table-not-sorted"        -- the '#' entry must be last
#guard judge ["ureloc size=4096 f=200,300,400,500,600,700,800,900,0,1000,1100,1200,1300"]
  ["reloc 200,300,400,500,600,700,800,900,null,1000,1100,1200,1300"] == []
#guard has (judge ["ureloc size=4096 f=200,300,400,500,600,700,800,900,0,1000,1100,1200,1300"]
  ["reloc 200,300,400,500,600,700,800,900,null,1000,1100,1200,1308"]) "reloc-offsets-not-preserved"
-- a NULL inherit pointer must still be NULL after the load (not the wild pointer b2 - b1)
#guard has (judge ["ureloc size=4096 f=200,300,400,500,600,700,800,900,0,1000,1100,1200,1300"]
  ["reloc 200,300,400,500,600,700,800,900,wild,1000,1100,1200,1300"]) "reloc-offsets-not-preserved"
#guard has (judge ["utimes 100 101 /c17/w/t/x"] ["times 1"]) "check-times-wrong"
#guard has (judge ["utimes 100 100 /c17/w/t/x"] ["times 0"]) "check-times-wrong"
#guard has (judge ["utimes 100 none /c17/w/t/x"] ["times 1"]) "check-times-wrong"
def up : String := "upatch pad=0 sp=4096,2147487744,4294971392 sw=2:1,1:2,0:3"
#guard judge [up] ["sw 0 0:3,1:2,2:1"] == []
#guard has (judge [up] ["sw 0 1:2,0:3,2:1"]) "patch-table-not-sorted"
#guard has (judge [up] ["sw 0 0:3,1:2"]) "patch-table-changed"
#guard has (judge [up] ["sw 0 0:1,1:2,2:3"]) "patch-table-changed"
#guard has (judge [up] []) "unit-output-missing"

/-! quickSort unit clause: order by value (3 values, `c` row-major: compar (x, y)) -/
def uq : List String := ["uqsort sz=8 m=3 v=2,0,1,0 c=0--+0-++0"]
#guard judge uq ["qs 0:1,0:3,1:2,2:0"] == []
#guard judge uq ["qs 0:3,0:1,1:2,2:0"] == []
#guard has (judge uq ["qs 0:1,1:2,0:3,2:0"]) "qsort-not-sorted"
#guard has (judge uq ["qs 0:1,0:1,1:2,2:0"]) "qsort-not-a-permutation"
#guard has (judge uq ["qs 0:1,0:3,1:0,2:2"]) "qsort-not-a-permutation"
#guard has (judge uq ["qs 0:1,torn,1:2,2:0"]) "qsort-element-torn"
#guard has (judge uq []) "unit-output-missing"
-- a comparison that is not an order: any rearrangement is accepted, a lost element is not
#guard judge ["uqsort sz=4 m=2 v=1,0,1 c=----"] ["qs 1,1,0"] == []
#guard has (judge ["uqsort sz=4 m=2 v=1,0,1 c=----"] ["qs 1,0,0"]) "qsort-not-a-permutation"

/-! compiled against a parent that was out of date in memory: b.c edited (120) while b stays loaded, a compiled again
    and saved (block 2), then everything loaded again (block 3) and a's binary of block 2 used -/
def staleParentCase : List String :=
  ["clean /c17/w/t", "file /c17/w/t/b.c 00", "mtime /c17/w/t/b.c 95", "prog c17/w/t/b.c save=0 inc=- inh=- ssw=0",
   "file /c17/w/t/a.c 00", "mtime /c17/w/t/a.c 100", "prog c17/w/t/a.c save=1 inc=- inh=c17/w/t/b.c ssw=0",
   "mtime /simul_efun.c 50", "restart c17/w/t/a c17/w/t/b", "now 110", "reload c17/w/t/a c17/w/t/b",
   "mtime /c17/w/t/b.c 120", "now 130", "reload c17/w/t/a", "now 150", "reload c17/w/t/a c17/w/t/b"]
def spBlock1 : List String :=
  ["restarted 50", "begin 1", "lb c17/w/t/a.c stale", "lb c17/w/t/b.c stale", "lb c17/w/t/a.c stale", "sv c17/w/t/a.c 110 inc=-", "end 1"]
def spBlock3 (a : String) : List String :=
  ["begin 3", "lb c17/w/t/a.c needs c17/w/t/b.c", "lb c17/w/t/b.c stale", a, "end 3"]
-- the repaired driver: no binary is written in block 2, block 3 compiles
#guard judge staleParentCase (spBlock1 ++ ["begin 2", "lb c17/w/t/a.c stale", "sv c17/w/t/a.c notwritten", "end 2"] ++
  ["begin 3", "lb c17/w/t/a.c stale", "lb c17/w/t/b.c stale", "lb c17/w/t/a.c stale", "sv c17/w/t/a.c 150 inc=-", "end 3"]) == []
-- the driver before the repair: saved in block 2, used in block 3
#guard has (judge staleParentCase (spBlock1 ++ ["begin 2", "lb c17/w/t/a.c stale", "sv c17/w/t/a.c 130 inc=-", "end 2"] ++
  spBlock3 "lb c17/w/t/a.c use")) "stale-binary-used c17/w/t/a.c dep=compiled-against-older-version-of:c17/w/t/b.c"
-- saved in block 2 but the parent stays as it is in memory (block 3 reloads only a): the binary matches what a compile gives
#guard judge (staleParentCase.dropLast ++ ["reload c17/w/t/a"])
  (spBlock1 ++ ["begin 2", "lb c17/w/t/a.c stale", "sv c17/w/t/a.c 130 inc=-", "end 2", "begin 3", "lb c17/w/t/a.c use", "end 3"]) == []
-- a save that did not happen although every parent was current
#guard has (judge staleParentCase (["restarted 50", "begin 1", "lb c17/w/t/a.c stale", "lb c17/w/t/b.c stale", "lb c17/w/t/a.c stale",
  "sv c17/w/t/a.c notwritten", "end 1"])) "save-failed c17/w/t/a.c"

/-! bytes of a saved binary (`bindump`): a well-formed file naming its program is accepted; a changed byte, a cut file,
    a file saved for another program, and missing output are not -/
def tinyImage (name : String) : BinImage :=
  { magic := [78, 69, 79, 76], driverId := 7, configId := 1000, includes := [], name := name.toUTF8.toList,
    program := sampleProgram 0 1 0 1, inheritNames := [], strings := [[120]], varNames := [],
    funNames := [[102]], lineInfo := [4, 0, 2, 0], patches := [] }
def tinyHex (name : String) : String := hexOfBytes (encodeFile (tinyImage name))
def bd : List String := ["bindump c17/w/t/a"]
#guard judge bd [s!"bin c17/w/t/a {tinyHex "c17/w/t/a.c"}", "binsum c17/w/t/a size=1"] == []
#guard judge bd [s!"bin c17/w/t/a {(tinyHex "c17/w/t/a.c").take 100}", s!"bin c17/w/t/a {(tinyHex "c17/w/t/a.c").drop 100}",
  "binsum c17/w/t/a size=1"] == []
#guard judge bd ["bindump c17/w/t/a unavailable"] == []
#guard has (judge bd [s!"bin c17/w/t/a {tinyHex "c17/w/t/b.c"}", "binsum c17/w/t/a size=1"]) "saved-binary-names-another-program"
#guard has (judge bd [s!"bin c17/w/t/a 00{(tinyHex "c17/w/t/a.c").drop 2}", "binsum c17/w/t/a size=1"]) "saved-binary-undecodable"
#guard has (judge bd [s!"bin c17/w/t/a {(tinyHex "c17/w/t/a.c").dropEnd 20}", "binsum c17/w/t/a size=1"]) "saved-binary-undecodable"
#guard has (judge bd []) "bindump-without-output"
#guard has (judge bd ["binsum c17/w/t/a size=1"]) "bindump-unexpected"
-- the model's reader states what the file holds
-- (45 bytes of framing around the program block for this image, whatever the size of program_t)
#guard (binSummary "x" (encodeFile (tinyImage "x.c"))).startsWith
  s!"binsum x size={45 + Gen.C17.sizeofProgram} drv=7 cfg=1000 name=782e63 total={Gen.C17.sizeofProgram} inh=- str=1:"
#guard binSummary "x" ((encodeFile (tinyImage "x.c")).take 100) == "binsum x undecodable"

/-! an include found through the search path is shadowed by a new file next to the source -/
def shadowCase (extra : List String) : List String :=
  ["clean /c17/w/t", "file /include/s.h 00", "mtime /include/s.h 90", "file /c17/w/t/a.c 00", "mtime /c17/w/t/a.c 100",
   "prog c17/w/t/a.c save=1 inc=include/s.h inh=- ssw=0", "incsearch c17/w/t/a.c c17/w/t/s.h include/s.h",
   "mtime /simul_efun.c 50", "restart c17/w/t/a", "now 110", "reload c17/w/t/a"] ++ extra ++ ["now 130", "reload c17/w/t/a"]
def shadowTrace (second : String) : List String :=
  ["restarted 50", "begin 1", "lb c17/w/t/a.c stale", "sv c17/w/t/a.c 110 inc=include/s.h", "end 1", "begin 2", second, "end 2"]
#guard judge (shadowCase []) (shadowTrace "lb c17/w/t/a.c use") == []
#guard has (judge (shadowCase ["file /c17/w/t/s.h 00", "mtime /c17/w/t/s.h 80"]) (shadowTrace "lb c17/w/t/a.c use"))
  "stale-binary-used c17/w/t/a.c dep=include-shadowed-by:c17/w/t/s.h"
#guard judge (shadowCase ["file /c17/w/t/s.h 00", "mtime /c17/w/t/s.h 80"]) (shadowTrace "lb c17/w/t/a.c stale") == []

/-! the reference compile (`reloadf`): a program loaded from its binary is compared with what the CURRENT sources compile
    to, not with an older compile -/
def refCase : List String := setup ++ [rl, "reloadf c17/w/t/a c17/w/t/b", rl]
def refBlock (a : List String) : List String := ["begin 2"] ++ a ++ dumpB ++ ["R f:%61 \"f-0\"", "end 2"]
#guard judge refCase (["restarted 50"] ++ block1 ++ refBlock dumpA1 ++ block2 dumpA2 "R f:%61 \"f-0\"") == []
#guard has (judge refCase (["restarted 50"] ++ block1 ++ refBlock (repl dumpA1 "D c17/w/t/a co abc" "D c17/w/t/a co xyz") ++
  block2 dumpA2 "R f:%61 \"f-0\"")) "program-differs c17/w/t/a"
#guard has (judge refCase (["restarted 50"] ++ block1 ++ ["begin 2"] ++ dumpA1 ++ dumpB ++ ["R f:%61 \"f-9\"", "end 2"] ++
  block2 dumpA2 "R f:%61 \"f-0\"")) "string-case-unreachable"

/-! the include of an (unsaved) PARENT is shadowed: the child's binary was laid out for the parent built from the old file -/
def pshadowCase (extra : List String) : List String :=
  ["clean /c17/w/t", "file /include/s.h 00", "mtime /include/s.h 90", "file /c17/w/t/b.c 00", "mtime /c17/w/t/b.c 95",
   "prog c17/w/t/b.c save=0 inc=!c17/w/t/s.h,include/s.h inh=- ssw=0", "incsearch c17/w/t/b.c c17/w/t/s.h include/s.h",
   "file /c17/w/t/a.c 00", "mtime /c17/w/t/a.c 100", "prog c17/w/t/a.c save=1 inc=- inh=c17/w/t/b.c ssw=0",
   "mtime /simul_efun.c 50", "restart c17/w/t/a c17/w/t/b", "now 110", "reload c17/w/t/a c17/w/t/b"] ++ extra ++
  ["now 130", "reload c17/w/t/a c17/w/t/b"]
def pshadowTrace (last : String) : List String :=
  ["restarted 50", "begin 1", "lb c17/w/t/a.c stale", "lb c17/w/t/b.c stale", "lb c17/w/t/a.c stale", "sv c17/w/t/a.c 110 inc=-", "end 1",
   "begin 2", "lb c17/w/t/a.c needs c17/w/t/b.c", "lb c17/w/t/b.c stale", last, "end 2"]
#guard judge (pshadowCase []) (pshadowTrace "lb c17/w/t/a.c use") == []
#guard has (judge (pshadowCase ["file /c17/w/t/s.h 00", "mtime /c17/w/t/s.h 80"]) (pshadowTrace "lb c17/w/t/a.c use"))
  "stale-binary-used c17/w/t/a.c dep=include-of-inherited-shadowed-by:c17/w/t/s.h:c17/w/t/b.c"
#guard judge (pshadowCase ["file /c17/w/t/s.h 00", "mtime /c17/w/t/s.h 80"]) (pshadowTrace "lb c17/w/t/a.c stale") == []

/-! a binary copied to another program's place is foreign there; copied back to its own place it is the genuine one -/
#guard has (judge (mkCase ["copybin c17/w/t/b.c c17/w/t/a.c"]) (["restarted 50"] ++ block1 ++ ["copybin c17/w/t/b.c c17/w/t/a.c"] ++
  block2 dumpA2 "R f:%61 \"f-0\"")) "foreign-binary-used c17/w/t/a.c"
#guard !has (judge (mkCase ["copybin c17/w/t/b.c c17/w/t/a.c", "copybin c17/w/t/a.c c17/w/t/b.c"]) (["restarted 50"] ++ block1 ++
  ["copybin c17/w/t/b.c c17/w/t/a.c", "copybin c17/w/t/a.c c17/w/t/b.c"] ++ block2 dumpA2 "R f:%61 \"f-0\"")) "foreign-binary-used c17/w/t/b.c"

end NV.C17.SpecTests
