/-
C17 — specification oracle ("judge").  It reads the case (the history of file writes, modification times, restarts and
reloads, the dependency declarations, the unit-test inputs) and the canonical trace of the real driver, and decides
whether property C17 held.  It knows nothing about sorttmp/invtmp, check_times or the order of the tests in
load_binary:

  * never stale: whenever the driver reports that it used a saved binary (`lb <prog> use`), no dependency of the
    program — its source, a file it includes, the source or the binary of a program it inherits, the simul_efun
    file — has a modification time greater than that of the binary ("newer"; equal times are allowed);
  * equal programs: the structural dump of a program loaded from its binary equals the dump of its last fresh compile:
    header, strings, variables, inherits, classes, line information, code (switch tables masked), the same functions
    (name, type, runtime index, address, argument types), every function's runtime entry still pointing at it, the
    same switch tables as sets; function table and string switch tables sorted by address; same result for every call;
  * the unit-test outputs are what sorting / relocating / patching mean (sorted, same elements, indices follow).
-/
import NV.Common.Proto
import NV.C17.BinFile

namespace NV.C17

open NV.Proto

def csv (s : String) : List String := if s == "-" || s == "" then [] else s.splitOn ","
def csvNat (s : String) : List Nat := (csv s).filterMap String.toNat?
def csvInt (s : String) : List Int := (csv s).filterMap String.toInt?

/-- value of key=... in a token list -/
def kv (ts : List String) (k : String) : String :=
  match ts.find? (·.startsWith (k ++ "=")) with
  | some t => (t.drop (k.length + 1)).toString
  | none => "-"

def stripSlash (s : String) : String := (s.dropWhile (· == '/')).toString

/-- insertion sort (the oracle's own notion of "sorted") -/
def insertBy {α} (lt : α → α → Bool) (x : α) : List α → List α
  | [] => [x]
  | y :: ys => if lt y x then y :: insertBy lt x ys else x :: y :: ys
def isort {α} (lt : α → α → Bool) (l : List α) : List α := l.foldl (fun acc x => insertBy lt x acc) []

def strictlyIncreasing : List Int → Bool
  | a :: b :: rest => a < b && strictlyIncreasing (b :: rest)
  | _ => true

/-! ### dumps -/

structure CfLine where
  pos : Nat
  name : String
  rank : Int
  rest : String        -- type rtidx addr ts args
  rtidx : Nat
  deriving Repr, BEq, Inhabited

def parseCf (ts : List String) : Option CfLine :=
  match ts with
  | [pos, name, rank, ty, rt, addr, tsv, args] => do
    some { pos := ← pos.toNat?, name := name, rank := ← rank.toInt?, rtidx := ← rt.toNat?,
           rest := s!"{ty} {rt} {addr} {tsv} {args}" }
  | _ => none

structure Dump where
  lines : List (List String) := []    -- every D line of the program, tokens after "D <tag>"
  deriving Inhabited

def Dump.kind (d : Dump) (k : String) : List (List String) := (d.lines.filter (fun l => l.head? == some k)).map (·.drop 1)
def Dump.cfs (d : Dump) : List CfLine := (d.kind "cf").filterMap parseCf
def Dump.other (d : Dump) : List (List String) := d.lines.filter (fun l => !(["cf", "ro", "sw"].contains (l.headD "")))

/-- runtime slot of runtime index `ri` according to the compressed-table header, if it has one -/
def slotOf (ct : List String) (ri : Nat) : Option Nat :=
  match ct with
  | [fd, fo, nc, nd, ix] =>
    match fd.toNat?, fo.toNat?, nc.toNat?, nd.toNat? with
    | some fd, some fo, some nc, some nd =>
      let idx := csvNat ix
      if ri ≥ fd then some (ri - nd)
      else if fo ≤ ri ∧ ri < fo + (fd - nc) then
        match idx[ri - fo]? with
        | some 255 => none
        | some j => some j
        | none => none
      else none
    | _, _, _, _ => none
  | _ => none

/-- names of the functions whose runtime entry points back at their place in the table -/
def backPointers (d : Dump) : List (String × Bool) :=
  let ct := ((d.kind "ct").head?).getD []
  let ro := (((d.kind "ro").head?).getD []).headD "-"
  let slots := (csv ro).map (fun s => ((s.splitOn ":").getD 2 "").toNat?.getD 0)
  let flags := csvNat ((((d.kind "fl").head?).getD []).headD "-")
  d.cfs.filterMap (fun f =>
    match slotOf ct f.rtidx with
    | some s => if (flags.getD f.rtidx 0) % 2 == 1 then none else some (f.name, slots.getD s 99999 == f.pos)
    | none => none)

def tableSorted (d : Dump) : Bool :=
  let cfs := d.cfs
  let plain := cfs.filter (fun f => !f.name.startsWith "#")
  let nHash := cfs.length - plain.length
  strictlyIncreasing (plain.map (·.rank)) && (cfs.drop plain.length).all (·.name.startsWith "#") &&
    (cfs.take plain.length).all (fun f => !f.name.startsWith "#") && nHash ≤ 1

structure SwLine where
  head : String                  -- at type start end default
  ents : List (Int × Nat × Int)  -- idx addr rank
  deriving Repr, BEq

def parseSw (ts : List String) : Option SwLine :=
  match ts with
  | [at', ty, st, en, df, ents] =>
    let es := (csv ents).filterMap (fun e =>
      match e.splitOn ":" with
      | [i, a, r] => do some (← i.toInt?, ← a.toNat?, ← r.toInt?)
      | _ => none)
    if es.length == (csv ents).length then some { head := s!"{at'} {ty} {st} {en} {df}", ents := es } else none
  | _ => none

def swSorted (s : SwLine) : Bool := strictlyIncreasing (s.ents.map (·.2.2))

def entLt (a b : Int × Nat) : Bool := a.1 < b.1 || (a.1 == b.1 && a.2 < b.2)

/-- the compressed runtime table is consistent: the slots of functions defined here (what `find_func_entry` returns for
    a runtime index without NAME_INHERITED) are pairwise distinct, exist, and hold a function number of this program -/
def runtimeTableOk (d : Dump) : Bool :=
  let ct := ((d.kind "ct").head?).getD []
  let nSlots := (csv ((((d.kind "ro").head?).getD []).headD "-")).length
  let slotsF := (csv ((((d.kind "ro").head?).getD []).headD "-")).map (fun s => ((s.splitOn ":").getD 2 "").toNat?.getD 0)
  let flags := csvNat ((((d.kind "fl").head?).getD []).headD "-")
  let nfd := d.cfs.length
  let defSlots := (List.range flags.length).filterMap (fun ri =>
    if (flags.getD ri 0) % 2 == 1 then none else slotOf ct ri)
  defSlots.all (fun s => s < nSlots && slotsF.getD s 99999 < nfd) && defSlots.eraseDups.length == defSlots.length

/-- checks on any dump (fresh or reloaded): lookup tables in address order -/
def wellFormed (tag : String) (d : Dump) : List String :=
  (if tableSorted d then [] else [s!"function-table-not-sorted {tag}"]) ++
  (if runtimeTableOk d then [] else [s!"runtime-table-malformed {tag}"]) ++
  ((d.kind "sw").filterMap (fun l =>
    match parseSw l with
    | some s => if swSorted s then none else some s!"switch-table-not-sorted {tag} at={s.head}"
    | none => some s!"switch-table-unreadable {tag} {l}"))

/-- the reloaded program `b` against the freshly compiled `f` -/
def sameProgram (tag : String) (f b : Dump) : List String :=
  let o1 := f.other
  let o2 := b.other
  let d1 :=
    if o1 == o2 then []
    else
      let diff := (o1.zip o2).find? (fun p => p.1 != p.2)
      match diff with
      | some (x, y) => [s!"program-differs {tag} fresh=[{" ".intercalate x}] binary=[{" ".intercalate y}]"]
      | none => [s!"program-differs {tag} fresh-lines={o1.length} binary-lines={o2.length}"]
  let key (c : CfLine) := s!"{c.name} {c.rest}"
  let fs1 := isort (· < ·) (f.cfs.map key)
  let fs2 := isort (· < ·) (b.cfs.map key)
  let d2 :=
    if fs1 == fs2 then []
    else
      match (fs1.zip fs2).find? (fun p => p.1 != p.2) with
      | some (x, y) => [s!"functions-differ {tag} fresh=[{x}] binary=[{y}]"]
      | none => [s!"functions-differ {tag} count {fs1.length} {fs2.length}"]
  let bp1 := backPointers f
  let bp2 := backPointers b
  let d3 := bp1.filterMap (fun (n, ok) =>
    if ok then
      match bp2.find? (·.1 == n) with
      | some (_, true) => none
      | _ => some s!"runtime-entry-lost-its-function {tag} {n}"
    else none)
  let na (l : List String) := (csv (l.headD "-")).map (fun s => " ".intercalate ((s.splitOn ":").take 2))
  let ro1 := na (((f.kind "ro").head?).getD [])
  let ro2 := na (((b.kind "ro").head?).getD [])
  let d4 := if ro1 == ro2 then [] else [s!"runtime-table-differs {tag}"]
  let sw1 := (f.kind "sw").filterMap parseSw
  let sw2 := (b.kind "sw").filterMap parseSw
  let d5 :=
    if sw1.length != sw2.length || sw1.length != (f.kind "sw").length then [s!"switch-tables-differ {tag} count"]
    else (sw1.zip sw2).filterMap (fun (x, y) =>
      let e1 := isort entLt (x.ents.map (fun e => (e.1, e.2.1)))
      let e2 := isort entLt (y.ents.map (fun e => (e.1, e.2.1)))
      if x.head == y.head && e1 == e2 then none else some s!"switch-tables-differ {tag} at={x.head}")
  d1 ++ d2 ++ d3 ++ d4 ++ d5

/-! ### histories -/

structure Decl where
  name : String
  includes : List String
  inherits : List String
  save : Bool := false              -- #pragma save_binary in force at the end of the file
  ssw : Option Nat := none          -- number of string switches in the source (declared by the generator)
  refuse : Bool := false            -- the master refuses to have this program saved
  deriving Repr, Inhabited

structure JState where
  files : List (String × Nat) := []            -- path ↦ mtime, from the case lines
  binT : List (String × Nat) := []             -- program name ↦ mtime of its saved binary (from `sv` lines)
  decls : List Decl := []
  simulTouchedSinceRestart : Bool := false
  fresh : List (String × Dump) := []
  freshR : List (String × List String) := []
  -- current reload block
  inBlock : Bool := false
  used : List String := []                     -- programs loaded from their binary in this block ("dir/file.c")
  cur : List (String × Dump) := []
  curR : List String := []
  top : String := ""
  bad : List String := []
  pendingUnit : List (List String) := []       -- unit commands whose output has not been seen yet
  foreign : List String := []                  -- binaries of another driver build / configuration / program name
  binOwner : List (String × String) := []      -- binary ↦ the program whose saved binary its content is (copies)
  damaged : List String := []                  -- programs whose saved binary was damaged since it was written
  expects : List (String × String) := []       -- call ↦ the value the source text prescribes (string switch cases)
  -- which version of every program is in memory (independent of the implementation's data structures: load numbers)
  ctime : Nat := 0                             -- the driver's clock, from the `now` lines
  loadCount : Nat := 0
  mem : List (String × (Nat × Nat)) := []      -- program ↦ (number of the load that put it into memory, clock then)
  links : List (String × List (String × Nat)) := []   -- program ↦ its parents and the load numbers it was linked with
  poisoned : List (String × List (String × Nat)) := [] -- saved binary ↦ parents that were out of date when it was compiled
  incsearch : List (String × List String) := []  -- program ↦ the candidates of one include directive, in search order
  resolved : List (String × List (Option String)) := [] -- saved binary ↦ what each of its directives resolved to then
  resolvedParents : List (String × List (String × List (Option String))) := []
    -- saved binary ↦ for every program it inherits (at any depth): what that program's directives resolved to then
  deriving Inhabited

def JState.flag (s : JState) (v : String) : JState := { s with bad := v :: s.bad }
def JState.mt (s : JState) (p : String) : Option Nat := s.files.lookup p
def setKey {β} (l : List (String × β)) (k : String) (v : β) : List (String × β) := (k, v) :: l.filter (·.1 != k)

def simulPath : String := "simul_efun.c"

def declOf (s : JState) (prog : String) : Decl :=
  (s.decls.find? (·.name == prog)).getD { name := prog, includes := [], inherits := [] }

/-- programs inherited through other programs (not directly) -/
def indirectInherits (s : JState) (prog : String) : List String :=
  let direct := (declOf s prog).inherits
  let rec go (frontier : List String) (seen : List String) (fuel : Nat) : List String :=
    match fuel with
    | 0 => seen
    | fuel + 1 =>
      let next := (frontier.flatMap (fun q => (declOf s q).inherits)).filter (fun q => !(seen.contains q))
      if next.isEmpty then seen else go next.eraseDups (seen ++ next.eraseDups) fuel
  (go direct direct 20).filter (fun q => !(direct.contains q))

/-- the version of `p` with load number `g` is not what loading `p` now would give: it was replaced since, one of its
    files was modified after it was loaded, or the same holds for a parent it is linked with -/
def outdatedO (s : JState) : Nat → String → Nat → Bool
  | 0, _, _ => true
  | fuel + 1, p, g =>
    match s.mem.lookup p with
    | none => false          -- never seen entering memory: no claim
    | some (g', t) =>
      g' != g || (p :: (declOf s p).includes).any (fun f => match s.mt f with | some m => m > t | none => false) ||
        ((s.links.lookup p).getD []).any (fun q => outdatedO s fuel q.1 q.2)

/-- a program enters memory (compiled or loaded from its binary): a new load number, linked with the parents as loaded -/
def registerLoad (s : JState) (prog : String) : JState :=
  let g := s.loadCount + 1
  let ls := (declOf s prog).inherits.map (fun p => (p, ((s.mem.lookup p).map (·.1)).getD 0))
  { s with loadCount := g, mem := setKey s.mem prog (g, s.ctime), links := setKey s.links prog ls }

/-- what every declared include directive of `prog` resolves to now: the first candidate that exists -/
def resolveNow (s : JState) (prog : String) : List (Option String) :=
  (s.incsearch.filter (·.1 == prog)).map (fun d => d.2.find? (fun c => (s.mt c).isSome))

/-- the property's rule, computed from the history alone -/
def staleReasons (s : JState) (prog : String) : List String :=
  match s.binT.lookup prog with
  | none => [s!"binary-used-but-never-saved {prog}"]
  | some b =>
    let newer (p : String) : Bool := match s.mt p with | some t => t > b | none => false
    let newerBin (p : String) : Bool := match s.binT.lookup p with | some t => t > b | none => false
    let d := declOf s prog
    (if newer prog then [s!"stale-binary-used {prog} dep=source"] else []) ++
    (d.includes.filter newer).map (fun i => s!"stale-binary-used {prog} dep=include:{i}") ++
    (d.inherits.filter newer).map (fun i => s!"stale-binary-used {prog} dep=inherited-source:{i}") ++
    (d.inherits.filter newerBin).map (fun i => s!"stale-binary-used {prog} dep=inherited-binary:{i}") ++
    -- a program inherited through another one, or a file such a program or a direct parent includes
    ((indirectInherits s prog).filter (fun q => newer q || newerBin q)).map
      (fun q => s!"stale-binary-used {prog} dep=indirectly-inherited:{q}") ++
    ((d.inherits ++ indirectInherits s prog).flatMap (fun q => ((declOf s q).includes.filter newer).map
      (fun i => s!"stale-binary-used {prog} dep=include-of-inherited:{q}:{i}"))) ++
    (if newer simulPath then
      (if s.simulTouchedSinceRestart then [s!"stale-binary-used {prog} dep=simul_efun (touched while the driver runs)"]
       else [s!"stale-binary-used {prog} dep=simul_efun"]) else [])

def caseLine (s : JState) (line : String) : JState :=
  match toks line with
  | ["file", p, _] => { s with files := setKey s.files (stripSlash p) 2000000000,
                               simulTouchedSinceRestart := s.simulTouchedSinceRestart || stripSlash p == simulPath }
  | ["mtime", p, t] =>
    match t.toNat? with
    | some t => { s with files := setKey s.files (stripSlash p) t,
                         simulTouchedSinceRestart := s.simulTouchedSinceRestart || stripSlash p == simulPath }
    | none => s
  | "prog" :: name :: rest =>
    { s with decls := { name := name, includes := csv (kv rest "inc"), inherits := csv (kv rest "inh"),
                        save := kv rest "save" == "1", ssw := (kv rest "ssw").toNat?,
                        refuse := kv rest "refuse" == "1" } :: s.decls.filter (·.name != name) }
  | ["expect", call, res] => { s with expects := (call, res) :: s.expects.filter (·.1 != call) }
  | ["now", t] => { s with ctime := max s.ctime (t.toNat?.getD 0) }
  | "incsearch" :: prog :: cands => { s with incsearch := s.incsearch ++ [(prog, cands)] }
  | "usort" :: rest => { s with pendingUnit := s.pendingUnit ++ [("usort" :: rest)] }
  | "ureloc" :: rest => { s with pendingUnit := s.pendingUnit ++ [("ureloc" :: rest)] }
  | "upatch" :: rest => { s with pendingUnit := s.pendingUnit ++ [("upatch" :: rest)] }
  | "utimes" :: rest => { s with pendingUnit := s.pendingUnit ++ [("utimes" :: rest)] }
  | "uqsort" :: rest => { s with pendingUnit := s.pendingUnit ++ [("uqsort" :: rest)] }
  | _ => s

/-! ### unit outputs -/

/-- expected result of usort, from the meaning of sorting: positions ordered by key with the '#' entry last -/
def usortExpect (cmd : List String) : List Nat × List Nat :=
  let k := csvNat (kv cmd "k")
  let h := (kv cmd "h").toInt?.getD (-1)
  let idx := List.range k.length
  let lt (a b : Nat) : Bool :=
    let ha := (a : Int) == h
    let hb := (b : Int) == h
    if ha then false else if hb then true else k.getD a 0 < k.getD b 0
  let order := isort lt idx
  (order, k)

def judgeUnit (cmd : List String) (out : List String) : List String :=
  match cmd with
  | "usort" :: _ =>
    match out with
    | ["ft", ft] =>
      let (order, _) := usortExpect cmd
      if csvNat ft == order then [] else [s!"usort-table-not-sorted got={ft} want={order}"]
    | ["of", ofs] =>
      -- every rewritten slot must designate the same entry: new[of'] = old[of]; unvisited slots unchanged.
      -- the oracle does not know which slots are visited; it accepts either, but a changed slot must be right
      let (order, _) := usortExpect cmd
      let old := csvNat (kv cmd "of")
      let new := csvNat ofs
      let okSlot (p : Nat × Nat) : Bool := p.1 == p.2 || order.getD p.2 99999 == p.1
      if old.length == new.length && (old.zip new).all okSlot then [] else [s!"usort-findex-wrong got={ofs}"]
    | ["ts", ts] =>
      let (order, _) := usortExpect cmd
      let old := csvNat (kv cmd "ts")
      if old.isEmpty then (if ts == "-" then [] else ["usort-typestart-appeared"])
      else if csvNat ts == order.map (fun i => old.getD i 0) then [] else [s!"usort-typestart-does-not-follow got={ts}"]
    | _ => [s!"usort-unexpected-output {out}"]
  | "ureloc" :: _ =>
    match out with
    | ["reloc", r] =>
      let f := csvNat (kv cmd "f")
      let got := csv r
      let tsNull := f.getD 12 0 == 0
      let ok := (List.range 13).all (fun i =>
        let want :=
          -- a NULL `inherit` (no inherits) stays NULL; without save_types the two type members are left alone
          if i == 8 && f.getD i 0 == 0 then "null"
          else if i ≥ 11 && tsNull then (if f.getD i 0 == 0 then "null" else "wild")
          else if f.getD i 0 == 0 then "wild" else toString (f.getD i 0)
        got.getD i "" == want)
      if ok then [] else [s!"reloc-offsets-not-preserved got={r}"]
    | _ => [s!"ureloc-unexpected-output {out}"]
  | "uqsort" :: _ =>
    -- what sorting means, not how qsort.c does it: nothing torn, the same elements, and — when the comparison table is
    -- a strict order on the values that occur — no later element below an earlier one
    match out with
    | ["qs", r] =>
      let v := csvNat (kv cmd "v")
      let m := (kv cmd "m").toNat?.getD 1
      let sz := (kv cmd "sz").toNat?.getD 4
      let c := (kv cmd "c").toList
      let lt (x y : Nat) : Bool := c.getD (x * m + y) '0' == '-'
      let got := csv r
      if got.contains "torn" then ["qsort-element-torn"] else
      let vals := got.map (fun e => ((e.splitOn ":").headD "").toNat?.getD 99999)
      let tags := got.map (fun e => ((e.splitOn ":").getD 1 "").toNat?.getD 99999)
      let permOk :=
        if sz > 4 then isort (fun a b => decide (a < b)) tags == List.range v.length &&
                       (vals.zip tags).all (fun p => v.getD p.2 99998 == p.1)
        else isort (fun a b => decide (a < b)) vals == isort (fun a b => decide (a < b)) v
      let dom := v.eraseDups
      let strict := dom.all (fun x => dom.all (fun y => !(lt x y && lt y x) &&
                      dom.all (fun z => !(lt x y && lt y z) || lt x z)))
      let rec sortedFrom : List Nat → Bool
        | [] => true
        | x :: rest => rest.all (fun y => !(lt y x)) && sortedFrom rest
      (if permOk then [] else [s!"qsort-not-a-permutation got={r}"]) ++
      (if !strict || sortedFrom vals then [] else [s!"qsort-not-sorted got={r}"])
    | _ => [s!"uqsort-unexpected-output {out}"]
  | "utimes" :: b :: f :: _ =>
    match out with
    | ["times", r] =>
      let want : Int := match f.toNat?, b.toNat? with
        | some f, some b => if f > b then 0 else 1
        | _, _ => -1
      if r.toInt? == some want then [] else [s!"check-times-wrong got={r} want={want}"]
    | _ => [s!"utimes-unexpected-output {out}"]
  | _ => []

/-- upatch prints one `sw k ...` line per table -/
def judgePatchLine (cmd : List String) (k : Nat) (ents : String) : List String :=
  let sp := csvInt (kv cmd "sp")
  let tables := (kv cmd "sw").splitOn ";"
  let pad := (kv cmd "pad").toNat?.getD 0
  let want := (csv (tables.getD k "-")).filterMap (fun e => match e.splitOn ":" with
    | [i, a] => do some (← i.toInt?, ← a.toNat?)
    | _ => none)
  let got := (csv ents).filterMap (fun e => match e.splitOn ":" with
    | [i, a] => do some (← i.toInt?, ← a.toNat?)
    | _ => none)
  let ptr (i : Int) : Int := if i < 0 then 0 else sp.getD i.toNat 0
  let sortedOk := strictlyIncreasing (got.map (fun e => ptr e.1))
  let same := isort entLt got == isort entLt want
  (if same then [] else [s!"patch-table-changed table={k} pad={pad}"]) ++
  (if sortedOk then [] else [s!"patch-table-not-sorted table={k} pad={pad}"])

/-! ### the trace -/

def unitOutputsOf (cmd : List String) : Nat :=
  match cmd with
  | "usort" :: _ => 3
  | "upatch" :: rest => ((kv rest "sw").splitOn ";").length
  | _ => 1

structure UnitProgress where
  seen : Nat := 0

def endBlock (s : JState) : JState :=
  -- every dumped program
  let s := s.cur.foldl (fun s (tag, d) =>
    let s := (wellFormed tag d).foldl JState.flag s
    let dc := declOf s (tag ++ ".c")
    let s :=
      match dc.save, dc.ssw with
      | true, some n =>
        -- a saved program: every string switch of the source must be in the patch list
        if (d.kind "sw").length == n then s
        else s.flag s!"string-switch-not-in-patch-list {tag} patched={(d.kind "sw").length} in-source={n}"
      | _, _ => s
    if s.used.contains (tag ++ ".c") then
      match s.fresh.lookup tag with
      | some f => (sameProgram tag f d).foldl JState.flag s
      | none => s.flag s!"binary-used-without-fresh-compile {tag}"
    else { s with fresh := setKey s.fresh tag d }) s
  let allFromBinary := !s.cur.isEmpty && s.cur.all (fun (tag, _) => s.used.contains (tag ++ ".c"))
  let s :=
    if allFromBinary then
      match s.freshR.lookup s.top with
      | some r =>
        if r == s.curR.reverse then s
        else
          match (r.zip s.curR.reverse).find? (fun p => p.1 != p.2) with
          | some (x, y) => s.flag s!"call-results-differ {s.top} fresh=[{x}] binary=[{y}]"
          | none => s.flag s!"call-results-differ {s.top} count"
      | none => s
    else { s with freshR := setKey s.freshR s.top s.curR.reverse }
  { s with inBlock := false, used := [], cur := [], curR := [] }

def traceLine (s : JState) (unitSeen : Nat) (line : String) : JState × Nat :=
  match toks line with
  | ["begin", _] => ({ s with inBlock := true, used := [], cur := [], curR := [] }, unitSeen)
  | ["end", _] => (endBlock s, unitSeen)
  | ["corrupted", name] => ({ s with damaged := name :: s.damaged }, unitSeen)
  | ["foreign", name, _] => ({ s with foreign := name :: s.foreign }, unitSeen)
  | ["copybin", src, dst] =>
    -- the file (content, modification time, damage) of src now also stands at dst's place; it is a foreign binary there
    -- unless its content is the binary that was saved for dst (a copy that came back)
    let owner := (s.binOwner.lookup src).getD src
    let tampered := s.foreign.contains src && owner == src
    let fg := s.foreign.filter (fun x => x != dst)
    let fg := if owner != dst || tampered then dst :: fg else fg
    let dm := s.damaged.filter (fun x => x != dst)
    let dm := if s.damaged.contains src then dst :: dm else dm
    let bt := match s.binT.lookup src with | some t => setKey s.binT dst t | none => s.binT
    ({ s with foreign := fg, damaged := dm, binT := bt, binOwner := setKey s.binOwner dst owner }, unitSeen)
  | ["lb", name, "use"] =>
    let s := (staleReasons s name).foldl JState.flag s
    let s := if s.damaged.contains name then s.flag s!"damaged-binary-used {name}" else s
    let s := if s.foreign.contains name then s.flag s!"foreign-binary-used {name}" else s
    -- the binary was compiled against a version of a parent that was already out of date then, and that parent has
    -- been loaded again since: the layout in the binary is not the one the current sources give
    let s := (((s.poisoned.lookup name).getD []).filter (fun q => ((s.mem.lookup q.1).map (·.1)) != some q.2)).foldl
      (fun s q => s.flag s!"stale-binary-used {name} dep=compiled-against-older-version-of:{q.1}") s
    -- the same for the directives of the programs it inherits: the binary was laid out for parents built from those files
    let s :=
      ((s.resolvedParents.lookup name).getD []).foldl (fun (s : JState) (q : String × List (Option String)) =>
        ((q.2.zip (resolveNow s q.1)).filter (fun (p : Option String × Option String) => p.1 != p.2)).foldl
          (fun (s : JState) (p : Option String × Option String) =>
            s.flag s!"stale-binary-used {name} dep=include-of-inherited-shadowed-by:{p.2.getD "?"}:{q.1}") s) s
    -- an include directive that would now find another file (a new file earlier in the search path)
    let s :=
      match s.resolved.lookup name with
      | some was =>
        ((was.zip (resolveNow s name)).filter (fun (p : Option String × Option String) => p.1 != p.2)).foldl
          (fun (s : JState) (p : Option String × Option String) =>
            s.flag s!"stale-binary-used {name} dep=include-shadowed-by:{p.2.getD "?"}") s
      | none => s
    (registerLoad { s with used := name :: s.used } name, unitSeen)
  | ["lb", name, "stale"] => (registerLoad s name, unitSeen)
  | ["lb", _, "needs", _] => (s, unitSeen)
  | "sv" :: name :: t :: _ =>
    let old := ((s.links.lookup name).getD []).filter (fun q => outdatedO s 64 q.1 q.2)
    match t.toNat? with
    | some t =>
      let dm := s.damaged.filter (fun x => x != name)
      let fg := s.foreign.filter (fun x => x != name)
      ({ s with binT := setKey s.binT name t, damaged := dm, foreign := fg, binOwner := setKey s.binOwner name name,
                poisoned := setKey s.poisoned name old,
                resolved := setKey s.resolved name (resolveNow s name),
                resolvedParents := setKey s.resolvedParents name
                  (((declOf s name).inherits ++ indirectInherits s name).eraseDups.map (fun q => (q, resolveNow s q))) },
       unitSeen)
    | none =>
      -- not written: right only when the program was compiled against an out-of-date parent or the master refuses
      if old.isEmpty && !(declOf s name).refuse then (s.flag s!"save-failed {name}", unitSeen) else (s, unitSeen)
  | "restarted" :: _ => ({ s with simulTouchedSinceRestart := false }, unitSeen)
  | "D" :: tag :: rest =>
    let d := (s.cur.lookup tag).getD {}
    let s := if s.top == "" || s.cur.isEmpty then { s with top := tag } else s
    ({ s with cur := (s.cur.filter (·.1 != tag)) ++ [(tag, { lines := d.lines ++ [rest] })] }, unitSeen)
  | "R" :: rest =>
    let s := { s with curR := " ".intercalate rest :: s.curR }
    match rest with
    | [call, res] =>
      match s.expects.lookup call with
      | some want =>
        -- every string case must be reachable, after a compile and after a load from the binary alike
        if res == "\"" ++ want ++ "\"" then (s, unitSeen)
        else (s.flag s!"string-case-unreachable {call} got={res} want={want}", unitSeen)
      | none => (s, unitSeen)
    | _ => (s, unitSeen)
  | "sw" :: k :: ents :: [] =>
    match s.pendingUnit with
    | cmd :: more =>
      let s := (judgePatchLine cmd (k.toNat?.getD 0) ents).foldl JState.flag s
      if unitSeen + 1 ≥ unitOutputsOf cmd then ({ s with pendingUnit := more }, 0) else (s, unitSeen + 1)
    | [] => (s.flag s!"unexpected {line}", unitSeen)
  | t :: rest =>
    if ["ft", "of", "ts", "reloc", "times", "qs"].contains t then
      match s.pendingUnit with
      | cmd :: more =>
        let s := (judgeUnit cmd (t :: rest)).foldl JState.flag s
        if unitSeen + 1 ≥ unitOutputsOf cmd then ({ s with pendingUnit := more }, 0) else (s, unitSeen + 1)
      | [] => (s.flag s!"unexpected {line}", unitSeen)
    else (s.flag s!"failure-{t} {line}", unitSeen)
  | [] => (s, unitSeen)

/-- the case lines are interleaved with the trace by position: a case line that produces output (`reload`, `restart`,
    unit commands) is applied when its output arrives; lines that only change the history are applied in order.
    `sync` lists, for every case line, how many trace lines belong to it. -/
def judge (caseLines : List String) (trace : List String) : List String :=
  -- walk the case; consume trace lines for the commands that print
  let rec go (cl : List String) (tr : List String) (s : JState) (fuel : Nat) : JState :=
    match fuel with
    | 0 => s
    | fuel + 1 =>
      match cl with
      | [] => tr.foldl (fun s l => (traceLine s 0 l).1) s
      | c :: rest =>
        let s := caseLine s c
        match toks c with
        | "reloadf" :: top :: _ =>
          -- the reference compile of the current sources (no binaries involved): its dumps and call results are what
          -- every later load from a binary is compared with
          let blk := tr.takeWhile (fun l => !(l.startsWith "end "))
          let after := tr.drop blk.length
          let s := { s with top := top }
          let s := (blk ++ after.take 1).foldl (fun s l => (traceLine s 0 l).1) s
          let s := if after.isEmpty then s.flag s!"reload-did-not-finish {top}" else s
          go rest (after.drop 1) s fuel
        | "reloadp" :: top :: _ =>
          let blk := tr.takeWhile (fun l => !(l.startsWith "end "))
          let after := tr.drop blk.length
          let s := { s with top := top }
          let s := (blk ++ after.take 1).foldl (fun s l => (traceLine s 0 l).1) s
          let s := if after.isEmpty then s.flag s!"reload-did-not-finish {top}" else s
          go rest (after.drop 1) s fuel
        | "reload" :: top :: _ =>
          -- consume up to and including the matching `end`
          let blk := tr.takeWhile (fun l => !(l.startsWith "end "))
          let after := tr.drop blk.length
          let s := { s with top := top }
          let s := (blk ++ after.take 1).foldl (fun s l => (traceLine s 0 l).1) s
          let s := if after.isEmpty then s.flag s!"reload-did-not-finish {top}" else s
          go rest (after.drop 1) s fuel
        | ["badload", name] =>
          -- the error report of the master and the harness line
          match tr with
          | l :: e :: b :: tr' =>
            if l == s!"lb {name}.c stale" && e.startsWith "err *Error in loading object" && b == s!"badload {name} failed"
            then go rest tr' s fuel
            else go rest tr' (s.flag s!"badload-unexpected {b}") fuel
          | _ => go rest [] (s.flag "badload-without-output") fuel
        | ["bindump", obj] =>
          -- the bytes of a saved binary: they must be a well-formed file (checksum, every section inside the file)
          -- that names the program it was saved for
          let chunks := tr.takeWhile (fun l => l.startsWith s!"bin {obj} ")
          let after := tr.drop chunks.length
          let s :=
            match after.head? with
            | some l =>
              if l.startsWith s!"binsum {obj} " && !chunks.isEmpty then
                match decodeFile 4 (unhexBytes (String.join (chunks.map (fun l => ((toks l).getD 2 ""))))) with
                | none => s.flag s!"saved-binary-undecodable {obj}"
                | some b =>
                  if b.name == (obj ++ ".c").toUTF8.toList then s
                  else s.flag s!"saved-binary-names-another-program {obj}"
              else if l == s!"bindump {obj} unavailable" && chunks.isEmpty then s
              else s.flag s!"bindump-unexpected {l}"
            | none => s.flag s!"bindump-without-output {obj}"
          go rest (after.drop 1) s fuel
        | "restart" :: _ =>
          match tr with
          | l :: tr' => go rest tr' (traceLine s 0 l).1 fuel
          | [] => go rest [] (s.flag "restart-without-output") fuel
        | cmd :: _ =>
          if ["usort", "ureloc", "upatch", "utimes", "uqsort"].contains cmd then
            let n := unitOutputsOf (toks c)
            let outs := tr.take n
            let (s, _) := outs.foldl (fun (p : JState × Nat) l => traceLine p.1 p.2 l) (s, 0)
            let s := if outs.length < n then { (s.flag s!"unit-output-missing {cmd}") with pendingUnit := [] } else s
            go rest (tr.drop n) s fuel
          else go rest tr s fuel
        | [] => go rest tr s fuel
  let s := go caseLines trace {} (caseLines.length + 2)
  s.bad.reverse

end NV.C17
