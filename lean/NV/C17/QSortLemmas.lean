/-
C17 — the contract of `quickSort` (lib/misc/qsort.c) proved from the model of its code (NV/C17/QSort.lean):
for EVERY comparison function it stays inside the array, terminates within the fuel and only rearranges the elements
(`quickSort_perm`: this is why the driver uses it for mudlib-supplied comparators); for a comparison that is a strict
order (asymmetric, transitive — `compare_compiler_funcs`, `str_case_cmp`) the result is sorted (`quickSort_sorted`).
-/
import NV.C17.QSort

namespace NV.C17

variable {α : Type}

/-- `a'` is `a` with the elements of positions [l, r] rearranged among themselves -/
structure Rearr (a a' : Array α) (l r : Nat) : Prop where
  size : a'.size = a.size
  perm : a'.Perm a
  frame : ∀ k, (k < l ∨ r < k) → a'[k]? = a[k]?
  pres : ∀ P : α → Prop, (∀ k x, l ≤ k → k ≤ r → a[k]? = some x → P x) →
    ∀ k x, l ≤ k → k ≤ r → a'[k]? = some x → P x

theorem Rearr.refl (a : Array α) (l r : Nat) : Rearr a a l r :=
  ⟨rfl, Array.Perm.refl a, fun _ _ => rfl, fun _ h => h⟩

theorem Rearr.trans {a b c : Array α} {l r : Nat} (h1 : Rearr a b l r) (h2 : Rearr b c l r) : Rearr a c l r :=
  ⟨h2.size.trans h1.size, h2.perm.trans h1.perm, fun k hk => (h2.frame k hk).trans (h1.frame k hk),
   fun P hP => h2.pres P (h1.pres P hP)⟩

theorem Rearr.mono {a b : Array α} {l r l' r' : Nat} (h : Rearr a b l r) (hl : l' ≤ l) (hr : r ≤ r') :
    Rearr a b l' r' := by
  refine ⟨h.size, h.perm, fun k hk => h.frame k (by omega), ?_⟩
  intro P hP k x hk1 hk2 hx
  by_cases hin : l ≤ k ∧ k ≤ r
  · exact h.pres P (fun k x h1 h2 hx => hP k x (by omega) (by omega) hx) k x hin.1 hin.2 hx
  · rw [h.frame k (by omega)] at hx
    exact hP k x hk1 hk2 hx

theorem Rearr.swap (a : Array α) (l r i j : Nat) (hi : i < a.size) (hj : j < a.size)
    (hil : l ≤ i) (hir : i ≤ r) (hjl : l ≤ j) (hjr : j ≤ r) : Rearr a (a.swap i j hi hj) l r := by
  refine ⟨by simp, Array.swap_perm hi hj, ?_, ?_⟩
  · intro k hk
    rw [Array.getElem?_swap]
    have h1 : ¬ j = k := by omega
    have h2 : ¬ i = k := by omega
    simp [h1, h2]
  · intro P hP k x hk1 hk2 hx
    rw [Array.getElem?_swap] at hx
    by_cases h1 : j = k
    · simp [h1] at hx
      exact hP i x hil hir (by simp [hi, hx])
    · by_cases h2 : i = k
      · simp [h1, h2] at hx
        exact hP j x hjl hjr (by simp [hj, hx])
      · simp [h1, h2] at hx
        exact hP k x hk1 hk2 hx

theorem swapAt_ok (a : Array α) (i j : Nat) (hi : i < a.size) (hj : j < a.size) :
    swapAt a i j = some (a.swap i j hi hj) := by
  simp [swapAt, hi, hj]

/-- the partition loop: invariant "(left, last] is below the pivot, (last, i) is not" -/
theorem partLoop_spec (lt : α → α → Bool) (left right : Nat) (p : α) :
    ∀ (n i last : Nat) (a : Array α), left ≤ last → last < i → i + n = right + 1 → right < a.size →
      a[left]? = some p →
      (∀ k x, left < k → k ≤ last → a[k]? = some x → lt x p = true) →
      (∀ k x, last < k → k < i → a[k]? = some x → lt x p = false) →
      ∃ a' last', partLoop lt left n i last a = some (a', last') ∧ Rearr a a' (left + 1) right ∧
        left ≤ last' ∧ last' ≤ right ∧
        (∀ k x, left < k → k ≤ last' → a'[k]? = some x → lt x p = true) ∧
        (∀ k x, last' < k → k ≤ right → a'[k]? = some x → lt x p = false) := by
  intro n
  induction n with
  | zero =>
    intro i last a h1 h2 h3 _ _ hlo hhi
    exact ⟨a, last, rfl, Rearr.refl _ _ _, h1, by omega, hlo, fun k x hk1 hk2 => hhi k x hk1 (by omega)⟩
  | succ n ih =>
    intro i last a h1 h2 h3 h4 hp hlo hhi
    have hi : i < a.size := by omega
    have hai : a[i]? = some a[i] := by simp [hi]
    unfold partLoop
    rw [hai, hp]
    by_cases hlt : lt a[i] p = true
    · have hl1 : last + 1 < a.size := by omega
      simp only [hlt, if_true, swapAt_ok a (last + 1) i hl1 hi]
      have hR := Rearr.swap a (left + 1) right (last + 1) i hl1 hi (by omega) (by omega) (by omega) (by omega)
      obtain ⟨a', last', e, hr, g1, g2, g3, g4⟩ := ih (i + 1) (last + 1) (a.swap (last + 1) i hl1 hi)
        (by omega) (by omega) (by omega) (by simpa using h4)
        (by rw [hR.frame left (by omega)]; exact hp)
        (by
          intro k x hk1 hk2 hx
          rw [Array.getElem?_swap] at hx
          by_cases c1 : i = k
          · simp [c1] at hx
            have : k = last + 1 := by omega
            subst this
            subst c1
            rw [← hx]; exact hlt
          · by_cases c2 : last + 1 = k
            · simp [c1, c2] at hx
              rw [← hx]; exact hlt
            · simp [c1, c2] at hx
              exact hlo k x hk1 (by omega) hx)
        (by
          intro k x hk1 hk2 hx
          rw [Array.getElem?_swap] at hx
          by_cases c1 : i = k
          · simp [c1] at hx
            -- the element that was at last+1 (inside (last, i)) is now at i
            exact hhi (last + 1) x (by omega) (by omega) (by simp [hl1, hx])
          · have c2 : ¬ last + 1 = k := by omega
            simp [c1, c2] at hx
            exact hhi k x (by omega) (by omega) hx)
      exact ⟨a', last', e, (hR.trans hr), by omega, g2, g3, g4⟩
    · have hlt' : lt a[i] p = false := by simpa using hlt
      simp only [hlt', Bool.false_eq_true, if_false]
      obtain ⟨a', last', e, hr, g1, g2, g3, g4⟩ := ih (i + 1) last a h1 (by omega) (by omega) h4 hp hlo
        (by
          intro k x hk1 hk2 hx
          by_cases c : k = i
          · subst c
            have : x = a[k] := by simp [hi] at hx; exact hx.symm
            rw [this]; exact hlt'
          · exact hhi k x hk1 (by omega) hx)
      exact ⟨a', last', e, hr, g1, g2, g3, g4⟩

/-- positions [l, r] are in non-descending order (no later element is below an earlier one) -/
def SortedSeg (lt : α → α → Bool) (a : Array α) (l r : Nat) : Prop :=
  ∀ i j x y, l ≤ i → i < j → j ≤ r → a[i]? = some x → a[j]? = some y → lt y x = false

theorem qSort_trivial (lt : α → α → Bool) (fuel : Nat) (a : Array α) (left right rm : Nat) (h : left ≥ right) :
    qSort lt fuel a left right rm = some a := by
  cases fuel <;> simp [qSort, h]

/-- `qSort` on [left, right] ⊆ [0, rightmost] ⊆ the array, with fuel for the recursion depth: it succeeds (no access
    outside the array, fuel suffices), rearranges only [left, right], and — for a strict order — leaves it sorted -/
theorem qSort_spec (lt : α → α → Bool) :
    ∀ (fuel : Nat) (a : Array α) (left right rm : Nat), right ≤ rm → rm < a.size → right + 1 ≤ fuel + left →
      ∃ a', qSort lt fuel a left right rm = some a' ∧ Rearr a a' left right ∧
        ((∀ x y, lt x y = true → lt y x = false) → (∀ x y z, lt x y = true → lt y z = true → lt x z = true) →
          SortedSeg lt a' left right) := by
  intro fuel
  induction fuel with
  | zero =>
    intro a left right rm _ _ h3
    refine ⟨a, qSort_trivial lt 0 a left right rm (by omega), Rearr.refl _ _ _, ?_⟩
    intro _ _ i j x y _ _ _
    omega
  | succ f ih =>
    intro a left right rm h1 h2 h3
    by_cases htriv : left ≥ right
    · refine ⟨a, qSort_trivial lt _ a left right rm htriv, Rearr.refl _ _ _, ?_⟩
      intro _ _ i j x y _ _ _
      omega
    · have hlr : left < right := by omega
      have hc : ¬ (left ≥ right ∨ right > rm) := by omega
      have hL : left < a.size := by omega
      have hM : (left + right) / 2 < a.size := by omega
      unfold qSort
      simp only [hc, if_false, swapAt_ok a left ((left + right) / 2) hL hM]
      have hR1 := Rearr.swap a left right left ((left + right) / 2) hL hM (by omega) (by omega) (by omega) (by omega)
      -- the pivot
      let a1 := a.swap left ((left + right) / 2) hL hM
      have hs1 : a1.size = a.size := by simp [a1]
      have hL1 : left < a1.size := by omega
      obtain ⟨a2, last, e2, hR2, l1, l2, lo2, hi2⟩ := partLoop_spec lt left right a1[left] (right - left) (left + 1) left a1
        (by omega) (by omega) (by omega) (by omega) (by simp [hL1]) (by intro k x _ _; omega) (by intro k x _ _; omega)
      simp only [a1] at e2
      rw [e2]
      simp only
      have hs2 : a2.size = a.size := by rw [hR2.size]; exact hs1
      have hL2 : left < a2.size := by omega
      have hl2 : last < a2.size := by omega
      rw [swapAt_ok a2 left last hL2 hl2]
      simp only
      have hp2 : a2[left]? = some a1[left] := by rw [hR2.frame left (by omega)]; simp [hL1]
      have hR3 := Rearr.swap a2 left right left last hL2 hl2 (by omega) (by omega) l1 l2
      let a3 := a2.swap left last hL2 hl2
      have hs3 : a3.size = a.size := by simp [a3, hs2]
      -- a3: [left, last) below the pivot, a3[last] = pivot, (last, right] not below
      have p3 : a3[last]? = some a1[left] := by
        simp only [a3, Array.getElem?_swap, if_true]
        have : a2[left] = a1[left] := by
          have := hp2
          simp [hL2] at this
          exact this
        rw [this]
      have lo3 : ∀ k x, left ≤ k → k < last → a3[k]? = some x → lt x a1[left] = true := by
        intro k x hk1 hk2 hx
        simp only [a3, Array.getElem?_swap] at hx
        have c1 : ¬ last = k := by omega
        by_cases c2 : left = k
        · simp [c1, c2] at hx
          exact lo2 last x (by omega) (Nat.le_refl _) (by simp [hl2, hx])
        · simp [c1, c2] at hx
          exact lo2 k x (by omega) (by omega) hx
      have hi3 : ∀ k x, last < k → k ≤ right → a3[k]? = some x → lt x a1[left] = false := by
        intro k x hk1 hk2 hx
        simp only [a3, Array.getElem?_swap] at hx
        have c1 : ¬ last = k := by omega
        have c2 : ¬ left = k := by omega
        simp [c1, c2] at hx
        exact hi2 k x hk1 hk2 hx
      -- first recursive call
      obtain ⟨a4, e4, hR4, hS4⟩ := ih a3 left (last - 1) rm (by omega) (by omega) (by omega)
      simp only [a3] at e4
      rw [e4]
      simp only
      have hs4 : a4.size = a.size := by rw [hR4.size]; exact hs3
      -- second recursive call
      obtain ⟨a5, e5, hR5, hS5⟩ := ih a4 (last + 1) right rm h1 (by omega) (by omega)
      refine ⟨a5, e5, ?_, ?_⟩
      · exact (hR1.trans (hR2.mono (by omega) (Nat.le_refl _))).trans
          ((hR3.trans (hR4.mono (Nat.le_refl _) (by omega))).trans (hR5.mono (by omega) (Nat.le_refl _)))
      · intro asym trans
        have S4 := hS4 asym trans
        have S5 := hS5 asym trans
        -- a4 and a3 agree from `last` on; below `last` a4 is still below the pivot
        have a43 : ∀ k, last ≤ k → a4[k]? = a3[k]? := by
          intro k hk
          by_cases hll : last = left
          · have : qSort lt f a3 left (last - 1) rm = some a3 := qSort_trivial lt f a3 left (last - 1) rm (by omega)
            simp only [a3] at this
            rw [this] at e4
            cases e4
            rfl
          · exact hR4.frame k (by omega)
        have lo4 : ∀ k x, left ≤ k → k < last → a4[k]? = some x → lt x a1[left] = true := by
          intro k x hk1 hk2 hx
          exact hR4.pres (fun x => lt x a1[left] = true)
            (fun k x h1 h2 hx => lo3 k x h1 (by omega) hx) k x hk1 (by omega) hx
        have p5 : a5[last]? = some a1[left] := by
          rw [hR5.frame last (by omega), a43 last (Nat.le_refl _)]; exact p3
        have lo5 : ∀ k x, left ≤ k → k < last → a5[k]? = some x → lt x a1[left] = true := by
          intro k x hk1 hk2 hx
          rw [hR5.frame k (by omega)] at hx
          exact lo4 k x hk1 hk2 hx
        have hi5 : ∀ k x, last < k → k ≤ right → a5[k]? = some x → lt x a1[left] = false := by
          intro k x hk1 hk2 hx
          exact hR5.pres (fun x => lt x a1[left] = false)
            (fun k x h1 h2 hx => hi3 k x (by omega) h2 (by rw [← a43 k (by omega)]; exact hx)) k x (by omega) hk2 hx
        intro i j x y hi hij hj hx hy
        by_cases c1 : j < last
        · -- both in the left part
          rw [hR5.frame i (by omega)] at hx
          rw [hR5.frame j (by omega)] at hy
          exact S4 i j x y hi hij (by omega) hx hy
        · by_cases c2 : last < i
          · exact S5 i j x y (by omega) hij hj hx hy
          · by_cases c3 : i = last
            · -- x is the pivot, y is right of it
              subst c3
              rw [p5] at hx
              cases hx
              exact hi5 j y (by omega) hj hy
            · have hxl := lo5 i x hi (by omega) hx
              by_cases c4 : j = last
              · subst c4
                rw [p5] at hy
                cases hy
                exact asym _ _ hxl
              · have hyh := hi5 j y (by omega) hj hy
                cases hyx : lt y x with
                | false => rfl
                | true => rw [trans y x _ hyx hxl] at hyh; cases hyh

/-- **quickSort_perm**: for EVERY comparison function (consistent or not) `quickSort` stays inside the array, needs no
    more recursion depth than the number of elements, and returns a rearrangement of its input -/
theorem quickSort_perm (lt : α → α → Bool) (a : Array α) :
    ∃ a', quickSort lt a = some a' ∧ a'.Perm a := by
  unfold quickSort
  by_cases h : a.size < 2
  · exact ⟨a, by simp [h], Array.Perm.refl a⟩
  · obtain ⟨a', e, hR, _⟩ := qSort_spec lt a.size a 0 (a.size - 1) (a.size - 1) (Nat.le_refl _) (by omega) (by omega)
    exact ⟨a', by simp [h, e], hR.perm⟩

/-- **quickSort_sorted**: for a strict order the result is in non-descending order -/
theorem quickSort_sorted (lt : α → α → Bool) (asym : ∀ x y, lt x y = true → lt y x = false)
    (trans : ∀ x y z, lt x y = true → lt y z = true → lt x z = true) (a a' : Array α)
    (h : quickSort lt a = some a') : a'.toList.Pairwise (fun x y => lt y x = false) := by
  unfold quickSort at h
  by_cases hs : a.size < 2
  · simp [hs] at h
    subst h
    rw [List.pairwise_iff_getElem]
    intro i j hi hj hij
    simp at hi hj
    omega
  · simp only [hs, if_false] at h
    obtain ⟨a'', e, hR, hS⟩ := qSort_spec lt a.size a 0 (a.size - 1) (a.size - 1) (Nat.le_refl _) (by omega) (by omega)
    rw [h] at e
    cases e
    have S := hS asym trans
    rw [List.pairwise_iff_getElem]
    intro i j hi hj hij
    have hi' : i < a'.size := by simpa using hi
    have hj' : j < a'.size := by simpa using hj
    have hsz := hR.size
    exact S i j _ _ (Nat.zero_le _) hij (by omega) (by simp [hi']) (by simp [hj'])

theorem quickSortL_spec (lt : α → α → Bool) (l : List α) :
    ∃ l', quickSortL lt l = some l' ∧ l'.Perm l ∧
      ((∀ x y, lt x y = true → lt y x = false) → (∀ x y z, lt x y = true → lt y z = true → lt x z = true) →
        l'.Pairwise (fun x y => lt y x = false)) := by
  obtain ⟨a', e, hp⟩ := quickSort_perm lt l.toArray
  refine ⟨a'.toList, by simp [quickSortL, e], ?_, ?_⟩
  · have := Array.perm_iff_toList_perm.mp hp
    simpa using this
  · intro asym trans
    exact quickSort_sorted lt asym trans _ _ e

end NV.C17
