/-
C17 — clause-level top theorem for the never-stale clause: whenever the MODEL of load_binary decides to use a binary, the
ORACLE's rule (`staleReasons` of Spec.lean, computed from the history alone) finds no reason against it — for every world
and every oracle state that describe the same files, binaries and declarations.  So on the `lb … use` lines of its own
traces the model can never be flagged `stale-binary-used` / `binary-used-but-never-saved`.
-/
import NV.C17.Spec
import NV.C17.Props

namespace NV.C17

/-- reachability through the declarations the oracle knows -/
inductive DReach (s : JState) : String → String → Prop where
  | refl (q : String) : DReach s q q
  | step {q p r : String} : DReach s q p → r ∈ (declOf s p).inherits → DReach s q r

theorem indirect_go_reach (s : JState) (direct : List String) :
    ∀ (fuel : Nat) (frontier seen : List String),
      (∀ q, q ∈ frontier → ∃ i, i ∈ direct ∧ DReach s i q) → (∀ q, q ∈ seen → ∃ i, i ∈ direct ∧ DReach s i q) →
      ∀ q, q ∈ indirectInherits.go s frontier seen fuel → ∃ i, i ∈ direct ∧ DReach s i q := by
  intro fuel
  induction fuel with
  | zero =>
    intro frontier seen _ hs q hq
    simp [indirectInherits.go] at hq
    exact hs q hq
  | succ fuel ih =>
    intro frontier seen hf hs q hq
    unfold indirectInherits.go at hq
    simp only at hq
    split at hq
    · exact hs q hq
    · have hnext : ∀ r, r ∈ ((frontier.flatMap (fun q => (declOf s q).inherits)).filter (fun q => !(seen.contains q))) →
          ∃ i, i ∈ direct ∧ DReach s i r := by
        intro r hr
        rw [List.mem_filter, List.mem_flatMap] at hr
        obtain ⟨⟨p, hp, hrp⟩, _⟩ := hr
        obtain ⟨i, hi, hreach⟩ := hf p hp
        exact ⟨i, hi, DReach.step hreach hrp⟩
      apply ih _ _ _ _ q hq
      · intro r hr
        exact hnext r (List.mem_eraseDups.mp hr)
      · intro r hr
        rcases List.mem_append.mp hr with h | h
        · exact hs r h
        · exact hnext r (List.mem_eraseDups.mp h)

theorem indirect_reach (s : JState) (prog q : String) (h : q ∈ indirectInherits s prog) :
    ∃ i, i ∈ (declOf s prog).inherits ∧ DReach s i q := by
  unfold indirectInherits at h
  simp only at h
  rw [List.mem_filter] at h
  exact indirect_go_reach s (declOf s prog).inherits 20 _ _ (fun q hq => ⟨q, hq, DReach.refl q⟩)
    (fun q hq => ⟨q, hq, DReach.refl q⟩) q h.1

/-- the oracle state and the model's world describe the same situation -/
structure SameSituation (s : JState) (w : World) (name : String) (b : BinFile) (mt : Nat) : Prop where
  files : ∀ p, s.mt p = w.mtime p
  bin : s.binT.lookup name = some mt
  bins : ∀ q t, s.binT.lookup q = some t → w.mtime (binPath w q) = some t
  includes : ∀ i, i ∈ (declOf s name).includes → i ∈ b.includes ∨ w.mtime i = none   -- ('!' entries name no file)
  inherits : (declOf s name).inherits = b.inherits
  parents : ∀ i q, i ∈ b.inherits → Reach w i q → ∀ lp, w.progs.lookup q = some lp →
    lp.inherits = (declOf s q).inherits ∧ (∀ f, f ∈ q :: (declOf s q).includes → f ∈ lp.files)
  simul : w.simulPath = simulPath

theorem dreach_reach (s : JState) (w : World) (name : String) (b : BinFile) (mt : Nat) (hc : SameSituation s w name b mt)
    (hall : ∀ i, i ∈ b.inherits → ∀ r, Reach w i r → ∃ lp, w.progs.lookup r = some lp)
    {i q : String} (hi : i ∈ b.inherits) (h : DReach s i q) : Reach w i q := by
  induction h with
  | refl => exact Reach.refl _
  | step hprev hr ih =>
    rename_i p r
    obtain ⟨lp, hl⟩ := hall i hi p ih
    have := (hc.parents i p hi ih lp hl).1
    -- append one step at the end of the chain
    have app : ∀ {a b' : String}, Reach w a b' → ∀ lp', w.progs.lookup b' = some lp' → r ∈ lp'.inherits → Reach w a r := by
      intro a b' hab
      induction hab with
      | refl x => intro lp' hl' hr'; exact Reach.step lp' hl' hr' (Reach.refl _)
      | step lp'' hl'' hp'' _ ih' => intro lp' hl' hr'; exact Reach.step lp'' hl'' hp'' (ih' lp' hl' hr')
    exact app ih lp hl (by rw [this]; exact hr)

/-- **model_use_passes_stale_clause**: for all worlds, histories and programs — if the model of `load_binary` answers
    "use" for a binary, the oracle's never-stale rule, evaluated on an oracle state that describes the same files,
    binaries and declarations, reports nothing (no `stale-binary-used …`, no `binary-used-but-never-saved`). -/
theorem model_use_passes_stale_clause (s : JState) (w : World) (name : String) (b : BinFile) (mt : Nat)
    (h : loadBinary w name = .use) (hm : w.mtime (binPath w name) = some mt)
    (hb : w.bins.lookup (binPath w name) = some b) (hc : SameSituation s w name b mt) :
    staleReasons s name = [] := by
  obtain ⟨mt', b', hm', hb', _, _, _, _, hsim, hsrc, hinc, _, _, hinh⟩ := never_stale w name h
  rw [hm] at hm'
  rw [hb] at hb'
  cases hm'
  cases hb'
  -- what "not newer" means on the oracle's side
  have mtFact : ∀ p, (∀ t, w.mtime p = some t → t ≤ mt) → s.mt p = none ∨ ∃ t, s.mt p = some t ∧ ¬ (t > mt) := by
    intro p hp
    rw [hc.files p]
    cases hq : w.mtime p with
    | none => exact Or.inl rfl
    | some t => exact Or.inr ⟨t, rfl, by have := hp t hq; omega⟩
  have binFact : ∀ q, (∀ t, w.mtime (binPath w q) = some t → t ≤ mt) →
      s.binT.lookup q = none ∨ ∃ t, s.binT.lookup q = some t ∧ ¬ (t > mt) := by
    intro q hq
    cases hl : s.binT.lookup q with
    | none => exact Or.inl rfl
    | some t => exact Or.inr ⟨t, rfl, by have := hq t (hc.bins q t hl); omega⟩
  -- everything reachable from a direct parent
  have reachFacts : ∀ i, i ∈ b.inherits → ∀ r, Reach w i r →
      ∃ lp, w.progs.lookup r = some lp ∧ (∀ f, f ∈ lp.files → ∀ t, w.mtime f = some t → t ≤ mt) ∧
        (∀ t, w.mtime (binPath w r) = some t → t ≤ mt) := by
    intro i hi r hr
    exact treeNewer_false_reach w mt hr treeFuel (hinh i hi).2.2.2
  have hall : ∀ i, i ∈ b.inherits → ∀ r, Reach w i r → ∃ lp, w.progs.lookup r = some lp := by
    intro i hi r hr
    obtain ⟨lp, hl, _⟩ := reachFacts i hi r hr
    exact ⟨lp, hl⟩
  have fileOfReach : ∀ i, i ∈ b.inherits → ∀ q, Reach w i q → ∀ f, f ∈ q :: (declOf s q).includes →
      ∀ t, w.mtime f = some t → t ≤ mt := by
    intro i hi q hq f hf
    obtain ⟨lp, hl, hfiles, _⟩ := reachFacts i hi q hq
    exact hfiles f ((hc.parents i q hi hq lp hl).2 f hf)
  have indirectFacts : ∀ q, q ∈ indirectInherits s name → ∃ i, i ∈ b.inherits ∧ Reach w i q := by
    intro q hq
    obtain ⟨i, hi, hd⟩ := indirect_reach s name q hq
    rw [hc.inherits] at hi
    exact ⟨i, hi, dreach_reach s w name b mt hc hall hi hd⟩
  unfold staleReasons
  rw [hc.bin]
  simp only [List.append_eq_nil_iff]
  refine ⟨⟨⟨⟨⟨⟨?_, ?_⟩, ?_⟩, ?_⟩, ?_⟩, ?_⟩, ?_⟩
  · obtain ⟨t, ht, hle⟩ := hsrc
    rcases mtFact name (by intro t' ht'; rw [ht] at ht'; cases ht'; exact hle) with h0 | ⟨t0, h0, hn⟩
    · simp [h0]
    · simp [h0, hn]
  · rw [List.map_eq_nil_iff, List.filter_eq_nil_iff]
    intro i hi
    have hcond : ∀ t', w.mtime i = some t' → t' ≤ mt := by
      rcases hc.includes i hi with hin | hnone
      · obtain ⟨t, ht, hle⟩ := hinc i hin
        intro t' ht'; rw [ht] at ht'; cases ht'; exact hle
      · intro t' ht'; rw [hnone] at ht'; cases ht'
    rcases mtFact i hcond with h0 | ⟨t0, h0, hn⟩
    · simp [h0]
    · simp [h0, hn]
  · rw [List.map_eq_nil_iff, List.filter_eq_nil_iff]
    intro i hi
    rw [hc.inherits] at hi
    obtain ⟨t, ht, hle⟩ := (hinh i hi).1
    rcases mtFact i (by intro t' ht'; rw [ht] at ht'; cases ht'; exact hle) with h0 | ⟨t0, h0, hn⟩
    · simp [h0]
    · simp [h0, hn]
  · rw [List.map_eq_nil_iff, List.filter_eq_nil_iff]
    intro i hi
    rw [hc.inherits] at hi
    rcases binFact i (hinh i hi).2.1 with h0 | ⟨t0, h0, hn⟩
    · simp [h0]
    · simp [h0, hn]
  · rw [List.map_eq_nil_iff, List.filter_eq_nil_iff]
    intro q hq
    obtain ⟨i, hi, hr⟩ := indirectFacts q hq
    obtain ⟨lp, hl, _, hbin⟩ := reachFacts i hi q hr
    rcases mtFact q (fileOfReach i hi q hr q (by simp)) with h0 | ⟨t0, h0, hn⟩
    · rcases binFact q hbin with h1 | ⟨t1, h1, hn1⟩
      · simp [h0, h1]
      · simp [h0, h1, hn1]
    · rcases binFact q hbin with h1 | ⟨t1, h1, hn1⟩
      · simp [h0, h1, hn]
      · simp [h0, h1, hn, hn1]
  · rw [List.flatMap_eq_nil_iff]
    intro q hq
    rw [List.map_eq_nil_iff, List.filter_eq_nil_iff]
    intro f hf
    have : ∃ i, i ∈ b.inherits ∧ Reach w i q := by
      rcases List.mem_append.mp hq with h1 | h1
      · rw [hc.inherits] at h1
        exact ⟨q, h1, Reach.refl q⟩
      · exact indirectFacts q h1
    obtain ⟨i, hi, hr⟩ := this
    rcases mtFact f (fileOfReach i hi q hr f (by simp [hf])) with h0 | ⟨t0, h0, hn⟩
    · simp [h0]
    · simp [h0, hn]
  · have hs : ∀ t, w.mtime simulPath = some t → t ≤ mt := by
      rcases hsim with h0 | h0
      · rw [hc.simul] at h0
        exact absurd h0 (by decide)
      · rw [hc.simul] at h0
        exact h0
    rcases mtFact simulPath hs with h0 | ⟨t0, h0, hn⟩
    · simp [h0]
    · simp [h0, hn]

/-! ### the clause `compiled-against-older-version-of` -/

/-- the oracle's bookkeeping of what is in memory and the model's world describe the same situation -/
structure SameMemory (s : JState) (w : World) : Prop where
  files : ∀ p, s.mt p = w.mtime p
  progs : ∀ p lp, w.progs.lookup p = some lp →
    (s.mem.lookup p = none ∨ s.mem.lookup p = some (lp.gen, lp.loadTime)) ∧
      (∀ f, f ∈ p :: (declOf s p).includes → f ∈ lp.files) ∧ (s.links.lookup p).getD [] = lp.linked

theorem progOutdated_false_oracle (s : JState) (w : World) (hc : SameMemory s w) :
    ∀ fuel p g, progOutdated w fuel p g = false → outdatedO s fuel p g = false := by
  intro fuel
  induction fuel with
  | zero => intro p g h; simp [progOutdated] at h
  | succ fuel ih =>
    intro p g h
    unfold progOutdated at h
    cases hl : w.progs.lookup p with
    | none => rw [hl] at h; simp at h
    | some lp =>
      rw [hl] at h
      simp only [Bool.or_eq_false_iff] at h
      obtain ⟨⟨⟨_, hgen⟩, hfiles⟩, hlinked⟩ := h
      obtain ⟨hmem, hdecl, hlinks⟩ := hc.progs p lp hl
      unfold outdatedO
      rcases hmem with hm | hm
      · rw [hm]
      · rw [hm]
        simp only [Bool.or_eq_false_iff]
        refine ⟨⟨hgen, ?_⟩, ?_⟩
        · rw [List.any_eq_false]
          intro f hf
          have hin := hdecl f hf
          rw [List.any_eq_false] at hfiles
          have hne : ¬ (checkTimes w lp.loadTime f = 0) := by
            have := hfiles f hin
            simpa using this
          have hle := (checkTimes_ne_zero w lp.loadTime f).mp hne
          rw [hc.files f]
          cases hq : w.mtime f with
          | none => simp
          | some m => have := hle m hq; simp; omega
        · rw [hlinks, List.any_eq_false]
          intro q hq
          rw [List.any_eq_false] at hlinked
          have := ih q.1 q.2 (by simpa using hlinked q hq)
          simp [this]

/-- **model_save_passes_outdated_clause**: whenever the model's `save_binary` test lets a program be saved, the oracle's
    own bookkeeping (load numbers, clock, declarations) finds no outdated parent among the programs it is linked with:
    a binary written by the model is never "poisoned" (the list `old` the oracle computes at the `sv` line, with its
    own walk limit 64), so the clause `compiled-against-older-version-of` cannot fire on it. -/
theorem model_save_passes_outdated_clause (s : JState) (w : World) (linked : List (String × Nat)) (hc : SameMemory s w)
    (h : saveAllowed w linked = true) : linked.filter (fun q => outdatedO s 64 q.1 q.2) = [] := by
  unfold saveAllowed treeFuel at h
  have hany : linked.any (fun pg => progOutdated w 64 pg.1 pg.2) = false := by simpa using h
  rw [List.any_eq_false] at hany
  rw [List.filter_eq_nil_iff]
  intro q hq
  have := progOutdated_false_oracle s w hc 64 q.1 q.2 (by simpa using hany q hq)
  simp [this]

/-! ### the clauses `damaged-binary-used` and `foreign-binary-used` -/

/-- **model_use_passes_damaged_and_foreign_clauses**: the oracle flags the use of a binary it knows to be damaged (checksum),
    written by another driver build or configuration (magic, driver id, config id) or saved for another program (name).
    When the model answers "use" the binary is none of these. -/
theorem model_use_passes_damaged_and_foreign_clauses (w : World) (name : String) (h : loadBinary w name = .use) :
    ∃ b, w.bins.lookup (binPath w name) = some b ∧ b.intact = true ∧ b.magic = magicId ∧ b.driverId = driverId ∧
      b.configId = w.configId ∧ (b.name.length = 0 ∨ b.name = name) := by
  obtain ⟨_, b, _, hb, h0, h1, h2, h3, _, _, _, _, hn, _⟩ := never_stale w name h
  exact ⟨b, hb, h0, h1, h2, h3, hn⟩

/-! ### the clause `include-shadowed-by` -/

/-- what `inc_open` opens is the first candidate that exists -/
theorem incOpen_fst (w : World) : ∀ cands : List String,
    (incOpen w cands).map (·.1) = cands.find? (fun c => (w.mtime c).isSome) := by
  intro cands
  induction cands with
  | nil => rfl
  | cons c rest ih =>
    unfold incOpen
    by_cases hc : (w.mtime c).isSome = true
    · simp [hc]
    · simp only [hc, Bool.false_eq_true, if_false, List.find?_cons]
      rw [← ih]
      cases incOpen w rest <;> simp

/-- **model_use_passes_shadow_clause**: the clause `include-shadowed-by` of the oracle compares what every declared include
    directive of the program resolved to when the binary was saved (oracle state `s0`, world `w0`) with what it resolves
    to when the binary is used (`s`, `w`).  If the binary lists what `inc_open` did at compile time (the file read among
    `includes`, every missed candidate among the '!' entries) and the model's `load_binary` uses it, both lists are equal:
    the clause cannot fire on a `lb … use` line of the model. -/
theorem model_use_passes_shadow_clause (s0 s : JState) (w0 w : World) (name : String) (b : BinFile)
    (hf0 : ∀ p, s0.mt p = w0.mtime p) (hf : ∀ p, s.mt p = w.mtime p) (hdecl : s0.incsearch = s.incsearch)
    (hdirs : ∀ d, d ∈ s.incsearch → d.1 = name →
      ∃ r missed, incOpen w0 d.2 = some (r, missed) ∧ r ∈ b.includes ∧ ∀ c, c ∈ missed → c ∈ b.absent)
    (hb : w.bins.lookup (binPath w name) = some b) (h : loadBinary w name = .use) :
    resolveNow s0 name = resolveNow s name := by
  unfold resolveNow
  rw [hdecl]
  apply List.map_congr_left
  intro d hd
  rw [List.mem_filter] at hd
  obtain ⟨r, missed, hopen, hr, hm⟩ := hdirs d hd.1 (by simpa using hd.2)
  have h0 : d.2.find? (fun c => (s0.mt c).isSome) = some r := by
    have := incOpen_fst w0 d.2
    rw [hopen] at this
    simp only [Option.map_some] at this
    have e : (fun c => (s0.mt c).isSome) = (fun c => (w0.mtime c).isSome) := by
      funext c
      rw [hf0 c]
    rw [e]
    exact this.symm
  have h1 : d.2.find? (fun c => (s.mt c).isSome) = some r := by
    have := includes_resolve_as_recorded w0 w name b d.2 r missed hopen hb hr hm h
    unfold resolveIncludeP at this
    have e : (fun c => (s.mt c).isSome) = (fun c => (w.mtime c).isSome) := by
      funext c
      rw [hf c]
    rw [e]
    exact this
  rw [h0, h1]


/-- non-vacuity: a program with an include file and the simul_efun file, all older than its binary -/
example :
    let w : World := { files := [("B/a", 200), ("d/a.c", 100), ("d/x.h", 150), ("simul_efun.c", 50)],
                       bins := [("B/a", { magic := magicId, driverId := driverId, configId := 50, includes := ["d/x.h"],
                                          name := "d/a.c", inherits := [] })],
                       configId := 50, simulPath := "simul_efun.c", binOf := fun _ => "B/a" }
    let s : JState := { files := w.files, binT := [("d/a.c", 200)],
                        decls := [{ name := "d/a.c", includes := ["d/x.h"], inherits := [] }] }
    loadBinary w "d/a.c" = .use ∧ staleReasons s "d/a.c" = [] ∧
      staleReasons { s with files := ("d/x.h", 201) :: s.files } "d/a.c" = ["stale-binary-used d/a.c dep=include:d/x.h"] := by
  decide

end NV.C17
