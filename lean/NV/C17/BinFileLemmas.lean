/-
C17 — the byte-level format round-trips: what `save_binary` writes, `load_binary` reads back section by section, for
every program image whose lengths fit their length fields (the cases in which the C code does not truncate with its
`(uint16_t)` / `(uint32_t)` casts: `save_binary` refuses programs and include lists above USHRT_MAX and strings of
USHRT_MAX or more) and whose four counts in the program block are the numbers of names written.
-/
import NV.C17.BinFile

namespace NV.C17

theorem leBytes_length (k v : Nat) : (leBytes k v).length = k := by
  induction k generalizing v with
  | zero => rfl
  | succ k ih => simp [leBytes, ih]

theorem leValue_leBytes (k v : Nat) (h : v < 256 ^ k) : leValue (leBytes k v) = v := by
  induction k generalizing v with
  | zero =>
    have : v = 0 := by simpa using h
    subst this
    rfl
  | succ k ih =>
    have h2 : v / 256 < 256 ^ k := by
      rw [Nat.pow_succ] at h
      exact Nat.div_lt_of_lt_mul (by omega)
    simp only [leBytes, leValue, ih (v / 256) h2]
    have : (UInt8.ofNat (v % 256)).toNat = v % 256 := by
      simp [UInt8.toNat_ofNat']
    rw [this]
    omega

theorem readLE_put (k v : Nat) (rest : Bytes) (h : v < 256 ^ k) :
    readLE k (leBytes k v ++ rest) = some (v, rest) := by
  unfold readLE
  have hl := leBytes_length k v
  have h1 : k ≤ (leBytes k v ++ rest).length := by simp [hl]
  simp only [h1, if_true]
  have h2 : (leBytes k v ++ rest).take k = leBytes k v := by
    rw [List.take_append_of_le_length (by omega)]
    exact List.take_of_length_le (by omega)
  have h3 : (leBytes k v ++ rest).drop k = rest := by
    rw [List.drop_append_of_le_length (by omega)]
    simp [List.drop_of_length_le (Nat.le_of_eq hl)]
  rw [h2, h3, leValue_leBytes k v h]

theorem readN_put (s rest : Bytes) : readN s.length (s ++ rest) = some (s, rest) := by
  unfold readN
  simp

theorem getField_put (w : Nat) (s rest : Bytes) (h : s.length < 256 ^ w) :
    getField w (putField w s ++ rest) = some (s, rest) := by
  unfold getField putField
  rw [List.append_assoc, readLE_put w s.length (s ++ rest) h]
  exact readN_put s rest

theorem getFields_put (w : Nat) (ss : List Bytes) (rest : Bytes) (h : ∀ s, s ∈ ss → s.length < 256 ^ w) :
    getFields w ss.length (putFields w ss ++ rest) = some (ss, rest) := by
  induction ss with
  | nil => rfl
  | cons s more ih =>
    simp only [putFields, List.length_cons, getFields]
    rw [List.append_assoc, getField_put w s _ (h s (by simp))]
    simp only
    rw [ih (fun s hs => h s (by simp [hs]))]

/-- the lengths fit their length fields, the ids fit their fields -/
structure WellSized (b : BinImage) : Prop where
  driver : b.driverId < 256 ^ 4
  config : b.configId < 256 ^ 8
  includes : b.includes.length < 256 ^ 2
  name : b.name.length < 256 ^ 2
  program : b.program.length < 256 ^ 4
  inheritNames : ∀ s, s ∈ b.inheritNames → s.length < 256 ^ 2
  strings : ∀ s, s ∈ b.strings → s.length < 256 ^ 2
  varNames : ∀ s, s ∈ b.varNames → s.length < 256 ^ 2
  funNames : ∀ s, s ∈ b.funNames → s.length < 256 ^ 2
  lineInfo : b.lineInfo.length < 256 ^ 2
  patches : b.patches.length < 256 ^ 2

/-- the counts inside the program block are the numbers of names written after it -/
structure CountsAgree (b : BinImage) : Prop where
  inherits : u16At b.program Gen.C17.offNumInherited = b.inheritNames.length
  strings : u16At b.program Gen.C17.offNumStrings = b.strings.length
  vars : u16At b.program Gen.C17.offNumVariablesDefined = b.varNames.length
  funs : u16At b.program Gen.C17.offNumFunctionsDefined = b.funNames.length

theorem decodeBody_encodeBody (b : BinImage) (hs : WellSized b) (hc : CountsAgree b) :
    decodeBody b.magic.length (encodeBody b) = some b := by
  unfold decodeBody encodeBody
  simp only [List.append_assoc]
  rw [readN_put]
  simp only [Option.bind_eq_bind, Option.bind_some]
  rw [readLE_put 4 _ _ hs.driver]
  simp only [Option.bind_some]
  rw [readLE_put 8 _ _ hs.config]
  simp only [Option.bind_some]
  rw [getField_put 2 _ _ hs.includes]
  simp only [Option.bind_some]
  rw [getField_put 2 _ _ hs.name]
  simp only [Option.bind_some]
  rw [getField_put 4 _ _ hs.program]
  simp only [Option.bind_some]
  rw [hc.inherits, getFields_put 2 _ _ hs.inheritNames]
  simp only [Option.bind_some]
  rw [hc.strings, getFields_put 2 _ _ hs.strings]
  simp only [Option.bind_some]
  rw [hc.vars, getFields_put 2 _ _ hs.varNames]
  simp only [Option.bind_some]
  rw [hc.funs, getFields_put 2 _ _ hs.funNames]
  simp only [Option.bind_some]
  rw [getField_put 2 _ _ hs.lineInfo]
  simp only [Option.bind_some]
  have : putField 2 b.patches = putField 2 b.patches ++ [] := by simp
  rw [this, getField_put 2 _ _ hs.patches]
  rfl

/-- **binary_file_roundtrip**: `load_binary` reads back, section by section, exactly what `save_binary` wrote — for every
    image that fits its length fields and whose counts agree — and the checksum it verifies first is the one written last. -/
theorem binary_file_roundtrip (b : BinImage) (hs : WellSized b) (hc : CountsAgree b) :
    decodeFile b.magic.length (encodeFile b) = some b := by
  unfold decodeFile encodeFile
  simp only
  have hl : (leBytes 4 (fnv1a (encodeBody b)).toNat).length = 4 := leBytes_length _ _
  have hlen : (encodeBody b ++ leBytes 4 (fnv1a (encodeBody b)).toNat).length = (encodeBody b).length + 4 := by
    simp [hl]
  have h1 : ¬ (encodeBody b ++ leBytes 4 (fnv1a (encodeBody b)).toNat).length < 4 := by omega
  simp only [hlen, Nat.add_sub_cancel]
  rw [List.take_append_of_le_length (Nat.le_refl _), List.take_of_length_le (Nat.le_refl _)]
  rw [List.drop_append_of_le_length (Nat.le_refl _), List.drop_of_length_le (Nat.le_refl _), List.nil_append]
  have hsum : (fnv1a (encodeBody b)).toNat < 256 ^ 4 := by
    have := (fnv1a (encodeBody b)).toNat_lt
    simpa using this
  rw [leValue_leBytes 4 _ hsum]
  simp only [bne_self_eq_false, Bool.false_eq_true, if_false]
  exact decodeBody_encodeBody b hs hc

/-- **truncated_file_rejected**: whatever the bytes, a file of fewer than 4 bytes is not decoded, and a decoded file's
    checksum field equals the FNV-1a of everything before it (nothing is read before that test) -/
theorem decoded_file_has_valid_checksum (n : Nat) (file : Bytes) (b : BinImage) (h : decodeFile n file = some b) :
    4 ≤ file.length ∧ (fnv1a (file.take (file.length - 4))).toNat = leValue (file.drop (file.length - 4)) := by
  unfold decodeFile at h
  by_cases h1 : file.length < 4
  · simp [h1] at h
  · simp only [h1, if_false] at h
    by_cases h2 : ((fnv1a (file.take (file.length - 4))).toNat != leValue (file.drop (file.length - 4))) = true
    · simp [h2] at h
    · refine ⟨by omega, ?_⟩
      simpa using h2

/-- every read is checked against what is left of the file: a field whose length field promises more bytes than remain
    is the `none` (= "corrupted" / short fread) outcome, never a read beyond the end -/
theorem getField_checks_length (w : Nat) (bs s rest : Bytes) (h : getField w bs = some (s, rest)) :
    w + s.length + rest.length = bs.length := by
  unfold getField at h
  cases h1 : readLE w bs with
  | none => rw [h1] at h; cases h
  | some p =>
    obtain ⟨n, r⟩ := p
    rw [h1] at h
    simp only at h
    unfold readLE at h1
    by_cases c1 : w ≤ bs.length
    · simp only [c1, if_true, Option.some.injEq, Prod.mk.injEq] at h1
      unfold readN at h
      by_cases c2 : n ≤ r.length
      · simp only [c2, if_true, Option.some.injEq, Prod.mk.injEq] at h
        obtain ⟨e1, e2⟩ := h
        obtain ⟨_, e3⟩ := h1
        subst e1 e2 e3
        simp only [List.length_take, List.length_drop] at *
        omega
      · simp [c2] at h
    · simp [c1] at h1

/-- **byte_model_follows_source_layout**: the byte-level model writes and reads the sections that the `[WRITE_*]` and
    `[READ_*]` blocks of binaries.c name, in their order, with their length-field widths; the ids of the preamble have
    the widths the C variables have; the four counts are 16-bit members of `program_t` (all read from the source or
    produced by the C compiler on every run) -/
theorem byte_model_follows_source_layout :
    Gen.C17.writeLayout = modelLayout ∧ Gen.C17.readLayout = ("CHECKSUM", 32) :: modelLayout.dropLast ∧
      Gen.C17.driverIdBytes = 4 ∧ Gen.C17.configIdBytes = 8 ∧ Gen.C17.magicId.length = 4 ∧
      Gen.C17.sizeofCount = 2 ∧ Gen.C17.sizeofFunctionNumber = 2 ∧
      Gen.C17.offNumInherited + 2 ≤ Gen.C17.sizeofProgram ∧ Gen.C17.offNumStrings + 2 ≤ Gen.C17.sizeofProgram ∧
      Gen.C17.offNumVariablesDefined + 2 ≤ Gen.C17.sizeofProgram ∧ Gen.C17.offNumFunctionsDefined + 2 ≤ Gen.C17.sizeofProgram := by
  decide

/-- non-vacuity: a small image (2 strings, 1 function, no inherits); the program block has the size of `program_t` and the
    counts sit at the offsets the C compiler reports on this run, the driver id is the one in the source -/
def sampleImage : BinImage :=
  { magic := [78, 69, 79, 76], driverId := Gen.C17.driverId, configId := 1000, includes := [104, 46, 104, 0],
    name := [97, 46, 99], program := sampleProgram 0 2 0 1, inheritNames := [], strings := [[120], [121, 122]],
    varNames := [], funNames := [[102]],
    lineInfo := [4, 0, 2, 0], patches := [] }

set_option maxRecDepth 16384 in
example : decodeFile 4 (encodeFile sampleImage) = some sampleImage :=
  binary_file_roundtrip sampleImage
    ⟨by decide, by decide, by decide, by decide, by decide, by decide, by decide, by decide, by decide, by decide, by decide⟩
    ⟨by decide, by decide, by decide, by decide⟩

end NV.C17
