/-
C17 — executable model of lib/lpc/program/binaries.c (as it is in the repository, i.e. with the four `fix:` commits of
this property applied; the code before those commits is kept in `NV/C17/Witness.lean`).

  (a) the staleness decision of `load_binary` (`check_times`, magic / driver_id / config_id, include list, name check,
      inherited sources and inherited binaries, "inherited program not loaded yet") and the retry loop of `load_object`
      around it, over a file system of modification times;
  (b) `sort_function_table`: permutation table by `quickSort`, inverse table, the in-place sort by n-1 swaps driven by
      `sorttmp`/`invtmp`, the `f_index` remap loops of the COMPRESS_FUNCTION_TABLES build, the `type_start` copy;
  (c) `locate_out` / `locate_in`;
  (d) `patch_out` / `patch_in` of string switch tables.

C arrays are `Arr` = size + total function; every C access is an explicit bounds-checked `read`/`write` that yields
`none` (= the C program would touch memory outside the array: crash) when the index is out of range.
`quickSort` is modelled from its code (NV/C17/QSort.lean mirrors lib/misc/qsort.c: median swap, partition loop, the two
recursive calls); its contract — stays inside the array, permutation, sorted for a strict order — is proved in
NV/C17/QSortLemmas.lean and used by the theorems below.
-/
import NV.Gen.C17
import NV.C17.QSort

namespace NV.C17

/-! ## C arrays -/

structure Arr (α : Type) where
  size : Nat
  get : Nat → α

namespace Arr
def ofList {α} [Inhabited α] (l : List α) : Arr α := ⟨l.length, fun i => l.getD i default⟩
def toList {α} (a : Arr α) : List α := (List.range a.size).map a.get
def set {α} (a : Arr α) (i : Nat) (v : α) : Arr α := ⟨a.size, fun j => if j = i then v else a.get j⟩
/-- `a[i]` as an rvalue -/
def read {α} (a : Arr α) (i : Nat) : Option α := if i < a.size then some (a.get i) else none
/-- `a[i] = v` -/
def write {α} (a : Arr α) (i : Nat) (v : α) : Option (Arr α) := if i < a.size then some (a.set i v) else none
end Arr

/-! ## (b) sort_function_table -/

/-- `for (i = 0; i < num; i++) inverse[temp[i]] = i;` (inverse was CALLOCATEd: all zero) -/
def inverseLoop (temp : Arr Nat) : Nat → Arr Nat → Option (Arr Nat)
  | 0, inv => some inv
  | k + 1, inv => do
    let inv ← inverseLoop temp k inv
    let t ← temp.read k
    inv.write t k

def mkInverse (temp : Arr Nat) : Option (Arr Nat) :=
  inverseLoop temp temp.size ⟨temp.size, fun _ => 0⟩

structure SwapSt (α : Type) where
  tab : Arr α
  sorttmp : Arr Nat
  invtmp : Arr Nat

/-- one iteration of the swap loop (binaries.c):
      where = sorttmp[i]; if (i == where) continue;
      cft = tab[i]; tab[i] = tab[where]; sorttmp[invtmp[i]] = where; invtmp[where] = invtmp[i]; tab[where] = cft; -/
def swapStep {α} (s : SwapSt α) (i : Nat) : Option (SwapSt α) := do
  let wh ← s.sorttmp.read i
  if i = wh then pure s
  else do
    let cft ← s.tab.read i
    let x ← s.tab.read wh
    let tab1 ← s.tab.write i x
    let ii ← s.invtmp.read i
    let st ← s.sorttmp.write ii wh
    let iv ← s.invtmp.write wh ii
    let tab2 ← tab1.write wh cft
    pure ⟨tab2, st, iv⟩

/-- iterations i, i+1, ..., i+fuel-1 -/
def swapFrom {α} (s : SwapSt α) (i : Nat) : Nat → Option (SwapSt α)
  | 0 => some s
  | fuel + 1 => do
    let s' ← swapStep s i
    swapFrom s' (i + 1) fuel

/-- `for (i = 0; i < num - 1; i++) ...` with sorttmp/invtmp initialised as copies of temp/inverse -/
def swapLoop {α} (tab : Arr α) (temp inverse : Arr Nat) : Option (Arr α) :=
  (swapFrom ⟨tab, temp, inverse⟩ 0 (tab.size - 1)).map (·.tab)

/-- the compressed runtime-function table header (`compressed_offset_table_t`) -/
structure CT where
  firstDefined : Nat
  firstOverload : Nat
  numCompressed : Nat
  numDeleted : Nat
  index : List Nat
  deriving Repr, BEq, Inhabited

def isInherited (flags : Nat) : Bool := flags &&& Gen.C17.nameInherited != 0

/-- the slots of `function_offsets` whose `def.f_index` the two remap loops rewrite, in visiting order
    (`none`: an index outside `index[]` / `function_flags[]` would be read) -/
def visitedSlots (ct : CT) (flags : Arr Nat) (numTotal : Nat) : Option (List Nat) := do
  if ct.numDeleted > ct.firstDefined then none
  let nOv := ct.firstDefined - ct.numCompressed
  let nDef := numTotal - ct.firstDefined
  let nReal := ct.firstDefined - ct.numDeleted
  let idx := Arr.ofList ct.index
  let ov ← (List.range nOv).mapM (fun i => do
    let j ← idx.read i
    if j = Gen.C17.compressedSkip then pure none
    else do
      let f ← flags.read (ct.firstOverload + i)
      pure (if isInherited f then none else some j))
  let df ← (List.range nDef).mapM (fun i => do
    let f ← flags.read (ct.firstDefined + i)
    pure (if isInherited f then none else some (nReal + i)))
  pure (ov.filterMap id ++ df.filterMap id)

/-- `function_offsets[s].def.f_index = inverse[function_offsets[s].def.f_index]` for the visited slots in order -/
def remapSlots (inverse : Arr Nat) : List Nat → Arr Nat → Option (Arr Nat)
  | [], o => some o
  | s :: rest, o => do
    let old ← o.read s
    let nw ← inverse.read old
    let o' ← o.write s nw
    remapSlots inverse rest o'

/-- the repaired type_start loop: `old_start[i] = type_start[i]`, then `type_start[i] = old_start[temp[i]]`, i < num.
    All indices are checked up front (an access outside either array is the crash outcome `none`). -/
def permuteTypeStart {τ} (ts : Arr τ) (temp : Arr Nat) (num : Nat) : Option (Arr τ) :=
  if num ≤ ts.size ∧ num ≤ temp.size ∧ (List.range num).all (fun i => decide (temp.get i < num)) then
    some ⟨ts.size, fun i => if i < num then ts.get (temp.get i) else ts.get i⟩
  else none

/-- the part of a `program_t` that `sort_function_table` touches -/
structure FunTabs (α τ : Type) where
  table : List α                 -- function_table[0 .. num_functions_defined)
  flags : List Nat               -- function_flags[0 .. num_functions_total)
  offs : List Nat                -- function_offsets[*].def.f_index (raw 16 bits of every slot)
  ct : CT
  typeStart : Option (List τ)    -- none: prog->type_start == 0

/-- `for (i = 0; i < num; i++) temp[i] = i; comp_prog = prog;
    quickSort (temp, num, sizeof (int), compare_compiler_funcs)`; `lt x y` = the comparison answers < 0 -/
def sortPerm {α} (lt : α → α → Bool) [Inhabited α] (table : List α) : Option (List Nat) :=
  quickSortL (fun x y => lt (table.getD x default) (table.getD y default)) (List.range table.length)

def sortFunctionTable {α τ} [Inhabited α] [Inhabited τ] (lt : α → α → Bool) (p : FunTabs α τ) :
    Option (FunTabs α τ) := do
  let num := p.table.length
  if num = 0 then pure p
  else do
    let temp := Arr.ofList (← sortPerm lt p.table)
    let inverse ← mkInverse temp
    let tab ← swapLoop (Arr.ofList p.table) temp inverse
    let slots ← visitedSlots p.ct (Arr.ofList p.flags) p.flags.length
    let offs ← remapSlots inverse slots (Arr.ofList p.offs)
    let ts ← match p.typeStart with
      | none => pure none
      | some ts => do
        let r ← permuteTypeStart (Arr.ofList ts) temp num
        pure (some r.toList)
    pure { p with table := tab.toList, offs := offs.toList, typeStart := ts }

/-- a `compiler_function_t` as far as the comparison looks at it, plus a payload -/
structure CF where
  key : Nat            -- address of the name (or its rank among the names: only the order matters)
  hash : Bool          -- name[0] == '#'
  tag : String         -- payload that identifies the entry (name, type, runtime index, address)
  deriving Repr, BEq, Inhabited

/-- `compare_compiler_funcs (x, y) <= 0` in binaries.c: names starting with '#' last, otherwise by address -/
def cfLe (a b : CF) : Bool :=
  if a.hash then b.hash
  else if b.hash then true
  else a.key ≤ b.key

/-- `compare_compiler_funcs (x, y) < 0` (what qSort asks): `n1[0] == '#'` → 0 or 1, never negative;
    `n2[0] == '#'` → -1; otherwise `n1 < n2` -/
def cfLt (a b : CF) : Bool :=
  if a.hash then false
  else if b.hash then true
  else a.key < b.key

/-! ## (c) locate_out / locate_in -/

/-- the pointer members of `program_t` that are relocated, as 64-bit machine words -/
structure ProgPtrs where
  program : BitVec 64
  functionTable : BitVec 64
  functionFlags : BitVec 64
  functionOffsets : BitVec 64
  functionCompressed : BitVec 64
  strings : BitVec 64
  variableTable : BitVec 64
  variableTypes : BitVec 64
  inherit : BitVec 64
  classes : BitVec 64
  classMembers : BitVec 64
  argumentTypes : BitVec 64
  typeStart : BitVec 64
  deriving DecidableEq, Repr

/-- `locate_out (prog)`: `DIFF (x, prog)`; inherit only `if (prog->inherit)`, argument_types / type_start only
    `if (prog->type_start)` -/
def locateOut (b : BitVec 64) (p : ProgPtrs) : ProgPtrs :=
  { program := p.program - b, functionTable := p.functionTable - b, functionFlags := p.functionFlags - b,
    functionOffsets := p.functionOffsets - b, functionCompressed := p.functionCompressed - b,
    strings := p.strings - b, variableTable := p.variableTable - b, variableTypes := p.variableTypes - b,
    inherit := if p.inherit ≠ 0 then p.inherit - b else p.inherit,
    classes := p.classes - b, classMembers := p.classMembers - b,
    argumentTypes := if p.typeStart ≠ 0 then p.argumentTypes - b else p.argumentTypes,
    typeStart := if p.typeStart ≠ 0 then p.typeStart - b else p.typeStart }

/-- `locate_in (prog)`: `ADD (x, prog)` -/
def locateIn (b : BitVec 64) (p : ProgPtrs) : ProgPtrs :=
  { program := p.program + b, functionTable := p.functionTable + b, functionFlags := p.functionFlags + b,
    functionOffsets := p.functionOffsets + b, functionCompressed := p.functionCompressed + b,
    strings := p.strings + b, variableTable := p.variableTable + b, variableTypes := p.variableTypes + b,
    inherit := if p.inherit ≠ 0 then p.inherit + b else p.inherit,
    classes := p.classes + b, classMembers := p.classMembers + b,
    argumentTypes := if p.typeStart ≠ 0 then p.argumentTypes + b else p.argumentTypes,
    typeStart := if p.typeStart ≠ 0 then p.typeStart + b else p.typeStart }

/-- the C names of the members of `ProgPtrs`, in the order in which `locateOut` / `locateIn` (and the C functions) treat
    them, each with the member whose being non-NULL guards its relocation ("" = unconditional: `inherit` is NULL in a
    program without inherits, `argument_types` / `type_start` without `#pragma save_types`).  Compared with the assignments read from locate_out and
    locate_in on every run (`relocation_members_tied`). -/
def relocatedMembers : List (String × String) :=
  [("program", ""), ("function_table", ""), ("function_flags", ""), ("function_offsets", ""),
   ("function_compressed", ""), ("strings", ""), ("variable_table", ""), ("variable_types", ""),
   ("inherit", "inherit"), ("classes", ""), ("class_members", ""), ("argument_types", "type_start"),
   ("type_start", "type_start")]

/-- pointer members of `program_t` that do not point into the program block: `load_binary` re-creates them
    (`p->name = make_shared_string (name)`, `p->file_info = DXALLOC …`, `p->line_info = &p->file_info[…]`) -/
def rebuiltMembers : List String := ["name", "line_info", "file_info"]

/-- what the code generator stores with `ins_intptr`: the key of a switch table entry — the address of a program
    string for a string switch (the ONE address-valued operand in the byte code, recorded in the patch list), the 0
    label, or the number of a numeric case -/
def modelIntptrOperands : List String :=
  ["(intptr_t)PROG_STRING (pn->r.number)", "(intptr_t) 0", "(intptr_t) pn->r.expr"]

/-- the pointers stored INSIDE the saved block (elements of the tables the 13 relocated members point at): the name of
    every function, the program of every inherit entry, every string and every variable name.  They are meaningless in
    the file; `load_binary` re-creates each one from the name sections / the loaded parents.  Everything else in the
    block is an index, a count or a code offset. -/
def modelBlockPointers : List String :=
  ["compiler_function_t.name", "inherit_t.prog", "strings[]", "variable_table[]"]

/-- statements of qSort + quickSort that NV/C17/QSort.lean mirrors -/
def modelQsortStatements : Nat := 13

def ProgPtrs.fields (p : ProgPtrs) : List (BitVec 64) :=
  [p.program, p.functionTable, p.functionFlags, p.functionOffsets, p.functionCompressed, p.strings, p.variableTable,
   p.variableTypes, p.inherit, p.classes, p.classMembers, p.argumentTypes, p.typeStart]

/-! ## (d) string switch tables -/

/-- one 10-byte entry of a switch table: key (string address, or string-table index inside a saved binary) + jump address -/
structure SwEntry where
  key : Int
  addr : Nat
  deriving Repr, BEq, DecidableEq, Inhabited

/-- `(char) b` on this ABI -/
def sext8 (b : Nat) : Int := if b % 256 < 128 then (b % 256 : Nat) else (b % 256 : Nat) - 256
/-- `(short) v` -/
def sext16 (v : Nat) : Int := if v % 65536 < 32768 then (v % 65536 : Nat) else (v % 65536 : Nat) - 65536

/-- the test in front of both patch loops: `p[i] == F_SWITCH && p[i + 1] >> 4 != 0xf` with `char *p`
    (arithmetic shift of a signed char: never 15, so every listed F_SWITCH passes) -/
def patchApplies (opcode typeByte : Nat) : Bool :=
  sext8 opcode == (Gen.C17.fSwitch : Int) && (sext8 typeByte) / 16 != 15

/-- a 16-bit patch entry as `patch_out` / `patch_in` see it: `i = (<cast>) patches[--len]` with `short *patches` and
    `int i` — through `(unsigned short)` the program offset itself, without it sign-extended -/
def readPatchOffset (cast : String) (raw : Nat) : Int :=
  if cast = "unsigned short" then ((raw % 65536 : Nat) : Int) else sext16 raw

/-- a table bound read with COPY_SHORT into a variable of the given C type -/
def readTableBound (ty : String) (raw : Nat) : Int :=
  if ty = "unsigned short" then ((raw % 65536 : Nat) : Int) else sext16 raw

/-- `store_prog_string (s)` for a string that is in the table: its index -/
def indexOfPtr (strings : List Int) (p : Int) : Option Nat :=
  let i := strings.findIdx (· == p)
  if i < strings.length then some i else none

/-- patch_out on one table: addresses become string-table indices, the 0 label becomes -1 -/
def patchOutTable (strings : List Int) (es : List SwEntry) : Option (List SwEntry) :=
  es.mapM (fun e => if e.key = 0 then some { e with key := -1 }
                    else (indexOfPtr strings e.key).map (fun i => { e with key := (i : Int) }))

/-- `str_case_cmp (a, b) <= 0`: the keys compared as `intptr_t` -/
def swLe (a b : SwEntry) : Bool := a.key ≤ b.key

/-- `str_case_cmp (a, b) < 0` (what qSort asks) -/
def swLt (a b : SwEntry) : Bool := a.key < b.key

/-- patch_in on one table: indices become the addresses of the re-created strings, then
    `quickSort (&p[start], (break_addr - start) / SWITCH_CASE_SIZE, SWITCH_CASE_SIZE, str_case_cmp)` -/
def patchInTable (strings : List Int) (es : List SwEntry) : Option (List SwEntry) := do
  let es' ← es.mapM (fun e =>
    if e.key = -1 then some { e with key := 0 }
    else if e.key < 0 then none
    else (strings[e.key.toNat]?).map (fun p => { e with key := p }))
  quickSortL swLt es'

/-! ## (a) the staleness decision -/

structure BinFile where
  magic : String
  driverId : Nat
  configId : Nat
  includes : List String       -- the include list without its '!' entries: the files that were read
  absent : List String := []   -- the '!' entries: files an #include looked for first and did not find
  name : String
  inherits : List String       -- names as written: "dir/file.c"
  intact : Bool := true        -- the trailing checksum matches the bytes before it
  deriving Repr, BEq, DecidableEq, Inhabited

/-- "<SaveBinaryDir>/<name>" with the last character replaced by 'b' -/
def stdBinOf (binDir : String) (name : String) : String :=
  binDir ++ "/" ++ (name.dropEnd 1).toString ++ "b"

/-- object name of a source name ("a/b.c" ↦ "a/b") -/
def stdObjOf (name : String) : String :=
  if name.endsWith ".c" then (name.dropEnd 2).toString else name

/-- what `inherited_program_newer` reads from a loaded program: the files named in its line number information
    (its source and every file it included) and the names of the programs it inherits -/
structure LoadedProg where
  files : List String
  inherits : List String
  gen : Nat := 0                          -- which program block this is (a new number for every load of the name)
  loadTime : Nat := 0                     -- `ob->load_time` of the object that owns it
  linked : List (String × Nat) := []      -- `prog->inherit[i].prog`: name and block number of every inherited program
  deriving Repr, BEq, DecidableEq, Inhabited

structure World where
  files : List (String × Nat) := []       -- path relative to the mudlib ↦ st_mtime (sources, includes, binaries)
  bins : List (String × BinFile) := []    -- binary path ↦ what the decision reads from it
  loaded : List String := []              -- names of loaded objects ("dir/file")
  progs : List (String × LoadedProg) := []  -- program name ("dir/file.c") ↦ the program in memory
  configId : Nat := 0                     -- config_id as sampled when the simul_efun object was loaded
  simulPath : String := ""                -- simul_efun_path ("" = none configured)
  binOf : String → String := stdBinOf "c17bin"   -- source name ↦ path of its binary (SaveBinaryDir = /c17bin)
  objOf : String → String := stdObjOf            -- source name ↦ object name

instance : Inhabited World := ⟨{}⟩

def World.mtime (w : World) (path : String) : Option Nat := w.files.lookup path

/-- `check_times (mtime, nm)`: -1 the file does not exist, 0 it is newer than `mtime`, 1 otherwise -/
def checkTimes (w : World) (mtime : Nat) (nm : String) : Int :=
  match w.mtime nm with
  | none => -1
  | some t => if (if Gen.C17.checkTimesStrict then t > mtime else t ≥ mtime) then 0 else 1

def binPath (w : World) (name : String) : String := w.binOf name

def objName (w : World) (name : String) : String := w.objOf name

inductive Decision where
  | use
  | stale (why : String)
  | needs (inh : String)
  deriving Repr, BEq, DecidableEq

/-- `inherited_program_newer (mtime, prog)`: a file the program was built from, its saved binary, or the same for a
    program it inherits, is newer than `mtime`.  The recursion of the C code follows program pointers (a finite acyclic
    graph); the model follows names with fuel, and running out of fuel or meeting a name without a program counts as
    "newer" (the binary is then not used), so a `false` answer always comes from a completed walk. -/
def treeNewer (w : World) (mtime : Nat) : Nat → String → Bool
  | 0, _ => true
  | fuel + 1, name =>
    match w.progs.lookup name with
    | none => true
    | some lp =>
      lp.files.any (fun f => checkTimes w mtime f == 0) || checkTimes w mtime (binPath w name) == 0 ||
        lp.inherits.any (fun p => treeNewer w mtime fuel p)

/-- more than the driver's inherit chain limit -/
def treeFuel : Nat := 64

/-- the loop over the inherit names in load_binary -/
def checkInherits (w : World) (mtime : Nat) : List String → Decision
  | [] => .use
  | inh :: rest =>
    if checkTimes w mtime inh ≤ 0 ∨ checkTimes w mtime (binPath w inh) = 0 then .stale "inherited"
    else if !(w.loaded.contains (objName w inh)) then .needs inh
    else if treeNewer w mtime treeFuel inh then .stale "behind-inherited"
    else checkInherits w mtime rest

/-- `inherited_program_outdated (prog)` for the program block number `g` of `name` that an heir is linked with: it is
    no longer the program of the loaded object of that name (`find_object_by_name` fails or `ob->prog != prog`), one of
    the files it was built from was modified after the object was loaded (`check_times (ob->load_time, file) == 0`),
    or the same holds for a program it inherits.  Fuel as in `treeNewer`: out of fuel counts as outdated. -/
def progOutdated (w : World) : Nat → String → Nat → Bool
  | 0, _, _ => true
  | fuel + 1, name, g =>
    match w.progs.lookup name with
    | none => true
    | some lp =>
      !(w.loaded.contains (objName w name)) || lp.gen != g ||
        lp.files.any (fun f => checkTimes w lp.loadTime f == 0) ||
        lp.linked.any (fun pg => progOutdated w fuel pg.1 pg.2)

/-- the test at the head of `save_binary`: no inherited program is outdated -/
def saveAllowed (w : World) (linked : List (String × Nat)) : Bool :=
  !(linked.any (fun pg => progOutdated w treeFuel pg.1 pg.2))

def magicId : String := Gen.C17.magicId
def driverId : Nat := Gen.C17.driverId

/-- `load_binary (name)`, in the order of the code -/
def loadBinary (w : World) (name : String) : Decision :=
  match w.mtime (binPath w name), w.bins.lookup (binPath w name) with
  | some mtime, some b =>
    if !b.intact then .stale "damaged"
    else if checkTimes w mtime name ≤ 0 then .stale "source"
    else if b.magic ≠ magicId then .stale "magic"
    else if b.driverId ≠ driverId then .stale "driver"
    else if b.configId ≠ w.configId then .stale "config"
    else if w.simulPath ≠ "" ∧ checkTimes w mtime w.simulPath = 0 then .stale "simul"
    else if b.includes.any (fun i => checkTimes w mtime i ≤ 0) then .stale "include"
    else if b.absent.any (fun f => checkTimes w mtime f ≠ -1) then .stale "shadowed"
    else if b.name.length > 0 ∧ b.name ≠ name then .stale "name"
    else checkInherits w mtime b.inherits
  | _, _ => .stale "nobinary"

/-- `inc_open` (lib/lpc/lex.c) for one #include directive: the candidates in search order (the file next to the
    including file, then `<include dir>/<name>` for every include directory); the first one that exists is opened, and
    — when it was not the first candidate — every candidate tried before it is noted as missing
    (`add_program_missing_file`: a '!' entry in the include list of the binary) -/
def incOpen (w : World) : List String → Option (String × List String)
  | [] => none
  | c :: rest =>
    if (w.mtime c).isSome then some (c, [])
    else (incOpen w rest).map (fun r => (r.1, c :: r.2))

/-- the include list as the binary stores it: '!' entries are the files that were looked for and missing -/
def readIncludes (l : List String) : List String := l.filter (fun i => !(i.startsWith "!"))
def missingIncludes (l : List String) : List String :=
  (l.filter (fun i => i.startsWith "!")).map (fun i => (i.drop 1).toString)

/-- what the generator declares about a program: what a compile records -/
structure ProgDecl where
  name : String                -- "dir/file.c"
  save : Bool                  -- #pragma save_binary
  refuse : Bool := false       -- the master's valid_save_binary() refuses this program
  includes : List String
  inherits : List String
  deriving Repr, BEq, Inhabited

inductive Ev where
  | lb (name : String) (d : Decision)
  | sv (name : String) (t : Nat) (includes : List String)
  | svSkipped (name : String)      -- `#pragma save_binary` in force, but save_binary() returned without writing
  | loadfail (name : String)
  deriving Repr, BEq, DecidableEq

structure Sys where
  w : World := {}
  decls : List ProgDecl := []
  vnow : Nat := 1000           -- clock of the files the driver writes
  ctime : Nat := 0             -- `current_time`: the load time of objects loaded now
  gens : Nat := 0              -- program blocks created so far
  evs : List Ev := []          -- newest first
  deriving Inhabited

def Sys.decl (s : Sys) (name : String) : Option ProgDecl := s.decls.find? (·.name == name)

/-- the end of a compile (`epilog`): with `#pragma save_binary` in force `save_binary` is called, which writes the binary
    (current `config_id`, modification time = now) unless the master refuses (`valid_save_binary`) or an inherited program
    is outdated -/
def saveStep (s : Sys) (d : ProgDecl) (linked : List (String × Nat)) : Sys :=
  if !d.save then s
  else if d.refuse || !(saveAllowed s.w linked) then { s with evs := Ev.svSkipped d.name :: s.evs }
  else
    let bp := binPath s.w d.name
    let b : BinFile := { magic := magicId, driverId := driverId, configId := s.w.configId,
                         includes := readIncludes d.includes, absent := missingIncludes d.includes,
                         name := d.name, inherits := d.inherits }
    { s with w := { s.w with files := (bp, s.vnow) :: s.w.files.filter (·.1 != bp),
                             bins := (bp, b) :: s.w.bins.filter (·.1 != bp) },
             vnow := s.vnow + 1, evs := Ev.sv d.name s.vnow d.includes :: s.evs }

/-- the object exists now: a new program block, linked with the blocks of the inherited programs as loaded -/
def enterProgram (s : Sys) (name : String) (d : ProgDecl) (linked : List (String × Nat)) : Sys :=
  let lp : LoadedProg := { files := name :: readIncludes d.includes, inherits := d.inherits, gen := s.gens + 1,
                           loadTime := s.ctime,
                           linked := linked }
  { s with gens := s.gens + 1,
           w := { s.w with loaded := objName s.w name :: s.w.loaded,
                           progs := (name, lp) :: s.w.progs.filter (·.1 != name) } }

/-- `prog->inherit[i].prog` for a program compiled or loaded now -/
def linkNow (w : World) (inherits : List String) : List (String × Nat) :=
  inherits.map (fun p => (p, ((w.progs.lookup p).map (·.gen)).getD 0))

/-- `load_object (name)`: try the binary; otherwise compile, which aborts at the first inherit that is not loaded;
    in both cases the inherit is loaded and everything starts again.  `useBin = false`: binaries are neither read nor
    written (the harness's reference compile of the current sources). -/
def loadObject (s : Sys) (name : String) (useBin : Bool := true) : Nat → Sys × Bool
  | 0 => (s, false)
  | fuel + 1 =>
    match s.w.mtime name, s.decl name with
    | some _, some d =>
      let dec := if useBin then loadBinary s.w name else .stale "disabled"
      let s := if useBin then { s with evs := Ev.lb name dec :: s.evs } else s
      let retryWith (s : Sys) (inh : String) : Sys × Bool :=
        let (s, ok) := loadObject s inh useBin fuel
        if !ok then (s, false)
        else if s.w.loaded.contains (objName s.w name) then (s, true)
        else loadObject s name useBin fuel
      match dec with
      | .use => (enterProgram s name d (linkNow s.w d.inherits), true)
      | .needs inh => retryWith s inh
      | .stale _ =>
        match d.inherits.find? (fun i => !(s.w.loaded.contains (objName s.w i))) with
        | some inh => retryWith s inh
        | none =>
          let linked := linkNow s.w d.inherits
          let s := if useBin then saveStep s d linked else s
          (enterProgram s name d linked, true)
    | _, _ => ({ s with evs := Ev.loadfail name :: s.evs }, false)

/-- the mudlib-relative name of the configured simul_efun file (leading slashes dropped, ".c" optional) -/
def simulPathOf (simulFile : String) : String :=
  let nm := (simulFile.dropWhile (· == '/')).toString
  if nm.endsWith ".c" then nm else nm ++ ".c"

/-- `binaries_simul_efun_loaded ()` (start-up and every (re)load of the simul_efun object):
    config_id = st_mtime of the simul_efun file (0 when it cannot be stat'ed) -/
def sampleConfigId (w : World) (simulFile : String) : World :=
  let nm := simulPathOf simulFile
  { w with configId := (w.mtime nm).getD 0, simulPath := nm }

/-! ## (e) the patch list: which switches `save_binary` will convert -/

/-- what the code generator sees while it compiles one file, in order -/
inductive GenEv where
  | pragmaSaveBinary (on : Bool)            -- `#pragma save_binary` / `#pragma no_save_binary`
  | stringSwitch (site : Nat)               -- NODE_SWITCH_STRINGS generated; F_SWITCH at program offset `site`
  | otherSwitch (site : Nat)                -- NODE_SWITCH_NUMBERS / _DIRECT / _RANGES
  deriving Repr, BEq, DecidableEq

/-- `i_generate_node`: `if (expr->kind == NODE_SWITCH_STRINGS) add_to_mem_block (A_PATCH, &sw, sizeof sw)` — for every
    string switch, whatever the pragma state at that moment -/
def genPatches : List GenEv → List Nat
  | [] => []
  | .stringSwitch site :: rest => site :: genPatches rest
  | _ :: rest => genPatches rest

/-- the F_SWITCH instructions with string tables in the generated program -/
def stringSwitchSites : List GenEv → List Nat
  | [] => []
  | .stringSwitch site :: rest => site :: stringSwitchSites rest
  | _ :: rest => stringSwitchSites rest

/-- `epilog`: the program is saved iff `pragmas & PRAGMA_SAVE_BINARY` at the END of the file -/
def savedAtEnd (evs : List GenEv) : Bool :=
  evs.foldl (fun st e => match e with | .pragmaSaveBinary on => on | _ => st) false

end NV.C17
