/-
C17 — executable model of lib/misc/qsort.c (`quickSort` / `qSort` / `doSwap`), the sorting routine that
`sort_function_table` and `patch_in` (lib/lpc/program/binaries.c) call.

  static void qSort (void *v, int left, int right, int size, int rightmost, int (*compar) (void *, void *)) {
    int i, last, szleft;
    if ((left >= right) || (left < 0) || (right > rightmost) || (right < 0)) return;
    szleft = size * left;
    doSwap (v + szleft, v + size * ((left + right) / 2), size);
    last = left;
    for (i = left + 1; i <= right; i++)
      if ((*compar) (v + size * i, v + szleft) < 0)
        doSwap (v + size * ++last, v + size * i, size);
    doSwap (v + szleft, v + size * last, size);
    qSort (v, left, last - 1, size, rightmost, compar);
    qSort (v, last + 1, right, size, rightmost, compar);
  }
  void quickSort (void *a, int nmemb, int size, int (*compar) (void *, void *)) {
    if (nmemb < 2) return;
    qSort (a, 0, nmemb - 1, size, nmemb - 1, compar);
  }

The array is a Lean `Array` of elements (one element = `size` bytes; `doSwap` exchanges two whole elements, and for
`one == two` leaves the element as it is); every access is bounds-checked and `none` is the crash outcome (the C code
would touch memory outside the block).  Indices are `Nat`: the only place where the C `int` can go below zero is
`last - 1` with `last = 0`, where the callee returns at once because `left >= right` — exactly what the truncated
subtraction gives (`left = 0 >= 0`).  The recursion depth is bounded by fuel; running out of fuel is `none`, and
`qSort_spec` shows it never happens with the fuel `quickSort` supplies.  `lt x y` stands for `compar (&x, &y) < 0`.
Core Lean only (linked into nvdrive).
-/
namespace NV.C17

variable {α : Type}

/-- `doSwap (v + size*i, v + size*j, size)` -/
def swapAt (a : Array α) (i j : Nat) : Option (Array α) :=
  if h : i < a.size ∧ j < a.size then some (a.swap i j h.1 h.2) else none

/-- the loop `for (i = left + 1; i <= right; i++) if (compar (v[i], v[left]) < 0) doSwap (v[++last], v[i])`;
    first argument: iterations still to run -/
def partLoop (lt : α → α → Bool) (left : Nat) : Nat → Nat → Nat → Array α → Option (Array α × Nat)
  | 0, _, last, a => some (a, last)
  | n + 1, i, last, a =>
    match a[i]?, a[left]? with
    | some x, some p =>
      if lt x p then
        match swapAt a (last + 1) i with
        | some a' => partLoop lt left n (i + 1) (last + 1) a'
        | none => none
      else partLoop lt left n (i + 1) last a
    | _, _ => none

/-- `qSort (v, left, right, size, rightmost, compar)` -/
def qSort (lt : α → α → Bool) : Nat → Array α → Nat → Nat → Nat → Option (Array α)
  | 0, a, left, right, rm => if left ≥ right ∨ right > rm then some a else none
  | f + 1, a, left, right, rm =>
    if left ≥ right ∨ right > rm then some a
    else
      match swapAt a left ((left + right) / 2) with
      | none => none
      | some a1 =>
        match partLoop lt left (right - left) (left + 1) left a1 with
        | none => none
        | some (a2, last) =>
          match swapAt a2 left last with
          | none => none
          | some a3 =>
            match qSort lt f a3 left (last - 1) rm with
            | none => none
            | some a4 => qSort lt f a4 (last + 1) right rm

/-- `quickSort (a, nmemb, size, compar)` -/
def quickSort (lt : α → α → Bool) (a : Array α) : Option (Array α) :=
  if a.size < 2 then some a else qSort lt a.size a 0 (a.size - 1) (a.size - 1)

/-- the same on lists (the model's tables are lists) -/
def quickSortL (lt : α → α → Bool) (l : List α) : Option (List α) :=
  (quickSort lt l.toArray).map Array.toList

end NV.C17
