/-
C17 — helper lemmas: the invariant of the swap loop of sort_function_table, the inverse-table loop, the remap loop.
-/
import NV.C17.Model

namespace NV.C17

variable {α : Type}

/-! ### the swap loop -/

/-- invariant before iteration `i`: positions below `i` are final; on the rest `sorttmp` ("where is the entry that
    belongs at k") and `invtmp` ("where does the entry at j belong") are mutually inverse bijections of [i, n) -/
structure SwapInv (n : Nat) (T0 : Nat → α) (σ : Nat → Nat) (i : Nat) (s : SwapSt α) : Prop where
  szT : s.tab.size = n
  szS : s.sorttmp.size = n
  szV : s.invtmp.size = n
  done : ∀ k, k < i → s.tab.get k = T0 (σ k)
  fwd : ∀ k, i ≤ k → k < n →
    i ≤ s.sorttmp.get k ∧ s.sorttmp.get k < n ∧ s.tab.get (s.sorttmp.get k) = T0 (σ k) ∧
      s.invtmp.get (s.sorttmp.get k) = k
  bwd : ∀ j, i ≤ j → j < n →
    i ≤ s.invtmp.get j ∧ s.invtmp.get j < n ∧ s.sorttmp.get (s.invtmp.get j) = j

theorem swapStep_inv {n : Nat} {T0 : Nat → α} {σ : Nat → Nat} {i : Nat} {s : SwapSt α}
    (h : SwapInv n T0 σ i s) (hi : i < n) :
    ∃ s', swapStep s i = some s' ∧ SwapInv n T0 σ (i + 1) s' := by
  obtain ⟨szT, szS, szV, hdone, hfwd, hbwd⟩ := h
  obtain ⟨f1, f2, f3, f4⟩ := hfwd i (Nat.le_refl i) hi
  obtain ⟨b1, b2, b3⟩ := hbwd i (Nat.le_refl i) hi
  by_cases hw : i = s.sorttmp.get i
  · -- already in the right spot
    refine ⟨s, ?_, ?_⟩
    · simp [swapStep, Arr.read, szS, hi, ← hw]
    · refine ⟨szT, szS, szV, ?_, ?_, ?_⟩
      · intro k hk
        by_cases hk' : k < i
        · exact hdone k hk'
        · have : k = i := by omega
          subst this
          rw [← hw] at f3
          exact f3
      · intro k hk hkn
        obtain ⟨g1, g2, g3, g4⟩ := hfwd k (by omega) hkn
        refine ⟨?_, g2, g3, g4⟩
        have : s.sorttmp.get k ≠ i := by
          intro hc
          rw [hc] at g4
          rw [← hw] at f4
          omega
        omega
      · intro j hj hjn
        obtain ⟨g1, g2, g3⟩ := hbwd j (by omega) hjn
        refine ⟨?_, g2, g3⟩
        have : s.invtmp.get j ≠ i := by
          intro hc
          rw [hc] at g3
          omega
        omega
  · -- swap positions i and wh
    have hwn : s.sorttmp.get i < n := f2
    have hwi : i < s.sorttmp.get i := by omega
    have hii : i < s.invtmp.get i := by
      have : s.invtmp.get i ≠ i := by
        intro hc
        rw [hc] at b3
        exact hw b3.symm
      omega
    let wh := s.sorttmp.get i
    let ii := s.invtmp.get i
    refine ⟨⟨(s.tab.set i (s.tab.get wh)).set wh (s.tab.get i), s.sorttmp.set ii wh, s.invtmp.set wh ii⟩, ?_, ?_⟩
    · simp [swapStep, Arr.read, Arr.write, Arr.set, szS, szT, szV, hi, hw, hwn, b2, wh, ii]
    · refine ⟨by simpa [Arr.set] using szT, by simpa [Arr.set] using szS, by simpa [Arr.set] using szV, ?_, ?_, ?_⟩
      · intro k hk
        by_cases hk' : k < i
        · have h1 : k ≠ wh := by omega
          have h2 : k ≠ i := by omega
          simp [Arr.set, h1, h2]
          exact hdone k hk'
        · have : k = i := by omega
          subst this
          have h1 : k ≠ wh := by omega
          simp [Arr.set, h1]
          exact f3
      · intro k hk hkn
        obtain ⟨g1, g2, g3, g4⟩ := hfwd k (by omega) hkn
        by_cases hkii : k = ii
        · subst hkii
          simp only [Arr.set, if_true]
          refine ⟨by omega, hwn, ?_, trivial⟩
          -- the entry that was at i belongs at ii
          rw [b3] at g3
          exact g3
        · have hne_i : s.sorttmp.get k ≠ i := by
            intro hc
            rw [hc] at g4
            exact hkii g4.symm
          have hne_w : s.sorttmp.get k ≠ wh := by
            intro hc
            rw [hc] at g4
            rw [f4] at g4
            omega
          simp only [Arr.set, hkii, if_false, hne_w, hne_i]
          exact ⟨by omega, g2, g3, g4⟩
      · intro j hj hjn
        obtain ⟨g1, g2, g3⟩ := hbwd j (by omega) hjn
        by_cases hjw : j = wh
        · subst hjw
          simp only [Arr.set, if_true]
          exact ⟨by omega, b2, trivial⟩
        · have hne_i : s.invtmp.get j ≠ i := by
            intro hc
            rw [hc] at g3
            exact hjw g3.symm
          have hne_ii : s.invtmp.get j ≠ ii := by
            intro hc
            rw [hc] at g3
            rw [b3] at g3
            omega
          simp only [Arr.set, hjw, if_false, hne_ii]
          exact ⟨by omega, g2, g3⟩

theorem swapFrom_inv {n : Nat} {T0 : Nat → α} {σ : Nat → Nat} :
    ∀ (fuel i : Nat) (s : SwapSt α), SwapInv n T0 σ i s → i + fuel ≤ n →
      ∃ s', swapFrom s i fuel = some s' ∧ SwapInv n T0 σ (i + fuel) s' := by
  intro fuel
  induction fuel with
  | zero => intro i s h _; exact ⟨s, rfl, h⟩
  | succ f ih =>
    intro i s h hle
    obtain ⟨s1, e1, h1⟩ := swapStep_inv h (by omega)
    obtain ⟨s2, e2, h2⟩ := ih (i + 1) s1 h1 (by omega)
    refine ⟨s2, ?_, ?_⟩
    · simp [swapFrom, e1, e2]
    · have : i + (f + 1) = i + 1 + f := by omega
      rw [this]
      exact h2

/-- after n-1 iterations the last position is right as well -/
theorem swapInv_final {n : Nat} {T0 : Nat → α} {σ : Nat → Nat} {s : SwapSt α}
    (h : SwapInv n T0 σ (n - 1) s) : ∀ k, k < n → s.tab.get k = T0 (σ k) := by
  intro k hk
  by_cases hk' : k < n - 1
  · exact h.done k hk'
  · have hkn : k = n - 1 := by omega
    obtain ⟨g1, g2, g3, _⟩ := h.fwd k (by omega) hk
    have : s.sorttmp.get k = k := by omega
    rw [this] at g3
    exact g3

/-! ### the inverse table -/

theorem inverseLoop_spec (temp : Arr Nat) (n : Nat) (hn : temp.size = n)
    (hr : ∀ i, i < n → temp.get i < n)
    (hinj : ∀ i j, i < n → j < n → temp.get i = temp.get j → i = j) :
    ∀ k, k ≤ n → ∃ inv, inverseLoop temp k ⟨n, fun _ => 0⟩ = some inv ∧ inv.size = n ∧
      ∀ i, i < k → inv.get (temp.get i) = i := by
  intro k
  induction k with
  | zero => intro _; exact ⟨_, rfl, rfl, by intro i hi; omega⟩
  | succ k ih =>
    intro hk
    obtain ⟨inv, e, hs, hv⟩ := ih (by omega)
    refine ⟨inv.set (temp.get k) k, ?_, by simpa [Arr.set] using hs, ?_⟩
    · have h1 : k < temp.size := by omega
      have h2 : temp.get k < inv.size := by rw [hs]; exact hr k (by omega)
      simp [inverseLoop, e, Arr.read, Arr.write, h1, h2]
    · intro i hi
      by_cases hik : i = k
      · subst hik; simp [Arr.set]
      · have : temp.get i ≠ temp.get k := by
          intro hc
          exact hik (hinj i k (by omega) (by omega) hc)
        simp only [Arr.set, this, if_false]
        exact hv i (by omega)

/-! ### the remap loop -/

theorem remapSlots_spec (inverse : Arr Nat) (n : Nat) (hinv : inverse.size = n) :
    ∀ (slots : List Nat) (o : Arr Nat), slots.Nodup → (∀ s, s ∈ slots → s < o.size ∧ o.get s < n) →
      ∃ o', remapSlots inverse slots o = some o' ∧ o'.size = o.size ∧
        (∀ s, s ∈ slots → o'.get s = inverse.get (o.get s)) ∧ (∀ s, s ∉ slots → o'.get s = o.get s) := by
  intro slots
  induction slots with
  | nil => intro o _ _; exact ⟨o, rfl, rfl, fun s hs => (by cases hs), fun s _ => rfl⟩
  | cons a rest ih =>
    intro o hnd hb
    have hnd' := List.nodup_cons.mp hnd
    obtain ⟨ha1, ha2⟩ := hb a (by simp)
    have hb' : ∀ s, s ∈ rest → s < (o.set a (inverse.get (o.get a))).size ∧
        (o.set a (inverse.get (o.get a))).get s < n := by
      intro s hs
      have hne : s ≠ a := by intro hc; subst hc; exact hnd'.1 hs
      obtain ⟨x1, x2⟩ := hb s (by simp [hs])
      simp only [Arr.set, hne, if_false]
      exact ⟨x1, x2⟩
    obtain ⟨o', e, hs, h1, h2⟩ := ih (o.set a (inverse.get (o.get a))) hnd'.2 hb'
    refine ⟨o', ?_, by simpa [Arr.set] using hs, ?_, ?_⟩
    · have : o.get a < inverse.size := by omega
      simp [remapSlots, Arr.read, Arr.write, ha1, this, e]
    · intro s hs'
      rcases List.mem_cons.mp hs' with hsa | hsr
      · subst hsa
        rw [h2 s hnd'.1]
        simp [Arr.set]
      · have hne : s ≠ a := by intro hc; subst hc; exact hnd'.1 hsr
        rw [h1 s hsr]
        simp [Arr.set, hne]
    · intro s hs'
      have hne : s ≠ a := by intro hc; subst hc; exact hs' (by simp)
      have hnr : s ∉ rest := by intro hc; exact hs' (by simp [hc])
      rw [h2 s hnr]
      simp [Arr.set, hne]

end NV.C17
