/-
C17 driver.  Case lines (shared with harness/c17/c17.c):

  unit style   usort k=.. h=.. fl=.. of=.. fd=.. fo=.. nc=.. nd=.. ix=.. ts=..     real sort_function_table
               ureloc size=.. f=<13 offsets>                                        real locate_out / locate_in
               upatch pad=.. sp=<addresses> sw=<idx:addr,..>;<..>                   real patch_in
               utimes <binary mtime> <file mtime|none> <path>                       real check_times
               uqsort sz=<4|8|10> m=<domain> v=<values> c=<m*m of - 0 +>            real quickSort (lib/misc/qsort.c)
  system style clean <dir> | file <path> <hex> | mtime <path> <t> | now <t> | intern <hex>.. |
               prog <name.c> save=<0|1> inc=<a,b|-> inh=<a.c,b.c|->  (what a compile of the program records) |
               restart <family>.. | calls <fn[:arg..]>.. | reload <top> <family>..

`model` mode: the case lines, then `--`, then the implementation's trace.  The model predicts every decision line
(lb / sv / restarted) from the modification times alone, and the structural dump and call results of every program that
was loaded from its binary from the dump of that program's last fresh compile (model of sort_function_table and
patch_in applied to the real tables; the new address order of names and strings is taken from the implementation's
dump).  Dumps of fresh compiles are inputs (the compiler is not modelled) and are echoed.
`judge` mode: the specification oracle of Spec.lean.
-/
import NV.Common.Proto
import NV.C17.Model
import NV.C17.Spec
import NV.C17.BinFile

namespace NV.C17

open NV.Proto

def showCsv (l : List String) : String := if l.isEmpty then "-" else ",".intercalate l

/-! ### unit commands -/

def runUsort (ts : List String) : List String :=
  let k := csvNat (kv ts "k")
  let h := (kv ts "h").toInt?.getD (-1)
  let table : List CF := (List.range k.length).map (fun i => ⟨k.getD i 0, (i : Int) == h, toString i⟩)
  let tsl := csvNat (kv ts "ts")
  let p : FunTabs CF Nat :=
    { table := table, flags := csvNat (kv ts "fl"), offs := csvNat (kv ts "of"),
      ct := { firstDefined := (kv ts "fd").toNat?.getD 0, firstOverload := (kv ts "fo").toNat?.getD 0,
              numCompressed := (kv ts "nc").toNat?.getD 0, numDeleted := (kv ts "nd").toNat?.getD 0,
              index := csvNat (kv ts "ix") },
      typeStart := if tsl.isEmpty then none else some tsl }
  match sortFunctionTable cfLt p with
  | none => ["crash sanitizer"]
  | some o =>
    [s!"ft {showCsv (o.table.map (·.tag))}", s!"of {showCsv (o.offs.map toString)}",
     s!"ts {showCsv ((o.typeStart.getD []).map toString)}"]

def runUreloc (ts : List String) : List String :=
  let f := csvNat (kv ts "f")
  let size := (kv ts "size").toNat?.getD 0
  if f.length != 13 then ["badcmd"] else
  let b1 : BitVec 64 := 0x100000
  let b2 : BitVec 64 := 0x900000
  let ptr (i : Nat) : BitVec 64 := if f.getD i 0 == 0 then 0 else b1 + BitVec.ofNat 64 (f.getD i 0)
  let p : ProgPtrs := ⟨ptr 0, ptr 1, ptr 2, ptr 3, ptr 4, ptr 5, ptr 6, ptr 7, ptr 8, ptr 9, ptr 10, ptr 11, ptr 12⟩
  let back := locateIn b1 (locateOut b1 p)
  let q := locateIn b2 (locateOut b1 p)
  let cls (v : BitVec 64) : String :=
    if v == 0 then "null"
    else
      let off := (v - b2).toNat
      if off < size then toString off else "wild"
  (if back == p then [] else ["reloc-not-restored"]) ++ [s!"reloc {",".intercalate (q.fields.map cls)}"]

def parseEnts (s : String) : List SwEntry :=
  (csv s).filterMap (fun e => match e.splitOn ":" with
    | [i, a] => do some ⟨← i.toInt?, ← a.toNat?⟩
    | _ => none)

def runUpatch (ts : List String) : List String :=
  let sp := csvInt (kv ts "sp")
  let tables := ((kv ts "sw").splitOn ";").map parseEnts
  let pad := (kv ts "pad").toNat?.getD 0
  -- program layout of the harness: switch k at pad + 8k
  let outs := (List.range tables.length).map (fun k =>
    let at' := pad + 8 * k
    -- as coded now: the patch offset is read as an unsigned short; the opcode test always passes for F_SWITCH
    -- the patch entry is the low 16 bits of the offset, read back through the cast found in the source
    if !(patchApplies Gen.C17.fSwitch (((tables.getD k []).length.log2) * 16 + 15)) || at' ≥ 65536
        || readPatchOffset Gen.C17.patchInOffsetCast (at' % 65536) != (at' : Int) then none
    else
      match patchInTable sp (tables.getD k []) with
      | none => none
      | some es =>
        let idxOf (p : Int) : Int := if p == 0 then -1 else ((indexOfPtr sp p).map (fun i => (i : Int))).getD (-2)
        some s!"sw {k} {showCsv (es.map (fun e => s!"{idxOf e.key}:{e.addr}"))}")
  if outs.all Option.isSome then outs.filterMap id else ["crash sanitizer"]

/-- `uqsort`: the model of qsort.c on elements (value, original position) with the comparison table of the case -/
def runUqsort (ts : List String) : List String :=
  let v := csvNat (kv ts "v")
  let m := (kv ts "m").toNat?.getD 1
  let sz := (kv ts "sz").toNat?.getD 4
  let c := (kv ts "c").toList
  let lt (x y : Nat × Nat) : Bool := c.getD (x.1 * m + y.1) '0' == '-'
  let els : List (Nat × Nat) := (List.range v.length).map (fun i => (v.getD i 0, i))
  match quickSortL lt els with
  | none => ["crash sanitizer"]
  | some out =>
    [s!"qs {showCsv (out.map (fun e => if sz > 4 then s!"{e.1}:{e.2}" else toString e.1))}"]

def runUtimes (ts : List String) : List String :=
  match ts with
  | [b, f, p] =>
    let w : World := { files := match f.toNat? with | some t => [(stripSlash p, t)] | none => [] }
    [s!"times {checkTimes w (b.toNat?.getD 0) (stripSlash p)}"]
  | _ => ["badcmd"]

/-! ### system commands -/

structure MState where
  sys : Sys := {}
  blocks : List (List String) := []          -- the implementation's reload blocks still to come
  binLines : List String := []               -- the implementation's `bin <obj> <hex>` lines still to come
  noBin : Bool := false                      -- inside a reference compile (`reloadf`)
  fresh : List (String × List (List String)) := []    -- tag ↦ D lines (tokens after "D tag") of the last fresh compile
  freshR : List (String × List String) := []
  rno : Nat := 0
  reasons : List String := []                -- why every load_binary call of the model answered as it did
  cleaned : Bool := false                    -- the case removed its directory first (replays are self-contained)
  out : List String := []                    -- newest first
  bad : List String := []
  deriving Inhabited

def MState.emit (m : MState) (l : String) : MState := { m with out := l :: m.out }

def showDecision : Decision → String
  | .use => "use"
  | .stale _ => "stale"
  | .needs i => s!"needs {i}"

def showEv : Ev → Option String
  | .lb n d => some s!"lb {n} {showDecision d}"
  | .sv n t inc => some s!"sv {n} {t} inc={showCsv inc}"
  | .svSkipped n => some s!"sv {n} notwritten"
  | .loadfail _ => none

def splitBlocks (trace : List String) : List (List String) :=
  let rec go (ls : List String) (cur : Option (List String)) (acc : List (List String)) : List (List String) :=
    match ls with
    | [] => acc.reverse
    | l :: rest =>
      match cur with
      | none => if l.startsWith "begin " then go rest (some []) acc else go rest none acc
      | some b => if l.startsWith "end " then go rest none (b.reverse :: acc) else go rest (some (l :: b)) acc
  go trace none []

def dLinesOf (blk : List String) (tag : String) : List (List String) :=
  blk.filterMap (fun l => match toks l with
    | "D" :: t :: rest => if t == tag then some rest else none
    | _ => none)

/-- predicted dump of a program loaded from its binary: `f` = lines of its last fresh compile, `b` = the
    implementation's lines of this load (only the address ranks are read from them) -/
def predictDump (f b : List (List String)) : Option (List (List String)) := do
  let fd : Dump := { lines := f }
  let bd : Dump := { lines := b }
  let newRank (name : String) : Nat :=
    (((bd.cfs.find? (fun (c : CfLine) => c.name == name)).map (fun (c : CfLine) => c.rank)).getD 0).toNat
  let hasTs := ((fd.kind "hdr").headD []).contains "ts=1"
  let fcf := fd.cfs
  let table : List CF := fcf.map (fun c => ⟨newRank c.name, c.name.startsWith (String.singleton Gen.C17.lastNameChar), c.name⟩)
  -- payload of the parallel array: "<ts> <args>" are the last two tokens of rest
  let tsOf (c : CfLine) : String := " ".intercalate ((c.rest.splitOn " ").drop 3)
  let headOf (c : CfLine) : String := " ".intercalate ((c.rest.splitOn " ").take 3)
  let roToks := csv (((fd.kind "ro").headD []).headD "-")
  let offs := roToks.map (fun s => ((s.splitOn ":").getD 2 "").toNat?.getD 0)
  let ctl := (fd.kind "ct").headD []
  let ct : CT := { firstDefined := (ctl.getD 0 "").toNat?.getD 0, firstOverload := (ctl.getD 1 "").toNat?.getD 0,
                   numCompressed := (ctl.getD 2 "").toNat?.getD 0, numDeleted := (ctl.getD 3 "").toNat?.getD 0,
                   index := csvNat (ctl.getD 4 "-") }
  let p : FunTabs CF String :=
    { table := table, flags := csvNat (((fd.kind "fl").headD []).headD "-"), offs := offs, ct := ct,
      typeStart := if hasTs then some (fcf.map tsOf) else none }
  let o ← sortFunctionTable cfLt p
  let tsNew : List String := match o.typeStart with
    | some l => l
    | none => fcf.map tsOf       -- no type_start array: "-1 -" for every function, order irrelevant
  let cfNew : List (List String) := (List.range o.table.length).map (fun i =>
    let name := (o.table.getD i default).tag
    let c := (fcf.find? (·.name == name)).getD default
    ["cf", toString i, name, toString (newRank name)] ++ (headOf c).splitOn " " ++ (tsNew.getD i "").splitOn " ")
  let roNew : List String :=
    ["ro", showCsv ((List.range roToks.length).map (fun i =>
      let parts := (roToks.getD i "").splitOn ":"
      s!"{parts.getD 0 ""}:{parts.getD 1 ""}:{o.offs.getD i 0}"))]
  -- switch tables: what patch_out wrote (indices) goes through patch_in with the new address order
  let swNew (l : List String) : Option (List String) := do
    let s ← parseSw l
    let bs ← ((bd.kind "sw").filterMap parseSw).find? (·.head == s.head)
    let rankOf (idx : Int) : Int := ((bs.ents.find? (·.1 == idx)).map (·.2.2)).getD 0
    let maxIdx := (s.ents.map (fun e => e.1.toNat)).foldl max 0
    -- strings[idx] = an address with the rank the implementation reports (+1: address 0 is the `case 0` label)
    let strings : List Int := (List.range (maxIdx + 1)).map (fun (i : Nat) =>
      if s.ents.any (fun e => e.1 == (i : Int)) then rankOf (i : Int) + 1 else 1000000 + (i : Int))
    let es ← patchInTable strings (s.ents.map (fun e => ⟨e.1, e.2.1⟩))
    let idxOf (p : Int) : Int := if p == 0 then -1 else ((indexOfPtr strings p).map (fun i => (i : Int))).getD (-2)
    pure (["sw"] ++ s.head.splitOn " " ++
          [showCsv (es.map (fun e => s!"{idxOf e.key}:{e.addr}:{rankOf (idxOf e.key)}"))])
  let rec build (ls : List (List String)) (cfi : Nat) (acc : List (List String)) (fuel : Nat) :
      Option (List (List String)) :=
    match fuel, ls with
    | 0, _ => some acc.reverse
    | _, [] => some acc.reverse
    | fuel + 1, l :: rest =>
      match l.head? with
      | some "cf" => build rest (cfi + 1) ((cfNew.getD cfi []) :: acc) fuel
      | some "ro" => build rest cfi (roNew :: acc) fuel
      | some "sw" =>
        match swNew (l.drop 1) with
        | some n => build rest cfi (n :: acc) fuel
        | none => none
      | _ => build rest cfi (l :: acc) fuel
  build f 0 [] (f.length + 1)

def famNames (ts : List String) : List String := ts

def sysLine (m : MState) (line : String) : MState :=
  match toks line with
  | [] => m
  | "clean" :: _ => { m with cleaned := true }
  | "intern" :: _ => m
  | "calls" :: _ => m
  | ["file", p, _] =>
    let p := stripSlash p
    { m with sys := { m.sys with w := { m.sys.w with files := (p, 2000000000) :: m.sys.w.files.filter (·.1 != p) } } }
  | ["mtime", p, t] =>
    let q := stripSlash p
    match m.sys.w.mtime q, t.toNat? with
    | some _, some t =>
      { m with sys := { m.sys with w := { m.sys.w with files := (q, t) :: m.sys.w.files.filter (·.1 != q) } } }
    | _, _ => m.emit s!"mtime-error {p}"
  | ["now", t] =>
    -- the clock of the files the driver writes, and `current_time` (which never moves backwards)
    let v := t.toNat?.getD m.sys.vnow
    { m with sys := { m.sys with vnow := v, ctime := max m.sys.ctime v } }
  | "prog" :: name :: rest =>
    let d : ProgDecl := { name := name, save := kv rest "save" == "1", refuse := kv rest "refuse" == "1",
                          includes := csv (kv rest "inc"),
                          inherits := csv (kv rest "inh") }
    { m with sys := { m.sys with decls := d :: m.sys.decls.filter (·.name != name) } }
  | "restart" :: fam =>
    let w := m.sys.w
    let w := { w with loaded := w.loaded.filter (fun o => !(fam.contains o)) }
    let w := sampleConfigId w "/simul_efun.c"
    ({ m with sys := { m.sys with w := w } }).emit s!"restarted {w.configId}"
  | "expect" :: _ => m
  | "incsearch" :: _ => m
  | ["bindump", obj] =>
    -- the bytes of the saved binary are data (what the compiler produced is not modelled); the model reads them with its
    -- own decoder and states what the file holds
    let mine := m.binLines.takeWhile (fun l => l.startsWith s!"bin {obj} ")
    let m := { m with binLines := m.binLines.drop mine.length }
    if mine.isEmpty then
      let has := (m.sys.w.bins.lookup (binPath m.sys.w (obj ++ ".c"))).isSome && m.sys.w.loaded.contains obj
      m.emit (if has then s!"bindump-file-missing {obj}" else s!"bindump {obj} unavailable")
    else
      let m := mine.foldl MState.emit m
      let hex := String.join (mine.map (fun l => ((toks l).getD 2 "")))
      m.emit (binSummary obj (unhexBytes hex))
  | ["badload", name] =>
    ((m.emit s!"lb {name}.c stale").emit s!"err *Error in loading object '/{name}':").emit s!"badload {name} failed"
  | ["foreign", name, what] =>
    let bp := binPath m.sys.w name
    match m.sys.w.bins.lookup bp with
    | some b =>
      let b' := if what == "magic" then { b with magic := "?" ++ b.magic }
                else if what == "driver" then { b with driverId := b.driverId + 1 }
                else { b with configId := b.configId + 1 }
      ({ m with sys := { m.sys with w := { m.sys.w with
          bins := (bp, b') :: m.sys.w.bins.filter (·.1 != bp) } } }).emit s!"foreign {name} {what}"
    | none => m.emit s!"foreign-nofile {name}"
  | ["copybin", src, dst] =>
    let bs := binPath m.sys.w src
    let bd := binPath m.sys.w dst
    match m.sys.w.bins.lookup bs, m.sys.w.mtime bs with
    | some b, some t =>
      ({ m with sys := { m.sys with w := { m.sys.w with
          bins := (bd, b) :: m.sys.w.bins.filter (·.1 != bd),
          files := (bd, t) :: m.sys.w.files.filter (·.1 != bd) } } }).emit s!"copybin {src} {dst}"
    | _, _ => m.emit s!"copybin-nofile {src}"
  | "corrupt" :: name :: _ =>
    -- the file is damaged (truncated or a byte changed), its mtime kept: the checksum no longer matches
    let bp := binPath m.sys.w name
    match m.sys.w.bins.lookup bp with
    | some b =>
      ({ m with sys := { m.sys with w := { m.sys.w with
          bins := (bp, { b with intact := false }) :: m.sys.w.bins.filter (·.1 != bp) } } }).emit s!"corrupted {name}"
    | none => m.emit s!"corrupt-nofile {name}"
  | "reload" :: top :: fam =>
    if !m.cleaned then m.emit "badcase reload-before-clean" else
    -- the programs named after a `|` stay loaded as they are (they are only dumped)
    let kept := (fam.dropWhile (· != "|")).drop 1
    let fam := top :: fam.takeWhile (· != "|")
    let rno := m.rno + 1
    let blk := m.blocks.headD []
    let m := { m with rno := rno, blocks := m.blocks.drop 1 }
    let m := m.emit s!"begin {rno}"
    let w := m.sys.w
    let sys0 := { m.sys with w := { w with loaded := w.loaded.filter (fun o => !(fam.contains o)) }, evs := [] }
    let (sys1, ok) := loadObject sys0 (top ++ ".c") (!m.noBin) 64
    let evs := sys1.evs.reverse
    let m := (evs.filterMap showEv).foldl MState.emit m
    let m := { m with reasons := m.reasons ++ evs.filterMap (fun e => match e with
      | .lb _ .use => some "use"
      | .lb _ (.needs _) => some "needs-inherit"
      | .lb _ (.stale why) => some s!"stale:{why}"
      | .sv _ _ _ => some "save"
      | .svSkipped _ => some "save-skipped:outdated-parent"
      | _ => none) }
    let m := if ok then m else m.emit s!"loadfail {top}"
    let usedBin (tag : String) : Bool := evs.any (fun e => e == Ev.lb (tag ++ ".c") .use)
    -- dumps, in the order of the family list (duplicates of top removed)
    let fam' := (fam ++ kept).eraseDups
    let m := fam'.foldl (fun m tag =>
      if !(sys1.w.loaded.contains tag) then m
      else
        let b := dLinesOf blk tag
        if usedBin tag then
          match m.fresh.lookup tag with
          | some f =>
            match predictDump f b with
            | some ls => ls.foldl (fun m l => m.emit s!"D {tag} {" ".intercalate l}") m
            | none => m.emit s!"model-crash {tag}"
          | none => m.emit s!"model-no-fresh-dump {tag}"
        else
          let m := { m with fresh := (tag, b) :: m.fresh.filter (·.1 != tag) }
          b.foldl (fun m l => m.emit s!"D {tag} {" ".intercalate l}") m) m
    let rl := blk.filter (·.startsWith "R ")
    let m :=
      if !ok then m
      else if fam.eraseDups.all (fun tag => !(sys1.w.loaded.contains tag) || usedBin tag) then
        -- nothing was compiled: every call answers as after the last compile
        ((m.freshR.lookup top).getD ["model-no-fresh-calls"]).foldl MState.emit m
      else
        let m := { m with freshR := (top, rl) :: m.freshR.filter (·.1 != top) }
        rl.foldl MState.emit m
    let m := m.emit s!"end {rno}"
    { m with sys := { sys1 with evs := [] } }
  | "usort" :: rest => (runUsort rest).foldl MState.emit m
  | "ureloc" :: rest => (runUreloc rest).foldl MState.emit m
  | "upatch" :: rest => (runUpatch rest).foldl MState.emit m
  | "uqsort" :: rest => (runUqsort rest).foldl MState.emit m
  | "utimes" :: rest => (runUtimes rest).foldl MState.emit m
  | _ => if line.startsWith "#" then m else m.emit s!"badcmd {line}"

def runModel (body : List String) : List String :=
  let (caseLines, trace) := splitJudge body
  let m0 : MState := { blocks := splitBlocks trace, binLines := trace.filter (·.startsWith "bin "),
                       sys := { w := { files := [("simul_efun.c", 2000000000)] } } }
  -- a crash of the model's own prediction stops the case like the sanitizer stops the driver
  -- `reloadp` is `reload` in a new process: the same decisions
  let norm (l : String) : String := if l.startsWith "reloadp " then "reload " ++ (l.drop 8).toString else l
  -- `reloadf`: the reference compile in a process of its own, binaries neither read nor written: the model's state is
  -- the same afterwards, but the dumps and call results become the "last fresh compile" the next binary load is
  -- predicted from — what the CURRENT sources compile to
  let step (m : MState) (l : String) : MState :=
    if l.startsWith "reloadf " then
      let m' := sysLine { m with noBin := true } ("reload " ++ (l.drop 8).toString)
      { m' with sys := m.sys, noBin := false }
    else sysLine m (norm l)
  let m := caseLines.foldl (fun m l => if m.out.head? == some "crash sanitizer" then m else step m l) m0
  m.out.reverse

/-- branch histogram of the decision model (used by the evidence, not by the check) -/
def runReasons (body : List String) : List String :=
  let (caseLines, trace) := splitJudge body
  let m0 : MState := { blocks := splitBlocks trace, binLines := trace.filter (·.startsWith "bin "),
                       sys := { w := { files := [("simul_efun.c", 2000000000)] } } }
  let norm (l : String) : String := if l.startsWith "reloadp " then "reload " ++ (l.drop 8).toString else l
  (caseLines.foldl (fun m l => if l.startsWith "reloadf " then
      { m with rno := m.rno + 1, blocks := m.blocks.drop 1 } else sysLine m (norm l)) m0).reasons

def runJudge (body : List String) : List String :=
  let (caseLines, impl) := splitJudge body
  match judge caseLines impl with
  | [] => ["ok"]
  | vs => vs.map (fun v => s!"bad {v}")

def main (mode : String) : IO Unit :=
  match mode with
  | "model" => serve runModel
  | "judge" => serve runJudge
  | "reasons" => serve runReasons
  | _ => IO.eprintln s!"C17: unknown mode {mode}"

end NV.C17
