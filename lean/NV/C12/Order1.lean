/-
C12 — the clause `overtaken` (round robin across aborted iterations) on traces WITHOUT aborted iterations, and the top
theorem for script oracles that never raise an uncaught error.

* `order_of_struct` (oracle only): on any trace without `abort` events that the structure oracle accepts, the order
  oracle finds nothing - inside a completed iteration "served again while somebody waits" would be a second command of
  one user in one cycle (`twice`).
* `NoErr sc`: no script contains the op `err`; then no iteration of the model is aborted (`events_noAbort`).
* `model_satisfies_spec_noerr`: `judgeEv (events sc cs) = []` for every history with plain bytes and every such `sc`.
For script oracles with `err` the clause is checked on every implementation trace, not proved for the model
(`judgeEv_events_eq_order`, Live4.lean).
-/
import NV.C12.Live4

namespace NV.C12

def Ev.isAbort : Ev → Bool
  | .abort _ => true
  | _ => false

/-! ### oracle only: structure oracle and order oracle side by side -/

theorem struct_bad_mono (s : SState) (e : Ev) (h : (structStep s e).bad = []) : s.bad = [] := by
  cases e with
  | begin n => simp only [structStep] at h; split at h <;> simp_all
  | cmd u t =>
    simp only [structStep] at h
    split at h
    · simp at h
    · split at h
      · simp at h
      · exact h
  | endc n m l => simp only [structStep] at h; split at h <;> simp_all
  | abort n => simp only [structStep] at h; split at h <;> simp_all
  | crash w => simp [structStep] at h
  | other l => simp [structStep] at h
  | _ => exact h

theorem struct_fold_bad_mono (l : List Ev) (s : SState) (h : (l.foldl structStep s).bad = []) : s.bad = [] := by
  induction l generalizing s with
  | nil => exact h
  | cons e r ih => exact struct_bad_mono s e (ih _ h)

/-- invariant tying the two oracles together on traces without aborted iterations -/
structure OInv (ss : SState) (os : OState) : Prop where
  obad : os.bad = []
  idle : ss.cyc = none → ∀ v, (os.us.get v).waiting = false
  passed : ∀ v, (os.us.get v).waiting = true → ∀ u ∈ (os.us.get v).passed, u ∈ ss.served
  noid : ∀ v, v ∉ os.ids → (os.us.get v).waiting = false

theorem obegin_get (s : OState) (n x : Nat) :
    (orderStep s (.begin n)).us.get x = if x ∈ s.ids then obeginU (s.us.get x) else s.us.get x :=
  foldl_upd_get (fun u => obeginU (s.us.get u)) s.ids s.us x

theorem ocmd_get (s : OState) (u : Nat) (t : List Char) (x : Nat) :
    (orderStep s (.cmd u t)).us.get x = if x ∈ s.ids then ocmdU u t x (s.us.get x) else s.us.get x :=
  foldl_upd_get (fun v => ocmdU u t v (s.us.get v)) s.ids s.us x

theorem oendc_get (s : OState) (n m : Nat) (l : List (Nat × Nat × Nat)) (x : Nat) :
    (orderStep s (.endc n m l)).us.get x = if x ∈ s.ids then oendU (s.us.get x) else s.us.get x :=
  foldl_upd_get (fun u => oendU (s.us.get u)) s.ids s.us x

theorem obeginU_fresh (j : OU) (hj : j.waiting = false) (hw : (obeginU j).waiting = true) : (obeginU j).passed = [] := by
  unfold obeginU at hw ⊢
  split
  · simp only [hj, Bool.false_eq_true, if_false]
  · rfl

theorem ocmdU_passed (u : Nat) (t : List Char) (v : Nat) (j : OU) (x : Nat) (hw : (ocmdU u t v j).waiting = true)
    (hx : x ∈ (ocmdU u t v j).passed) : j.waiting = true ∧ (x = u ∨ x ∈ j.passed) := by
  unfold ocmdU at hw hx
  split at hw
  · cases hw
  · rename_i hne
    simp only [hne, if_false] at hx
    split at hw
    · rename_i hwj
      simp only [hwj, if_true] at hx
      exact ⟨hwj, List.mem_cons.mp hx⟩
    · rename_i hwj
      exact absurd hw hwj

/-- one step, given that the structure oracle adds no verdict and the event is no `abort` -/
theorem OInv_step (ss : SState) (os : OState) (e : Ev) (h : OInv ss os) (hs : (structStep ss e).bad = [])
    (ha : e.isAbort = false) : OInv (structStep ss e) (orderStep os e) := by
  have hsb : ss.bad = [] := struct_bad_mono ss e hs
  cases e with
  | abort n => cases ha
  | begin n =>
    have hcyc : ss.cyc = none := by
      simp only [structStep] at hs
      cases hc : ss.cyc with
      | none => rfl
      | some k => simp [hc] at hs
    have hidle := h.idle hcyc
    refine ⟨h.obad, fun hc => by simp [structStep] at hc, ?_, ?_⟩
    · intro v hw u hu
      rw [obegin_get] at hw hu
      split at hw
      · rename_i hm
        simp only [hm, if_true] at hu
        rw [obeginU_fresh _ (hidle v) hw] at hu
        cases hu
      · rw [hidle v] at hw; cases hw
    · intro v hv
      rw [obegin_get]
      have hv' : v ∉ os.ids := hv
      simp only [hv', if_false]
      exact h.noid v hv'
  | cmd u t =>
    have hcs : ss.cyc.isSome = true ∧ u ∉ ss.served := by
      simp only [structStep] at hs
      constructor
      · cases hc : ss.cyc with
        | none => simp [hc] at hs; split at hs <;> simp at hs
        | some k => rfl
      · intro hm
        simp [hm] at hs
    have hvict : os.ids.filter (fun v => v != u && (os.us.get v).waiting && oLive (os.us.get v) &&
        (os.us.get v).passed.contains u) = [] := by
      rw [List.filter_eq_nil_iff]
      intro v _ hc
      simp only [Bool.and_eq_true] at hc
      obtain ⟨⟨⟨_, hw⟩, _⟩, hp⟩ := hc
      exact hcs.2 (h.passed v hw u (by simpa using hp))
    refine ⟨?_, ?_, ?_, ?_⟩
    · show (List.map _ (List.filter _ os.ids).reverse ++ os.bad) = []
      rw [hvict, h.obad]; rfl
    · intro hc
      have : (structStep ss (.cmd u t)).cyc = ss.cyc := rfl
      rw [this] at hc
      rw [hc] at hcs; cases hcs.1
    · intro v hw x hx
      have hsv : (structStep ss (.cmd u t)).served = u :: ss.served := rfl
      rw [hsv]
      rw [ocmd_get] at hw hx
      split at hw
      · rename_i hm
        simp only [hm, if_true] at hx
        obtain ⟨hwj, hxx⟩ := ocmdU_passed u t v _ x hw hx
        rcases hxx with hxx | hxx
        · rw [hxx]; exact List.mem_cons_self
        · exact List.mem_cons_of_mem _ (h.passed v hwj x hxx)
      · rename_i hni
        simp only [hni, if_false] at hx
        exact List.mem_cons_of_mem _ (h.passed v hw x hx)
    · intro v hv
      have hv' : v ∉ os.ids := hv
      rw [ocmd_get]
      simp only [hv', if_false]
      exact h.noid v hv'
  | endc n m l =>
    refine ⟨h.obad, ?_, ?_, ?_⟩
    · intro _ v
      rw [oendc_get]
      split
      · rfl
      · rename_i hni; exact h.noid v hni
    · intro v hw
      rw [oendc_get] at hw
      split at hw
      · cases hw
      · rename_i hni; rw [h.noid v hni] at hw; cases hw
    · intro v hv
      have hv' : v ∉ os.ids := hv
      rw [oendc_get]
      simp only [hv', if_false]
      exact h.noid v hv'
  | logon u =>
    refine ⟨h.obad, ?_, ?_, ?_⟩
    · intro hc v
      simp only [orderStep, get_upd]
      split
      · rfl
      · exact h.idle hc v
    · intro v hw x hx
      simp only [orderStep, get_upd] at hw hx
      split at hw
      · cases hw
      · rename_i hne
        simp only [hne, if_false] at hx
        exact h.passed v hw x hx
    · intro v hv
      have hv' : v ∉ u :: os.ids := hv
      simp only [List.mem_cons, not_or] at hv'
      simp only [orderStep, get_upd, hv'.1, if_false]
      exact h.noid v hv'.2
  | send u d =>
    refine ⟨h.obad, ?_, ?_, ?_⟩
    · intro hc v
      simp only [orderStep, get_upd]
      split
      · rename_i hvu; subst hvu; exact h.idle hc v
      · exact h.idle hc v
    · intro v hw x hx
      simp only [orderStep, get_upd] at hw hx
      split at hw
      · rename_i hvu; subst hvu
        simp only [if_true] at hx
        exact h.passed v hw x hx
      · rename_i hne
        simp only [hne, if_false] at hx
        exact h.passed v hw x hx
    · intro v hv
      simp only [orderStep, get_upd]
      split
      · rename_i hvu; subst hvu; exact h.noid v hv
      · exact h.noid v hv
  | close u =>
    refine ⟨h.obad, ?_, ?_, ?_⟩
    · intro hc v
      simp only [orderStep, get_upd]
      split
      · rename_i hvu; subst hvu; exact h.idle hc v
      · exact h.idle hc v
    · intro v hw x hx
      simp only [orderStep, get_upd] at hw hx
      split at hw
      · rename_i hvu; subst hvu
        simp only [if_true] at hx
        exact h.passed v hw x hx
      · rename_i hne
        simp only [hne, if_false] at hx
        exact h.passed v hw x hx
    · intro v hv
      simp only [orderStep, get_upd]
      split
      · rename_i hvu; subst hvu; exact h.noid v hv
      · exact h.noid v hv
  | kick a t ok =>
    cases ok with
    | false => exact ⟨h.obad, h.idle, h.passed, h.noid⟩
    | true =>
      refine ⟨h.obad, ?_, ?_, ?_⟩
      · intro hc v
        simp only [orderStep, get_upd]
        split
        · rename_i hvu; subst hvu; exact h.idle hc v
        · exact h.idle hc v
      · intro v hw x hx
        simp only [orderStep, get_upd] at hw hx
        split at hw
        · rename_i hvu; subst hvu
          simp only [if_true] at hx
          exact h.passed v hw x hx
        · rename_i hne
          simp only [hne, if_false] at hx
          exact h.passed v hw x hx
      · intro v hv
        simp only [orderStep, get_upd]
        split
        · rename_i hvu; subst hvu; exact h.noid v hv
        · exact h.noid v hv
  | drop a t ok =>
    cases ok with
    | false => exact ⟨h.obad, h.idle, h.passed, h.noid⟩
    | true =>
      refine ⟨h.obad, ?_, ?_, ?_⟩
      · intro hc v
        simp only [orderStep, get_upd]
        split
        · rename_i hvu; subst hvu; exact h.idle hc v
        · exact h.idle hc v
      · intro v hw x hx
        simp only [orderStep, get_upd] at hw hx
        split at hw
        · rename_i hvu; subst hvu
          simp only [if_true] at hx
          exact h.passed v hw x hx
        · rename_i hne
          simp only [hne, if_false] at hx
          exact h.passed v hw x hx
      · intro v hv
        simp only [orderStep, get_upd]
        split
        · rename_i hvu; subst hvu; exact h.noid v hv
        · exact h.noid v hv
  | gc u r =>
    cases r with
    | false => exact ⟨h.obad, h.idle, h.passed, h.noid⟩
    | true =>
      refine ⟨h.obad, ?_, ?_, ?_⟩
      · intro hc v
        simp only [orderStep, get_upd]
        split
        · rename_i hvu; subst hvu; exact h.idle hc v
        · exact h.idle hc v
      · intro v hw x hx
        simp only [orderStep, get_upd] at hw hx
        split at hw
        · rename_i hvu; subst hvu
          simp only [if_true] at hx
          exact h.passed v hw x hx
        · rename_i hne
          simp only [hne, if_false] at hx
          exact h.passed v hw x hx
      · intro v hv
        simp only [orderStep, get_upd]
        split
        · rename_i hvu; subst hvu; exact h.noid v hv
        · exact h.noid v hv
  | crash w => simp [structStep] at hs
  | other l => simp [structStep] at hs
  | conn u => exact ⟨h.obad, h.idle, h.passed, h.noid⟩
  | poll n b => exact ⟨h.obad, h.idle, h.passed, h.noid⟩
  | ecmd u t => exact ⟨h.obad, h.idle, h.passed, h.noid⟩
  | force a t x ok => exact ⟨h.obad, h.idle, h.passed, h.noid⟩
  | it u r => exact ⟨h.obad, h.idle, h.passed, h.noid⟩
  | err u => exact ⟨h.obad, h.idle, h.passed, h.noid⟩
  | exec u r => exact ⟨h.obad, h.idle, h.passed, h.noid⟩

theorem OInv_fold (l : List Ev) (ss : SState) (os : OState) (h : OInv ss os)
    (hs : (l.foldl structStep ss).bad = []) (ha : ∀ e ∈ l, Ev.isAbort e = false) :
    OInv (l.foldl structStep ss) (l.foldl orderStep os) := by
  induction l generalizing ss os with
  | nil => exact h
  | cons e r ih =>
    rw [List.foldl_cons] at hs ⊢
    rw [List.foldl_cons]
    have h1 : (structStep ss e).bad = [] := struct_fold_bad_mono r _ hs
    exact ih _ _ (OInv_step ss os e h h1 (ha e List.mem_cons_self)) hs
      (fun x hx => ha x (List.mem_cons_of_mem _ hx))

/-- **oracle-level**: on a trace without aborted iterations that the structure oracle accepts (cycles bracketed,
    at most one buffered command per user and cycle), nobody is overtaken -/
theorem order_of_struct (tr : List Ev) (hs : judgeStruct tr = []) (ha : ∀ e ∈ tr, Ev.isAbort e = false) :
    judgeOrder tr = [] := by
  unfold judgeStruct at hs
  unfold judgeOrder
  have hb : (tr.foldl structStep {}).bad = [] := by simpa using hs
  have h0 : OInv {} {} := ⟨rfl, fun _ _ => rfl, (fun v hw => by cases hw), fun _ _ => rfl⟩
  rw [(OInv_fold tr {} {} h0 hb ha).obad]
  rfl

/-! ### script oracles that never throw -/

/-- no script contains the op `err` -/
def NoErr (sc : Scripts) : Prop := ∀ u t, Op.err ∉ sc u t

theorem setCall_thrown (w : World) (me : Nat) (single : Bool) : (setCall w me single).1.thrown = w.thrown := by
  unfold setCall; dsimp only; split <;> rfl

theorem runOps_noerr (sc : Scripts) (hn : NoErr sc) (f : Nat) (w : World) (me : Nat) (ops : List Op)
    (ho : Op.err ∉ ops) : (runOps sc f w me ops).1.thrown = w.thrown := by
  induction f generalizing w me ops with
  | zero => simp [runOps]
  | succ f ih =>
    cases ops with
    | nil => simp [runOps]
    | cons op rest =>
      have hrest : Op.err ∉ rest := fun h => ho (List.mem_cons_of_mem _ h)
      have hop : ∀ (w1 : World) (e1 : List Ev), w1.thrown = w.thrown →
          (if w1.thrown then (w1, e1) else if w1.alive me then ((runOps sc f w1 me rest).1, e1 ++ (runOps sc f w1 me rest).2) else (w1, e1)).1.thrown = w.thrown := by
        intro w1 e1 he
        split
        · exact he
        split
        · exact (ih w1 me rest hrest).trans he
        · exact he
      unfold runOps
      cases op with
      | kick t => apply hop; split <;> rfl
      | drop t => apply hop; split <;> rfl
      | ecmd t text =>
        dsimp only
        split
        · apply hop; exact ih w t (sc t text) (hn t text)
        · apply hop; rfl
      | gc => apply hop; exact setCall_thrown w me true
      | it => apply hop; exact setCall_thrown w me false
      | err => exact absurd List.mem_cons_self ho
      | exec => apply hop; rfl

theorem scan_thrown (n : Nat) (w : World) : (scan n w).1.thrown = w.thrown := (scan_WLe n w).1.2

theorem puc_noerr (sc : Scripts) (hn : NoErr sc) (w : World) : (processUserCommand sc w).1.thrown = w.thrown := by
  have hg := (getUserCommand_WLe w).1.2
  unfold processUserCommand
  split
  · rfl
  · cases hgc : getUserCommand w with
    | mk w1 r =>
      rw [hgc] at hg
      cases r with
      | none => exact hg
      | some p =>
        obtain ⟨u, t⟩ := p
        dsimp only at hg ⊢
        rw [runOps_noerr sc hn scriptFuel _ u (sc u t) (hn u t)]
        split <;> exact hg

theorem cmdLoop_noerr (sc : Scripts) (hn : NoErr sc) (k : Nat) (w : World) : (cmdLoop sc k w).1.thrown = w.thrown := by
  induction k generalizing w with
  | zero => rfl
  | succ k ih =>
    have hp := puc_noerr sc hn w
    unfold cmdLoop
    cases hc : processUserCommand sc w with
    | mk w1 r =>
      obtain ⟨e1, b⟩ := r
      rw [hc] at hp
      dsimp only at hp
      cases b with
      | false => exact hp
      | true => dsimp only; exact (ih w1).trans hp

theorem cycleStep_noerr (sc : Scripts) (hn : NoErr sc) (w : World) (ht : w.thrown = false) :
    (cycleStep sc w).1.thrown = false ∧ ∀ e ∈ (cycleStep sc w).2, Ev.isAbort e = false := by
  have hthr : (cycleStep sc w).1.thrown = false := by
    rw [cycleStep_world', cmdLoop_noerr sc hn, (cmdPhase_WLe w).2]; exact ht
  refine ⟨hthr, ?_⟩
  have hloop := cmdLoop_inLoop sc (NV.Gen.C12.loopCalls (connectedUsers w) w.maxUsers)
    (processIO { w with cycle := w.cycle + 1, users := grantAll w.users w.slots }).1
  rw [cycleStep_world'] at hthr
  unfold cycleStep
  dsimp only
  intro e he
  simp only [List.mem_append, List.mem_cons, List.mem_nil_iff, or_false] at he
  rcases he with ((he | he) | he) | he
  · rcases he with he | he <;> subst he <;> rfl
  · unfold processIO at he
    dsimp only at he
    split at he
    · simp at he; subst he; rfl
    · simp at he
  · have := hloop e he
    cases e <;> simp_all [Ev.inLoop, Ev.isAbort]
  · split at he
    · simp at he; subst he; rfl
    · rw [hthr] at he
      simp at he; subst he; rfl

theorem cycleRun_noerr (sc : Scripts) (hn : NoErr sc) (f : Nat) (w : World) (ht : w.thrown = false) :
    (cycleRun sc f w).1.thrown = false ∧ ∀ e ∈ (cycleRun sc f w).2, Ev.isAbort e = false := by
  cases f with
  | zero => exact ⟨ht, fun e he => by simp [cycleRun] at he; subst he; rfl⟩
  | succ f =>
    obtain ⟨h1, h2⟩ := cycleStep_noerr sc hn w ht
    unfold cycleRun
    cases hc : cycleStep sc w with
    | mk w1 e1 =>
      rw [hc] at h1 h2
      dsimp only at h1 h2 ⊢
      rw [h1]
      simp only [Bool.false_eq_true, if_false]
      exact ⟨h1, h2⟩

theorem step_noerr (sc : Scripts) (hn : NoErr sc) (w : World) (c : Cmd) (ht : w.thrown = false) :
    (step sc w c).1.thrown = false ∧ ∀ e ∈ (step sc w c).2, Ev.isAbort e = false := by
  unfold step
  split
  · exact ⟨ht, fun e he => by cases he⟩
  · cases c with
    | cycle => exact cycleRun_noerr sc hn _ w ht
    | conn => exact ⟨ht, fun e he => by simp at he; subst he; rfl⟩
    | send u d =>
      dsimp only
      split
      · exact ⟨ht, fun e he => by simp at he; subst he; rfl⟩
      · exact ⟨ht, fun e he => by cases he⟩
    | close u =>
      dsimp only
      split
      · refine ⟨ht, fun e he => ?_⟩
        dsimp only at he
        split at he
        · simp at he; subst he; rfl
        · cases he
      · exact ⟨ht, fun e he => by cases he⟩

theorem run_noerr (sc : Scripts) (hn : NoErr sc) (cs : List Cmd) (w : World) (ht : w.thrown = false) :
    ∀ e ∈ (run sc w cs).2, Ev.isAbort e = false := by
  induction cs generalizing w with
  | nil => intro e he; cases he
  | cons c r ih =>
    obtain ⟨h1, h2⟩ := step_noerr sc hn w c ht
    intro e he
    simp only [run, List.mem_append] at he
    rcases he with he | he
    · exact h2 e he
    · exact ih _ h1 e he

/-- **top theorem for script oracles that never raise an uncaught error** (the complete scope of the earlier rounds:
    kicks, drops, get_char / input_to, nested command() calls): for every history with plain bytes the specification
    oracle - all five clause oracles - accepts the trace of the model -/
theorem model_satisfies_spec_noerr (sc : Scripts) (hn : NoErr sc) (cs : List Cmd) (hp : plainCmds cs = true)
    (hno : (run sc {} cs).1.overflow = false) :
    judgeEv (events sc cs) = [] := by
  rw [judgeEv_events_eq_order sc cs hp hno]
  exact order_of_struct _ (judgeStruct_events sc cs) (run_noerr sc hn cs {} rfl)

end NV.C12
