/-
C12 — lemmas for completeness of the command phase: the rotating scan visits every slot, commands of other users
never take away a waiting user's eligibility (only removal from the table does), every served command uses up one of
the turns held inside the table.
-/
import NV.C12.Lemmas

namespace NV.C12

/-- user `u` holds a turn and its buffer holds a complete, flagged command -/
def ready (w : World) (u : Nat) : Bool :=
  turnOf w u && ((w.users.get u).cmdInBuf && hasCmd (w.users.get u).single (w.users.get u).buf)

/-- `u` sits in the connection table and is ready: the next scan that reaches its slot serves it -/
def elig (w : World) (u : Nat) : Bool := w.interactive u && ready w u

theorem hasCmd_dropNul (single : Bool) (b : List Char) : hasCmd single (dropNul b) = hasCmd single b := by
  have h : dropNul (dropNul b) = dropNul b := by
    unfold dropNul
    induction b with
    | nil => rfl
    | cons c r ih =>
      by_cases hc : (c == NUL) = true
      · simp only [List.dropWhile_cons, hc, if_true]; exact ih
      · simp [List.dropWhile_cons, hc]
  unfold hasCmd firstCmd
  simp only [h]

theorem firstCmd_fst (single : Bool) (b : List Char) (t : List Char) (h : (firstCmd single b).2 = some t) :
    (firstCmd single b).1 = dropNul b := by
  unfold firstCmd at h ⊢
  dsimp only at h ⊢
  split
  · rename_i h0; rw [if_pos h0] at h; cases h
  · split
    · rfl
    · split
      · rfl
      · rfl

/-! ### one iteration of the scan and readiness -/

theorem scanStep_next_ready (w w' : World) (h : scanStep w = .next w') :
    (∀ x, ready w' x = ready w x) ∧ ∀ u, w.slots[w.cursor]? = some (some u) → ready w u = false := by
  unfold scanStep at h
  split at h
  · cases h
  · rename_i hs
    cases h
    exact ⟨fun _ => rfl, fun u hu => by rw [hs] at hu; cases hu⟩
  · rename_i u hs
    dsimp only at h
    split at h
    · rename_i hcib
      split at h
      · rename_i t ht
        split at h
        · cases h
        · rename_i hturn
          cases h
          have hru : ready w u = false := by simp [ready, turnOf, hturn]
          refine ⟨?_, fun u' hu' => by rw [hs] at hu'; cases hu'; exact hru⟩
          intro x
          by_cases hx : x = u
          · subst hx; rw [hru]; simp [ready, turnOf, hturn]
          · simp [ready, turnOf, hx]
      · rename_i hnone
        cases h
        have hru : ready w u = false := by simp [ready, hasCmd, hnone]
        refine ⟨?_, fun u' hu' => by rw [hs] at hu'; cases hu'; exact hru⟩
        intro x
        by_cases hx : x = u
        · subst hx; rw [hru]; simp [ready]
        · simp [ready, turnOf, hx]
    · rename_i hcib
      cases h
      refine ⟨fun _ => rfl, fun u' hu' => ?_⟩
      rw [hs] at hu'; cases hu'
      simp [ready, hcib]

theorem scanStep_found_ready (w w' : World) (u : Nat) (t : List Char) (h : scanStep w = .found w' u t) :
    w.slots[w.cursor]? = some (some u) ∧ (∀ x, x ≠ u → w'.users.get x = w.users.get x) := by
  unfold scanStep at h
  split at h
  · cases h
  · cases h
  · rename_i v hs
    dsimp only at h
    split at h
    · split at h
      · split at h
        · cases h
          exact ⟨hs, fun x hx => by simp [hx]⟩
        · cases h
      · cases h
    · cases h

/-- the slot visited `t` steps after the cursor stood at `c` (decrementing, wrapping to `len - 1`) -/
def idx (len c t : Nat) : Nat := if t ≤ c then c - t else len + c - t

theorem idx_succ (len c t : Nat) (hc : c < len) (ht : t + 1 ≤ len) :
    idx len (if c = 0 then len - 1 else c - 1) t = idx len c (t + 1) := by
  unfold idx
  split <;> split <;> split <;> omega

theorem idx_cover (len c j : Nat) (hc : c < len) (hj : j < len) : ∃ t, t < len ∧ idx len c t = j := by
  refine ⟨if j ≤ c then c - j else len + c - j, ?_, ?_⟩
  · split <;> omega
  · unfold idx; split <;> split <;> omega

/-- the scan loop and readiness: nobody's readiness changes except the served user's; when nothing is found, every
    slot visited holds nobody ready -/
theorem scan_ready (n : Nat) (w : World) (hs : Safe w) (hn : n ≤ w.slots.length) :
    (∀ x, (match (scan n w).2 with | some (v, _) => x ≠ v | none => True) → ready (scan n w).1 x = ready w x ∨
        ((scan n w).2.isSome ∧ (scan n w).1.users.get x = w.users.get x)) ∧
    ((scan n w).2 = none → ∀ t, t < n → ∀ u, w.slots[idx w.slots.length w.cursor t]? = some (some u) →
        ready (scan n w).1 u = false) ∧
    (∀ v t, (scan n w).2 = some (v, t) → w.interactive v = true) := by
  induction n generalizing w with
  | zero => simp [scan]
  | succ n ih =>
    have hpos : 0 < w.slots.length := by omega
    have hc : w.cursor < w.slots.length := by
      rcases hs.2 with h | h
      · exact h
      · omega
    unfold scan
    cases hstep : scanStep w with
    | crash =>
      have := scanStep_crash w hstep
      omega
    | found w' u t =>
      obtain ⟨f1, f2⟩ := scanStep_found_ready w w' u t hstep
      dsimp only
      refine ⟨?_, by simp, ?_⟩
      · intro x hx
        right
        exact ⟨rfl, f2 x hx⟩
      · intro v t' he
        simp at he
        rw [← he.1]
        simp only [World.interactive, List.contains_iff_mem]
        exact List.mem_of_getElem? f1
    | next w' =>
      obtain ⟨h1, h2, h3, _⟩ := scanStep_next w w' hstep
      obtain ⟨r1, r2⟩ := scanStep_next_ready w w' hstep
      have hs' : Safe w' := ⟨by rw [h3]; exact hs.1, by rw [h1, h2]; exact hs.2⟩
      have hd : Safe (decCursor w') := decCursor_safe w' hs' (by rw [h1]; exact hpos)
      obtain ⟨i1, i2, i3⟩ := ih (decCursor w') hd (by simp [h1]; omega)
      dsimp only
      have hready_dec : ∀ x, ready (decCursor w') x = ready w x := by
        intro x; rw [← r1 x]; rfl
      refine ⟨?_, ?_, ?_⟩
      · intro x hx
        rcases i1 x hx with h | h
        · left; rw [h]; exact hready_dec x
        · -- the user record of x is untouched by the rest of the scan; readiness as after this step
          cases hres : (scan n (decCursor w')).2 with
          | none => rw [hres] at h; simp at h
          | some p =>
            left
            have : ready (scan n (decCursor w')).1 x = ready (decCursor w') x := by
              simp only [ready, turnOf, h.2]
            rw [this]; exact hready_dec x
      · intro hnone t ht u hu
        cases t with
        | zero =>
          simp only [idx, Nat.zero_le, if_true, Nat.sub_zero] at hu
          have hnr := r2 u hu
          rcases i1 u (by rw [hnone]; trivial) with h | h
          · rw [h, hready_dec]; exact hnr
          · rw [hnone] at h; simp at h
        | succ t =>
          have ht' : t < n := by omega
          apply i2 hnone t ht' u
          simp only [decCursor_slots, h1]
          have : (decCursor w').cursor = (if w.cursor = 0 then w.slots.length - 1 else w.cursor - 1) := by
            simp [decCursor, h1, h2]
          rw [this, idx_succ _ _ _ hc (by omega)]
          exact hu
      · intro v t he
        have := i3 v t he
        simpa [World.interactive, h1] using this


/-! ### get_user_command and readiness -/

theorem getUserCommand_slots (w : World) (hs : Safe w) : (getUserCommand w).1.slots = w.slots := by
  have hn : w.slots.length = 0 ∨ 0 < w.slots.length := by omega
  obtain ⟨s1, _⟩ := scan_spec w.slots.length w hs hn
  unfold getUserCommand
  simp only [scanLength_spec]
  cases hsc : scan w.slots.length w with
  | mk w1 r =>
    rw [hsc] at s1
    cases r with
    | none => exact s1
    | some p => obtain ⟨u, t⟩ := p; exact s1

theorem mem_interactive (w : World) (u : Nat) (h : w.interactive u = true) :
    ∃ j, j < w.slots.length ∧ w.slots[j]? = some (some u) := by
  simp only [World.interactive, List.contains_iff_mem] at h
  obtain ⟨j, hj, he⟩ := List.getElem_of_mem h
  exact ⟨j, hj, by simp [List.getElem?_eq_getElem hj, he]⟩

/-- nothing found: nobody in the table is eligible, and nobody's readiness changed -/
theorem getUserCommand_none (w : World) (hs : Safe w) (h : (getUserCommand w).2 = none) :
    (∀ u, elig (getUserCommand w).1 u = false) ∧ (∀ x, ready (getUserCommand w).1 x = ready w x) := by
  obtain ⟨c1, c2, _⟩ := scan_ready w.slots.length w hs (Nat.le_refl _)
  have hsl := getUserCommand_slots w hs
  unfold getUserCommand at h hsl ⊢
  simp only [scanLength_spec] at h hsl ⊢
  cases hsc : scan w.slots.length w with
  | mk w1 r =>
    rw [hsc] at c1 c2 h hsl
    cases r with
    | some p => obtain ⟨u, t⟩ := p; simp at h
    | none =>
      dsimp only at c1 c2 hsl ⊢
      have hready : ∀ x, ready w1 x = ready w x := by
        intro x
        rcases c1 x trivial with hx | hx
        · exact hx
        · simp at hx
      refine ⟨?_, hready⟩
      intro u
      cases hi : w1.interactive u with
      | false => simp [elig, hi]
      | true =>
        obtain ⟨j, hj, hju⟩ := mem_interactive w1 u hi
        rw [hsl] at hj hju
        have hc : w.cursor < w.slots.length := by
          rcases hs.2 with hh | hh
          · exact hh
          · omega
        obtain ⟨t, ht, hidx⟩ := idx_cover w.slots.length w.cursor j hc hj
        have := c2 rfl t ht u (by rw [hidx]; exact hju)
        simp [elig, this]

/-- somebody found: he sat in the table, everybody else's record is untouched -/
theorem getUserCommand_some (w : World) (hs : Safe w) (v : Nat) (t : List Char)
    (h : (getUserCommand w).2 = some (v, t)) :
    w.interactive v = true ∧ ∀ x, x ≠ v → ready (getUserCommand w).1 x = ready w x := by
  obtain ⟨c1, _, c3⟩ := scan_ready w.slots.length w hs (Nat.le_refl _)
  unfold getUserCommand at h ⊢
  simp only [scanLength_spec] at h ⊢
  cases hsc : scan w.slots.length w with
  | mk w1 r =>
    rw [hsc] at c1 c3 h
    cases r with
    | none => simp at h
    | some p =>
      obtain ⟨u, t'⟩ := p
      dsimp only at c1 c3 h ⊢
      simp at h
      obtain ⟨hu, _⟩ := h
      subst hu
      refine ⟨c3 u t' rfl, ?_⟩
      intro x hx
      have hrec : ready w1 x = ready w x := by
        rcases c1 x hx with hh | hh
        · exact hh
        · simp only [ready, turnOf, hh.2]
      rw [← hrec]
      simp [ready, turnOf, hx]

/-! ### scripts: a generic induction principle -/

/-- any reflexive, transitive relation that holds for the three primitive effects of a script op holds for a script -/
theorem runOps_rel (R : World → World → Prop) (hrefl : ∀ w, R w w) (htrans : ∀ a b c, R a b → R b c → R a c)
    (hkick : ∀ w t, R w { w with slots := removeUser w.slots t, dead := t :: w.dead })
    (hdrop : ∀ w t, R w { w with slots := removeUser w.slots t })
    (hset : ∀ w me s, R w (setCall w me s).1)
    (hthrow : ∀ w, R w { w with thrown := true })
    (sc : Scripts) (f : Nat) (w : World) (me : Nat) (ops : List Op) : R w (runOps sc f w me ops).1 := by
  induction f generalizing w me ops with
  | zero => simp [runOps, hrefl]
  | succ f ih =>
    cases ops with
    | nil => simp [runOps, hrefl]
    | cons op rest =>
      have hop : ∀ (w1 : World) (e1 : List Ev), R w w1 →
          R w (if w1.thrown then (w1, e1) else if w1.alive me then ((runOps sc f w1 me rest).1, e1 ++ (runOps sc f w1 me rest).2) else (w1, e1)).1 := by
        intro w1 e1 hf
        split
        · exact hf
        split
        · exact htrans _ _ _ hf (ih w1 me rest)
        · exact hf
      unfold runOps
      cases op with
      | kick t =>
        apply hop
        split
        · exact hkick w t
        · exact hrefl w
      | drop t =>
        apply hop
        split
        · exact hdrop w t
        · exact hrefl w
      | ecmd t text =>
        dsimp only
        split
        · exact hop _ _ (ih w t (sc t text))
        · exact hop _ _ (hrefl w)
      | gc => exact hop _ _ (hset w me true)
      | it => exact hop _ _ (hset w me false)
      | err => exact hop _ _ (hthrow w)
      | exec => exact hop _ _ (hrefl w)

/-! ### what a script can do to a waiting user: nothing, or remove it from the table -/

theorem removeUser_contains (s : List (Option Nat)) (t u : Nat) :
    (removeUser s t).contains (some u) = (s.contains (some u) && !(u == t)) := by
  induction s with
  | nil => simp [removeUser]
  | cons a r ih =>
    simp only [removeUser, List.map_cons, List.contains_cons] at ih ⊢
    rw [ih]
    cases a with
    | none => simp
    | some x =>
      by_cases hx : x = t
      · subst hx
        by_cases hu : u = x
        · subst hu; simp
        · have : (some u == some x) = false := by simp [hu]
          simp [this, hu]
      · have h1 : (some x == some t) = false := by simp [hx]
        simp only [h1, Bool.false_eq_true, if_false]
        by_cases hu : u = t
        · subst hu
          have : (some u == some x) = false := by simp; exact fun h => hx h.symm
          simp [this]
        · have hut : (u == t) = false := by simp [hu]
          simp [hut]

/-- `w'` arose from `w` by script effects: a user still in the table is exactly as ready as before or more (only
    `get_char` can make a partial line complete), and nobody enters the table -/
def Keeps (w w' : World) : Prop :=
  (∀ u, w.interactive u = false → w'.interactive u = false) ∧
  (∀ u, ready w u = true → ready w' u = true)

theorem hasCmd_single_of (single : Bool) (b : List Char) (h : hasCmd single b = true) : hasCmd (single || true) b = true := by
  simp only [Bool.or_true]
  unfold hasCmd firstCmd at h ⊢
  dsimp only at h ⊢
  split
  · rename_i h0; rw [if_pos h0] at h; simp at h
  · simp

theorem setCall_keeps (w : World) (me : Nat) (single : Bool) : Keeps w (setCall w me single).1 := by
  unfold setCall
  dsimp only
  split
  · exact ⟨fun _ h => h, fun _ h => h⟩
  · refine ⟨fun _ h => h, ?_⟩
    intro u hu
    by_cases hx : u = me
    · subst hx
      simp only [ready, turnOf, get_upd, if_true, Bool.and_eq_true] at hu ⊢
      obtain ⟨h1, h2, h3⟩ := hu
      cases single with
      | false => simp [h1, h2, h3]
      | true =>
        simp only [if_true, Bool.or_true, h1, h2, Bool.true_or, true_and]
        have := hasCmd_single_of (w.users.get u).single _ h3
        simpa using this
    · simpa [ready, turnOf, hx] using hu

theorem runOps_keeps (sc : Scripts) (f : Nat) (w : World) (me : Nat) (ops : List Op) :
    Keeps w (runOps sc f w me ops).1 := by
  apply runOps_rel Keeps
  · exact fun w => ⟨fun _ h => h, fun _ h => h⟩
  · exact fun a b c h1 h2 => ⟨fun u h => h2.1 u (h1.1 u h), fun u h => h2.2 u (h1.2 u h)⟩
  · intro w t
    refine ⟨?_, fun _ h => h⟩
    intro u h
    simp only [World.interactive] at h ⊢
    rw [removeUser_contains, h]; rfl
  · intro w t
    refine ⟨?_, fun _ h => h⟩
    intro u h
    simp only [World.interactive] at h ⊢
    rw [removeUser_contains, h]; rfl
  · exact setCall_keeps
  · exact fun w => ⟨fun _ h => h, fun _ h => h⟩

/-! ### turns inside the table -/

/-- the slot holds a user with a turn -/
def holdsTurn (w : World) : Option Nat → Bool
  | some x => turnOf w x
  | none => false

/-- number of occupied slots whose user holds a turn -/
def turnCount (w : World) : Nat := w.slots.countP (holdsTurn w)

theorem countP_removeUser_le (p : Option Nat → Bool) (hp : p none = false) (s : List (Option Nat)) (t : Nat) :
    (removeUser s t).countP p ≤ s.countP p := by
  induction s with
  | nil => simp [removeUser]
  | cons a r ih =>
    simp only [removeUser, List.map_cons, List.countP_cons] at ih ⊢
    split
    · simp only [hp, Bool.false_eq_true, if_false]
      split <;> omega
    · omega

theorem countP_lt_of_mem (p q : Option Nat → Bool) (l : List (Option Nat)) (hpq : ∀ a, p a = true → q a = true)
    (a : Option Nat) (ha : a ∈ l) (hq : q a = true) (hp : p a = false) : l.countP p < l.countP q := by
  induction l with
  | nil => cases ha
  | cons b r ih =>
    simp only [List.countP_cons]
    have hle : r.countP p ≤ r.countP q := List.countP_mono_left (fun x _ => hpq x)
    rcases List.mem_cons.mp ha with h | h
    · subst h
      simp only [hq, hp, if_true, Bool.false_eq_true, if_false]
      omega
    · have := ih h
      cases hpb : p b with
      | true => simp [hpq b hpb]; omega
      | false => simp; split <;> omega

/-- the table only loses entries under scripts: any count of occupied slots can only go down -/
theorem runOps_countP_le (p : Option Nat → Bool) (hp : p none = false) (sc : Scripts) (f : Nat) (w : World) (me : Nat)
    (ops : List Op) : (runOps sc f w me ops).1.slots.countP p ≤ w.slots.countP p := by
  apply runOps_rel (fun a b => b.slots.countP p ≤ a.slots.countP p)
  · exact fun _ => Nat.le_refl _
  · exact fun a b c h1 h2 => Nat.le_trans h2 h1
  · exact fun w t => countP_removeUser_le p hp w.slots t
  · exact fun w t => countP_removeUser_le p hp w.slots t
  · intro w me s
    unfold setCall
    dsimp only
    split <;> exact Nat.le_refl _
  · exact fun _ => Nat.le_refl _

end NV.C12
