/-
C12 — what the command extraction does to an encoded buffer, and that the oracle's `consume` follows it.
-/
import NV.C12.Fifo1

namespace NV.C12

theorem dropNul_nul_cons (X : List Char) : dropNul (NUL :: X) = dropNul X := by
  simp [dropNul, List.dropWhile_cons]

theorem encL_line (l r : List Char) (hl : l.contains '~' = false) :
    encL (l ++ '~' :: r) = (l ++ [' ', BS]) ++ NUL :: encL r := by
  rw [encL_append, encL_noTilde l hl, encL_cons]
  simp

/-- line case: the oldest pending input is a complete line `l` that arrived in line mode -/
theorem firstCmd_line (single : Bool) (l r p2 : List Char) (hl : l.contains '~' = false)
    (h1 : (l ++ '~' :: r).all plainChar = true) (h2 : p2.all plainChar = true) :
    firstCmd single (encL (l ++ '~' :: r) ++ encR p2) = (encL (l ++ '~' :: r) ++ encR p2, some (l ++ [' ', BS])) ∧
    nextCmd (encL (l ++ '~' :: r) ++ encR p2) = encL r ++ encR p2 ∧
    telnetNeg (l ++ [' ', BS]) = l := by
  have hd := enc_head_ne_nul (l ++ '~' :: r) p2 h1 h2
  have hlp : l.all plainChar = true := by
    simp only [List.all_append, Bool.and_eq_true] at h1; exact h1.1
  have hrp : r.all plainChar = true := by
    simp only [List.all_append, List.all_cons, Bool.and_eq_true] at h1; exact h1.2.2
  have hnn : (l ++ [' ', BS]).all (· != NUL) = true := by
    rw [List.all_append, plain_noNul l hlp]; decide
  have hshape : encL (l ++ '~' :: r) ++ encR p2 = (l ++ [' ', BS]) ++ NUL :: (encL r ++ encR p2) := by
    rw [encL_line l r hl]; simp
  refine ⟨?_, ?_, telnetNeg_line l (plain_noEdit l hlp)⟩
  · unfold firstCmd
    simp only [hd]
    rw [hshape, takeWhile_toNul _ _ hnn]
    have hne : ((l ++ [' ', BS]) ++ NUL :: (encL r ++ encR p2)).isEmpty = false := by
      cases l <;> rfl
    simp only [hne, Bool.false_eq_true, if_false, contains_nul_of, if_true]
    cases single <;> rfl
  · unfold nextCmd
    rw [hshape, dropWhile_toNul _ _ hnn, dropNul_nul_cons]
    exact enc_head_ne_nul r p2 hrp h2

/-- char case: no complete line-mode line is pending; in single-char mode everything buffered is one command -/
theorem firstCmd_char (p1 p2 : List Char) (hl : p1.contains '~' = false) (h1 : p1.all plainChar = true)
    (h2 : p2.all plainChar = true) (hne : (p1 ++ encR p2).isEmpty = false) :
    firstCmd true (encL p1 ++ encR p2) = (p1 ++ encR p2, some (p1 ++ encR p2)) ∧
    nextCmd (p1 ++ encR p2) = [] ∧ telnetNeg (p1 ++ encR p2) = p1 ++ encR p2 := by
  have hd := enc_head_ne_nul p1 p2 h1 h2
  rw [encL_noTilde p1 hl] at hd ⊢
  have hnn : (p1 ++ encR p2).all (· != NUL) = true := by
    rw [List.all_append, plain_noNul p1 h1, encR_noNul p2 h2]; rfl
  have hed : (p1 ++ encR p2).all (fun c => c != BS && c != DEL) = true := by
    rw [List.all_append, plain_noEdit p1 h1, encR_noEdit p2 h2]; rfl
  refine ⟨?_, ?_, telnetNeg_plain _ hed⟩
  · unfold firstCmd
    simp only [hd, hne, Bool.false_eq_true, if_false, if_true, takeWhile_noNul _ hnn]
  · unfold nextCmd
    rw [dropWhile_noNul _ hnn]; rfl

/-- nothing complete in line mode -/
theorem firstCmd_partial (p1 : List Char) (hl : p1.contains '~' = false) (h1 : p1.all plainChar = true) :
    (firstCmd false (encL p1 ++ encR [])).2 = none := by
  have hd := enc_head_ne_nul p1 [] h1 rfl
  rw [encL_noTilde p1 hl] at hd ⊢
  simp only [encR_nil, List.append_nil] at hd ⊢
  unfold firstCmd
  simp only [hd, contains_nul_false p1 (plain_noNul p1 h1), Bool.false_eq_true, if_false]
  split <;> rfl

/-! ### the oracle's `consume` -/

theorem isPrefixOf_self_append (a b : List Char) : (a).isPrefixOf (a ++ b) = true := by
  rw [List.isPrefixOf_iff_prefix]; exact List.prefix_append a b

theorem consume_line (cm : Bool) (l r : List Char) : consume cm (l ++ '~' :: r) l = some r := by
  unfold consume
  have : l ++ '~' :: r = (l ++ ['~']) ++ r := by simp
  simp only [this, isPrefixOf_self_append, if_true, List.drop_left]

theorem encR_length_ge (p : List Char) : p.length ≤ (encR p).length := by
  induction p with
  | nil => simp [encR_nil]
  | cons c r ih => rw [encR_cons]; split <;> simp <;> omega

theorem encR_noTilde (l : List Char) (h : l.contains '~' = false) : encR l = l := by
  induction l with
  | nil => rfl
  | cons c r ih =>
    simp only [List.contains_cons, Bool.or_eq_false_iff] at h
    have hc : (c == '~') = false := by
      have := h.1
      simp only [beq_eq_false_iff_ne, ne_eq] at this ⊢
      exact fun hh => this hh.symm
    rw [encR_cons, hc, ih h.2]; rfl

theorem stripRaw_enc (q t r : List Char) (hq : q.all plainChar = true) :
    stripRaw (encR q ++ t) (q ++ r) = stripRaw t r := by
  induction q with
  | nil => simp [encR_nil]
  | cons x q ih =>
    simp only [List.all_cons, Bool.and_eq_true] at hq
    rw [encR_cons]
    by_cases hx : (x == '~') = true
    · simp only [hx, if_true, List.cons_append, List.nil_append]
      conv => lhs; unfold stripRaw
      simp only [hx, if_true]
      have h1 : (CR == CR) = true := by decide
      have h2 : (LF == LF) = true := by decide
      simp only [h1, h2, Bool.and_self, if_true]
      exact ih hq.2
    · simp only [hx, Bool.false_eq_true, if_false, List.cons_append, List.nil_append]
      conv => lhs; unfold stripRaw
      simp only [hx, Bool.false_eq_true, if_false, beq_self_eq_true, if_true]
      exact ih hq.2

/-- char case of the oracle: the whole pending input, raw-encoded, is consumed entirely -/
theorem consume_char (p1 p2 : List Char) (hl : p1.contains '~' = false) (h1 : p1.all plainChar = true)
    (h2 : p2.all plainChar = true) (hne : (p1 ++ encR p2).isEmpty = false) :
    consume true (p1 ++ p2) (p1 ++ encR p2) = some [] := by
  unfold consume
  have hlen : ¬ ((p1 ++ encR p2 ++ ['~']).isPrefixOf (p1 ++ p2) = true) := by
    intro h
    rw [List.isPrefixOf_iff_prefix] at h
    have := h.length_le
    have := encR_length_ge p2
    simp at *
    omega
  simp only [hlen, if_false, hne, Bool.not_false, Bool.and_self, if_true]
  have : p1 ++ encR p2 = encR (p1 ++ p2) ++ [] := by
    rw [encR_append, encR_noTilde p1 hl]; simp
  rw [this]
  have hall : (p1 ++ p2).all plainChar = true := by rw [List.all_append, h1, h2]; rfl
  have := stripRaw_enc (p1 ++ p2) [] [] hall
  simp only [List.append_nil] at this ⊢
  rw [this]; rfl

/-! ### reframe -/

theorem reframeAux_encL (a Y : List Char) (ha : a.all plainChar = true) :
    reframeAux false (encL a ++ Y) = encL a ++ reframeAux false Y := by
  induction a with
  | nil => simp [encL_nil]
  | cons c r ih =>
    simp only [List.all_cons, Bool.and_eq_true] at ha
    rw [encL_cons]
    by_cases hc : (c == '~') = true
    · simp only [hc, if_true, List.cons_append, List.nil_append]
      have e1 : (' ' == CR) = false := by decide
      have e2 : (BS == CR) = false := by decide
      have e3 : (NUL == CR) = false := by decide
      simp only [reframeAux, e1, e2, e3, Bool.false_eq_true, if_false, ih ha.2]
    · have hcr : (c == CR) = false := by
        have := ha.1; simp only [plainChar, Bool.and_eq_true, bne_iff_ne, ne_eq] at this
        simp [this.1.2]
      simp only [hc, Bool.false_eq_true, if_false, List.cons_append, List.nil_append, reframeAux, hcr, ih ha.2]

theorem reframeAux_encR (b : List Char) (hb : b.all plainChar = true) : reframeAux false (encR b) = encL b := by
  induction b with
  | nil => rfl
  | cons c r ih =>
    simp only [List.all_cons, Bool.and_eq_true] at hb
    rw [encR_cons, encL_cons]
    by_cases hc : (c == '~') = true
    · have e1 : (CR == CR) = true := by decide
      have e2 : (LF == LF) = true := by decide
      simp only [hc, if_true, List.cons_append, List.nil_append, reframeAux, e1, e2, ih hb.2]
    · have hcr : (c == CR) = false := by
        have := hb.1; simp only [plainChar, Bool.and_eq_true, bne_iff_ne, ne_eq] at this
        simp [this.1.2]
      simp only [hc, Bool.false_eq_true, if_false, List.cons_append, List.nil_append, reframeAux, hcr, ih hb.2]

/-- when single-char mode ends the raw tail gets the line framing: the buffer is the line encoding of everything -/
theorem reframe_enc (a b : List Char) (ha : a.all plainChar = true) (hb : b.all plainChar = true) :
    reframe (encL a ++ encR b) = encL (a ++ b) := by
  unfold reframe
  rw [reframeAux_encL a _ ha, reframeAux_encR b hb, encL_append]

end NV.C12
