/-
C12 — the byte-queue simulation between the FIFO clause oracle (`fifoStep`, NV/C12/Spec.lean) and the model, proved
LOCALLY for each of the three places where the queue of a user changes:
  arrival        (`userIO`:   get_user_data appends)                       `sim_arrive`
  mode switch    (`setCall`:  get_char / input_to)                         `sim_setCall`
  service        (`scanStep` found + `getUserCommand` + `endInput`)        `sim_serve`
`QInv f us rx` relates the oracle's record `f` of a user (bytes sent and not consumed, get_char pending) to the model's
`interactive_t` record `us` and the bytes `rx` still in the socket: the unconsumed bytes are, in order, a line-encoded
part, a raw (single-char) part - non-empty only while single-char mode is on - and the unread part.
The global induction that threads `QInv` through `run` (and with it `judgeFifo (events ..) = []`) is NOT closed; see
notes/C12.md.
-/
import NV.C12.Fifo2

namespace NV.C12

structure QInv (f : FU) (us : U) (rx : List Char) : Prop where
  mode : f.charMode = us.single
  inp : us.single = true → us.inputTo = true
  plain : f.pending.all plainChar = true
  split : ∃ p1 p2, f.pending = p1 ++ p2 ++ rx ∧ us.buf = encL p1 ++ encR p2 ∧ (us.single = false → p2 = [])

/-- non-vacuity / initial state -/
theorem QInv_init : QInv {} {} [] := ⟨rfl, (by intro h; cases h), rfl, [], [], rfl, rfl, fun _ => rfl⟩

/-- a client sends plain bytes: the oracle appends them to `pending`, the model to the socket -/
theorem sim_send (f : FU) (us : U) (rx d : List Char) (h : QInv f us rx) (hd : d.all plainChar = true) :
    QInv { f with pending := f.pending ++ d } us (rx ++ d) := by
  obtain ⟨p1, p2, h1, h2, h3⟩ := h.split
  refine ⟨h.mode, h.inp, by simp [List.all_append, h.plain, hd], p1, p2, ?_, h2, h3⟩
  simp [h1]

/-- get_user_data: the unread bytes are appended to the buffer in the encoding of the current mode; the oracle
    does not move -/
theorem sim_arrive (f : FU) (us : U) (rx : List Char) (h : QInv f us rx) (flag : Bool) :
    QInv f { us with buf := us.buf ++ copyChars us.single rx, cmdInBuf := flag } [] := by
  obtain ⟨p1, p2, h1, h2, h3⟩ := h.split
  refine ⟨h.mode, h.inp, h.plain, ?_⟩
  cases hs : us.single with
  | true =>
    refine ⟨p1, p2 ++ rx, by simp [h1], ?_, by intro hh; cases hh⟩
    simp [h2, copyChars_eq, encR_append]
  | false =>
    have := h3 hs
    subst this
    refine ⟨p1 ++ rx, [], by simp [h1], ?_, fun _ => rfl⟩
    simp [h2, copyChars_eq, encL_append, encR_nil]

/-- get_char / input_to succeed: both sides switch the mode together, the queue does not move -/
theorem sim_setCall (f : FU) (us : U) (rx : List Char) (h : QInv f us rx) (single : Bool) (flag : Bool)
    (hfree : us.inputTo = false) :
    QInv (if single then { f with charMode := true } else f)
      { us with inputTo := true, single := us.single || single, cmdInBuf := flag } rx := by
  have hs : us.single = false := by
    cases hh : us.single with
    | false => rfl
    | true => have := h.inp hh; rw [hfree] at this; cases this
  obtain ⟨p1, p2, h1, h2, h3⟩ := h.split
  have hp2 := h3 hs
  subst hp2
  cases single with
  | true =>
    exact ⟨by simp [hs], fun _ => rfl, h.plain, p1, [], h1, h2, fun hh => by simp [hs] at hh⟩
  | false =>
    refine ⟨by simpa [hs] using h.mode, fun hh => rfl, h.plain, p1, [], h1, h2, fun _ => rfl⟩

theorem split_at_tilde (p : List Char) (h : p.contains '~' = true) :
    ∃ l r, p = l ++ '~' :: r ∧ l.contains '~' = false := by
  induction p with
  | nil => simp at h
  | cons c q ih =>
    by_cases hc : c = '~'
    · exact ⟨[], q, by simp [hc], rfl⟩
    · have hq : q.contains '~' = true := by
        simp only [List.contains_cons, Bool.or_eq_true, beq_iff_eq] at h
        rcases h with h | h
        · exact absurd h.symm hc
        · exact h
      obtain ⟨l, r, h1, h2⟩ := ih hq
      refine ⟨c :: l, r, by simp [h1], ?_⟩
      simp only [List.contains_cons, h2, Bool.or_false, beq_eq_false_iff_ne, ne_eq]
      exact fun hh => hc hh.symm

/-- **service**: the user's socket is drained (`rx = []`), get_user_command hands out the command `t` found by
    first_cmd_in_buf, leaves `next_cmd_in_buf` of the buffer, and process_user_command ends a pending
    input_to / get_char.  Then the oracle accepts the text `telnet_neg t` as the oldest pending input of that user
    (no `fifo` violation), and the relation holds again for what is left. -/
theorem sim_serve (f : FU) (us us1 : U) (h : QInv f us []) (t : List Char)
    (hfound : (firstCmd us.single us.buf).2 = some t)
    (hbuf : us1.buf = nextCmd (firstCmd us.single us.buf).1) (hsingle : us1.single = us.single)
    (hinp : us1.inputTo = us.inputTo) :
    ∃ p', consume f.charMode f.pending (telnetNeg t) = some p' ∧
      QInv { pending := p', charMode := false } (if us1.inputTo then endInput us1 else us1) [] := by
  obtain ⟨p1, p2, h1, h2, h3⟩ := h.split
  simp only [List.append_nil] at h1
  have hplain : (p1 ++ p2).all plainChar = true := by rw [← h1]; exact h.plain
  have hp1 : p1.all plainChar = true := by simp only [List.all_append, Bool.and_eq_true] at hplain; exact hplain.1
  have hp2 : p2.all plainChar = true := by simp only [List.all_append, Bool.and_eq_true] at hplain; exact hplain.2
  -- what is left after the service, as a relation on the final record
  have finish : ∀ (q1 : List Char), (q1 ++ p2).all plainChar = true → us1.buf = encL q1 ++ encR p2 →
      QInv { pending := q1 ++ p2, charMode := false } (if us1.inputTo then endInput us1 else us1) [] := by
    intro q1 hq hb
    have hq1 : q1.all plainChar = true := by simp only [List.all_append, Bool.and_eq_true] at hq; exact hq.1
    cases hi : us1.inputTo with
    | false =>
      have hs : us.single = false := by
        cases hh : us.single with
        | false => rfl
        | true => have := h.inp hh; rw [← hinp, hi] at this; cases this
      have := h3 hs; subst this
      simp only [Bool.false_eq_true, if_false]
      exact ⟨by rw [hsingle, hs], (by rw [hsingle, hs]; intro hh; cases hh), hq, q1, [], by simp, hb, fun _ => rfl⟩
    | true =>
      simp only [if_true]
      unfold endInput
      cases hs : us1.single with
      | true =>
        simp only [if_true]
        refine ⟨rfl, (by intro hh; cases hh), hq, q1 ++ p2, [], by simp, ?_, fun _ => rfl⟩
        simp only [hb, encR_nil, List.append_nil]
        exact reframe_enc q1 p2 hq1 hp2
      | false =>
        simp only [Bool.false_eq_true, if_false]
        have := h3 (by rw [← hsingle]; exact hs); subst this
        refine ⟨?_, ?_, hq, q1, [], by simp, hb, fun _ => rfl⟩
        · rfl
        · intro hh; cases hh
  rw [h2] at hfound hbuf
  cases hc : p1.contains '~' with
  | true =>
    obtain ⟨l, r, hl1, hl2⟩ := split_at_tilde p1 hc
    subst hl1
    obtain ⟨c1, c2, c3⟩ := firstCmd_line us.single l r p2 hl2 hp1 hp2
    rw [c1] at hfound hbuf
    simp only [Option.some.injEq] at hfound
    subst hfound
    rw [c2] at hbuf
    refine ⟨r ++ p2, ?_, ?_⟩
    · rw [c3, h1]
      have : l ++ '~' :: r ++ p2 = l ++ '~' :: (r ++ p2) := by simp
      rw [this]; exact consume_line _ l (r ++ p2)
    · apply finish r _ hbuf
      simp only [List.all_append, List.all_cons, Bool.and_eq_true] at hplain ⊢
      exact ⟨hplain.1.2.2, hplain.2⟩
  | false =>
    cases hs : us.single with
    | false =>
      have := h3 hs; subst this
      rw [hs, firstCmd_partial p1 hc hp1] at hfound
      cases hfound
    | true =>
      rw [hs] at hfound hbuf
      have hne : (p1 ++ encR p2).isEmpty = false := by
        cases he : (p1 ++ encR p2).isEmpty with
        | false => rfl
        | true =>
          have : p1 ++ encR p2 = [] := by simpa using he
          rw [encL_noTilde p1 hc, this] at hfound
          simp [firstCmd, dropNul] at hfound
      obtain ⟨c1, c2, c3⟩ := firstCmd_char p1 p2 hc hp1 hp2 hne
      rw [c1] at hfound hbuf
      simp only [Option.some.injEq] at hfound
      subst hfound
      rw [c2] at hbuf
      refine ⟨[], ?_, ?_⟩
      · rw [c3, h1, h.mode, hs]
        exact consume_char p1 p2 hc hp1 hp2 hne
      · have hi : us1.inputTo = true := by rw [hinp]; exact h.inp hs
        have hs1 : us1.single = true := by rw [hsingle]; exact hs
        simp only [hi, if_true]
        unfold endInput
        simp only [hs1, if_true]
        refine ⟨rfl, (by intro hh; cases hh), rfl, [], [], rfl, ?_, fun _ => rfl⟩
        simp [hbuf, reframe, reframeAux, encL_nil, encR_nil]

end NV.C12
