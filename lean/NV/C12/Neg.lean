/-
C12 — negative examples for the oracle: traces that violate a clause are rejected with exactly that clause
(audit: the oracle must not accept what it should reject).
-/
import NV.C12.Spec

namespace NV.C12

private def a : List Char := ['a']
private def b : List Char := ['b']

-- twice: two buffered commands of one user inside one cycle
example : judgeEv [.logon 1, .send 1 "a~b~".toList, .begin 1, .poll 1 false, .cmd 1 a, .cmd 1 b, .endc 1 50 []]
    = [Viol.twice 1 1] := by decide
-- twice is per cycle and per user: two users, two cycles are fine
example : judgeEv [.logon 1, .logon 2, .send 1 "a~b~".toList, .send 2 "a~".toList, .begin 1, .poll 1 false, .cmd 1 a,
    .cmd 2 a, .endc 1 50 [], .begin 2, .poll 2 false, .cmd 1 b, .endc 2 50 []] = [] := by decide
-- command() traffic does not count
example : judgeEv [.logon 1, .logon 2, .send 1 "a~".toList, .begin 1, .poll 1 false, .cmd 1 a, .force 1 2 b true, .ecmd 2 b,
    .force 1 2 b true, .ecmd 2 b, .endc 1 50 []] = [] := by decide
-- outside: a buffered command between two cycles
example : judgeEv [.logon 1, .send 1 "a~".toList, .cmd 1 a] = [Viol.outside 1] := by decide
-- malformed: cycle brackets
example : judgeEv [.begin 1, .begin 2] = [Viol.malformed "nested begin"] := by decide
example : judgeEv [.begin 1, .endc 2 0 []] = [Viol.malformed "end without begin"] := by decide
example : judgeEv [.crash "x"] = [Viol.crash "x"] := by decide
example : judgeEv [.other "sanitizer ERROR"] = [Viol.malformed "sanitizer ERROR"] := by decide

-- efun: a requested command() is not the next event / never happens / happens for another text
example : judgeEv [.force 1 2 a true, .kick 1 2 true] = [Viol.efun 2 a] := by decide
example : judgeEv [.force 1 2 a true] = [Viol.efun 2 a] := by decide
example : judgeEv [.force 1 2 a true, .ecmd 2 b] = [Viol.efun 2 a] := by decide
example : judgeEv [.force 1 2 a false, .kick 1 2 false] = [] := by decide

-- fifo: out of order, duplicated, lost, partial line delivered in line mode, never sent
example : judgeEv [.logon 1, .send 1 "a~b~".toList, .begin 1, .poll 1 false, .cmd 1 b, .endc 1 50 []]
    = [Viol.fifo 1 b] := by decide
example : judgeEv [.logon 1, .send 1 "a~".toList, .begin 1, .poll 1 false, .cmd 1 a, .endc 1 50 [], .begin 2, .poll 2 true,
    .cmd 1 a, .endc 2 50 []] = [Viol.fifo 1 a] := by decide
example : judgeEv [.logon 1, .send 1 "ab".toList, .begin 1, .poll 1 false, .cmd 1 "ab".toList, .endc 1 50 []]
    = [Viol.fifo 1 "ab".toList] := by decide
example : judgeEv [.logon 1, .begin 1, .poll 1 true, .cmd 1 a, .endc 1 50 []] = [Viol.fifo 1 a] := by decide
-- single-char mode: a partial line is a command, and only after a successful get_char
example : judgeEv [.logon 1, .send 1 "g~ab".toList, .begin 1, .poll 1 false, .cmd 1 ['g'], .gc 1 true, .endc 1 50 [],
    .begin 2, .poll 2 false, .cmd 1 "ab".toList, .endc 2 50 []] = [] := by decide
example : judgeEv [.logon 1, .send 1 "g~ab".toList, .begin 1, .poll 1 false, .cmd 1 ['g'], .gc 1 false, .endc 1 50 [],
    .begin 2, .poll 2 true, .cmd 1 "ab".toList, .endc 2 50 []] = [Viol.fifo 1 "ab".toList] := by decide
-- single-char mode: a wrong byte order is still rejected
example : judgeEv [.logon 1, .send 1 "g~ab".toList, .begin 1, .poll 1 false, .cmd 1 ['g'], .gc 1 true, .endc 1 50 [],
    .begin 2, .poll 2 false, .cmd 1 "ba".toList, .endc 2 50 []] = [Viol.fifo 1 "ba".toList] := by decide

-- starved: a connected user with a complete line is not served in the cycle
example : judgeEv [.logon 1, .logon 2, .send 1 "a~".toList, .send 2 "a~".toList, .begin 1, .poll 1 false, .cmd 1 a,
    .endc 1 50 []] = [Viol.starved 2 1] := by decide
-- ... but not when it was kicked in that cycle, closed its socket before, has only a partial line, or logged on in it
example : judgeEv [.logon 1, .logon 2, .send 1 "a~".toList, .send 2 "a~".toList, .begin 1, .poll 1 false, .cmd 1 a,
    .kick 1 2 true, .endc 1 50 []] = [] := by decide
example : judgeEv [.logon 1, .logon 2, .send 1 "a~".toList, .send 2 "a~".toList, .close 2, .begin 1, .poll 1 false, .cmd 1 a,
    .endc 1 50 []] = [] := by decide
example : judgeEv [.logon 1, .logon 2, .send 1 "a~".toList, .send 2 "a".toList, .begin 1, .poll 1 false, .cmd 1 a,
    .endc 1 50 []] = [] := by decide
example : judgeEv [.logon 1, .send 1 "a~".toList, .begin 1, .poll 1 false, .logon 2, .cmd 1 a, .endc 1 50 []] = [] := by
  decide
-- starved again in every later cycle while it waits
example : judgeEv [.logon 1, .send 1 "a~".toList, .begin 1, .poll 1 false, .endc 1 50 [], .begin 2, .poll 2 false,
    .endc 2 50 []] = [Viol.starved 1 1, Viol.starved 1 2] := by decide

-- idleWait: a complete command was already buffered in the previous cycle, yet backend asks the poller to block
example : judgeEv [.logon 1, .send 1 "a~b~".toList, .begin 1, .poll 1 false, .cmd 1 a, .endc 1 50 [], .begin 2, .poll 2 true,
    .cmd 1 b, .endc 2 50 []] = [Viol.idleWait 2 1] := by decide
-- bytes sent after the last cycle began may still be unread: blocking is not (yet) wrong for them
example : judgeEv [.logon 1, .begin 1, .poll 1 true, .endc 1 50 [], .send 1 "a~".toList, .begin 2, .poll 2 true, .cmd 1 a,
    .endc 2 50 []] = [] := by decide
-- typed-ahead partial line + get_char: must not block
example : judgeEv [.logon 1, .send 1 "g~ab".toList, .begin 1, .poll 1 false, .cmd 1 ['g'], .gc 1 true, .endc 1 50 [],
    .begin 2, .poll 2 true, .cmd 1 "ab".toList, .endc 2 50 []] = [Viol.idleWait 2 1] := by decide

-- aborted iterations (uncaught error in a command): `abort n` closes cycle n, nobody is owed service by it, `twice` is
-- still judged inside it, and the restarted iteration is judged in full
example : judgeEv [.logon 1, .logon 2, .send 1 "a~b~".toList, .send 2 "x~".toList, .begin 1, .poll 1 false, .cmd 1 a, .err 1,
    .abort 1, .begin 2, .poll 2 false, .cmd 2 ['x'], .cmd 1 b, .endc 2 50 []] = [] := by decide
example : judgeEv [.logon 1, .send 1 "a~b~".toList, .begin 1, .poll 1 false, .cmd 1 a, .cmd 1 b, .err 1, .abort 1]
    = [Viol.twice 1 1] := by decide
example : judgeEv [.logon 1, .logon 2, .send 1 "a~".toList, .send 2 "x~".toList, .begin 1, .poll 1 false, .cmd 1 a, .err 1,
    .abort 1, .begin 2, .poll 2 false, .endc 2 50 []] = [Viol.starved 2 2] := by decide
example : judgeEv [.begin 1, .abort 2] = [Viol.malformed "abort without begin"] := by decide
-- overtaken: after the abort the same user is served again although user 2 has been waiting since the first `begin`
example : judgeEv [.logon 1, .logon 2, .send 1 "a~b~".toList, .send 2 "x~".toList, .begin 1, .poll 1 false, .cmd 1 a, .err 1,
    .abort 1, .begin 2, .poll 2 false, .cmd 1 b, .cmd 2 ['x'], .endc 2 50 []] = [Viol.overtaken 1 2 2] := by decide
-- not overtaken: user 2 was not waiting (no complete command at the first `begin`; its line arrived later)
example : judgeEv [.logon 1, .logon 2, .send 1 "a~b~".toList, .send 2 "x".toList, .begin 1, .poll 1 false, .cmd 1 a, .err 1,
    .abort 1, .begin 2, .poll 2 false, .cmd 1 b, .endc 2 50 []] = [] := by decide
-- not overtaken: the waiting user has left (kicked) before the second service
example : judgeEv [.logon 1, .logon 2, .send 1 "a~b~".toList, .send 2 "x~".toList, .begin 1, .poll 1 false, .cmd 1 a,
    .kick 1 2 true, .err 1, .abort 1, .begin 2, .poll 2 false, .cmd 1 b, .endc 2 50 []] = [] := by decide

end NV.C12
