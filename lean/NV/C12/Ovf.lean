/-
C12 — the flag `World.overflow` (get_user_data has discarded a text buffer: open finding C13-typeahead-discard) is only
ever raised by get_user_data (`userIO`) and never lowered: if it is off at the end of a run it was off all the time.
The trace theorems for the clauses `fifo`, `starved` / `idleWait` and `overtaken` hold for the runs in which it stays off.
-/
import NV.C12.Lemmas4

namespace NV.C12

theorem scanStep_ovf (w : World) :
    (∀ w', scanStep w = .next w' → w'.overflow = w.overflow) ∧
    (∀ w' u t, scanStep w = .found w' u t → w'.overflow = w.overflow) := by
  constructor
  · intro w' h
    unfold scanStep at h
    split at h
    · cases h
    · cases h; rfl
    · dsimp only at h
      split at h
      · split at h
        · split at h
          · cases h
          · cases h; rfl
        · cases h; rfl
      · cases h; rfl
  · intro w' u t h
    unfold scanStep at h
    split at h
    · cases h
    · cases h
    · dsimp only at h
      split at h
      · split at h
        · split at h
          · cases h; rfl
          · cases h
        · cases h
      · cases h

theorem scan_ovf (n : Nat) (w : World) : (scan n w).1.overflow = w.overflow := by
  induction n generalizing w with
  | zero => rfl
  | succ n ih =>
    obtain ⟨h1, h2⟩ := scanStep_ovf w
    unfold scan
    cases hstep : scanStep w with
    | crash => rfl
    | found w' u t => exact h2 w' u t hstep
    | next w' => exact (ih (decCursor w')).trans (h1 w' hstep)

theorem guc_ovf (w : World) : (getUserCommand w).1.overflow = w.overflow := by
  have hs := scan_ovf (NV.Gen.C12.scanLength w.slots.length) w
  unfold getUserCommand
  cases hsc : scan (NV.Gen.C12.scanLength w.slots.length) w with
  | mk w1 r =>
    rw [hsc] at hs
    cases r with
    | none => exact hs
    | some p => obtain ⟨u, t⟩ := p; exact hs

theorem runOps_ovf (sc : Scripts) (f : Nat) (w : World) (me : Nat) (ops : List Op) :
    (runOps sc f w me ops).1.overflow = w.overflow := by
  apply runOps_rel (fun a b => b.overflow = a.overflow)
  · exact fun _ => rfl
  · exact fun a b c h1 h2 => h2.trans h1
  · exact fun _ _ => rfl
  · exact fun _ _ => rfl
  · intro w me s
    unfold setCall
    dsimp only
    split <;> rfl
  · exact fun _ => rfl

theorem puc_ovf (sc : Scripts) (w : World) : (processUserCommand sc w).1.overflow = w.overflow := by
  have hg := guc_ovf w
  unfold processUserCommand
  split
  · rfl
  · cases hgc : getUserCommand w with
    | mk w1 r =>
      rw [hgc] at hg
      cases r with
      | none => exact hg
      | some p =>
        obtain ⟨u, t⟩ := p
        dsimp only at hg ⊢
        rw [runOps_ovf]
        split <;> exact hg

theorem cmdLoop_ovf (sc : Scripts) (k : Nat) (w : World) : (cmdLoop sc k w).1.overflow = w.overflow := by
  induction k generalizing w with
  | zero => rfl
  | succ k ih =>
    have hp := puc_ovf sc w
    unfold cmdLoop
    cases hc : processUserCommand sc w with
    | mk w1 r =>
      obtain ⟨e1, b⟩ := r
      rw [hc] at hp
      dsimp only at hp
      cases b with
      | false => exact hp
      | true => dsimp only; exact (ih w1).trans hp

/-- get_user_data: the flag is raised exactly when the pending text is short of room at a read -/
theorem userIO_ovf (w : World) (u : Nat) (h : (userIO w u).overflow = false) :
    w.overflow = false ∧ ((w.net.get u).rx.isEmpty = false → roomShort (w.users.get u).buf.length = false) ∧
      heldBack w u = false := by
  unfold userIO at h
  split at h
  · cases h
  rename_i hnh
  have hnh' : heldBack w u = false := by simpa using hnh
  unfold userIO0 at h
  dsimp only at h
  split at h
  · rename_i hrx
    simp only [Bool.or_eq_false_iff] at h
    exact ⟨h.1, fun _ => h.2, hnh'⟩
  · rename_i hrx
    refine ⟨?_, fun hh => by simp [hh] at hrx, hnh'⟩
    split at h <;> exact h

theorem fold_userIO_ovf (l : List Nat) (w : World) (h : (l.foldl userIO w).overflow = false) : w.overflow = false := by
  induction l generalizing w with
  | nil => exact h
  | cons u r ih => exact (userIO_ovf w u (ih _ h)).1

theorem processIO_ovf (w : World) (h : (processIO w).1.overflow = false) : w.overflow = false := by
  unfold processIO at h
  dsimp only at h
  split at h
  · have h' := fold_userIO_ovf _ _ h; exact h'
  · exact fold_userIO_ovf _ _ h

theorem cycleStep_ovf (sc : Scripts) (w : World) (h : (cycleStep sc w).1.overflow = false) :
    (processIO { w with cycle := w.cycle + 1, users := grantAll w.users w.slots }).1.overflow = false ∧ w.overflow = false := by
  rw [cycleStep_world', cmdLoop_ovf] at h
  have h2 := processIO_ovf _ h
  exact ⟨h, h2⟩

theorem cycleRun_ovf (sc : Scripts) (f : Nat) (w : World) (h : (cycleRun sc f w).1.overflow = false) :
    w.overflow = false := by
  induction f generalizing w with
  | zero => exact h
  | succ f ih =>
    have hc := cycleStep_ovf sc w
    revert h
    unfold cycleRun
    cases hcs : cycleStep sc w with
    | mk w1 e1 =>
      rw [hcs] at hc
      dsimp only at hc ⊢
      split
      · dsimp only
        intro h
        have h2 := ih _ h
        exact (hc h2).2
      · intro h; exact (hc h).2

theorem step_ovf (sc : Scripts) (w : World) (c : Cmd) (h : (step sc w c).1.overflow = false) : w.overflow = false := by
  unfold step at h
  split at h
  · exact h
  · cases c with
    | cycle => exact cycleRun_ovf sc _ w h
    | conn => exact h
    | send u d => dsimp only at h; split at h <;> exact h
    | close u => dsimp only at h; split at h <;> exact h

theorem run_ovf (sc : Scripts) (cs : List Cmd) (w : World) (h : (run sc w cs).1.overflow = false) : w.overflow = false := by
  induction cs generalizing w with
  | nil => exact h
  | cons c r ih => exact step_ovf sc w c (ih _ h)

/-- the flag after the first action of a history, when it is off at the end -/
theorem run_ovf_head (sc : Scripts) (c : Cmd) (r : List Cmd) (w : World) (h : (run sc w (c :: r)).1.overflow = false) :
    (step sc w c).1.overflow = false := run_ovf sc r _ h

end NV.C12
