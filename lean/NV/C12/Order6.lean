/-
C12 — clause `overtaken`, world-coupled part 3: `OB` over one iteration (`OB_cycle`), over the restarts, over harness
actions and histories; `judgeOrder_events` and the top theorem `model_satisfies_spec`.
-/
import NV.C12.Order5

namespace NV.C12

theorem poll_us (s : JState) (n : Nat) (b : Bool) :
    (judgeStep s (.poll n b)).us = s.us ∧ (judgeStep s (.poll n b)).ids = s.ids := by
  simp only [judgeStep]
  split <;> exact ⟨rfl, rfl⟩

theorem obeginU_passed_sub (j : OU) (u : Nat) (h : u ∈ (obeginU j).passed) : u ∈ j.passed := by
  unfold obeginU at h
  split at h
  · split at h
    · exact h
    · cases h
  · cases h

theorem io_events_nocmd (w : World) : ∀ u t, Ev.cmd u t ∉ (processIO w).2 := by
  intro u t
  unfold processIO
  dsimp only
  split <;> simp

/-- the liveness oracle after the logon events of process_io: nothing sent yet, every accepted user known -/
theorem io_fresh_ids (w : World) (s : JState) (hf : ∀ u, (s.us.get u).fresh = [])
    (hacc : ∀ u, 1 ≤ u → u ≤ w.naccepted → u ∈ s.ids) :
    (∀ u, (((processIO w).2.foldl judgeStep s).us.get u).fresh = []) ∧
    (∀ u, 1 ≤ u → u ≤ (processIO w).1.naccepted → u ∈ ((processIO w).2.foldl judgeStep s).ids) := by
  have hn := (processIO_eof w 0).2
  unfold processIO at hn ⊢
  dsimp only at hn ⊢
  split
  · rename_i hlt
    simp only [hlt, if_true] at hn
    dsimp only at hn ⊢
    simp only [List.foldl_cons, List.foldl_nil]
    constructor
    · intro u
      simp only [judgeStep, get_upd]
      split
      · rfl
      · exact hf u
    · intro u h1 h2
      rw [hn] at h2
      show u ∈ (w.naccepted + 1) :: s.ids
      by_cases hu : u = w.naccepted + 1
      · rw [hu]; exact List.mem_cons_self
      · exact List.mem_cons_of_mem _ (hacc u h1 (by omega))
  · rename_i hge
    simp only [hge, if_false] at hn
    exact ⟨hf, fun u h1 h2 => hacc u h1 (by rw [hn] at h2; exact h2)⟩

/-! ### one iteration of backend() -/

theorem OB_cycle (sc : Scripts) (fs : FState) (js : JState) (os : OState) (w : World) (hb : B fs js w)
    (h : OB js os w) (hq : Quiet w) (hno : (cycleStep sc w).1.overflow = false) :
    OB ((cycleStep sc w).2.foldl judgeStep js) ((cycleStep sc w).2.foldl orderStep os) (cycleStep sc w).1 := by
  have hsafeEnd := cycleStep_safe sc w hq.1
  have hwend := cycleStep_world sc w
  -- the world after the turn grant
  have hs0 : Safe { w with cycle := w.cycle + 1, users := grantAll w.users w.slots } := ⟨hq.1.1, hq.1.2⟩
  have hat0 : ∀ i u, At { w with cycle := w.cycle + 1, users := grantAll w.users w.slots } i u → At w i u := fun _ _ hh => hh
  have htab0 : TableOK { w with cycle := w.cycle + 1, users := grantAll w.users w.slots } :=
    TableOK_mono w _ hat0 (Nat.le_refl _) h.tab
  -- the order oracle after `begin`
  have hnoid1 : ∀ v, v ∉ (orderStep os (.begin (w.cycle + 1))).ids →
      ((orderStep os (.begin (w.cycle + 1))).us.get v).waiting = false := by
    intro v hv
    have hv' : v ∉ os.ids := hv
    rw [obegin_get]; simp only [hv', if_false]; exact h.noid v hv'
  have hord1 : OrdO (orderStep os (.begin (w.cycle + 1))) { w with cycle := w.cycle + 1, users := grantAll w.users w.slots } :=
    OrdO_mono' os _ w _ hat0 rfl rfl (fun v u hw hp => (Wo_begin os _ v h.noid hw).2.2 u hp) h.ord
  have hpacc1 : ∀ v u, u ∈ ((orderStep os (.begin (w.cycle + 1))).us.get v).passed → u ≤ w.naccepted := by
    intro v u hu
    rw [obegin_get] at hu
    split at hu
    · exact h.pacc v u (obeginU_passed_sub _ u hu)
    · exact h.pacc v u hu
  have hidacc1 : ∀ v, v ∈ (orderStep os (.begin (w.cycle + 1))).ids → v ≤ w.naccepted := fun v hv => h.idacc v hv
  obtain ⟨q1, q2, q3, q4, q5, q6, q7⟩ := processIO_OB (orderStep os (.begin (w.cycle + 1)))
    { w with cycle := w.cycle + 1, users := grantAll w.users w.slots } hs0 htab0 hord1 hnoid1 hpacc1 hidacc1
  -- the liveness oracle after `begin`, `poll`
  have hj1 : ∀ x, (judgeStep js (.begin (w.cycle + 1))).us.get x =
      if x ∈ js.ids then beginU (js.us.get x) else js.us.get x := begin_get js _
  obtain ⟨pu, pi⟩ := poll_us (judgeStep js (.begin (w.cycle + 1))) (w.cycle + 1) (pollBlocks (hasPending w))
  have hfresh1 : ∀ x, ((judgeStep (judgeStep js (.begin (w.cycle + 1))) (.poll (w.cycle + 1) (pollBlocks (hasPending w)))).us.get x).fresh = [] := by
    intro x; rw [pu, hj1 x]; split
    · rfl
    · rename_i hx; exact hb.fr x hx
  have hl1 : LiveOK (judgeStep (judgeStep js (.begin (w.cycle + 1))) (.poll (w.cycle + 1) (pollBlocks (hasPending w))))
      { w with cycle := w.cycle + 1, users := grantAll w.users w.slots } := by
    intro x hx
    rw [pu, hj1 x] at hx
    have : live (js.us.get x) = true := by
      split at hx
      · exact hx
      · exact hx
    exact hb.live x this
  have hl2 := LiveOK_processIO _ _ hl1 (hb.neweof _ (Nat.lt_succ_self _))
  obtain ⟨hf2, hi2⟩ := io_fresh_ids { w with cycle := w.cycle + 1, users := grantAll w.users w.slots } _ hfresh1
    (fun u h1 h2 => by rw [pi]; exact hb.acc u h1 h2)
  -- coupling after `begin`, `poll`, logon
  have hcplA : CplO
      ((processIO { w with cycle := w.cycle + 1, users := grantAll w.users w.slots }).2.foldl judgeStep
        (judgeStep (judgeStep js (.begin (w.cycle + 1))) (.poll (w.cycle + 1) (pollBlocks (hasPending w)))))
      ((processIO { w with cycle := w.cycle + 1, users := grantAll w.users w.slots }).2.foldl orderStep
        (orderStep os (.begin (w.cycle + 1)))) := by
    have := cplO_fold_nocmd ([Ev.begin (w.cycle + 1), Ev.poll (w.cycle + 1) (pollBlocks (hasPending w))] ++
      (processIO { w with cycle := w.cycle + 1, users := grantAll w.users w.slots }).2) (by
        intro u t hm
        rcases List.mem_append.mp hm with hm | hm
        · simp at hm
        · exact io_events_nocmd _ u t hm) js os h.cpl
    rw [List.foldl_append, List.foldl_append] at this
    exact this
  -- eligibility of the waiting users when the command phase starts
  have heligA : EligO ((processIO { w with cycle := w.cycle + 1, users := grantAll w.users w.slots }).2.foldl orderStep
      (orderStep os (.begin (w.cycle + 1)))) (cmdPhaseStart w) := by
    intro v hw
    obtain ⟨b1, b2, _⟩ := Wo_begin os _ v h.noid (q7 v hw)
    apply eligible_start fs js w hb.g hb.cpl hb.live hb.flag v
    · rw [← CplO_live h.cpl v]; exact b1
    · rw [← h.cpl.mode v, ← h.cpl.pend v]; exact b2
    · exact (cycleStep_ovf sc w hno).1
  have hOLA : OL
      ((processIO { w with cycle := w.cycle + 1, users := grantAll w.users w.slots }).2.foldl judgeStep
        (judgeStep (judgeStep js (.begin (w.cycle + 1))) (.poll (w.cycle + 1) (pollBlocks (hasPending w)))))
      ((processIO { w with cycle := w.cycle + 1, users := grantAll w.users w.slots }).2.foldl orderStep
        (orderStep os (.begin (w.cycle + 1)))) (cmdPhaseStart w) :=
    ⟨⟨hcplA, q1, q2, by rw [q6]; exact h.obad, q3, q4, q5⟩, hl2, heligA, processIO_safe _ hs0, hf2, hi2⟩
  have hOL3 := cmdLoop_OL sc (NV.Gen.C12.loopCalls (connectedUsers w) w.maxUsers) (cmdPhaseStart w) _ _ hOLA
  rw [← hwend] at hOL3
  -- fold the events of the iteration
  rw [cycle_events]
  simp only [List.foldl_append]
  have hb2 : ∀ s : OState, [Ev.begin (w.cycle + 1), Ev.poll (w.cycle + 1) (pollBlocks (hasPending w))].foldl orderStep s =
      orderStep s (.begin (w.cycle + 1)) := fun _ => rfl
  have hj2 : ∀ s : JState, [Ev.begin (w.cycle + 1), Ev.poll (w.cycle + 1) (pollBlocks (hasPending w))].foldl judgeStep s =
      judgeStep (judgeStep s (.begin (w.cycle + 1))) (.poll (w.cycle + 1) (pollBlocks (hasPending w))) := fun _ => rfl
  rw [hb2, hj2]
  generalize (cmdLoop sc (NV.Gen.C12.loopCalls (connectedUsers w) w.maxUsers) (cmdPhaseStart w)).2.foldl judgeStep
    ((processIO { w with cycle := w.cycle + 1, users := grantAll w.users w.slots }).2.foldl judgeStep
      (judgeStep (judgeStep js (.begin (w.cycle + 1))) (.poll (w.cycle + 1) (pollBlocks (hasPending w))))) = js3 at hOL3 ⊢
  generalize (cmdLoop sc (NV.Gen.C12.loopCalls (connectedUsers w) w.maxUsers) (cmdPhaseStart w)).2.foldl orderStep
    ((processIO { w with cycle := w.cycle + 1, users := grantAll w.users w.slots }).2.foldl orderStep
      (orderStep os (.begin (w.cycle + 1)))) = os3 at hOL3 ⊢
  rw [hsafeEnd.1]
  simp only [Bool.false_eq_true, if_false]
  split
  · -- aborted: the oracles do not move
    simp only [List.foldl_cons, List.foldl_nil]
    have hc := cplO_step js3 os3 (.abort (w.cycle + 1)) hOL3.ob.cpl (fun u t hh => by cases hh)
    exact ⟨hc, hOL3.ob.ord, hOL3.ob.tab, hOL3.ob.obad, hOL3.ob.noid, hOL3.ob.pacc, hOL3.ob.idacc⟩
  · -- completed: nobody waits any more
    simp only [List.foldl_cons, List.foldl_nil]
    have hc := cplO_step js3 os3 (.endc (w.cycle + 1) (cycleStep sc w).1.maxUsers (layout (cycleStep sc w).1))
      hOL3.ob.cpl (fun u t hh => by cases hh)
    have hnow : ∀ v, ((orderStep os3 (.endc (w.cycle + 1) (cycleStep sc w).1.maxUsers (layout (cycleStep sc w).1))).us.get v).waiting = false := by
      intro v
      rw [oendc_get]
      split
      · rfl
      · rename_i hv; exact hOL3.ob.noid v hv
    refine ⟨hc, ?_, hOL3.ob.tab, hOL3.ob.obad, fun v _ => hnow v, ?_, hOL3.ob.idacc⟩
    · intro i j v u _ _ hw _
      have := hnow v
      rw [hw.1] at this; cases this
    · intro v u hu
      rw [oendc_get] at hu
      split at hu
      · cases hu
      · exact hOL3.ob.pacc v u hu

/-! ### histories -/

theorem OB_clear (js : JState) (os : OState) (w : World) (h : OB js os w) : OB js os { w with thrown := false } :=
  ⟨h.cpl, h.ord, ⟨h.tab.uniq, h.tab.acc⟩, h.obad, h.noid, h.pacc, h.idacc⟩

def pstep3 (p : (FState × JState) × OState) (e : Ev) : (FState × JState) × OState := (pstep p.1 e, orderStep p.2 e)

theorem foldl_pstep3 (l : List Ev) (p : (FState × JState) × OState) :
    l.foldl pstep3 p = ((l.foldl fifoStep p.1.1, l.foldl judgeStep p.1.2), l.foldl orderStep p.2) := by
  induction l generalizing p with
  | nil => rfl
  | cons e r ih => rw [List.foldl_cons, ih]; rfl

theorem OB_cycleRun (sc : Scripts) (fs : FState) (js : JState) (os : OState) (w : World) (hb : B fs js w)
    (h : OB js os w) (hq : Quiet w) (hno : (cycleRun sc (weight w + 1) w).1.overflow = false) :
    OB ((cycleRun sc (weight w + 1) w).2.foldl judgeStep js) ((cycleRun sc (weight w + 1) w).2.foldl orderStep os)
      (cycleRun sc (weight w + 1) w).1 := by
  have := (cycleRun_fold sc pstep3 (fun p w => w.overflow = false → B p.1.1 p.1.2 w ∧ OB p.1.2 p.2 w)
    (fun p w hh hq' hn => by
      have hh' := hh (cycleStep_ovf sc w hn).2
      rw [foldl_pstep3]
      exact ⟨B_cycle sc p.1.1 p.1.2 w hh'.1 hq' hn, OB_cycle sc p.1.1 p.1.2 p.2 w hh'.1 hh'.2 hq' hn⟩)
    (fun p w hh hn => ⟨B_clear _ _ w (hh hn).1, OB_clear _ _ w (hh hn).2⟩) (weight w + 1) w ((fs, js), os)
    (fun _ => ⟨hb, h⟩) hq (by omega)).1 hno
  rw [foldl_pstep3] at this
  exact this.2

theorem OB_step (sc : Scripts) (fs : FState) (js : JState) (os : OState) (w : World) (c : Cmd) (hb : B fs js w)
    (h : OB js os w) (hq : Quiet w) (hno : (step sc w c).1.overflow = false) :
    OB ((step sc w c).2.foldl judgeStep js) ((step sc w c).2.foldl orderStep os) (step sc w c).1 := by
  cases c with
  | cycle =>
    have : step sc w .cycle = cycleRun sc (weight w + 1) w := by simp [step, hq.1.1]
    rw [this] at hno ⊢; exact OB_cycleRun sc fs js os w hb h hq hno
  | conn =>
    have hst : step sc w .conn = ({ w with nconn := w.nconn + 1 }, [Ev.conn (w.nconn + 1)]) := by simp [step, hq.1.1]
    rw [hst]
    exact ⟨h.cpl, h.ord, ⟨h.tab.uniq, h.tab.acc⟩, h.obad, h.noid, h.pacc, h.idacc⟩
  | send u d =>
    simp only [step, hq.1.1, Bool.false_eq_true, if_false]
    split
    · simp only [List.foldl_cons, List.foldl_nil]
      have hc := cplO_step js os (.send u d) h.cpl (fun _ _ hh => by cases hh)
      have hrec : ∀ v, ((orderStep os (.send u d)).us.get v).waiting = (os.us.get v).waiting ∧
          ((orderStep os (.send u d)).us.get v).passed = (os.us.get v).passed ∧
          oLive ((orderStep os (.send u d)).us.get v) = oLive (os.us.get v) := by
        intro v
        simp only [orderStep, get_upd]
        split
        · rename_i hv; subst hv; exact ⟨rfl, rfl, rfl⟩
        · exact ⟨rfl, rfl, rfl⟩
      refine ⟨hc, ?_, ⟨h.tab.uniq, h.tab.acc⟩, h.obad, ?_, ?_, h.idacc⟩
      · apply OrdO_mono' os _ w _ (fun _ _ hh => hh) rfl rfl ?_ h.ord
        intro v x hw hp
        obtain ⟨r1, r2, r3⟩ := hrec v
        exact ⟨⟨by rw [← r1]; exact hw.1, by rw [← r3]; exact hw.2⟩, by unfold Pdo at hp ⊢; rw [← r2]; exact hp⟩
      · intro v hv; rw [(hrec v).1]; exact h.noid v hv
      · intro v x hx; rw [(hrec v).2.1] at hx; exact h.pacc v x hx
    · exact h
  | close u =>
    simp only [step, hq.1.1, Bool.false_eq_true, if_false]
    split
    · dsimp only
      have hrec : ∀ v, (((if w.interactive u = true then [Ev.close u] else []).foldl orderStep os).us.get v).waiting = (os.us.get v).waiting ∧
          (((if w.interactive u = true then [Ev.close u] else []).foldl orderStep os).us.get v).passed = (os.us.get v).passed ∧
          (oLive (((if w.interactive u = true then [Ev.close u] else []).foldl orderStep os).us.get v) = true → oLive (os.us.get v) = true) := by
        intro v
        split
        · simp only [List.foldl_cons, List.foldl_nil, orderStep, get_upd]
          split
          · rename_i hv; subst hv; exact ⟨rfl, rfl, by simp [oLive]⟩
          · exact ⟨rfl, rfl, id⟩
        · exact ⟨rfl, rfl, id⟩
      have hmeta : ((if w.interactive u = true then [Ev.close u] else []).foldl orderStep os).ids = os.ids ∧
          ((if w.interactive u = true then [Ev.close u] else []).foldl orderStep os).bad = os.bad := by
        split <;> exact ⟨rfl, rfl⟩
      have hc : CplO ((if w.interactive u = true then [Ev.close u] else []).foldl judgeStep js)
          ((if w.interactive u = true then [Ev.close u] else []).foldl orderStep os) := by
        apply cplO_fold_nocmd _ ?_ js os h.cpl
        intro x t hm
        split at hm <;> simp at hm
      refine ⟨hc, ?_, ⟨h.tab.uniq, h.tab.acc⟩, by rw [hmeta.2]; exact h.obad, ?_, ?_, by rw [hmeta.1]; exact h.idacc⟩
      · apply OrdO_mono' os _ w _ (fun _ _ hh => hh) rfl rfl ?_ h.ord
        intro v x hw hp
        obtain ⟨r1, r2, r3⟩ := hrec v
        exact ⟨⟨by rw [← r1]; exact hw.1, r3 hw.2⟩, by unfold Pdo at hp ⊢; rw [← r2]; exact hp⟩
      · intro v hv; rw [hmeta.1] at hv; rw [(hrec v).1]; exact h.noid v hv
      · intro v x hx; rw [(hrec v).2.1] at hx; exact h.pacc v x hx
    · exact h

theorem OB_init : OB {} {} {} :=
  ⟨⟨fun _ => rfl, fun _ => rfl, fun _ => rfl, fun _ => rfl, rfl⟩,
   (fun i j v u hi _ _ _ => by unfold At at hi; simp at hi),
   ⟨(fun i j u hi _ => by unfold At at hi; simp at hi), (fun i u hi => by unfold At at hi; simp at hi)⟩,
   rfl, (fun _ _ => rfl), (fun v u hu => by cases hu), (fun v hv => by cases hv)⟩

theorem OB_run (sc : Scripts) (cs : List Cmd) (fs : FState) (js : JState) (os : OState) (w : World) (hb : B fs js w)
    (h : OB js os w) (hq : Quiet w) (hp : plainCmds cs = true) (hno : (run sc w cs).1.overflow = false) :
    OB ((run sc w cs).2.foldl judgeStep js) ((run sc w cs).2.foldl orderStep os) (run sc w cs).1 := by
  induction cs generalizing fs js os w with
  | nil => exact h
  | cons c r ih =>
    simp only [plainCmds, List.all_cons, Bool.and_eq_true] at hp
    have hno1 := run_ovf_head sc c r w hno
    simp only [run, List.foldl_append] at hno ⊢
    exact ih _ _ _ _ (B_step sc fs js w c hb hq hp.1 hno1) (OB_step sc fs js os w c hb h hq hno1) (cursor_in_bounds sc w c hq)
      (by simpa [plainCmds] using hp.2) hno

/-- **trace theorem 5** (clause `overtaken`): for every history with plain bytes and every script oracle - in particular
    through iterations that an uncaught error aborts and the restarts that follow, with the connection table growing in
    between - nobody is served a second time while another user, who had a complete command at the top of an iteration,
    still waits for his first service: the cursor was stepped past every user it served, so the restarted walk reaches
    every waiting user before it comes back to a served one (`rank`, `guc_ord`). -/
theorem judgeOrder_events (sc : Scripts) (cs : List Cmd) (hp : plainCmds cs = true)
    (hno : (run sc {} cs).1.overflow = false) : judgeOrder (events sc cs) = [] := by
  unfold judgeOrder events
  rw [(OB_run sc cs {} {} {} {} B_init OB_init quiet_init hp hno).obad]
  rfl

/-- **TOP THEOREM**: for every history of connects, sends of plain bytes, closes and backend iterations, and EVERY
    script oracle (kicks, drops, get_char / input_to, nested command() calls, uncaught errors), the specification oracle -
    all five clause oracles: twice / outside / crash / malformed, efun, fifo, starved / idleWait, overtaken - accepts
    the event trace of the model. -/
theorem model_satisfies_spec (sc : Scripts) (cs : List Cmd) (hp : plainCmds cs = true)
    (hno : (run sc {} cs).1.overflow = false) : judgeEv (events sc cs) = [] := by
  rw [judgeEv_events_eq_order sc cs hp hno]
  exact judgeOrder_events sc cs hp hno

end NV.C12
