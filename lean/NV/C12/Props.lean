/-
C12 — property theorems over the model (NV/C12/Model.lean).  Helper lemmas: NV/C12/Lemmas.lean.
Each theorem says in its doc comment which clause of the specification oracle (NV/C12/Spec.lean) it carries.
Statements that could not be closed in this round are kept as `def ... : Prop` at the end (no `sorry`).
-/
import NV.C12.Model
import NV.C12.Spec
import NV.C12.Lemmas

namespace NV.C12

open NV.Gen.C12

/-- The three iflags the scheduler uses are distinct single bits (regenerated from src/comm.h), so the three
    booleans of the model are an exact representation and `U.iflags` (printed by harness and model) is injective. -/
theorem flag_bits :
    hasCmdTurn &&& cmdInBuf = 0 ∧ hasCmdTurn &&& singleChar = 0 ∧ cmdInBuf &&& singleChar = 0 ∧
    hasCmdTurn ≠ 0 ∧ cmdInBuf ≠ 0 ∧ singleChar ≠ 0 ∧
    hasCmdTurn &&& (hasCmdTurn - 1) = 0 ∧ cmdInBuf &&& (cmdInBuf - 1) = 0 ∧ singleChar &&& (singleChar - 1) = 0 := by
  decide

/-! ### memory safety of the rotating cursor -/

theorem processIO_safe (w : World) (hs : Safe w) : Safe (processIO w).1 := by
  -- accept only makes the table longer; reads and EOFs keep its size; nobody touches cursor or crash flag
  have key : ∀ (l : List Nat) (a : World), Safe a → Safe (l.foldl userIO a) := by
    intro l
    induction l with
    | nil => intro a h; exact h
    | cons u r ih =>
      intro a h
      apply ih
      unfold userIO
      dsimp only
      split
      · exact ⟨h.1, h.2⟩
      · split
        · exact ⟨h.1, by simpa using h.2⟩
        · exact h
  unfold processIO
  dsimp only
  apply key
  split
  · refine ⟨hs.1, ?_⟩
    simp only [accept]
    have hlen : w.slots.length ≤ (if newSlot w.slots ≥ w.slots.length then w.slots ++ List.replicate growBy none else w.slots).length := by
      split <;> simp
    have hgrow : w.slots.length = 0 → 0 < (if newSlot w.slots ≥ w.slots.length then w.slots ++ List.replicate growBy none else w.slots).length := by
      intro h0
      have : newSlot w.slots ≥ w.slots.length := by omega
      simp [this, growBy]
    rcases hs.2 with h | h
    · left; simp only [List.length_set]; omega
    · left; simp only [List.length_set]; have := hgrow h.1; omega
  · exact hs

theorem cycleStep_safe (sc : Scripts) (w : World) (hs : Safe w) : Safe (cycleStep sc w).1 := by
  unfold cycleStep
  dsimp only
  have h1 : Safe { w with cycle := w.cycle + 1, users := grantAll w.users w.slots } := ⟨hs.1, hs.2⟩
  have h2 := processIO_safe _ h1
  exact (cmdLoop_spec sc _ _ h2).1

/-- **cursor_in_bounds** (memory safety of `all_users[s_next_user]`): the invariant "the cursor indexes inside the
    table, or the table does not exist yet" is kept by every harness action, for every script oracle: by the grant
    step, by accepts that grow the table, by users vanishing between and inside cycles, by every scan.  In particular the
    crash outcome of the model (index outside the table) is unreachable.  (`max_users` never shrinks in the code.) -/
theorem cursor_in_bounds (sc : Scripts) (w : World) (c : Cmd) (hs : Safe w) : Safe (step sc w c).1 := by
  cases c with
  | cycle =>
    have : step sc w .cycle = cycleStep sc w := by simp [step, hs.1]
    rw [this]; exact cycleStep_safe sc w hs
  | conn =>
    have : (step sc w .conn).1 = { w with nconn := w.nconn + 1 } := by simp [step, hs.1]
    rw [this]; exact ⟨hs.1, hs.2⟩
  | send u d =>
    simp only [step, hs.1, Bool.false_eq_true, if_false]
    split
    · exact ⟨rfl, hs.2⟩
    · exact hs
  | close u =>
    simp only [step, hs.1, Bool.false_eq_true, if_false]
    split
    · exact ⟨rfl, hs.2⟩
    · exact hs

/-- from the initial state no history of connects, sends, closes and cycles, with any scripts, ever reaches the
    out-of-range access (`crash` clause of the oracle) -/
theorem run_never_crashes (sc : Scripts) (cs : List Cmd) : (run sc {} cs).1.crashed = false := by
  have key : ∀ (cs : List Cmd) (w : World), Safe w → Safe (run sc w cs).1 := by
    intro cs
    induction cs with
    | nil => intro w h; exact h
    | cons c r ih => intro w h; exact ih _ (cursor_in_bounds sc w c h)
  exact (key cs {} ⟨rfl, Or.inr ⟨rfl, rfl⟩⟩).1

example : Safe (run (fun _ _ => []) {} [.conn, .cycle, .send 1 "a~b~".toList, .cycle]).1 :=
  ⟨run_never_crashes _ _, by decide⟩

/-! ### one buffered command per user per cycle -/

/-- **at_most_one_per_user_per_cycle** (clause `twice`): among the events of one backend cycle there is at most one
    buffered command of any user - for every table layout, cursor position, queue depth, script oracle (users
    vanishing, mode switches, command() calls inside the cycle) and loop bound. -/
theorem at_most_one_per_user_per_cycle (sc : Scripts) (w : World) (hs : Safe w) (u : Nat) :
    cmdCount u (cycleStep sc w).2 ≤ 1 := by
  unfold cycleStep
  dsimp only
  have h1 : Safe { w with cycle := w.cycle + 1, users := grantAll w.users w.slots } := ⟨hs.1, hs.2⟩
  have h2 := processIO_safe _ h1
  have h3 := (cmdLoop_spec sc (connectedUsers w + 1) _ h2).2.2.1 u
  have hio : cmdCount u (processIO { w with cycle := w.cycle + 1, users := grantAll w.users w.slots }).2 = 0 := by
    unfold processIO; dsimp only; split <;> simp [cmdCount, Ev.isCmdOf]
  simp only [cmdCount_append, hio]
  have htail : cmdCount u (if (cmdLoop sc (connectedUsers w + 1)
      (processIO { w with cycle := w.cycle + 1, users := grantAll w.users w.slots }).1).1.crashed = true
      then [Ev.crash "all_users[s_next_user] out of range"]
      else [Ev.endc (w.cycle + 1) (cmdLoop sc (connectedUsers w + 1)
        (processIO { w with cycle := w.cycle + 1, users := grantAll w.users w.slots }).1).1.maxUsers
        (layout (cmdLoop sc (connectedUsers w + 1)
        (processIO { w with cycle := w.cycle + 1, users := grantAll w.users w.slots }).1).1)]) = 0 := by
    split <;> simp [cmdCount, Ev.isCmdOf]
  have hhead : cmdCount u [Ev.begin (w.cycle + 1), Ev.poll (w.cycle + 1) (!hasPending w)] = 0 := by
    simp [cmdCount, Ev.isCmdOf]
  rw [hhead, htail]
  have : (if turnOf (processIO { w with cycle := w.cycle + 1, users := grantAll w.users w.slots }).1 u = true then 1 else 0) ≤ 1 := by
    split <;> omega
  omega

/-- the same for a user holding no turn: it is not served at all (turns are the only way to be served) -/
theorem no_turn_no_service (sc : Scripts) (k : Nat) (w : World) (hs : Safe w) (u : Nat) (h : turnOf w u = false) :
    cmdCount u (cmdLoop sc k w).2 = 0 := by
  have := (cmdLoop_spec sc k w hs).2.2.1 u
  simp [h] at this
  exact this

example : cmdCount 1 (cycleStep (fun _ _ => []) (run (fun _ _ => []) {} [.conn, .cycle, .send 1 "a~b~c~".toList]).1).2 = 1 := by
  decide

/-! ### the command() efun is not turn-limited -/

/-- **command_efun_unlimited** (clause `efun`): a `command()` call on a live object is executed at once - the event
    `ecmd` follows the request immediately - whatever the turn flags, the cycle or the number of earlier calls are;
    the model of the efun path never reads a turn flag. -/
theorem command_efun_unlimited (sc : Scripts) (f : Nat) (w : World) (me t : Nat) (text : List Char) (rest : List Op)
    (halive : w.alive t = true) :
    ∃ tail, (runOps sc (f + 1) w me (Op.ecmd t text :: rest)).2 = Ev.force me t text true :: Ev.ecmd t text :: tail := by
  unfold runOps
  simp only [halive, if_true]
  split
  · exact ⟨_, rfl⟩
  · exact ⟨_, rfl⟩

/-- **command_efun_needs_no_turn**: whatever a script does (any number of nested `command()` calls, kicks, drops,
    get_char / input_to), it neither consumes nor grants any turn and produces no buffered-command event; so
    `command()` traffic cannot eat into, or add to, anybody's one-per-cycle budget. -/
theorem command_efun_needs_no_turn (sc : Scripts) (f : Nat) (w : World) (me : Nat) (ops : List Op) :
    (∀ x, turnOf (runOps sc f w me ops).1 x = turnOf w x) ∧ ∀ u, cmdCount u (runOps sc f w me ops).2 = 0 := by
  obtain ⟨h1, h2⟩ := runOps_frame sc f w me ops
  exact ⟨h1.2.2.2, fun u => cmdCount_zero_of_none u _ (h2 u)⟩

example : (runOps (fun _ _ => []) 10 { naccepted := 2 } 1 [.ecmd 2 "x".toList, .ecmd 2 "y".toList, .ecmd 2 "z".toList]).2 =
    [.force 1 2 "x".toList true, .ecmd 2 "x".toList, .force 1 2 "y".toList true, .ecmd 2 "y".toList,
     .force 1 2 "z".toList true, .ecmd 2 "z".toList] := by decide

/-! ### per-user FIFO -/

/-- **per_user_fifo** (clause `fifo`), queue discipline of `interactive_t.text`: the command handed out is the FIRST
    complete command of the buffer (everything before it is NUL padding), and what stays buffered is exactly what
    followed it; arrivals only append (`userIO`).  Hence commands of one user leave in the order they arrived. -/
theorem per_user_fifo (single : Bool) (b b' t : List Char) (h : firstCmd single b = (b', some t)) :
    b' = dropNul b ∧ t = (dropNul b).takeWhile (· != NUL) ∧
      ∃ pad, (∀ c ∈ pad, c = NUL) ∧ b = pad ++ t ++ (dropNul b).dropWhile (· != NUL) ∧
        nextCmd b' = dropNul ((dropNul b).dropWhile (· != NUL)) := by
  unfold firstCmd at h
  dsimp only at h
  have hsplit : b = b.takeWhile (· == NUL) ++ dropNul b := by simp [dropNul]
  have hpad : ∀ c ∈ b.takeWhile (· == NUL), c = NUL := by
    intro c hc
    have hall := List.all_takeWhile (l := b) (p := (· == NUL))
    have := List.all_eq_true.mp hall c hc
    simpa using this
  split at h
  · cases h
  · split at h
    · cases h
      refine ⟨rfl, rfl, _, hpad, ?_, rfl⟩
      rw [List.append_assoc, List.takeWhile_append_dropWhile]; exact hsplit
    · split at h
      · cases h
        refine ⟨rfl, rfl, _, hpad, ?_, rfl⟩
        rw [List.append_assoc, List.takeWhile_append_dropWhile]; exact hsplit
      · cases h

/-- arrivals are appended behind everything already buffered -/
theorem arrivals_append (w : World) (u : Nat) (h : (w.net.get u).rx.isEmpty = false) :
    ((userIO w u).users.get u).buf = (w.users.get u).buf ++ copyChars (w.users.get u).single (w.net.get u).rx := by
  simp [userIO, h]

example : firstCmd false ("ab".toList ++ [NUL] ++ "cd".toList ++ [NUL]) =
    ("ab".toList ++ [NUL] ++ "cd".toList ++ [NUL], some "ab".toList) := by decide

/-! ### statements not closed in this round (checked on every run by correspondence + oracle only) -/

/-- user `u` sits in the table, holds a turn and its buffer holds a complete command -/
def eligible (w : World) (u : Nat) : Prop :=
  w.interactive u = true ∧ turnOf w u = true ∧ (w.users.get u).cmdInBuf = true ∧
    hasCmd (w.users.get u).single (w.users.get u).buf = true

/-- **scan_finds_every_eligible**: one call of get_user_command visits every slot exactly once (cursor walk
    `c, c-1, .., 0, max-1, .., c+1`), so it returns nothing only when nobody is eligible. -/
def scan_finds_every_eligible_Stmt : Prop :=
  ∀ w : World, Safe w → (getUserCommand w).2 = none → ∀ u, ¬ eligible (getUserCommand w).1 u

/-- **loop_bound_sufficient**: at most `connected_users` turns exist when the command loop starts (users accepted in
    this cycle hold none) and every successful call consumes one, so the `connected_users + 1` calls allowed by
    `i < connected_users` are never exhausted while an eligible user remains. -/
def loop_bound_sufficient_Stmt : Prop :=
  ∀ (sc : Scripts) (w : World), Safe w → ∀ u, ¬ eligible (cycleStep sc w).1 u

/-- **no_starvation** (clause `starved`): a user eligible when the command phase starts is served in this cycle
    unless it leaves the table (kick / drop) during it. -/
def no_starvation_Stmt : Prop :=
  ∀ (sc : Scripts) (k : Nat) (w : World), Safe w → (w.slots.filter Option.isSome).length < k → ∀ u, eligible w u →
    cmdCount u (cmdLoop sc k w).2 = 1 ∨ (cmdLoop sc k w).1.interactive u = false

end NV.C12
